(* Tsne_Proof_Perp.v — proofs about the perplexity search of Tsne_Model.v (both
   computeGaussianPerplexity overloads share the loop):
   * whatever the search returns is the row evaluated at SOME beta (`perp_row_is_evaluate`),
     the loop always leaves a row behind (200 > 0 iterations: `perp_search_some`);
   * when it leaves with found = true the entropy H of that row is within tol of
     log(perplexity) (`perplexity_exit_thm`) — for EVERY exp/log oracle;
   * the stored row is the kernel row divided by sum_P = DBL_MIN + sum, so it sums to
     1 - DBL_MIN/sum_P (`normalised_sum`);
   * H is the Shannon entropy of the stored row: for oracles with log(exp x) = x and
     log(a/b) = log a - log b, and DBL_MIN counted as 0,
       H = - sum_m p_m log p_m      (`H_is_shannon_entropy`)
     so "H within tol of log(perplexity)" is "perplexity of the row = sne_perplexity";
   * the bracket is maintained: min_beta <= beta <= max_beta (`bracket_inv`), the
     entropy-monotonicity argument that makes the bisection converge within 200 steps is
     analysis and is NOT proved (convergence is measured by the harness). *)
From Coq Require Import List Arith Bool ZArith QArith Lqa Lia.
From TK Require Import Tsne_Model Tsne_Spec.
Import ListNotations.
Local Open Scope Q_scope.

Lemma Qltb_true : forall a b, Qltb a b = true <-> a < b.
Proof.
  intros a b. unfold Qltb. rewrite negb_true_iff. split.
  - intros H. apply Qnot_le_lt. intros Hle. apply Qle_bool_iff in Hle. congruence.
  - intros H. destruct (Qle_bool b a) eqn:E; [|reflexivity].
    apply Qle_bool_iff in E. exfalso. apply (Qlt_not_le _ _ H E).
Qed.

Lemma Qltb_false : forall a b, Qltb a b = false <-> b <= a.
Proof. intros a b. unfold Qltb. rewrite negb_false_iff. apply Qle_bool_iff. Qed.

(* kernel conversion hint: compare `perp_search ...` with `perp_loop 200 ...` by unfolding
   perp_search first (the other order unfolds the 200-step fixpoint on both sides) *)
Strategy expand [perp_search].

Section Perp.
  Variable expf logf : Q -> Q.
  Variable dbl_min tol : Q.

  Notation evaluate := (evaluate expf logf dbl_min).
  Notation good := (good tol).
  Notation perp_loop := (perp_loop expf logf dbl_min tol).
  Notation perp_search := (perp_search expf logf dbl_min tol).

  (* ---------- exit condition ---------- *)
  Lemma good_spec : forall lp ev, good lp ev = true <-> Qabs_lt (e_H ev - lp) tol.
  Proof.
    intros lp ev. unfold Tsne_Model.good, Qabs_lt. cbv zeta.
    rewrite andb_true_iff, !Qltb_true. reflexivity.
  Qed.

  Lemma perp_loop_found : forall fuel self dd perp st last ev,
    perp_loop fuel self dd perp st last = (true, Some ev) ->
    (exists beta, ev = evaluate self dd beta) /\ entropy_within logf tol perp ev.
  Proof.
    induction fuel as [|f IH]; intros self dd perp st last ev H; cbn [Tsne_Model.perp_loop] in H.
    - discriminate.
    - cbv zeta in H. destruct (good (logf perp) (evaluate self dd (fst (fst st)))) eqn:G.
      + inversion H; subst. split; [now eexists|]. unfold entropy_within. now apply good_spec.
      + eapply IH. exact H.
  Qed.

  Theorem perplexity_exit_thm : forall self dd perp ev,
    perp_search self dd perp = (true, Some ev) ->
    (exists beta, ev = evaluate self dd beta) /\ entropy_within logf tol perp ev.
  Proof.
    intros self dd perp ev H. unfold Tsne_Model.perp_search in H.
    exact (perp_loop_found 200 self dd perp (1, None, None) None ev H).
  Qed.

  (* the row in memory after the loop is always a row evaluated at some beta *)
  Lemma perp_loop_row : forall fuel self dd perp st last b o,
    perp_loop fuel self dd perp st last = (b, o) ->
    (forall ev, last = Some ev -> exists beta, ev = evaluate self dd beta) ->
    forall ev, o = Some ev -> exists beta, ev = evaluate self dd beta.
  Proof.
    induction fuel as [|f IH]; intros self dd perp st last b o H Hl ev Ho; cbn [Tsne_Model.perp_loop] in H.
    - inversion H; subst. now apply Hl.
    - cbv zeta in H. destruct (good (logf perp) (evaluate self dd (fst (fst st)))) eqn:G.
      + inversion H; subst. inversion H2; subst. now eexists.
      + eapply IH; [exact H | | exact Ho]. intros ev' E. inversion E; subst. now eexists.
  Qed.

  Lemma perp_loop_some : forall fuel self dd perp st last,
    (fuel <> 0)%nat \/ last <> None ->
    snd (perp_loop fuel self dd perp st last) <> None.
  Proof.
    induction fuel as [|f IH]; intros self dd perp st last H; cbn [Tsne_Model.perp_loop].
    - destruct H as [H|H]; [congruence | exact H].
    - cbv zeta. destruct (good (logf perp) (evaluate self dd (fst (fst st)))); cbn [snd]; [discriminate|].
      apply IH. right. discriminate.
  Qed.

  Lemma perp_loop_result : forall fuel self dd perp st, fuel <> 0%nat ->
    exists b ev beta, perp_loop fuel self dd perp st None = (b, Some ev) /\ ev = evaluate self dd beta.
  Proof.
    intros fuel self dd perp st Hf.
    pose proof (perp_loop_some fuel self dd perp st None (or_introl Hf)) as Hs.
    destruct (perp_loop fuel self dd perp st None) as [b o] eqn:E. cbn [snd] in Hs.
    destruct o as [ev|]; [|congruence].
    destruct (perp_loop_row _ _ _ _ _ _ _ _ E ltac:(discriminate) ev eq_refl) as [beta Hb].
    now exists b, ev, beta.
  Qed.

  Theorem perp_search_some : forall self dd perp,
    exists b ev beta, perp_search self dd perp = (b, Some ev) /\ ev = evaluate self dd beta.
  Proof.
    intros self dd perp.
    exact (perp_loop_result 200 self dd perp (1, None, None) ltac:(discriminate)).
  Qed.

  (* ---------- the bracket ---------- *)
  Definition bracket (st : bstate) : Prop :=
    let '(beta, minb, maxb) := st in
    0 < beta /\
    (match minb with Some a => a <= beta | None => True end) /\
    (match maxb with Some b => beta <= b | None => True end) /\
    (match minb, maxb with Some a, Some b => a <= b | _, _ => True end) /\
    (match minb with Some a => 0 < a | None => True end) /\
    (match maxb with Some b => 0 < b | None => True end).

  Lemma bracket_init : bracket (1, None, None).
  Proof. cbn. repeat split; reflexivity. Qed.

  Theorem bracket_inv : forall lp ev st,
    bracket st -> e_beta ev = fst (fst st) -> bracket (next lp ev st).
  Proof.
    intros lp ev [[beta minb] maxb] (Hpos & Hlo & Hhi & Hmm & Hp1 & Hp2) _.
    unfold next. destruct (Qltb 0 (e_H ev - lp)).
    - destruct maxb as [mb|]; destruct minb as [ma|]; cbv beta iota in *; cbn [bracket];
        (split; [|split; [|split; [|split; [|split]]]]); try exact I;
        first [ lra | apply Qlt_shift_div_l; lra | apply Qle_shift_div_l; lra
              | apply Qle_shift_div_r; lra | apply Qlt_shift_div_r; lra ].
    - destruct maxb as [mb|]; destruct minb as [ma|]; cbv beta iota in *; cbn [bracket];
        (split; [|split; [|split; [|split; [|split]]]]); try exact I;
        first [ lra | apply Qlt_shift_div_l; lra | apply Qle_shift_div_l; lra
              | apply Qle_shift_div_r; lra | apply Qlt_shift_div_r; lra ].
  Qed.

  (* once both ends are known the search is a bisection: beta is the midpoint and the width halves *)
  Theorem bisection_halves : forall lp ev beta a b,
    beta == (a + b) / 2 ->
    let '(beta', mi, ma) := next lp ev (beta, Some a, Some b) in
    exists a' b', mi = Some a' /\ ma = Some b' /\ b' - a' == (b - a) / 2 /\ beta' == (a' + b') / 2.
  Proof.
    intros lp ev beta a b Hb. unfold next. destruct (Qltb 0 (e_H ev - lp)).
    - exists beta, b. split; [reflexivity|]. split; [reflexivity|]. split; [rewrite Hb; field | reflexivity].
    - exists a, beta. split; [reflexivity|]. split; [reflexivity|]. split; [rewrite Hb; field|].
      field.
  Qed.

  (* ---------- sums ---------- *)
  Definition qsum (l : list Q) : Q := fold_right Qplus 0 l.

  Lemma fold_left_qsum : forall l a, fold_left Qplus l a == a + qsum l.
  Proof.
    induction l as [|x r IH]; intros a; cbn [fold_left qsum fold_right].
    - lra.
    - rewrite IH. cbn [qsum fold_right]. fold (qsum r). lra.
  Qed.

  Lemma qsum_map_div : forall l s, ~ s == 0 -> qsum (map (fun p => p / s) l) == qsum l / s.
  Proof.
    intros l s Hs. induction l as [|x r IH]; cbn [map qsum fold_right].
    - field. exact Hs.
    - fold (qsum (map (fun p => p / s) r)). fold (qsum r). rewrite IH. field. exact Hs.
  Qed.

  Lemma e_sum_evaluate : forall self dd beta,
    e_sum (evaluate self dd beta) == dbl_min + qsum (e_row (evaluate self dd beta)).
  Proof. intros. unfold Tsne_Model.evaluate. cbn [e_sum e_row]. apply fold_left_qsum. Qed.

  (* the stored row sums to 1 - DBL_MIN / sum_P *)
  Theorem normalised_sum : forall self dd beta,
    let ev := evaluate self dd beta in
    ~ e_sum ev == 0 ->
    qsum (normalised ev) == 1 - dbl_min / e_sum ev.
  Proof.
    intros self dd beta ev Hs. unfold normalised. rewrite qsum_map_div by exact Hs.
    pose proof (e_sum_evaluate self dd beta) as E. fold ev in E.
    setoid_replace (qsum (e_row ev)) with (e_sum ev - dbl_min) by lra.
    field. exact Hs.
  Qed.

  (* ---------- H is the Shannon entropy of the stored row (K-NN overload: no self slot) ----------
     The only fact about the oracles that is used: at the kernel values of THIS row,
       log (exp(-beta d_m) / S) = -beta d_m - log S
     (what log(a/b) = log a - log b and log(exp x) = x give at these points). *)

  Lemma kernel_from_none : forall dd i beta,
    kernel_from expf dbl_min i None beta dd = map (fun x => expf (- beta * x)) dd.
  Proof. induction dd as [|x r IH]; intros i beta; cbn [kernel_from map]; [reflexivity | now rewrite IH]. Qed.

  Lemma fold_left_H0 : forall beta dd (f : Q -> Q) a,
    fold_left (fun h xp => h + beta * (fst xp * snd xp)) (combine dd (map f dd)) a
    == a + qsum (map (fun x => beta * (x * f x)) dd).
  Proof.
    intros beta dd f. induction dd as [|x r IH]; intros a; cbn [map combine fold_left qsum fold_right].
    - lra.
    - rewrite IH. cbn [fst snd]. fold (qsum (map (fun x0 => beta * (x0 * f x0)) r)). lra.
  Qed.

  (* - sum_m (P_m / S) * log (P_m / S)  with  P_m = exp(-beta d_m) *)
  Definition shannon (beta S : Q) (dd : list Q) : Q :=
    - qsum (map (fun x => (expf (- beta * x) / S) * logf (expf (- beta * x) / S)) dd).

  Definition log_of_kernel (beta S : Q) (dd : list Q) : Prop :=
    forall x, In x dd -> logf (expf (- beta * x) / S) == - beta * x - logf S.

  Lemma shannon_expand : forall beta S dd, ~ S == 0 -> log_of_kernel beta S dd ->
    shannon beta S dd ==
    qsum (map (fun x => beta * (x * expf (- beta * x))) dd) / S
    + logf S * (qsum (map (fun x => expf (- beta * x)) dd) / S).
  Proof.
    intros beta S dd HS. unfold shannon, log_of_kernel. induction dd as [|x r IH]; intros HL; cbn [map qsum fold_right].
    - field. exact HS.
    - fold (qsum (map (fun x0 => expf (- beta * x0) / S * logf (expf (- beta * x0) / S)) r)).
      fold (qsum (map (fun x0 => beta * (x0 * expf (- beta * x0))) r)).
      fold (qsum (map (fun x0 => expf (- beta * x0)) r)).
      rewrite (HL x (or_introl eq_refl)).
      setoid_replace (- (expf (- beta * x) / S * (- beta * x - logf S) +
                         qsum (map (fun x0 => expf (- beta * x0) / S * logf (expf (- beta * x0) / S)) r)))
        with (- (expf (- beta * x) / S * (- beta * x - logf S)) +
              - qsum (map (fun x0 => expf (- beta * x0) / S * logf (expf (- beta * x0) / S)) r)) by ring.
      rewrite IH by (intros y Hy; apply HL; now right). field. exact HS.
  Qed.

  Theorem H_is_shannon_entropy : forall dd beta,
    dbl_min == 0 ->
    let ev := evaluate None dd beta in
    ~ e_sum ev == 0 ->
    log_of_kernel beta (e_sum ev) dd ->
    e_H ev == shannon beta (e_sum ev) dd.
  Proof.
    intros dd beta Hmin ev HS HL.
    pose proof (e_sum_evaluate None dd beta) as ES. fold ev in ES.
    rewrite shannon_expand by assumption.
    unfold ev in *. unfold Tsne_Model.evaluate in *. cbn [e_H e_sum e_row] in *.
    unfold kernel_row in *. rewrite kernel_from_none in *.
    set (S := fold_left Qplus (map (fun x => expf (- beta * x)) dd) dbl_min) in *.
    rewrite (fold_left_H0 beta dd (fun x => expf (- beta * x)) 0).
    setoid_replace (qsum (map (fun x => expf (- beta * x)) dd)) with S by lra.
    field. exact HS.
  Qed.
End Perp.

(* ---------- non-vacuity: a run of the search that exits with found = true ----------
   oracles: a (crude, rational) exp and log are not needed for non-vacuity of the exit
   theorem — any functions do; take exp = fun _ => 1, log = fun _ => 0: H = 0 + 0,
   log(perplexity) = 0, so the first evaluation is accepted. *)
Example perplexity_exit_nonvacuous :
  exists ev, perp_search (fun _ => 1) (fun _ => 0) 0 (1 # 100000) (Some 0%nat) [0; 0; 0] 2 = (true, Some ev).
Proof. eexists. vm_compute. reflexivity. Qed.


(* non-vacuity of H_is_shannon_entropy: two neighbours at distance 0, exp = 1, a log with
   log 2 = 1, log (1/2) = -1 *)
Definition ex_logf (x : Q) : Q := if Qeq_bool x 2 then 1 else if Qeq_bool x (1 # 2) then - (1) else 0.

Example H_is_shannon_entropy_nonvacuous :
  (0 == 0) /\ ~ e_sum (evaluate (fun _ => 1) ex_logf 0 None [0; 0] 1) == 0 /\
  log_of_kernel (fun _ => 1) ex_logf 1 (e_sum (evaluate (fun _ => 1) ex_logf 0 None [0; 0] 1)) [0; 0].
Proof.
  split; [reflexivity|]. split; [intros H; vm_compute in H; discriminate|].
  intros x Hx. destruct Hx as [<-|[<-|[]]]; vm_compute; reflexivity.
Qed.

Example normalised_sum_nonvacuous : ~ e_sum (evaluate (fun _ => 1) (fun _ => 0) 0 None [0; 0] 1) == 0.
Proof. intros H. vm_compute in H. discriminate. Qed.
