(* ====================================================================== *)
(*  Lap_Spec.v — what property C09 says about Laplacian Eigenmaps and      *)
(*  Diffusion Map (the mathematical objects; no reference to the code)     *)
(*                                                                         *)
(*  Laplacian Eigenmaps:  L = D - W, W holds the heat-kernel weights       *)
(*  exp(-d^2/width) on neighbour pairs made symmetric, D is its degree     *)
(*  matrix; Y generalised eigenvectors of L y = lambda D y belonging to    *)
(*  the target_dimension smallest non-zero eigenvalues, normalised so that *)
(*  Y^T D Y = I and Y^T D 1 = 0.                                           *)
(*    adjA heat k nbrs i j   heat i j for every occurrence of j among the  *)
(*                           first k entries of N(i)  (directed weights)   *)
(*    matW = A + A^T         made symmetric: the SUM of the two directions *)
(*                           (the doc comment in the source says max; the  *)
(*                           property only says symmetric — DESIGN sec. 7) *)
(*    degD = W 1             degree vector,   matL = diag(degD) - W        *)
(*    gen_contract           the generalised-eigen ORACLE contract:        *)
(*                           A V = B V Lambda, V^T B V = I                 *)
(*    le_spec                what the property asks of the embedding Y     *)
(*    adjA_full/matL_full    the same over the FULL neighbour lists (every *)
(*                           entry the neighbour search returned)          *)
(*  Diffusion Map: the diffusion operator obtained by normalising the      *)
(*  Gaussian kernel K:  p = K 1, K1 = P^-1 K P^-1, q = K1 1,               *)
(*    dm_markov  T = Q^-1 K1          (row-stochastic diffusion operator)  *)
(*    dm_sym     M = S^-1 K1 S^-1     with s_i * s_i = q_i (its symmetric  *)
(*                                    conjugate, S T S^-1)                 *)
(*    fpow x t   x^t by repeated multiplication                            *)
(*    dm_spec    coordinates lambda_i^t * psi_i(x) / psi_0(x)              *)
(*  Boolean decision procedures (exact instances, e.g. Qc):                *)
(*    lap_matrix_b eqb n L D   checks L = matL and D = degD                *)
(*    dm_matrix_b eqb n M s    checks M = dm_sym for the oracle values s   *)
(* ====================================================================== *)
Require Import Arith List Bool.
From TK Require Import Mat_Sums Mat_Core.
Import ListNotations.

Section MatEqb.
  Context {F : Type} {Fo : FieldOps F}.
  Variable eqb : F -> F -> bool.
  Definition vec_eqb (n : nat) (x y : vec F) : bool :=
    forallb (fun i => eqb (x i) (y i)) (seq 0 n).
  Definition mat_eqb (n m : nat) (A B : mat F) : bool :=
    forallb (fun i => forallb (fun j => eqb (A i j) (B i j)) (seq 0 m)) (seq 0 n).
End MatEqb.

Section LapSpec.
  Context {F : Type} {Fo : FieldOps F}.
  Local Open Scope F_scope.

  Variable heat : nat -> nat -> F.        (* heat i j = exp(-d(i,j)^2 / width) *)
  Variable k : nat.                       (* number of neighbours used per sample *)
  Variable nbrs : list (list nat).        (* neighbour lists *)

  Definition nb_at (i p : nat) : nat := nth p (nth i nbrs []) 0%nat.

  Definition adjA (i j : nat) : F :=
    sumn k (fun p => if Nat.eqb (nb_at i p) j then heat i j else 0).

  Definition matW : mat F := fun i j => adjA i j + adjA j i.

  Definition degD (n : nat) : vec F := fun i => sumn n (fun j => matW i j).

  Definition matL (n : nat) : mat F := fun i j => mdiag (degD n) i j - matW i j.

  (* decision procedure on list data (eqb: exact equality of the instance) *)
  Variable eqb : F -> F -> bool.
  Definition lap_matrix_b (n : nat) (L : list (list F)) (D : list F) : bool :=
    wf_matb n n L && Nat.eqb (length D) n &&
    mat_eqb eqb n n (mof L) (matL n) && vec_eqb eqb n (vof D) (degD n).
End LapSpec.

(* "W holds the heat-kernel weights on NEIGHBOUR PAIRS": every entry of every neighbour list the search
   returned is a neighbour pair — the FULL lists, whatever count was requested *)
Section LapFullSpec.
  Context {F : Type} {Fo : FieldOps F}.
  Local Open Scope F_scope.

  Variable heat : nat -> nat -> F.
  Variable nbrs : list (list nat).

  Definition adjA_full (i j : nat) : F :=
    sumn (length (nth i nbrs [])) (fun p => if Nat.eqb (nb_at nbrs i p) j then heat i j else 0).

  Definition matW_full : mat F := fun i j => adjA_full i j + adjA_full j i.

  Definition degD_full (n : nat) : vec F := fun i => sumn n (fun j => matW_full i j).

  Definition matL_full (n : nat) : mat F := fun i j => mdiag (degD_full n) i j - matW_full i j.

  (* the part of the neighbour search's contract that is used: one common length *)
  Definition uniform_lists (n : nat) : Prop :=
    forall i, i < n -> length (nth i nbrs []) = length (hd [] nbrs).
End LapFullSpec.

Section GenEigSpec.
  Context {F : Type} {Fo : FieldOps F}.
  Local Open Scope F_scope.

  (* Contract of the dense generalised self-adjoint solver
     (Eigen::GeneralizedSelfAdjointEigenSolver, ABx_lx): all N pairs, A V = B V diag(lam),
     V^T B V = I.  Ascending order needs an order on F and is not part of the contract used
     by the theorems (see Properties_C09: the _partial theorems say what that leaves open). *)
  Definition gen_contract (N : nat) (A B V : mat F) (lam : vec F) : Prop :=
    meq N N (mmul N A V) (mmul N B (mmul N V (mdiag lam))) /\
    meq N N (mmul N (mtrans V) (mmul N B V)) mI.

  (* y is a generalised eigenvector: A y = l B y *)
  Definition gen_eigvec (N : nat) (A B : mat F) (l : F) (y : vec F) : Prop :=
    veq N (mv N A y) (vscale l (mv N B y)).

  (* what the property asks of the N x d embedding Y (columns y_c with eigenvalues mu c) *)
  Definition le_spec (N d : nat) (L Dm Y : mat F) (mu : vec F) : Prop :=
    (forall c, c < d -> gen_eigvec N L Dm (mu c) (mcol Y c)) /\
    meq d d (mmul N (mtrans Y) (mmul N Dm Y)) mI /\
    (forall c, c < d -> dot N (mcol Y c) (mv N Dm (fun _ => 1)) = 0).

  (* Contract of the dense self-adjoint solver: M V = V diag(lam), V^T V = I *)
  Definition sym_contract (N : nat) (M V : mat F) (lam : vec F) : Prop :=
    meq N N (mmul N M V) (mmul N V (mdiag lam)) /\
    meq N N (mmul N (mtrans V) V) mI.

  Definition eigvec (N : nat) (M : mat F) (l : F) (y : vec F) : Prop :=
    veq N (mv N M y) (vscale l y).
End GenEigSpec.

Section DmSpec.
  Context {F : Type} {Fo : FieldOps F}.
  Local Open Scope F_scope.

  Fixpoint fpow (x : F) (t : nat) : F :=
    match t with O => 1 | S t' => x * fpow x t' end.

  Variable K : mat F.            (* Gaussian kernel, K i j = exp(-d(i,j)^2 / width), symmetric *)
  Variable n : nat.

  Definition vinv (v : vec F) : vec F := fun i => / v i.

  Definition dm_P : vec F := fun i => rowsum n K i.                          (* p = K 1 *)
  Definition dm_K1 : mat F :=                                               (* P^-1 K P^-1 *)
    mmul n (mdiag (vinv dm_P)) (mmul n K (mdiag (vinv dm_P))).
  Definition dm_Q : vec F := fun i => rowsum n dm_K1 i.                      (* q = K1 1 *)
  Definition dm_markov : mat F := mmul n (mdiag (vinv dm_Q)) dm_K1.          (* T = Q^-1 K1 *)
  (* s: the square roots of q (value oracle: s i * s i = dm_Q i) *)
  Definition dm_sym (s : vec F) : mat F :=                                  (* S^-1 K1 S^-1 *)
    mmul n (mdiag (vinv s)) (mmul n dm_K1 (mdiag (vinv s))).

  (* the coordinates the property names: column c = lam_c^t * psi_c / psi_0 *)
  Definition dm_spec (d t : nat) (psi : mat F) (lam : vec F) (psi0 : vec F) : mat F :=
    fun x c => fpow (lam c) t * psi x c / psi0 x.

  Variable eqb : F -> F -> bool.
  Definition dm_matrix_b (M : list (list F)) (s : list F) : bool :=
    wf_matb n n M && Nat.eqb (length s) n &&
    mat_eqb eqb n n (mof M) (dm_sym (vof s)).
End DmSpec.
