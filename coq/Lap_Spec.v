(* ====================================================================== *)
(*  Lap_Spec.v — what property C09 says about Laplacian Eigenmaps          *)
(*                                                                         *)
(*  "L = D - W, W holds the heat-kernel weights exp(-d^2/width) on         *)
(*   neighbour pairs made symmetric and D is its degree matrix,            *)
(*   [Y] generalised eigenvectors of L y = lambda D y belonging to the     *)
(*   target_dimension smallest non-zero eigenvalues, normalised so that    *)
(*   Y^T D Y = I and Y^T D 1 = 0."                                         *)
(*                                                                         *)
(*  The mathematical objects (any field F, any sizes):                     *)
(*    adjA heat k nbrs i j   heat i j for every occurrence of j among the  *)
(*                           first k entries of N(i)  (directed weights)   *)
(*    matW = A + A^T         "made symmetric": the SUM of the two          *)
(*                           directions (what is symmetric and built from  *)
(*                           heat weights on neighbour pairs; the doc      *)
(*                           comment in the source says max — see notes)   *)
(*    degD = W 1             degree vector,   matL = diag(degD) - W        *)
(*    gen_contract           the generalised-eigen ORACLE contract:        *)
(*                           A V = B V Lambda, V^T B V = I                 *)
(*  Boolean decision procedures (for exact instances, e.g. Qc):            *)
(*    lap_matrix_b eqb n heat nbrs L D   checks L = matL and D = degD      *)
(* ====================================================================== *)
Require Import Arith List Bool.
From TK Require Import Mat_Sums Mat_Core.
Import ListNotations.

Section LapSpec.
  Context {F : Type} {Fo : FieldOps F}.
  Local Open Scope F_scope.

  Variable heat : nat -> nat -> F.        (* heat i j = exp(-d(i,j)^2 / width) *)
  Variable k : nat.                       (* number of neighbours used per sample *)
  Variable nbrs : list (list nat).        (* neighbour lists *)

  Definition nb_at (i p : nat) : nat := nth p (nth i nbrs []) 0.

  Definition adjA (i j : nat) : F :=
    sumn k (fun p => if Nat.eqb (nb_at i p) j then heat i j else 0).

  Definition matW : mat F := fun i j => adjA i j + adjA j i.

  Definition degD (n : nat) : vec F := fun i => sumn n (fun j => matW i j).

  Definition matL (n : nat) : mat F := fun i j => mdiag (degD n) i j - matW i j.

  (* decision procedure on list data (eqb: exact equality of the instance) *)
  Variable eqb : F -> F -> bool.
  Definition vec_eqb (n : nat) (x y : vec F) : bool :=
    forallb (fun i => eqb (x i) (y i)) (seq 0 n).
  Definition mat_eqb (n m : nat) (A B : mat F) : bool :=
    forallb (fun i => forallb (fun j => eqb (A i j) (B i j)) (seq 0 m)) (seq 0 n).
  Definition lap_matrix_b (n : nat) (L : list (list F)) (D : list F) : bool :=
    wf_matb n n L && Nat.eqb (length D) n &&
    mat_eqb n n (mof L) (matL n) && vec_eqb n (vof D) (degD n).
End LapSpec.

Section GenEigSpec.
  Context {F : Type} {Fo : FieldOps F}.
  Local Open Scope F_scope.

  (* Contract of the dense generalised self-adjoint solver
     (Eigen::GeneralizedSelfAdjointEigenSolver, ABx_lx): all N pairs, A V = B V diag(lam),
     V^T B V = I.  "Ascending" needs an order and is stated separately where it is used. *)
  Definition gen_contract (N : nat) (A B V : mat F) (lam : vec F) : Prop :=
    meq N N (mmul N A V) (mmul N B (mmul N V (mdiag lam))) /\
    meq N N (mmul N (mtrans V) (mmul N B V)) mI.

  (* y is a generalised eigenvector: A y = l B y *)
  Definition gen_eigvec (N : nat) (A B : mat F) (l : F) (y : vec F) : Prop :=
    veq N (mv N A y) (vscale l (mv N B y)).
End GenEigSpec.
