(* ====================================================================== *)
(*  Equiv_SpecExec.v — C12: the boolean decision procedures that the       *)
(*  check applies to the IMPLEMENTATION's own outputs (exact stream: all   *)
(*  numbers are dyadic rationals, held in Qc), and the Qc entry points of  *)
(*  the model that are extracted.                                          *)
(*                                                                         *)
(*  Each `rel_*_b` decides one equivariance relation of Equiv_Spec.v       *)
(*  between two tables the C++ produced (for an input and for its          *)
(*  transform); soundness lemmas are in Equiv_Proof_Exec.v.                *)
(*  No proofs in this file.                                                *)
(* ====================================================================== *)
Require Import Arith List Bool ZArith QArith Qcanon.
From TK Require Import Mat_Sums Mat_Core Mat_Qc Equiv_Model Equiv_Spec.
Import ListNotations.

Definition T := list (list Qc).

(* permutation given as the list ql = [q 0; ...; q (n-1)]: position i of the transformed
   data set holds old sample q i *)
Definition qfun (ql : list nat) : nat -> nat := fun i => nth i ql i.

(* M' = p.M for sample-by-sample tables *)
Definition rel_perm_tab_b (n : nat) (ql : list nat) (M M' : T) : bool :=
  mlist_eqb (mtab n n (mof M')) (mtab n n (pact (qfun ql) (mof M))).
(* Y' = rows of Y permuted *)
Definition rel_perm_rows_b (n d : nat) (ql : list nat) (Y Y' : T) : bool :=
  mlist_eqb (mtab n d (mof Y')) (mtab n d (perm_rows (qfun ql) (mof Y))).
(* M' = M inside the n x m box *)
Definition rel_eq_tab_b (n m : nat) (M M' : T) : bool :=
  mlist_eqb (mtab n m (mof M')) (mtab n m (mof M)).
(* M' = c M *)
Definition rel_scale_tab_b (n m : nat) (c : Qc) (M M' : T) : bool :=
  mlist_eqb (mtab n m (mof M')) (mtab n m (mscale c (mof M))).
(* C' = R C R^T *)
Definition rel_conj_tab_b (D : nat) (R C C' : T) : bool :=
  mlist_eqb (mtab D D (mof C')) (mtab D D (mmul D (mof R) (mmul D (mof C) (mtrans (mof R))))).
(* v' = R v + t *)
Definition rel_affine_vec_b (D : nat) (R : T) (t v v' : list Qc) : bool :=
  vlist_eqb (vtab D (vof v'))
            (vtab D (fun a => (sumn D (fun b => mof R a b * vof v b) + vof t a)%F)).
(* v' = c v *)
Definition rel_scale_vec_b (D : nat) (c : Qc) (v v' : list Qc) : bool :=
  vlist_eqb (vtab D (vof v')) (vtab D (fun a => (c * vof v a)%F)).
(* R^T R = I *)
Definition orth_b (D : nat) (R : T) : bool :=
  mlist_eqb (mtab D D (mmul D (mtrans (mof R)) (mof R))) (mtab D D (@mI Qc QcOps)).
(* the embedding distance tables agree / are scaled *)
Definition rel_same_dist_b (n d : nat) (Y Y' : T) : bool :=
  mlist_eqb (emb_sq_dist_exec n d Y') (emb_sq_dist_exec n d Y).

(* the Qc instances that are extracted *)
Definition mds_matrix_q := @mds_matrix_exec Qc QcOps.
Definition kpca_matrix_q := @kpca_matrix_exec Qc QcOps.
Definition isomap_matrix_q := @isomap_matrix_exec Qc QcOps.
Definition isomap_pre_f23_q := @isomap_matrix_pre_f23_exec Qc QcOps.
Definition lin_kernel_q := @lin_kernel_exec Qc QcOps.
Definition sq_dist_q := @sq_dist_exec Qc QcOps.
Definition mean_q := @mean_exec Qc QcOps.
Definition cov_q := @cov_exec Qc QcOps.
Definition cov_pre_f8_q (n D : nat) (LX : T) : T :=
  mtab D D (sym_avg (mof (@cov_upper_exec Qc QcOps n D LX))).
Definition project_q := @project_exec Qc QcOps.
Definition center_q := @center_exec Qc QcOps.
Definition perm_rows_q := @perm_rows_exec Qc QcOps.
Definition rotate_q := @rotate_exec Qc QcOps.
Definition translate_q := @translate_exec Qc QcOps.
Definition scale_q := @scale_exec Qc QcOps.

(* assembly stages with explicit neighbour lists (rows of nbl) and oracle values as tables *)
Definition laplacian_q := @laplacian_exec Qc QcOps.
Definition klle_M_q (n k : nat) (nbl : list (list nat)) (wl : T) (shift : Qc) : T :=
  mtab n n (klle_M n k (fun x => nth x nbl []) (mof wl) shift).
Definition diffusion_K1_q := @diffusion_K1_exec Qc QcOps.
Definition diffusion_q := @diffusion_exec Qc QcOps.
