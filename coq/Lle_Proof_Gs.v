(* ====================================================================== *)
(*  Lle_Proof_Gs.v — the Gram-Schmidt loop of hessian_weight_matrix (C08)  *)
(*  in the sqrt-free form that is executed (Lle_Model.mgs_sf: modified     *)
(*  Gram-Schmidt exactly in the order of the C++, columns kept             *)
(*  unnormalised together with their squared norms)                        *)
(*    mgs_orth_sf_orth    after the inner loop the column is orthogonal to *)
(*                        every earlier column                             *)
(*    orth_transfer       the inner loop only subtracts multiples of       *)
(*                        earlier columns                                  *)
(*    gs_rel / mgs_sf_rel the loop invariant (pairwise orthogonality and   *)
(*                        span of the processed input columns)             *)
(*    gs_later_orth_earlier_input   column m of the result is orthogonal   *)
(*                        to INPUT column j for every j < m                *)
(*    hlle_local_annihilates   H H^T 1 = 0 and H H^T v_t = 0 for the       *)
(*                        tangent coordinates v_t, whenever no column      *)
(*                        degenerates (all squared norms non-zero)         *)
(*  Any field; no order, no square roots.                                  *)
(* ====================================================================== *)
Require Import Field Ring Arith Lia List Bool.
From TK Require Import Mat_Sums Mat_Core Lle_Model Lle_Proof_Hlle.
Import ListNotations.

Section GsProof.
  Context {F : Type} {Fo : FieldOps F} {Ff : IsField F}.
  Add Field GsProofField : (@Fth F Fo Ff).
  Local Open Scope F_scope.
  Local Notation vec := (Mat_Core.vec F).
  Local Notation mat := (Mat_Core.mat F).
  Local Notation ulist := (list (vec * F)).

  Lemma memo_vec_at k (v : vec) a : a < k -> memo_vec k v a = v a.
  Proof. intros Ha. unfold memo_vec. apply vof_vtab. assumption. Qed.

  Lemma dot_memo_r k (w v : vec) : dot k w (memo_vec k v) = dot k w v.
  Proof. apply dot_ext; intros a Ha; [reflexivity|apply memo_vec_at; assumption]. Qed.

  Lemma dot_memo_l k (w v : vec) : dot k (memo_vec k v) w = dot k v w.
  Proof. apply dot_ext; intros a Ha; [apply memo_vec_at; assumption|reflexivity]. Qed.

  Lemma dot_sub_scale_r k (w v u : vec) r :
    dot k w (fun a => v a - r * u a) = dot k w v - r * dot k w u.
  Proof.
    rewrite (dot_comm k w), dot_sub_l, dot_scale_l, (dot_comm k v w), (dot_comm k u w). reflexivity.
  Qed.

  Lemma fdiv_mul (x y : F) : x / y = x * / y.
  Proof. apply (Fdiv_def (@Fth F Fo Ff)). Qed.

  Definition gs_nondegenerate (U : ulist) : Prop := forall un, In un U -> snd un <> 0.
  Definition orth_to (k : nat) (U : ulist) (w : vec) : Prop :=
    forall un, In un U -> dot k w (fst un) = 0.

  Definition gs_step (k : nat) (v : vec) (un : vec * F) : vec :=
    let r := dot k v (fst un) / snd un in memo_vec k (fun a => v a - r * fst un a).

  Lemma mgs_orth_sf_fold k U v : mgs_orth_sf k U v = fold_left (gs_step k) U v.
  Proof. reflexivity. Qed.

  Lemma mgs_orth_sf_snoc k U x v :
    mgs_orth_sf k (U ++ [x]) v = gs_step k (mgs_orth_sf k U v) x.
  Proof. rewrite !mgs_orth_sf_fold, fold_left_app. reflexivity. Qed.

  Lemma gs_step_dot k (w v : vec) (un : vec * F) :
    dot k w (gs_step k v un) = dot k w v - (dot k v (fst un) / snd un) * dot k w (fst un).
  Proof. unfold gs_step. cbv zeta. rewrite dot_memo_r, dot_sub_scale_r. reflexivity. Qed.

  (* the inner loop only subtracts multiples of earlier columns *)
  Lemma orth_transfer k U (w v : vec) :
    orth_to k U w -> dot k w (mgs_orth_sf k U v) = dot k w v.
  Proof.
    revert v. induction U as [|x U IH] using rev_ind; intros v Hw; [reflexivity|].
    rewrite mgs_orth_sf_snoc, gs_step_dot.
    rewrite IH by (intros un Hun; apply Hw; apply in_or_app; left; assumption).
    rewrite (Hw x) by (apply in_or_app; right; left; reflexivity). ring.
  Qed.

  (* loop invariant: U = orthogonal columns with their squared norms, C = the input columns they
     came from; each input column lies in the span of the orthogonal columns up to its own *)
  Inductive gs_rel (k : nat) : ulist -> list vec -> Prop :=
  | gs_rel_nil : gs_rel k [] []
  | gs_rel_snoc U C u c :
      gs_rel k U C -> orth_to k U u ->
      (forall w, orth_to k U w -> dot k w u = 0 -> dot k w c = 0) ->
      gs_rel k (U ++ [(u, dot k u u)]) (C ++ [c]).

  Lemma gs_rel_length k U C : gs_rel k U C -> length U = length C.
  Proof. induction 1; [reflexivity|]. rewrite !app_length. cbn [length]. lia. Qed.

  Lemma gs_rel_norms k U C : gs_rel k U C -> forall un, In un U -> snd un = dot k (fst un) (fst un).
  Proof.
    induction 1 as [|U C u c H IH Ho Hs]; intros un Hin; [contradiction|].
    apply in_app_or in Hin. destruct Hin as [Hin|[<-|[]]]; [apply IH; assumption|reflexivity].
  Qed.

  Lemma gs_rel_pairwise k U C :
    gs_rel k U C -> forall w, orth_to k U w -> forall c, In c C -> dot k w c = 0.
  Proof.
    induction 1 as [|U C u c H IH Ho Hs]; intros w Hw c' Hin; [contradiction|].
    assert (HwU : orth_to k U w) by (intros un Hun; apply Hw; apply in_or_app; left; assumption).
    assert (Hwu : dot k w u = 0)
      by (apply (Hw (u, dot k u u)); apply in_or_app; right; left; reflexivity).
    apply in_app_or in Hin. destruct Hin as [Hin|[<-|[]]].
    - apply IH; assumption.
    - apply Hs; assumption.
  Qed.

  (* after the inner loop the new column is orthogonal to every earlier one *)
  Lemma mgs_orth_sf_orth k U C (v : vec) :
    gs_rel k U C -> gs_nondegenerate U -> orth_to k U (mgs_orth_sf k U v).
  Proof.
    intros H. revert v. induction H as [|U C u c H IH Ho Hs]; intros v Hnd un Hin; [contradiction|].
    assert (HndU : gs_nondegenerate U) by (intros x Hx; apply Hnd; apply in_or_app; left; assumption).
    assert (Hne : dot k u u <> 0)
      by (apply (Hnd (u, dot k u u)); apply in_or_app; right; left; reflexivity).
    rewrite mgs_orth_sf_snoc. cbn [fst snd].
    rewrite (dot_comm k _ (fst un)), gs_step_dot. cbn [fst snd].
    apply in_app_or in Hin. destruct Hin as [Hin|[<-|[]]].
    - (* an earlier column: untouched by this step because u is orthogonal to it *)
      rewrite (dot_comm k (fst un)), (IH v HndU un Hin).
      rewrite (dot_comm k (fst un) u), (Ho un Hin). ring.
    - cbn [fst]. rewrite (dot_comm k u (mgs_orth_sf k U v)). field. assumption.
  Qed.

  Lemma mgs_sf_incl k U cols un : In un U -> In un (mgs_sf k U cols).
  Proof.
    revert U. induction cols as [|v rest IH]; intros U Hin; cbn [mgs_sf]; [assumption|].
    apply IH. apply in_or_app. left. assumption.
  Qed.

  Lemma mgs_sf_rel k U C cols :
    gs_rel k U C -> gs_nondegenerate (mgs_sf k U cols) -> gs_rel k (mgs_sf k U cols) (C ++ cols).
  Proof.
    revert U C. induction cols as [|v rest IH]; intros U C H Hnd; cbn [mgs_sf] in *.
    - rewrite app_nil_r. assumption.
    - replace (C ++ v :: rest) with ((C ++ [v]) ++ rest) by (rewrite <- app_assoc; reflexivity).
      apply IH; [|assumption].
      assert (HndU : gs_nondegenerate U).
      { intros x Hx. apply Hnd. apply mgs_sf_incl. apply in_or_app. left. assumption. }
      apply gs_rel_snoc; [assumption| |].
      + apply (mgs_orth_sf_orth k U C); assumption.
      + intros w Hw Hz. rewrite <- (orth_transfer k U w v Hw). assumption.
  Qed.

  (* column m of the result is orthogonal to input column j for every j < m *)
  Lemma gs_rel_later_orth k U C :
    gs_rel k U C ->
    forall m j du dc, j < m -> m < length U -> dot k (fst (nth m U du)) (nth j C dc) = 0.
  Proof.
    induction 1 as [|U C u c H IH Ho Hs]; intros m j du dc Hjm Hm; [cbn [length] in Hm; lia|].
    pose proof (gs_rel_length k U C H) as Hl.
    rewrite app_length in Hm. cbn [length] in Hm.
    destruct (Nat.eq_dec m (length U)) as [->|Hne].
    - rewrite app_nth2 by lia. rewrite Nat.sub_diag. cbn [nth fst].
      rewrite app_nth1 by lia.
      apply (gs_rel_pairwise k U C H u Ho). apply nth_In. lia.
    - rewrite app_nth1 by lia. rewrite app_nth1 by lia. apply IH; lia.
  Qed.

  Theorem gs_later_orth_earlier_input k cols m j du dc :
    gs_nondegenerate (mgs_sf k [] cols) -> j < m -> m < length cols ->
    dot k (fst (nth m (mgs_sf k [] cols) du)) (nth j cols dc) = 0.
  Proof.
    intros Hnd Hjm Hm.
    pose proof (mgs_sf_rel k [] [] cols (gs_rel_nil k) Hnd) as H. cbn [app] in H.
    apply (gs_rel_later_orth k _ _ H); [assumption|].
    rewrite (gs_rel_length k _ _ H). assumption.
  Qed.

  (* ---------------- the HLLE local matrix ---------------- *)
  Lemma outer_sum_sf_mv k (U : ulist) (y : vec) a :
    sumn k (fun b => outer_sum_sf U a b * y b) =
    fold_right (fun un acc => fst un a / snd un * dot k (fst un) y + acc) 0 U.
  Proof.
    induction U as [|un U IH]; cbn [fold_right].
    - unfold outer_sum_sf. cbn [fold_right]. apply sumn_zero'. intros; ring.
    - rewrite <- IH. unfold outer_sum_sf. cbn [fold_right].
      rewrite (sumn_ext k _ (fun b => fst un a / snd un * (fst un b * y b)
                                      + fold_right (fun un0 acc => fst un0 a * fst un0 b / snd un0 + acc) 0 U * y b)).
      2:{ intros b _. rewrite !fdiv_mul. unfold Mat_Core.vec. ring. }
      rewrite sumn_add, sumn_mul_l. reflexivity.
  Qed.

  Lemma outer_sum_kills k (U : ulist) (y : vec) a :
    (forall un, In un U -> dot k (fst un) y = 0) ->
    sumn k (fun b => outer_sum_sf U a b * y b) = 0.
  Proof.
    intros H. rewrite outer_sum_sf_mv. unfold Mat_Core.vec in *.
    induction U as [|un U IH]; cbn [fold_right]; [reflexivity|].
    rewrite (H un) by (left; reflexivity). rewrite IH by (intros x Hx; apply H; right; assumption).
    ring.
  Qed.

  Lemma nth_skipn' {A} n (l : list A) m dflt : nth m (skipn n l) dflt = nth (n + m) l dflt.
  Proof.
    revert l. induction n as [|n IH]; intros l; [reflexivity|].
    destruct l as [|x l]; cbn [skipn Nat.add nth]; [destruct m; reflexivity|apply IH].
  Qed.

  Lemma cols_of_nth k n (Y : mat) j dv : j < n -> nth j (cols_of k n Y) dv = memo_vec k (mcol Y j).
  Proof.
    intros Hj. unfold cols_of.
    rewrite (nth_indep _ dv (memo_vec k (mcol Y 0%nat))) by (rewrite map_length, seq_length; assumption).
    rewrite (map_nth (fun c => memo_vec k (mcol Y c)) (seq 0 n) 0%nat j).
    rewrite seq_nth by assumption. reflexivity.
  Qed.

  Lemma cols_of_length k n (Y : mat) : length (cols_of k n Y) = n.
  Proof. unfold cols_of. rewrite map_length, seq_length. reflexivity. Qed.

  Lemma hlle_gs_length k d (prev V : mat) :
    gs_nondegenerate (hlle_gs_sf false k d prev V) ->
    length (hlle_gs_sf false k d prev V) = hlle_ncols d.
  Proof.
    intros Hnd. unfold hlle_gs_sf in *.
    pose proof (mgs_sf_rel k [] [] _ (gs_rel_nil k) Hnd) as H. cbn [app] in H.
    rewrite (gs_rel_length k _ _ H). apply cols_of_length.
  Qed.

  (* every H column (index >= 1 + d) is orthogonal to the input columns 0 .. d *)
  Lemma hlle_tail_orth k d (prev V : mat) un j :
    gs_nondegenerate (hlle_gs_sf false k d prev V) ->
    In un (skipn (1 + d) (hlle_gs_sf false k d prev V)) -> j < 1 + d ->
    dot k (fst un) (mcol (hlle_Yprod false d prev V) j) = 0.
  Proof.
    intros Hnd Hin Hj.
    pose proof (hlle_gs_length k d prev V Hnd) as Hlen.
    unfold hlle_gs_sf in *.
    set (Y := hlle_Yprod false d prev V) in *.
    set (cols := cols_of k (hlle_ncols d) Y) in *.
    apply (In_nth _ _ (fun _ => 0, 0)) in Hin. destruct Hin as [m [Hm Hnth]].
    rewrite skipn_length in Hm. rewrite nth_skipn' in Hnth.
    pose proof (gs_later_orth_earlier_input k cols (1 + d + m) j (fun _ => 0, 0) (fun _ => 0) Hnd
                  ltac:(lia) ltac:(unfold cols; rewrite cols_of_length; lia)) as Hz.
    unfold cols in Hz at 2.
    rewrite cols_of_nth in Hz by (unfold hlle_ncols; lia).
    rewrite dot_memo_r in Hz. rewrite <- Hnth. exact Hz.
  Qed.

  Theorem hlle_local_annihilates k d (prev V : mat) a :
    gs_nondegenerate (hlle_gs_sf false k d prev V) ->
    a < k ->
    sumn k (fun b => hlle_local_sf false k d prev V a b) = 0 /\
    (forall t, t < d -> sumn k (fun b => hlle_local_sf false k d prev V a b * V b t) = 0).
  Proof.
    intros Hnd Ha. unfold hlle_local_sf, hlle_local_of.
    set (Y := hlle_Yprod false d prev V).
    split.
    - rewrite (sumn_ext k _ (fun b => outer_sum_sf (skipn (1 + d) (hlle_gs_sf false k d prev V)) a b
                                      * mcol Y 0%nat b)).
      + apply outer_sum_kills. intros un Hin. apply hlle_tail_orth; [assumption|assumption|lia].
      + intros b Hb. unfold mcol, Y.
        destruct (hlle_Yprod_entries d prev V b) as [H0 _]. rewrite H0. ring.
    - intros t Ht.
      rewrite (sumn_ext k _ (fun b => outer_sum_sf (skipn (1 + d) (hlle_gs_sf false k d prev V)) a b
                                      * mcol Y (S t) b)).
      + apply outer_sum_kills. intros un Hin. apply hlle_tail_orth; [assumption|assumption|lia].
      + intros b Hb. unfold mcol, Y.
        destruct (hlle_Yprod_entries d prev V b) as [_ [H1 _]]. rewrite (H1 t Ht). reflexivity.
  Qed.

  (* ================= the loop as written (with sqrt) equals the sqrt-free form ================= *)
  Section WithSqrt.
    Variable sqrtf : F -> F.
    Variable gt_thr : F -> bool.

    (* contract of the value oracle on the squared norms that occur *)
    Definition sqrt_ok (U : ulist) : Prop :=
      forall un, In un U -> sqrtf (snd un) * sqrtf (snd un) = snd un /\ snd un <> 0.

    Definition qrel (k : nat) (q : vec) (un : vec * F) : Prop :=
      forall a, a < k -> q a = fst un a / sqrtf (snd un).

    Lemma sqrt_ne0 x : sqrtf x * sqrtf x = x -> x <> 0 -> sqrtf x <> 0.
    Proof. intros H Hx K. apply Hx. rewrite <- H, K. ring. Qed.

    Lemma orth_equiv k Q U (v1 v2 : vec) :
      Forall2 (qrel k) Q U -> sqrt_ok U ->
      (forall a, a < k -> v1 a = v2 a) ->
      forall a, a < k -> mgs_orth k Q v1 a = mgs_orth_sf k U v2 a.
    Proof.
      intros HR. revert v1 v2. induction HR as [|q un Q U Hq HR IH]; intros v1 v2 Hs Hv a Ha.
      - cbn. apply Hv. assumption.
      - unfold mgs_orth, mgs_orth_sf. cbn [fold_left].
        apply IH; [intros x Hx; apply Hs; right; assumption| |assumption].
        clear a Ha. intros a Ha. cbv zeta. rewrite !memo_vec_at by assumption.
        destruct (Hs un (or_introl eq_refl)) as [Hsq Hn0].
        pose proof (sqrt_ne0 _ Hsq Hn0) as Hs0.
        assert (Hd : dot k v1 q = dot k v2 (fst un) / sqrtf (snd un)).
        { unfold dot. rewrite (sumn_ext k _ (fun t => (v2 t * fst un t) * / sqrtf (snd un))).
          - rewrite sumn_mul_r. rewrite fdiv_mul. reflexivity.
          - intros t Ht. rewrite Hv, Hq by assumption. rewrite fdiv_mul. ring. }
        rewrite Hd, Hv, Hq by assumption.
        unfold Mat_Core.vec in *. set (s := sqrtf (snd un)) in *. rewrite <- Hsq. field. assumption.
    Qed.

    Lemma Forall2_snoc {A B} (R : A -> B -> Prop) l l' x y :
      Forall2 R l l' -> R x y -> Forall2 R (l ++ [x]) (l' ++ [y]).
    Proof. intros H Hxy. apply Forall2_app; [assumption|constructor; [assumption|constructor]]. Qed.

    Lemma mgs_equiv k Q U cols :
      Forall2 (qrel k) Q U -> sqrt_ok (mgs_sf k U cols) ->
      Forall2 (qrel k) (mgs sqrtf k Q cols) (mgs_sf k U cols).
    Proof.
      revert Q U. induction cols as [|v rest IH]; intros Q U HR Hs; cbn [mgs mgs_sf] in *; [assumption|].
      apply IH; [|assumption].
      assert (HsU : sqrt_ok U).
      { intros x Hx. apply Hs. apply mgs_sf_incl. apply in_or_app. left. assumption. }
      apply Forall2_snoc; [assumption|].
      intros a Ha. cbn [fst snd]. unfold mgs_normalize. cbv zeta. rewrite memo_vec_at by assumption.
      rewrite (orth_equiv k Q U v v HR HsU (fun _ _ => eq_refl) a Ha).
      rewrite (dot_ext k (mgs_orth k Q v) (mgs_orth_sf k U v) (mgs_orth k Q v) (mgs_orth_sf k U v))
        by (intros t Ht; apply (orth_equiv k Q U v v HR HsU (fun _ _ => eq_refl) t Ht)).
      rewrite !fdiv_mul. ring.
    Qed.

    Lemma Forall2_skipn {A B} (R : A -> B -> Prop) n l l' :
      Forall2 R l l' -> Forall2 R (skipn n l) (skipn n l').
    Proof.
      revert l l'. induction n as [|n IH]; intros l l' H; [assumption|].
      destruct H; cbn [skipn]; [constructor|apply IH; assumption].
    Qed.

    Theorem hlle_local_sqrt_free k d (prev V : mat) a b :
      gs_nondegenerate (hlle_gs_sf false k d prev V) ->
      sqrt_ok (hlle_gs_sf false k d prev V) ->
      gt_thr 0 = false ->
      a < k -> b < k ->
      hlle_local sqrtf gt_thr false k d prev V a b = hlle_local_sf false k d prev V a b.
    Proof.
      intros Hnd Hs Hthr Ha Hb.
      unfold hlle_local, hlle_local_sf, hlle_local_of. cbv zeta.
      pose proof (mgs_equiv k [] [] (cols_of k (hlle_ncols d) (hlle_Yprod false d prev V))
                    (Forall2_nil _) Hs) as HR.
      apply (Forall2_skipn _ (1 + d)) in HR.
      assert (Htail : forall un, In un (skipn (1 + d) (hlle_gs_sf false k d prev V)) ->
                                 sumn k (fst un) = 0 /\ sqrtf (snd un) * sqrtf (snd un) = snd un /\ snd un <> 0).
      { intros un Hin. split.
        - pose proof (hlle_tail_orth k d prev V un 0 Hnd Hin ltac:(lia)) as Hz.
          unfold dot in Hz. rewrite <- Hz. apply sumn_ext. intros t Ht. unfold mcol.
          destruct (hlle_Yprod_entries d prev V t) as [H0 _]. rewrite H0. ring.
        - apply Hs. revert Hin. generalize (1 + d)%nat. generalize (hlle_gs_sf false k d prev V).
          intros l n. revert l. induction n as [|n IHn]; intros l Hin; [assumption|].
          destruct l; [contradiction|]. right. apply IHn. assumption. }
      unfold hlle_gs_sf in *.
      revert HR Htail.
      generalize (skipn (1 + d) (mgs sqrtf k [] (cols_of k (hlle_ncols d) (hlle_Yprod false d prev V)))).
      generalize (skipn (1 + d) (mgs_sf k [] (cols_of k (hlle_ncols d) (hlle_Yprod false d prev V)))).
      intros Ul Ql HR. induction HR as [|q un Ql Ul Hq HR IH]; intros Htail; [reflexivity|].
      unfold outer_sum, outer_sum_sf. cbn [map fold_right].
      unfold outer_sum, outer_sum_sf in IH. rewrite IH by (intros x Hx; apply Htail; right; assumption).
      f_equal.
      destruct (Htail un (or_introl eq_refl)) as [Hsum [Hsq Hn0]].
      pose proof (sqrt_ne0 _ Hsq Hn0) as Hs0.
      assert (Hfix : hlle_colsum_fix gt_thr k q = q).
      { unfold hlle_colsum_fix. cbv zeta.
        assert (Hz : sumn k q = 0).
        { rewrite (sumn_ext k q (fun t => fst un t * / sqrtf (snd un)))
            by (intros t Ht; rewrite Hq by assumption; apply fdiv_mul).
          rewrite sumn_mul_r, Hsum. ring. }
        rewrite Hz, Hthr. reflexivity. }
      rewrite Hfix, !Hq by assumption.
      unfold Mat_Core.vec in *. set (s := sqrtf (snd un)) in *. rewrite <- Hsq. field. assumption.
    Qed.
  End WithSqrt.
End GsProof.
