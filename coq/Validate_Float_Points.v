(* Validate_Float_Points.v — property C14, wave 3: the two COMPUTED bounds
     InClosedRange<ScalarType>(3.0 / n_vectors, 1.0)          (landmark_ratio)
     InClosedRange<ScalarType>(0.0, (n_vectors - 1) / 3.0)    (sne_perplexity)
   looked at on the doubles that decide them: the bound as the C++ computes it (f), the double just
   below (next_down f) and the double just above (next_up f).  Everything is evaluated with Coq's
   primitive binary64 floats by vm_compute inside coqc (never extracted); the sweeps are complete
   for the interval named in each statement.

   What is shown (n <= 65536):
     * next_down f < exact bound < next_up f   (in Q): the exact bound of the model lies strictly inside the
       two neighbours, so the exact model (Validate_Model, rationals) and the binary64 check classify next_down f and
       next_up f the same way;  f itself is the only double on which the two readings can differ, and the
       documentation writes the bound as the double expression (`3.0 / N`), i.e. f counts as the bound.
     * the classification of the three points by the binary64 check equals the classification of
       (next_down f, exact bound, next_up f) by the exact check.
   The check (checks/c14.py, stream float_bound) prints the table float_table through coq/extract/Extract_C14.v on every
   run and uses it to GENERATE the requests and their expected outcomes.

   Regression theorems (seeded change C14_3, "validate the derived number of landmarks instead"): the
   formulation  ratio in [0,1] and static_cast<IndexType>(N * ratio) in [3, N]  is NOT the documented check:
   it rejects the valid f for N = 47, 94, ... and accepts the invalid next_down f for N = 13, 26, ...
   (complete lists for N <= 300 below). *)

From Coq Require Import ZArith QArith Qabs Floats List Bool Lia.
Import ListNotations.
From TK Require Import Validate_Model Validate_Float_Defs.
Local Open Scope Z_scope.

Definition ratio_bound : bexpr := BDiv (BReal 3) BN.
Definition perp_bound : bexpr := BDiv (BSub BN (BInt 1)) (BReal 3).

Definition fbound (b : bexpr) (n : Z) : float := fnum_F (feval (env_N n) b).
Definition qbound (b : bexpr) (n : Z) : Q := num_Q (eval_bexpr (env_N n) b).

(* InClosedRange<ScalarType>(lower, upper)(v) = lower <= v && v <= upper, on doubles and exactly *)
Definition closed_range_f (lo hi v : float) : bool := PrimFloat.leb lo v && PrimFloat.leb v hi.
Definition closed_range_q (lo hi v : Q) : bool := Qle_bool lo v && Qle_bool v hi.
Definition Qlt_b (a b : Q) : bool := negb (Qle_bool b a).

Definition f_one : float := Z2F 1.
Definition f_zero : float := Z2F 0.

(* the exact bound lies strictly between the two neighbours of its binary64 evaluation *)
Definition neighbours_ok (b : bexpr) (n : Z) : bool :=
  let f := fbound b n in
  match F2Q (PrimFloat.next_down f), F2Q (PrimFloat.next_up f) with
  | Some d, Some u =>
      Qlt_b d (qbound b n) && Qlt_b (qbound b n) u &&
      PrimFloat.ltb (PrimFloat.next_down f) f && PrimFloat.ltb f (PrimFloat.next_up f)
  | _, _ => false
  end.

(* the three deciding doubles are classified by the binary64 check as the exact check classifies
   (next_down f, the exact bound, next_up f) *)
Definition ratio_class_ok (n : Z) : bool :=
  let f := fbound ratio_bound n in
  let q := qbound ratio_bound n in
  match F2Q (PrimFloat.next_down f), F2Q (PrimFloat.next_up f) with
  | Some d, Some u =>
      Bool.eqb (closed_range_f f f_one (PrimFloat.next_down f)) (closed_range_q q 1 d) &&
      Bool.eqb (closed_range_f f f_one f) (closed_range_q q 1 q) &&
      Bool.eqb (closed_range_f f f_one (PrimFloat.next_up f)) (closed_range_q q 1 u)
  | _, _ => false
  end.

Definition perp_class_ok (n : Z) : bool :=
  let f := fbound perp_bound n in
  let q := qbound perp_bound n in
  match F2Q (PrimFloat.next_down f), F2Q (PrimFloat.next_up f) with
  | Some d, Some u =>
      Bool.eqb (closed_range_f f_zero f (PrimFloat.next_down f)) (closed_range_q 0 q d) &&
      Bool.eqb (closed_range_f f_zero f f) (closed_range_q 0 q q) &&
      Bool.eqb (closed_range_f f_zero f (PrimFloat.next_up f)) (closed_range_q 0 q u)
  | _, _ => false
  end.

Definition points_ok (n : Z) : bool :=
  neighbours_ok ratio_bound n && neighbours_ok perp_bound n && ratio_class_ok n && perp_class_ok n.

Lemma all_points_ok_65536 : forall_from points_ok 1 (Z.to_nat 65536) = true.
Proof. vm_cast_no_check (eq_refl true). Qed.

Lemma points_ok_65536 : forall n, 1 <= n <= 65536 ->
  neighbours_ok ratio_bound n = true /\ neighbours_ok perp_bound n = true /\
  ratio_class_ok n = true /\ perp_class_ok n = true.
Proof.
  intros n H. pose proof (forall_from_spec _ _ _ all_points_ok_65536 n) as A.
  assert (R : 1 <= n < 1 + Z.of_nat (Z.to_nat 65536)) by (rewrite Z2Nat.id; lia).
  specialize (A R). unfold points_ok in A.
  repeat (apply andb_true_iff in A; destruct A as [A ?]). auto.
Qed.

(* what the documented check does on the three points, in words: for 3 < n the double just below the
   bound is rejected, the bound and the double just above are accepted (landmark_ratio); the double just below
   and the bound are accepted, the double just above is rejected (perplexity, n >= 1) *)
Definition ratio_verdicts (n : Z) : bool * bool * bool :=
  let f := fbound ratio_bound n in
  (closed_range_f f f_one (PrimFloat.next_down f), closed_range_f f f_one f, closed_range_f f f_one (PrimFloat.next_up f)).
Definition perp_verdicts (n : Z) : bool * bool * bool :=
  let f := fbound perp_bound n in
  (closed_range_f f_zero f (PrimFloat.next_down f), closed_range_f f_zero f f, closed_range_f f_zero f (PrimFloat.next_up f)).

Definition verdicts_ok (n : Z) : bool :=
  match ratio_verdicts n, perp_verdicts n with
  | (false, true, true), (p, true, false) => Bool.eqb p (1 <? n)
  | _, _ => false
  end.

Lemma all_verdicts_ok_65536 : forall_from verdicts_ok 4 (Z.to_nat 65533) = true.
Proof. vm_cast_no_check (eq_refl true). Qed.

Lemma verdicts_65536 : forall n, 4 <= n <= 65536 ->
  ratio_verdicts n = (false, true, true) /\ perp_verdicts n = (true, true, false).
Proof.
  intros n H. pose proof (forall_from_spec _ _ _ all_verdicts_ok_65536 n) as A.
  assert (R : 4 <= n < 4 + Z.of_nat (Z.to_nat 65533)) by (rewrite Z2Nat.id; lia).
  specialize (A R). unfold verdicts_ok in A.
  destruct (ratio_verdicts n) as [[a b] c]. destruct (perp_verdicts n) as [[d e] g].
  destruct a; try discriminate. destruct b; try discriminate. destruct c; try discriminate.
  destruct e; try discriminate. destruct g; try discriminate.
  assert (L : (1 <? n) = true) by (apply Z.ltb_lt; lia). rewrite L in A.
  destruct d; try discriminate. auto.
Qed.

(* ------------------------------------------------------------------ the derived-count formulation
   static_cast<IndexType>(n_vectors * ratio), the number of landmarks select_landmarks_random picks *)
Definition count_of (n : Z) (v : float) : Z := F2Z (PrimFloat.mul (Z2F n) v).

(* seeded change C14_3:  InClosedRange<ScalarType>(0.0, 1.0)(ratio) then InClosedRange<IndexType>(3, N)(count) *)
Definition count_check (n : Z) (v : float) : bool :=
  closed_range_f f_zero f_one v && (3 <=? count_of n v) && (count_of n v <=? n).
Definition documented_check (n : Z) (v : float) : bool := closed_range_f (fbound ratio_bound n) f_one v.

Definition count_rejects_the_bound (n : Z) : bool :=
  let f := fbound ratio_bound n in documented_check n f && negb (count_check n f).
Definition count_accepts_below_the_bound (n : Z) : bool :=
  let d := PrimFloat.next_down (fbound ratio_bound n) in negb (documented_check n d) && count_check n d.

Fixpoint zrange (start : Z) (len : nat) : list Z :=
  match len with O => [] | S l => start :: zrange (start + 1) l end.

Lemma count_formulation_rejects_valid_bound :
  filter count_rejects_the_bound (zrange 3 298) =
  [47; 94; 147; 173; 188; 294].
Proof. vm_compute. reflexivity. Qed.

Lemma count_formulation_accepts_invalid_ratio :
  filter count_accepts_below_the_bound (zrange 3 298) =
  [13; 26; 52; 59; 104; 109; 111; 118; 195; 205; 208; 217; 218; 222; 225; 231; 236].
Proof. vm_compute. reflexivity. Qed.

(* the shipped check accepts the bound for every n in 3 .. 65536 although the number of landmarks then
   selected is 2 for some n (47, 94, ...): the count at the bound is 2 or 3, never anything else *)
Definition count_at_bound_ok (n : Z) : bool :=
  let c := count_of n (fbound ratio_bound n) in (c =? 2) || (c =? 3).
Lemma all_count_at_bound_65536 : forall_from count_at_bound_ok 3 (Z.to_nat 65534) = true.
Proof. vm_cast_no_check (eq_refl true). Qed.
Lemma count_at_bound_65536 : forall n, 3 <= n <= 65536 ->
  count_of n (fbound ratio_bound n) = 2 \/ count_of n (fbound ratio_bound n) = 3.
Proof.
  intros n H. pose proof (forall_from_spec _ _ _ all_count_at_bound_65536 n) as A.
  assert (R : 3 <= n < 3 + Z.of_nat (Z.to_nat 65534)) by (rewrite Z2Nat.id; lia).
  specialize (A R). unfold count_at_bound_ok in A. apply orb_true_iff in A.
  destruct A as [A|A]; apply Z.eqb_eq in A; auto.
Qed.

(* ------------------------------------------------------------------ the table the check prints
   five numbers per n (Coq prints about two thousand numbers a second):
     mantissa, exponent of f_ratio = 3.0 / n;  mantissa, exponent of f_perp = (n - 1) / 3.0;  code
   code = r0 + 2 r1 + 4 r2 + 8 p0 + 16 p1 + 32 p2 + 64 (c0 + 8 c1 + 64 c2)   where, for the three points
   (next_down f, f, next_up f) of each bound, r_i / p_i = verdict of the documented binary64 check on landmark_ratio /
   perplexity and c_i = min(7, static_cast<IndexType>(n * point)), the binary64 landmark count *)
Definition sf_ints (f : float) : list Z :=
  match Prim2SF f with
  | S754_zero _ => [0; 0]
  | S754_finite s m e => [if s then Zneg m else Zpos m; e]
  | _ => [0; 99999]
  end.
Definition b2z (b : bool) : Z := if b then 1 else 0.

Definition float_row (n : Z) : list Z :=
  let f := fbound ratio_bound n in
  let g := fbound perp_bound n in
  let r := fun v => b2z (closed_range_f f f_one v) in
  let p := fun v => b2z (closed_range_f f_zero g v) in
  let c := fun v => Z.min 7 (count_of n v) in
  let fd := PrimFloat.next_down f in let fu := PrimFloat.next_up f in
  let gd := PrimFloat.next_down g in let gu := PrimFloat.next_up g in
  sf_ints f ++ sf_ints g ++
  [r fd + 2 * r f + 4 * r fu + 8 * p gd + 16 * p g + 32 * p gu + 64 * (c fd + 8 * c f + 64 * c fu)].

Definition float_table (start : Z) (len : nat) : list Z := flat_map float_row (zrange start len).
