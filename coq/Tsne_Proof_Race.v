(* Tsne_Proof_Race.v — (1) for a caller that completes one computeNonEdgeForces call before the next starts
   the shared scratch buffer is invisible: the node adds exactly c18's add_summary (the abstraction "buff is
   not represented" of QuadTree_Model.v is sound for the serial loops of tsne.hpp);  (2) it is NOT sound for
   interleaved callers: two callers on one node, schedule Wr 0; Wr 1; Rd 0; Rd 1 — caller 0 accumulates the
   force of caller 1's point (witness).  This is what an `omp parallel for` over the non-edge loop of
   TSNE::computeGradient (seeded change C17_1_r2) falsifies. *)
From Coq Require Import List Arith QArith Lqa Lia.
From TK Require Import QuadTree_Model Tsne_Race_Model.
Import ListNotations.
Local Open Scope Q_scope.

Section RaceProofs.
  Variable com : pt.
  Variable cum : nat.
  Variable pts : nat -> pt.

  Lemma block_own : forall s t,
    facc_eq (r_acc (rrun com cum pts s [Wr t; Rd t]) t) (add_summary (pts t) cum com (r_acc s t)).
  Proof.
    intros s t. unfold rrun. cbn [fold_left rstep r_buff r_acc fst snd].
    destruct (r_acc s t) as [[f0 f1] sq] eqn:E. cbn [r_acc]. unfold upd. rewrite Nat.eqb_refl.
    unfold add_summary, facc_eq, sqdist. cbn [fst snd]. rewrite !Qred_correct.
    repeat split; reflexivity.
  Qed.

  Lemma block_other : forall s t u, u <> t ->
    r_acc (rrun com cum pts s [Wr t; Rd t]) u = r_acc s u.
  Proof.
    intros s t u Hu. unfold rrun. cbn [fold_left rstep r_buff r_acc].
    destruct (r_acc s t) as [[f0 f1] sq]. cbn [r_acc]. unfold upd.
    destruct (Nat.eqb u t) eqn:E; [apply Nat.eqb_eq in E; congruence | reflexivity].
  Qed.

  (* number of calls caller u makes in the sequence ts, each one an add_summary of its own point *)
  Fixpoint iter_summary (k : nat) (p : pt) (a : facc) : facc :=
    match k with O => a | S k' => iter_summary k' p (add_summary p cum com a) end.

  Lemma add_summary_proper : forall p a b, facc_eq a b -> facc_eq (add_summary p cum com a) (add_summary p cum com b).
  Proof.
    intros p [[a0 a1] a2] [[b0 b1] b2] (H0 & H1 & H2). cbn [fst snd] in *.
    unfold add_summary, facc_eq. cbn [fst snd]. rewrite !Qred_correct, H0, H1, H2. repeat split; reflexivity.
  Qed.

  Lemma iter_summary_proper : forall k p a b, facc_eq a b -> facc_eq (iter_summary k p a) (iter_summary k p b).
  Proof.
    induction k as [|k IH]; intros p a b H; cbn [iter_summary]; [exact H|].
    apply IH. apply add_summary_proper. exact H.
  Qed.

  Lemma facc_eq_refl : forall a, facc_eq a a.
  Proof. intros [[a0 a1] a2]. unfold facc_eq. repeat split; reflexivity. Qed.

  Theorem atomic_schedule_is_serial_thm : forall ts s u,
    facc_eq (r_acc (rrun com cum pts s (atomic ts)) u)
            (iter_summary (count_occ Nat.eq_dec ts u) (pts u) (r_acc s u)).
  Proof.
    induction ts as [|t ts IH]; intros s u; cbn [atomic flat_map count_occ].
    - cbn. apply facc_eq_refl.
    - change (flat_map (fun t0 => [Wr t0; Rd t0]) ts) with (atomic ts).
      unfold rrun. rewrite fold_left_app. fold (rrun com cum pts s [Wr t; Rd t]).
      fold (rrun com cum pts (rrun com cum pts s [Wr t; Rd t]) (atomic ts)).
      destruct (Nat.eq_dec t u) as [->|Hne].
      + cbn [iter_summary]. pose proof (block_own s u) as Hb.
        pose proof (IH (rrun com cum pts s [Wr u; Rd u]) u) as H1.
        pose proof (iter_summary_proper (count_occ Nat.eq_dec ts u) (pts u) _ _ Hb) as H2.
        destruct H1 as (A0 & A1 & A2), H2 as (B0 & B1 & B2). unfold facc_eq.
        rewrite A0, A1, A2. repeat split; assumption.
      + rewrite <- (block_other s t u (not_eq_sym Hne)). apply IH.
  Qed.
End RaceProofs.

(* ---------- the interleaving ---------- *)
Definition race_pts (t : nat) : pt := match t with O => (1, 0) | _ => (2, 0) end.
Definition race_init : rstate := mkR (0, 0) (fun _ => (0, 0, 0)).

Theorem nonedge_forces_not_reentrant_refuted_thm :
  exists (com : pt) (cum : nat) (pts : nat -> pt),
    let serial := r_acc (rrun com cum pts race_init [Wr 0; Rd 0; Wr 1; Rd 1]%nat) 0%nat in
    let raced  := r_acc (rrun com cum pts race_init [Wr 0; Wr 1; Rd 0; Rd 1]%nat) 0%nat in
    facc_eq serial (add_summary (pts 0%nat) cum com (0, 0, 0)) /\
    ~ fst (fst raced) == fst (fst serial) /\ ~ snd raced == snd serial.
Proof.
  exists (0, 0), 1%nat, race_pts. cbv zeta. split; [|split].
  - unfold facc_eq. vm_compute. repeat split; reflexivity.
  - intros H. vm_compute in H. discriminate.
  - intros H. vm_compute in H. discriminate.
Qed.
