(* ====================================================================== *)
(*  Pca_Spec.v — what C06 claims, against the mathematical object          *)
(*    cov_spec      sample covariance 1/N sum_k (x_k - m)(x_k - m)^T       *)
(*    eig_contract  oracle contract of a symmetric eigen solver restricted *)
(*                  to d returned pairs (DESIGN 1.3)                       *)
(*    full_contract the same for a complete orthonormal decomposition      *)
(*    uncorrelated  Y^T Y / N = diag(lam)                                  *)
(*    retained      trace (Q^T C Q): the variance a projection Q retains   *)
(*  and boolean decision procedures over Qc (exact or with a tolerance)    *)
(*  that the check runs on the implementation's OWN outputs.               *)
(* ====================================================================== *)
Require Import Arith Lia List Bool ZArith QArith Qcanon.
From TK Require Import Mat_Sums Mat_Core Mat_Qc Proj_Model Proj_Spec Pca_Model.
Import ListNotations.

Section PcaSpec.
  Context {F : Type} {Fo : FieldOps F}.
  Local Open Scope nat_scope.
  Local Open Scope F_scope.

  (* centred sample k *)
  Definition centred (N : nat) (X : mat F) : mat F := fun k t => X k t - mean_vec N X t.

  (* sample covariance (the 1/N convention of the code) *)
  Definition cov_spec (N : nat) (X : mat F) : mat F :=
    fun i j => sumn N (fun k => centred N X k i * centred N X k j) / of_nat N.

  (* d returned eigenpairs of the symmetric n x n matrix B: orthonormal columns, B Vs = Vs diag lam *)
  Definition eig_contract (n d : nat) (B Vs : mat F) (lam : vec F) : Prop :=
    meq d d (mmul n (mtrans Vs) Vs) mI /\
    meq n d (mmul n B Vs) (mmul d Vs (mdiag lam)).

  (* a complete decomposition: V^T V = I, V V^T = I, B V = V diag Lam *)
  Definition full_contract (n : nat) (B V : mat F) (Lam : vec F) : Prop :=
    meq n n (mmul n (mtrans V) V) mI /\
    meq n n (mmul n V (mtrans V)) mI /\
    meq n n (mmul n B V) (mmul n V (mdiag Lam)).

  (* embedding columns uncorrelated, variances = the eigenvalues *)
  Definition uncorrelated (N d : nat) (Y : mat F) (lam : vec F) : Prop :=
    forall a b, a < d -> b < d ->
      sumn N (fun k => Y k a * Y k b) / of_nat N = if Nat.eqb a b then lam a else 0.

  (* variance retained by the D x d matrix Q:  trace (Q^T C Q) *)
  Definition retained (D d : nat) (C Q : mat F) : F :=
    sumn d (fun c => sumn D (fun i => sumn D (fun j => Q i c * C i j * Q j c))).

  (* Gram matrix of the centred samples (what Kernel PCA with the linear kernel and MDS with
     Euclidean distances decompose, see Properties_C05) *)
  Definition centred_gram (N D : nat) (X : mat F) : mat F :=
    fun i j => sumn D (fun t => centred N X i t * centred N X j t).
End PcaSpec.

(* ---------------- decision procedures over Qc ---------------- *)
Local Open Scope nat_scope.

Definition mwithin_b (n m : nat) (tol : Qc) (A B : mat Qc) : bool :=
  forallb (fun i => vwithin_b m tol (A i) (B i)) (seq 0 n).
Definition mwithin (n m : nat) (tol : Qc) (A B : mat Qc) : Prop :=
  forall i j, i < n -> j < m -> (pq_abs (A i j - B i j) <= tol)%Qc.

Lemma mwithin_b_ok n m tol A B : mwithin_b n m tol A B = true <-> mwithin n m tol A B.
Proof.
  unfold mwithin_b, mwithin. rewrite forallb_forall. split.
  - intros H i j Hi Hj. assert (Hin : In i (seq 0 n)) by (apply in_seq; lia).
    specialize (H i Hin). apply vwithin_b_ok in H. apply H. assumption.
  - intros H i Hi. apply in_seq in Hi. apply vwithin_b_ok. intros j Hj. apply H; lia.
Qed.

(* the matrix the DENSE solver sees of the returned matrix Cret is the sample covariance of Xs *)
Definition cov_seen_dense_b (N D : nat) (tol : Qc) (Xs Cret : list (list Qc)) : option bool :=
  if wf_matb N D Xs && wf_matb D D Cret then
    let C := mtab D D (cov_spec N (mof Xs)) in
    Some (mwithin_b D D tol (seen_dense (mof Cret)) (mof C))
  else None.

(* the same for the RANDOMIZED front-end (upper triangle) *)
Definition cov_seen_randomized_b (N D : nat) (tol : Qc) (Xs Cret : list (list Qc)) : option bool :=
  if wf_matb N D Xs && wf_matb D D Cret then
    let C := mtab D D (cov_spec N (mof Xs)) in
    Some (mwithin_b D D tol (seen_randomized (mof Cret)) (mof C))
  else None.

(* P (D x d) has orthonormal columns and C P = P diag(lam), every entry within tol *)
Definition eig_contract_tol_b (D d : nat) (tol : Qc) (C P : list (list Qc)) (lam : list Qc)
  : option bool :=
  if wf_matb D D C && wf_matb D d P && Nat.eqb (length lam) d then
    let Pm := mof P in
    let CP := mtab D d (mmul D (mof C) Pm) in
    Some (mwithin_b d d tol (mmul D (mtrans Pm) Pm) mI &&
          mwithin_b D d tol (mof CP) (mmul d Pm (mdiag (vof lam))))
  else None.

(* Y^T Y / N = diag(lam) within tol *)
Definition uncorrelated_tol_b (N d : nat) (tol : Qc) (Y : list (list Qc)) (lam : list Qc)
  : option bool :=
  if wf_matb N d Y && Nat.eqb (length lam) d then
    let Ym := mof Y in
    Some (mwithin_b d d tol
            (fun a b => (sumn N (fun k => Ym k a * Ym k b) / of_nat N)%F)
            (mdiag (vof lam)))
  else None.

(* retained variance of P against a bound (sum of the d largest reference eigenvalues):
   |retained - bound| <= tol *)
Definition retained_tol_b (D d : nat) (tol : Qc) (C P : list (list Qc)) (bound : Qc) : option bool :=
  if wf_matb D D C && wf_matb D d P then
    Some (pq_close tol (retained D d (mof C) (mof P)) bound)
  else None.

(* retained variance of a competitor Q does not exceed that of P (plus tol) *)
Definition not_better_tol_b (D d : nat) (tol : Qc) (C P Q : list (list Qc)) : option bool :=
  if wf_matb D D C && wf_matb D d P && wf_matb D d Q then
    Some (pq_leb (retained D d (mof C) (mof Q)) (retained D d (mof C) (mof P) + tol)%Qc)
  else None.
