(* FibHeap_State.v — where the real heap may keep state (property C16).

   fh_refines_map (FibHeap_Proof_Main) is a statement about ONE heap value.  A program that has several heaps
   alive (compute_shortest_distances_matrix: one per thread) is covered by it exactly when the C++ heap keeps
   all of its state in its own object.  translate/t_heapstate.py lists, from the current source, every data
   member of the records declared in utils/fibonacci_heap.hpp and every object with static storage duration
   declared there; heap_state_ok is the obligation on that table:
     - no object with static storage duration;
     - the data members are exactly the ones the abstraction accounts for (accounted): the harness dump
       (harness/c16.cpp show()) reads min_root / num_nodes / num_trees / nodes[] and per node
       index, key, marked, rank, parent, child, left, right; max_num_nodes and Dn are compared at
       construction; A is scratch that consolidate() re-initialises before use (model: local list). *)
From Coq Require Import List String Bool.
Import ListNotations.
Local Open Scope string_scope.

Definition accounted : list (string * string) := [
  ("fibonacci_heap", "A"); ("fibonacci_heap", "Dn"); ("fibonacci_heap", "max_num_nodes");
  ("fibonacci_heap", "min_root"); ("fibonacci_heap", "nodes"); ("fibonacci_heap", "num_nodes");
  ("fibonacci_heap", "num_trees");
  ("fibonacci_heap_node", "child"); ("fibonacci_heap_node", "index"); ("fibonacci_heap_node", "key");
  ("fibonacci_heap_node", "left"); ("fibonacci_heap_node", "marked"); ("fibonacci_heap_node", "parent");
  ("fibonacci_heap_node", "rank"); ("fibonacci_heap_node", "right") ].

Definition pair_eqb (a b : string * string) : bool :=
  String.eqb (fst a) (fst b) && String.eqb (snd a) (snd b).

Definition mem_pair (a : string * string) (l : list (string * string)) : bool := existsb (pair_eqb a) l.

Definition heap_state_ok (fields statics : list (string * string * string)) : bool :=
  let got := map (fun f => (fst (fst f), snd (fst f))) fields in
  match statics with [] => true | _ => false end
  && forallb (fun g => mem_pair g accounted) got
  && forallb (fun a => mem_pair a got) accounted.

Lemma pair_eqb_eq a b : pair_eqb a b = true <-> a = b.
Proof.
  destruct a as [a1 a2], b as [b1 b2]; unfold pair_eqb; cbn [fst snd].
  rewrite andb_true_iff, !String.eqb_eq. split; [intros [-> ->]; reflexivity | intros H; inversion H; auto].
Qed.

Lemma mem_pair_In a l : mem_pair a l = true <-> In a l.
Proof.
  unfold mem_pair. rewrite existsb_exists. split.
  - intros [x [Hx He]]. apply pair_eqb_eq in He. subst. exact Hx.
  - intros H. exists a. split; [exact H | apply pair_eqb_eq; reflexivity].
Qed.

(* what the boolean obligation means *)
Theorem heap_state_ok_sound fields statics :
  heap_state_ok fields statics = true ->
  statics = [] /\
  (forall r m t, In (r, m, t) fields -> In (r, m) accounted) /\
  (forall r m, In (r, m) accounted -> exists t, In (r, m, t) fields).
Proof.
  unfold heap_state_ok. rewrite !andb_true_iff. intros [[Hs Hsub] Hsup].
  split; [destruct statics; [reflexivity | discriminate] |]. split.
  - intros r m t Hin. rewrite forallb_forall in Hsub.
    apply mem_pair_In. apply Hsub. apply in_map_iff. exists (r, m, t). split; [reflexivity | exact Hin].
  - intros r m Hin. rewrite forallb_forall in Hsup. specialize (Hsup _ Hin).
    apply mem_pair_In in Hsup. apply in_map_iff in Hsup. destruct Hsup as [[[r' m'] t] [He Hf]].
    cbn [fst snd] in He. inversion He; subst. exists t. exact Hf.
Qed.
