(* ====================================================================== *)
(*  Cli_Proof_ArgvInt.v — the whole chain for an integer option, from the  *)
(*  real argv to the library parameter: cxxopts' scanner (Cli_Argv_Model), *)
(*  its integer_parser<int> (Cli_IntParse_Model), the option table and the *)
(*  kwargs wiring read from main.cpp (gen_tables).                         *)
(*  `tapkee -k <decimal numeral>` hands exactly that number to the library *)
(*  as num_neighbors (and only if it is at least 3);                       *)
(*  `tapkee --target-dimension <numeral>` likewise (at least 1).           *)
(* ====================================================================== *)
From Coq Require Import String Ascii List ZArith QArith Bool Arith Lia.
From TK Require Import Cli_Model Cli_Spec Cli_Argv_Model Cli_Argv_Spec Cli_Proof_Decide Cli_Proof_Gen
  Cli_IntParse_Model Cli_Proof_IntParse Cli.
Import ListNotations.
Local Close Scope Q_scope.
Local Open Scope string_scope.

Section ArgvInt.
  Variable dq : string -> option Q.          (* the double reading: irrelevant for integer options *)

  Definition rd_int (v : string) : option Z * option Q := (int_parse v, dq v).

  Lemma scan_k : forall s,
    scan rd_int doc_options ["-k"; s] [] = Some [("k", AVal s (int_parse s) (dq s))].
  Proof. intro s. reflexivity. Qed.

  Lemma scan_td : forall s,
    scan rd_int doc_options ["--target-dimension"; s] [] = Some [("target-dimension", AVal s (int_parse s) (dq s))].
  Proof. intro s. reflexivity. Qed.

  Theorem argv_k_decimal : forall s ps io,
    is_empty s = false -> all_digits s = true -> (digits_val s 0 <= 2147483647)%Z ->
    cli_decide_argv rd_int gen_options gen_tables ["-k"; s] = Run ps io ->
    assoc "num_neighbors" ps = Some (VInt (digits_val s 0%Z)) /\ (3 <= digits_val s 0)%Z.
  Proof.
    intros s ps io He Hd Hfit H.
    rewrite gen_argv_spec in H. unfold spec_argv in H. rewrite scan_k in H.
    unfold spec_decide in H. apply spec_run_inv in H.
    destruct (rf_k _ _ _ _ H) as [z [Hz [H3 Hk]]].
    cbn in Hz. rewrite (int_parse_decimal s He Hd Hfit) in Hz. injection Hz as <-.
    split; assumption.
  Qed.

  Theorem argv_td_decimal : forall s ps io,
    is_empty s = false -> all_digits s = true -> (digits_val s 0 <= 2147483647)%Z ->
    cli_decide_argv rd_int gen_options gen_tables ["--target-dimension"; s] = Run ps io ->
    assoc "target_dimension" ps = Some (VInt (digits_val s 0%Z)) /\ (0 < digits_val s 0)%Z.
  Proof.
    intros s ps io He Hd Hfit H.
    rewrite gen_argv_spec in H. unfold spec_argv in H. rewrite scan_td in H.
    unfold spec_decide in H. apply spec_run_inv in H.
    destruct (rf_td _ _ _ _ H) as [z [Hz [H3 Hk]]].
    cbn in Hz. rewrite (int_parse_decimal s He Hd Hfit) in Hz. injection Hz as <-.
    split; assumption.
  Qed.

  (* and a text that is not an int for cxxopts never reaches the library *)
  Theorem argv_k_not_an_int : forall s, int_parse s = None ->
    cli_decide_argv rd_int gen_options gen_tables ["-k"; s] = Exit 1%Z.
  Proof.
    intros s Hn. rewrite gen_argv_spec. unfold spec_argv. rewrite scan_k. rewrite Hn.
    unfold spec_decide. reflexivity.
  Qed.
End ArgvInt.
