(* ====================================================================== *)
(*  Pca_Model.v — executable model of tapkee's PCA pipeline (C06)          *)
(*  mirrors, step by step,                                                 *)
(*    routines/pca.hpp   compute_mean (Proj_Model.mean_vec / _exec),       *)
(*                       compute_covariance_matrix (OLD = as shipped before *)
(*                       fix F8; EXPANDED = F8 .. F49, E[xx^T] - m m^T,     *)
(*                       full symmetric matrix returned; CURRENT = after   *)
(*                       fix F49: centred vectors accumulated), project    *)
(*    routines/eigendecomposition.hpp  eigendecomposition_impl_dense:      *)
(*                       dense_wm += dense_wm^T; dense_wm /= 2; the Eigen   *)
(*                       solver then reads the LOWER triangle              *)
(*    routines/matrix_operations.hpp   DenseMatrixOperation:               *)
(*                       selfadjointView<Upper>() * rhs  (randomized path) *)
(*    methods/pca.hpp    embed()                                           *)
(*  Triangle semantics of DESIGN 1.4: matrices are FULL tables, every      *)
(*  operation says which entries it writes and which it reads.             *)
(*  Algebra regime: abstract field operations, run at Qc.  The eigen       *)
(*  solver is an ORACLE: its answer (V, Lambda) is an input.               *)
(*  Samples: X k t = feature t of sample k.  NO proofs in this file.       *)
(* ====================================================================== *)
Require Import Arith List Bool.
From TK Require Import Mat_Sums Mat_Core Mat_EigSelect Proj_Model.
Import ListNotations.

Section PcaModel.
  Context {F : Type} {Fo : FieldOps F}.
  Local Open Scope F_scope.

  Definition mzero : mat F := fun _ _ => 0.

  (* for (iter = begin; iter != end; ++iter)
       covariance_matrix.selfadjointView<Upper>().rankUpdate(current_vector, 1.0);
     samples 0 .. n-1 in this order *)
  Fixpoint cov_loop (n : nat) (X : mat F) (M : mat F) : mat F :=
    match n with
    | O => M
    | S k => rank_update_upper 1 (X k) (cov_loop k X M)
    end.

  (* covariance_matrix /= (end - begin): EVERY entry is divided *)
  Definition mdiv (N : nat) (M : mat F) : mat F := fun i j => M i j / of_nat N.

  (* the matrix just before the return statement (only the upper triangle was accumulated):
       Zero; loop; /= N; selfadjointView<Upper>().rankUpdate(mean, -1.0) *)
  Definition cov_accumulated (N : nat) (X : mat F) (mean : vec F) : mat F :=
    rank_update_upper (- (1)) mean (mdiv N (cov_loop N X mzero)).

  (* OLD (before fix F8, commit 403c552):  return covariance_matrix; *)
  Definition compute_covariance_old (N : nat) (X : mat F) (mean : vec F) : mat F :=
    cov_accumulated N X mean.

  (* EXPANDED form, shipped from fix F8 until fix F49:  E[x x^T] - mean mean^T, then
       return DenseSymmetricMatrix(covariance_matrix.selfadjointView<Eigen::Upper>());
     over an exact field it is the covariance (theorem cov_expanded_is_covariance); in binary64 the
     subtraction cancels: absolute error ~ N eps |x|^2, i.e. (offset / spread)^2 eps relative to the result *)
  Definition compute_covariance_expanded (N : nat) (X : mat F) (mean : vec F) : mat F :=
    sym_from_upper (cov_accumulated N X mean).

  (* CURRENT (fix F49): the loop accumulates the CENTRED vectors,
       callback.vector( *iter, current_vector);  current_vector -= mean;
       covariance_matrix.selfadjointView<Upper>().rankUpdate(current_vector, 1.0);
     then  covariance_matrix /= (end - begin);  there is no rank update with the mean any more *)
  Definition cov_accumulated_centred (N : nat) (X : mat F) (mean : vec F) : mat F :=
    mdiv N (cov_loop N (fun k t => X k t - mean t) mzero).

  (*   return DenseSymmetricMatrix(covariance_matrix.selfadjointView<Eigen::Upper>()); *)
  Definition compute_covariance (N : nat) (X : mat F) (mean : vec F) : mat F :=
    sym_from_upper (cov_accumulated_centred N X mean).

  (* what each solver front-end SEES of the matrix m it is handed *)
  (* dense: dense_wm = wm; dense_wm += dense_wm.transpose().eval(); dense_wm /= 2.0;
            DenseSelfAdjointEigenSolver solver(dense_wm)  -- Eigen reads the lower triangle *)
  Definition seen_dense (M : mat F) : mat F := read_lower (sym_avg M).
  (* randomized: DenseMatrixOperation: _matrix.selfadjointView<Eigen::Upper>() * rhs *)
  Definition seen_randomized (M : mat F) : mat F := read_upper M.

  (* embed(), PrincipalComponentAnalysisImplementation:
       mean = compute_mean; C = compute_covariance_matrix(mean);
       (P, _) = eigendecomposition_via(LargestEigenvalues, C, d)        <- oracle + selection
       return (project(P, mean, ...), MatrixProjectionImplementation(P, mean)) *)
  Definition pca_matrix (N : nat) (X : mat F) : mat F := compute_covariance N X (mean_vec N X).
  Definition pca_matrix_old (N : nat) (X : mat F) : mat F := compute_covariance_old N X (mean_vec N X).
  Definition pca_matrix_expanded (N : nat) (X : mat F) : mat F := compute_covariance_expanded N X (mean_vec N X).

  (* selection from a full solver answer V (columns = eigenvectors, ascending eigenvalues):
     the view comes from the generated table through Mat_EigSelect.eval_ops *)
  Definition select_cols (V : mat F) (v : view) : mat F := fun i c => V i (fst v + c)%nat.
  Definition select_vals (lam : vec F) (v : view) : vec F := fun c => lam (fst v + c)%nat.

  Definition pca_embedding (N D : nat) (X : mat F) (P : mat F) : mat F :=
    project_mat D P (mean_vec N X) X.

  (* embed(), statement by statement.  The chain of statements is extracted from the source by
     translate/t_pca.py and compared with this composition by Pca_Tie.pca_embed_chain:
       L0 = compute_mean(begin, end, features, current_dimension)
       L1 = compute_covariance_matrix(begin, end, L0, features, current_dimension)
       L2 = eigendecomposition_via(LargestEigenvalues, L1, target_dimension)   <- oracle (V, Lam)
                                                                                  for what it sees of L1,
                                                                                  sliced by the view v
       L3 = MatrixProjectionImplementation(L2.first, L0)
       return (project(L2.first, L0, ...), L3)
     result: (embedding, (proj_mat, mean_vec), matrix handed to the solver) *)
  Definition pca_embed (N D : nat) (X : mat F) (V : mat F) (v : view)
    : mat F * (mat F * vec F) * mat F :=
    let L0 := mean_vec N X in
    let L1 := compute_covariance N X L0 in
    let L2_first := select_cols V v in
    let L3 := (L2_first, L0) in
    (project_mat D L2_first L0 X, L3, L1).

  (* ---------------- list level (the loops, as executed / extracted) ---------------- *)
  (* one pass of the accumulation loop over the list of samples, the D x D table being
     re-materialised after every rank update (as the C++ updates the matrix in place) *)
  Fixpoint cov_loop_exec (D : nat) (Xs : list (list F)) (M : list (list F)) : list (list F) :=
    match Xs with
    | [] => M
    | x :: r => cov_loop_exec D r (mtab D D (rank_update_upper 1 (vof x) (mof M)))
    end.

  Definition cov_accumulated_exec (D : nat) (Xs : list (list F)) (mean : list F) : list (list F) :=
    let acc := cov_loop_exec D Xs (mtab D D mzero) in
    let divd := mtab D D (mdiv (length Xs) (mof acc)) in
    mtab D D (rank_update_upper (- (1)) (vof mean) (mof divd)).

  Definition compute_covariance_old_exec (D : nat) (Xs : list (list F)) (mean : list F)
    : pres (list (list F)) :=
    if negb (forallb (fun x => Nat.eqb (length x) D) Xs) then PDim 5 0 D
    else if negb (Nat.eqb (length mean) D) then PDim 6 (length mean) D
    else POk (cov_accumulated_exec D Xs mean).

  (* expanded form (F8 .. F49) *)
  Definition compute_covariance_expanded_exec (D : nat) (Xs : list (list F)) (mean : list F)
    : pres (list (list F)) :=
    match compute_covariance_old_exec D Xs mean with
    | POk U => POk (mtab D D (sym_from_upper (mof U)))
    | PDim a b c => PDim a b c
    end.

  (* current code: every sample is centred (current_vector -= mean) before its rank-one update *)
  Definition cov_accumulated_centred_exec (D : nat) (Xs : list (list F)) (mean : list F) : list (list F) :=
    let acc := cov_loop_exec D (map (fun x => zip_sub x mean) Xs) (mtab D D mzero) in
    mtab D D (mdiv (length Xs) (mof acc)).

  Definition compute_covariance_exec (D : nat) (Xs : list (list F)) (mean : list F)
    : pres (list (list F)) :=
    if negb (forallb (fun x => Nat.eqb (length x) D) Xs) then PDim 5 0 D
    else if negb (Nat.eqb (length mean) D) then PDim 6 (length mean) D
    else POk (mtab D D (sym_from_upper (mof (cov_accumulated_centred_exec D Xs mean)))).

  (* mean, then covariance: the first two statements of embed() *)
  Definition pca_matrix_exec (D : nat) (Xs : list (list F)) : pres (list (list F)) :=
    match compute_mean_exec D Xs with
    | POk m => compute_covariance_exec D Xs m
    | PDim a b c => PDim a b c
    end.

  Definition pca_matrix_expanded_exec (D : nat) (Xs : list (list F)) : pres (list (list F)) :=
    match compute_mean_exec D Xs with
    | POk m => compute_covariance_expanded_exec D Xs m
    | PDim a b c => PDim a b c
    end.

  Definition pca_matrix_old_exec (D : nat) (Xs : list (list F)) : pres (list (list F)) :=
    match compute_mean_exec D Xs with
    | POk m => compute_covariance_old_exec D Xs m
    | PDim a b c => PDim a b c
    end.

  Definition seen_dense_exec (D : nat) (M : list (list F)) : list (list F) :=
    mtab D D (seen_dense (mof M)).
  Definition seen_randomized_exec (D : nat) (M : list (list F)) : list (list F) :=
    mtab D D (seen_randomized (mof M)).

End PcaModel.
