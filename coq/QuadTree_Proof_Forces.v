(* QuadTree_Proof_Forces.v — computeNonEdgeForces: at theta = 0 (no coincident points) it
   returns the exact all-pairs Student-t sums; for all small enough theta it returns
   exactly what it returns at theta = 0. *)
From Coq Require Import List Arith Bool ZArith QArith Permutation Lia Lqa.
From TK Require Import QuadTree_Model QuadTree_Spec QuadTree_Proof_Base QuadTree_Proof_Insert
                       QuadTree_Proof_Main.
Import ListNotations.
Local Open Scope Q_scope.

(* ---------- triples up to Qeq ---------- *)

Lemma feq_refl : forall a, feq a a.
Proof. intros [[x y] z]. unfold feq. cbn. repeat split; reflexivity. Qed.
Lemma feq_sym : forall a b, feq a b -> feq b a.
Proof. intros a b (H1 & H2 & H3). unfold feq. repeat split; symmetry; assumption. Qed.
Lemma feq_trans : forall a b c, feq a b -> feq b c -> feq a c.
Proof.
  intros a b c (H1 & H2 & H3) (K1 & K2 & K3). unfold feq.
  repeat split; etransitivity; eassumption.
Qed.
Lemma fadd_feq : forall a a' b b', feq a a' -> feq b b' -> feq (fadd a b) (fadd a' b').
Proof.
  intros a a' b b' (H1 & H2 & H3) (K1 & K2 & K3). unfold feq, fadd. cbn [fst snd].
  rewrite H1, H2, H3, K1, K2, K3. repeat split; reflexivity.
Qed.
Lemma fadd_assoc : forall a b c, feq (fadd (fadd a b) c) (fadd a (fadd b c)).
Proof. intros a b c. unfold feq, fadd. cbn [fst snd]. repeat split; ring. Qed.
Lemma fadd_comm : forall a b, feq (fadd a b) (fadd b a).
Proof. intros a b. unfold feq, fadd. cbn [fst snd]. repeat split; ring. Qed.
Lemma fadd_0_r : forall a, feq (fadd a (0, 0, 0)) a.
Proof. intros [[x y] z]. unfold feq, fadd. cbn [fst snd]. repeat split; ring. Qed.
Lemma fadd_0_l : forall a, feq (fadd (0, 0, 0) a) a.
Proof. intros [[x y] z]. unfold feq, fadd. cbn [fst snd]. repeat split; ring. Qed.

(* ---------- the exact sums ---------- *)

Lemma exact_sums_app : forall data p i l l',
  feq (exact_sums data p i (l ++ l')) (fadd (exact_sums data p i l) (exact_sums data p i l')).
Proof.
  intros data p i l l'. induction l as [|j l IH]; cbn [app exact_sums].
  - apply feq_sym, fadd_0_l.
  - destruct (j =? i)%nat; [exact IH|].
    eapply feq_trans; [apply fadd_feq; [apply feq_refl | exact IH]|].
    apply feq_sym, fadd_assoc.
Qed.

Lemma exact_sums_perm : forall data p i l l',
  Permutation l l' -> feq (exact_sums data p i l) (exact_sums data p i l').
Proof.
  intros data p i l l' H. induction H.
  - apply feq_refl.
  - cbn [exact_sums]. destruct (x =? i)%nat; [exact IHPermutation|].
    apply fadd_feq; [apply feq_refl | exact IHPermutation].
  - cbn [exact_sums]. destruct (y =? i)%nat, (x =? i)%nat; try apply feq_refl.
    eapply feq_trans; [apply feq_sym, fadd_assoc|].
    eapply feq_trans; [|apply fadd_assoc].
    apply fadd_feq; [apply fadd_comm | apply feq_refl].
  - eapply feq_trans; eassumption.
Qed.

(* ---------- one summary term ---------- *)

Lemma sqdist_pt_eq : forall p q q', pt_eq q q' -> sqdist p q == sqdist p q'.
Proof. intros p q q' [H1 H2]. unfold sqdist. rewrite H1, H2. reflexivity. Qed.

Lemma add_summary_one : forall p com pj a,
  pt_eq com pj ->
  feq (add_summary p 1 com a)
      (fadd a (qij p pj * qij p pj * (fst p - fst pj), qij p pj * qij p pj * (snd p - snd pj), qij p pj)).
Proof.
  intros p com pj [[f0 f1] sq] E. pose proof (sqdist_pt_eq p com pj E) as ED. destruct E as [E1 E2].
  unfold add_summary, feq, fadd, qij. cbn [fst snd].
  rewrite !Qred_correct, ED, E1, E2.
  change (Qn 1) with 1. repeat split; ring.
Qed.

(* ---------- theta = 0 ---------- *)

Lemma summary_ok_0 : forall c D, summary_ok c 0 D = false.
Proof.
  intros c D. unfold summary_ok.
  assert (H : Qltb (qmax (chh c) (chw c) * qmax (chh c) (chw c)) (0 * 0 * D) = false).
  { apply Qltb_false. set (m := qmax (chh c) (chw c)). nra. }
  rewrite H. reflexivity.
Qed.

Lemma NoCo_app_r : forall data a b, NoCo data (a ++ b) -> NoCo data b.
Proof.
  intros data a b H. apply (NoCo_app_l data b a). apply (NoCo_perm data (a ++ b)); [|exact H].
  apply Permutation_app_comm.
Qed.

Lemma NoCo_singleton : forall data l j,
  NoCo data l -> In j l -> (forall x, In x l -> coinc data x j) -> l = [j].
Proof.
  intros data l j [Hnd Hu] Hj Hco.
  assert (Hall : forall x, In x l -> x = j).
  { intros x Hx. apply Hu; [exact Hx | exact Hj | apply Hco; exact Hx]. }
  pose proof (all_same_nodup_len l j Hall Hnd) as Hlen.
  destruct l as [|a [|b l]]; cbn in Hlen; try lia; [destruct Hj|].
  f_equal. apply Hall. left. reflexivity.
Qed.

Lemma forces_theta0_Inv : forall data l t,
  Inv data l t -> NoCo data l ->
  forall p i a, feq (forces_at p i 0 t a) (fadd a (exact_sums data p i l)).
Proof.
  intros data l t H.
  induction H as [c com | c j cnt cum com l Hj Hco Hin Hcnt Hagg
                 | c cum com nw ne sw se l l1 l2 l3 l4 HP I1 IH1 I2 IH2 I3 IH3 I4 IH4 HG HF Hins H2 Hagg];
    intros HN p i a.
  - cbn [forces_at exact_sums Nat.eqb]. apply feq_sym, fadd_0_r.
  - pose proof (NoCo_singleton data l j HN Hj Hco) as El. subst l.
    destruct Hagg as (Hc & Hx & Hy). cbn [length] in Hc. subst cum.
    cbn [forces_at exact_sums Nat.eqb].
    destruct (j =? i)%nat; [apply feq_sym, fadd_0_r|].
    destruct Hin as (pj & Hpj & _).
    cbn [sumx sumy] in Hx, Hy. rewrite (pt_at_nth_error _ _ _ Hpj) in *.
    assert (E : pt_eq com pj).
    { change (Qn 1) with 1 in Hx, Hy. split; lra. }
    eapply feq_trans; [apply (add_summary_one p com pj a E)|].
    apply fadd_feq; [apply feq_refl | apply feq_sym, fadd_0_r].
  - cbn [forces_at].
    pose proof (NoCo_perm _ _ _ HP HN) as HN'.
    pose proof (NoCo_app_l _ _ _ HN') as N1.
    pose proof (NoCo_app_r _ _ _ HN') as HN2.
    pose proof (NoCo_app_l _ _ _ HN2) as N2.
    pose proof (NoCo_app_r _ _ _ HN2) as HN3.
    pose proof (NoCo_app_l _ _ _ HN3) as N3.
    pose proof (NoCo_app_r _ _ _ HN3) as N4.
    destruct (cum =? 0)%nat eqn:Ecum.
    + (* impossible for a node, but harmless: l is empty *)
      apply Nat.eqb_eq in Ecum. destruct Hagg as (Hc & _). rewrite Ecum in Hc.
      destruct l; [|discriminate]. cbn [exact_sums]. apply feq_sym, fadd_0_r.
    + rewrite summary_ok_0.
      eapply feq_trans; [apply (IH4 N4)|].
      eapply feq_trans; [apply fadd_feq; [apply (IH3 N3) | apply feq_refl]|].
      eapply feq_trans; [apply fadd_feq; [apply fadd_feq; [apply (IH2 N2) | apply feq_refl] | apply feq_refl]|].
      eapply feq_trans;
        [apply fadd_feq; [apply fadd_feq; [apply fadd_feq; [apply (IH1 N1) | apply feq_refl]
                                          | apply feq_refl] | apply feq_refl]|].
      (* ((( a + E1) + E2) + E3) + E4 = a + E(l) *)
      eapply feq_trans; [apply fadd_assoc|].
      eapply feq_trans; [apply fadd_assoc|].
      eapply feq_trans; [apply fadd_assoc|].
      apply fadd_feq; [apply feq_refl|].
      eapply feq_trans; [|apply feq_sym, (exact_sums_perm data p i _ _ HP)].
      eapply feq_trans; [|apply feq_sym, exact_sums_app].
      apply fadd_feq; [apply feq_refl|].
      eapply feq_trans; [|apply feq_sym, exact_sums_app].
      apply fadd_feq; [apply feq_refl|].
      apply feq_sym, exact_sums_app.
Qed.

(* the wrapper `forces` returns what forces_at returns *)
Lemma forces_forces_at : forall data i p theta t a,
  nth_error data i = Some p -> forces data i theta t a = FDone (forces_at p i theta t a).
Proof.
  intros data i p theta t a Hi. unfold forces.
  destruct t as [c st cum com | c cum com nw ne sw se]; cbn [forces_at].
  - destruct (cum =? 0)%nat; cbn [orb]; [reflexivity|].
    destruct st as [[j cnt]|].
    + destruct (j =? i)%nat; [reflexivity | rewrite Hi; reflexivity].
    + rewrite Hi. reflexivity.
  - destruct (cum =? 0)%nat; [reflexivity | rewrite Hi; reflexivity].
Qed.

Theorem forces_theta0_gen : forall fx fuel data order root ok t,
  (forall i, In i order -> inside data root i) ->
  NoCo data order ->
  fill_order fx fuel data order (init root) = Done ok t ->
  forall i p a, nth_error data i = Some p ->
    exists r, forces data i 0 t a = FDone r /\ feq r (fadd a (exact_sums data p i order)).
Proof.
  intros fx fuel data order root ok t Hin HN E i p a Hi.
  assert (Hm : mode fx data order) by (right; exact HN).
  destruct (build_Inv fx fuel data order root Hin Hm) as [[E' _]|(t' & E' & I & Ec)]; rewrite E in E'.
  - discriminate.
  - injection E' as -> ->.
    exists (forces_at p i 0 t' a). split; [apply forces_forces_at; exact Hi|].
    assert (HN' : NoCo data (rev order)) by (apply (NoCo_perm data order); [apply Permutation_rev | exact HN]).
    eapply feq_trans; [apply (forces_theta0_Inv data (rev order) t' I HN')|].
    apply fadd_feq; [apply feq_refl|].
    apply exact_sums_perm. apply Permutation_sym, Permutation_rev.
Qed.

(* ---------- small theta: exactly the theta = 0 computation ---------- *)

Lemma qmin_pos : forall a b, 0 < a -> 0 < b -> exists m, 0 < m /\ m <= a /\ m <= b.
Proof.
  intros a b Ha Hb. destruct (Qlt_le_dec a b) as [H|H].
  - exists a. repeat split; lra.
  - exists b. repeat split; lra.
Qed.

Lemma sq_le_helper : forall theta D M,
  0 <= theta -> theta <= 1 -> 0 <= D -> theta * D <= M -> theta * theta * D <= M.
Proof.
  intros theta D M H0 H1 HD H.
  assert (K : 0 <= theta * D) by nra.
  assert (K2 : theta * (theta * D) <= 1 * (theta * D)) by (apply Qmult_le_compat_r; assumption).
  lra.
Qed.

Lemma summary_small : forall c D,
  0 < qmax (chh c) (chw c) ->
  exists th, 0 < th /\ forall theta, 0 <= theta -> theta < th -> summary_ok c theta D = false.
Proof.
  intros c D Hm. unfold summary_ok. set (m := qmax (chh c) (chw c)) in *.
  destruct (Qlt_le_dec 0 D) as [HD|HD].
  - destruct (Qlt_le_dec (m * m) D) as [H|H].
    + exists (m * m / D). split.
      * apply Qlt_shift_div_l; [exact HD|]. nra.
      * intros theta H0 Hth.
        assert (E : m * m / D * D == m * m) by (field; lra).
        assert (H1 : theta * D < m * m).
        { rewrite <- E. apply Qmult_lt_compat_r; assumption. }
        assert (H2 : m * m / D < 1).
        { apply Qlt_shift_div_r; [exact HD | lra]. }
        assert (H3 : Qltb (m * m) (theta * theta * D) = false).
        { apply Qltb_false. apply sq_le_helper; lra. }
        rewrite H3. reflexivity.
    + exists 1. split; [lra|]. intros theta H0 Hth.
      assert (H3 : Qltb (m * m) (theta * theta * D) = false).
      { apply Qltb_false. apply sq_le_helper; try lra.
        assert (K : theta * D <= 1 * D) by (apply Qmult_le_compat_r; lra). lra. }
      rewrite H3. reflexivity.
  - exists 1. split; [lra|]. intros theta H0 Hth.
    assert (H3 : Qltb 0 D = false) by (apply Qltb_false; exact HD).
    rewrite H3. apply andb_false_r.
Qed.

Lemma eventually_tree : forall t, pos_nodes t -> forall p,
  exists th, 0 < th /\ forall theta, 0 <= theta -> theta < th ->
    forall i a, forces_at p i theta t a = forces_at p i 0 t a.
Proof.
  induction t as [c st cum com | c cum com nw IH1 ne IH2 sw IH3 se IH4]; intros HP p.
  - exists 1. split; [lra|]. intros. reflexivity.
  - cbn [pos_nodes] in HP. destruct HP as (Hm & P1 & P2 & P3 & P4).
    destruct (summary_small c (sqdist p com) Hm) as (t0 & T0 & S0).
    destruct (IH1 P1 p) as (t1 & T1 & S1). destruct (IH2 P2 p) as (t2 & T2 & S2).
    destruct (IH3 P3 p) as (t3 & T3 & S3). destruct (IH4 P4 p) as (t4 & T4 & S4).
    destruct (qmin_pos t0 t1 T0 T1) as (m1 & M1 & A1 & B1).
    destruct (qmin_pos m1 t2 M1 T2) as (m2 & M2 & A2 & B2).
    destruct (qmin_pos m2 t3 M2 T3) as (m3 & M3 & A3 & B3).
    destruct (qmin_pos m3 t4 M3 T4) as (m4 & M4 & A4 & B4).
    exists m4. split; [exact M4|]. intros theta H0 Hth i a.
    cbn [forces_at]. destruct (cum =? 0)%nat; [reflexivity|].
    rewrite (S0 theta H0) by lra. rewrite summary_ok_0.
    rewrite (S1 theta H0) by lra. rewrite (S2 theta H0) by lra.
    rewrite (S3 theta H0) by lra. rewrite (S4 theta H0) by lra. reflexivity.
Qed.

Lemma eventually_points : forall t, pos_nodes t -> forall ps : list pt,
  exists th, 0 < th /\ forall p, In p ps -> forall theta, 0 <= theta -> theta < th ->
    forall i a, forces_at p i theta t a = forces_at p i 0 t a.
Proof.
  intros t HP ps. induction ps as [|q ps IH].
  - exists 1. split; [lra|]. intros p [].
  - destruct IH as (t1 & T1 & S1). destruct (eventually_tree t HP q) as (t0 & T0 & S0).
    destruct (qmin_pos t0 t1 T0 T1) as (m & M & A & B).
    exists m. split; [exact M|]. intros p [<-|Hp] theta H0 Hth i a.
    + apply S0; lra.
    + apply (S1 p Hp); lra.
Qed.

Theorem forces_eventually_exact_gen : forall fx fuel data order root ok t,
  (forall i, In i order -> inside data root i) ->
  mode fx data order ->
  fill_order fx fuel data order (init root) = Done ok t ->
  exists theta0, 0 < theta0 /\
    forall theta, 0 <= theta -> theta < theta0 ->
      forall i a, forces data i theta t a = forces data i 0 t a.
Proof.
  intros fx fuel data order root ok t Hin Hm E.
  destruct (build_Inv fx fuel data order root Hin Hm) as [[E' _]|(t' & E' & I & Ec)]; rewrite E in E'.
  - discriminate.
  - injection E' as -> ->.
    destruct (eventually_points t' (Inv_pos_nodes _ _ _ I) data) as (th & T & S).
    exists th. split; [exact T|]. intros theta H0 Hth i a.
    destruct (nth_error data i) as [p|] eqn:Hi.
    + rewrite !(forces_forces_at data i p _ t' a Hi). f_equal.
      apply (S p (nth_error_In _ _ Hi) theta H0 Hth).
    + unfold forces. rewrite Hi. reflexivity.
Qed.
