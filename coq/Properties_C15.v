(* Properties_C15.v — property C15: OpenMP regions are race-free; results do not depend on the thread
   count.  Only statements; every proof is `exact <lemma>`.

   Model:  Par_Model.v (iteration bodies = trees of Rd / Wr / Crit actions over shared and per-thread
           private locations; schedules = arbitrary interleavings of arbitrary assignments of
           iterations to threads; a Crit is one atomic step).
   Spec:   Par_Spec.v (within = footprint containment, reinit = private scratch is written before it is
           read, fp_disjoint = Bernstein's condition, race).
   Tie:    coq/gen/Omp.v is regenerated from the C++ source by translate/t_omp.py; Par_Region_Model.v
           is the descriptor language and the checker; the obligations on the generated table are the
           c15_gen_* theorems below. *)
From Coq Require Import ZArith List String Bool Permutation.
Import ListNotations.
From TK Require Import Par_Model Par_Spec Par_Proof Par_Region_Model Par_Region_Proof Par_Region_Gen
  Par_Fill_Model Par_Fill_Proof Par_Row_Model Par_Row_Proof Par_Weight_Model Par_Weight_Proof Par_Event_Proof Par_Example Omp.
From TK Require Import Par_Proof_Restore Dijkstra_Model Dijkstra_Spec Dijkstra_Sched_Model Dijkstra_Proof_Base Par_Iso_Model Par_Iso_Proof.

(* ---------------------------------------------------------------- generic theorems (once) *)

(* T1 private_reinit: a body that writes its private scratch before reading it has the same shared
   effect (on its footprint) and logs the same critical blocks from ANY private state, on ANY thread *)
Theorem c15_private_reinit :
  forall (K : Type) (K_eqb : K -> K -> bool), (forall x y, K_eqb x y = true <-> x = y) ->
  forall (V C : Type) (p : prog K V C) (R W : K -> Prop) t t' i m (p1 p2 : nat -> K -> V) lg,
    within R W p -> reinit (fun _ => False) p ->
    (forall x, R x \/ W x ->
       sh (run K_eqb t i p (mkState m p1 lg)) x = sh (run K_eqb t' i p (mkState m p2 lg)) x) /\
    proj i (clog (run K_eqb t i p (mkState m p1 lg))) = proj i (clog (run K_eqb t' i p (mkState m p2 lg))).
Proof. exact Par_Proof.private_reinit. Qed.
Print Assumptions c15_private_reinit.

(* T2 bernstein: disjoint shared footprints of distinct iterations (outside critical sections) and
   private re-initialisation.  For EVERY assignment of the n iterations to threads, EVERY schedule
   (interleaving, one action per step) and every initial private memory: no reachable configuration
   has two threads about to touch the same shared key with one of them writing; and when all threads
   have finished, each shared key holds what its owning iteration, run alone from the initial memory,
   leaves there (untouched keys keep their initial value), and each iteration has logged exactly the
   critical blocks it logs when run alone, in the same order. *)
Theorem c15_bernstein :
  forall (K : Type) (K_eqb : K -> K -> bool), (forall x y, K_eqb x y = true <-> x = y) ->
  forall (V C : Type) (n : nat) (body : nat -> prog K V C) (R W : nat -> K -> Prop),
    fp_disjoint n R W ->
    (forall i, i < n -> within (R i) (W i) (body i)) ->
    (forall i, i < n -> reinit (fun _ => False) (body i)) ->
  forall (m0 : K -> V) (pref : nat -> K -> V) asg p0 sch qs st,
    valid_asg n asg ->
    run_sched K_eqb sch (init_queues body asg, mkState m0 p0 []) = (qs, st) ->
    ~ race qs /\
    (done qs ->
       (forall i x, i < n -> W i x -> sh st x = Final K K_eqb V C body m0 pref i x) /\
       (forall x, (forall i, i < n -> ~ W i x) -> sh st x = m0 x) /\
       (forall i, i < n -> proj i (clog st) = isolog K K_eqb V C body m0 pref i) /\
       (forall j c, In (j, c) (clog st) -> j < n)).
Proof. exact Par_Proof.bernstein. Qed.
Print Assumptions c15_bernstein.

(* T3 the same, against the single-threaded execution (iterations 0..n-1 in order on one thread) *)
Theorem c15_bernstein_sequential :
  forall (K : Type) (K_eqb : K -> K -> bool), (forall x y, K_eqb x y = true <-> x = y) ->
  forall (V C : Type) (n : nat) (body : nat -> prog K V C) (R W : nat -> K -> Prop),
    fp_disjoint n R W ->
    (forall i, i < n -> within (R i) (W i) (body i)) ->
    (forall i, i < n -> reinit (fun _ => False) (body i)) ->
  forall (m0 : K -> V) (pref : nat -> K -> V),
    (forall i x, W i x \/ ~ W i x) ->
  forall asg p0 p0' sch qs st,
    valid_asg n asg ->
    run_sched K_eqb sch (init_queues body asg, mkState m0 p0 []) = (qs, st) -> done qs ->
    let sq := seq_run K_eqb body (seq 0 n) (mkState m0 p0' []) in
    (forall x, sh st x = sh sq x) /\ (forall i, proj i (clog st) = proj i (clog sq)).
Proof. exact Par_Proof.bernstein_sequential. Qed.
Print Assumptions c15_bernstein_sequential.

(* T4 logs that agree per iteration are permutations of each other ... *)
Theorem c15_proj_perm : forall (C : Type) (l1 l2 : list (nat * C)),
  (forall i, proj i l1 = proj i l2) -> Permutation l1 l2.
Proof. exact Par_Proof.proj_perm. Qed.
Print Assumptions c15_proj_perm.

(* T5 ... and the sparse matrix assembled from the shared triplet container does not depend on the
   order in which the critical sections ran (exact arithmetic: this is the "up to re-association of
   floating-point sums" of the statement) *)
Theorem c15_triplets_perm : forall l l', Permutation l l' ->
  forall r c, from_triplets l r c = from_triplets l' r c.
Proof. exact Par_Region_Proof.triplets_perm. Qed.
Print Assumptions c15_triplets_perm.

Theorem c15_critical_order_irrelevant : forall (lg lg' : list (nat * list triplet)),
  (forall i, proj i lg = proj i lg') ->
  forall r c, from_triplets (apply_log lg) r c = from_triplets (apply_log lg') r c.
Proof. exact Par_Region_Proof.critical_order_irrelevant. Qed.
Print Assumptions c15_critical_order_irrelevant.

(* ---------------------------------------------------------------- the descriptor checker is sound *)

(* T6 an accepted descriptor: a write access and any other access to the same shared variable, made by
   two DIFFERENT iterations outside critical sections, never meet at the same indices — all sizes *)
Theorem c15_checker_sound : forall accs, check_shared accs = true ->
  forall a b, In a accs -> In b accs ->
    a_kind a = AElem -> a_write a = true -> a_var a = a_var b -> a_crit b = false ->
    forall i i' v1 v2 : Z, i <> i' -> acc_sem a i v1 v2 -> acc_sem b i' v1 v2 -> False.
Proof. exact Par_Region_Proof.check_shared_sound. Qed.
Print Assumptions c15_checker_sound.

(* T7 ... nothing opaque, critical sections only append, a container appended to is touched only
   inside critical sections *)
Theorem c15_checker_crit : forall accs, check_shared accs = true ->
  forall a, In a accs ->
    a_kind a <> AOpaque /\
    (a_crit a = true -> a_kind a = AAppend) /\
    (a_kind a = AAppend -> a_crit a = true /\
       forall b, In b accs -> a_var b = a_var a -> a_crit b = true).
Proof. exact Par_Region_Proof.check_shared_crit. Qed.
Print Assumptions c15_checker_crit.

(* T8 the region theorem: ANY family of iteration bodies whose shared accesses stay inside what an
   accepted descriptor lists and which re-initialise their private scratch is race free under every
   schedule and computes what the single thread computes *)
Theorem c15_region_bernstein : forall (V C : Type) (accs : list access) (n : nat)
    (body : nat -> prog key V C) (m0 : key -> V),
  check_shared accs = true ->
  (forall i, i < n -> within (Ad accs i) (Wd accs i) (body i)) ->
  (forall i, i < n -> reinit (fun _ => False) (body i)) ->
  forall asg p0 p0' sch qs st,
    valid_asg n asg ->
    run_sched key_eqb sch (init_queues body asg, mkState m0 p0 []) = (qs, st) ->
    ~ race qs /\
    (done qs ->
       let sq := seq_run key_eqb body (seq 0 n) (mkState m0 p0' []) in
       (forall x, sh st x = sh sq x) /\ (forall i, proj i (clog st) = proj i (clog sq))).
Proof. exact Par_Region_Proof.region_bernstein. Qed.
Print Assumptions c15_region_bernstein.

(* T9 a witness reported by the search is a genuine overlap of two different iterations *)
Theorem c15_witness_sound : forall n a b v i i' v1 v2,
  find_pair n a b = Some (v, (i, i', (v1, v2))) ->
  i <> i' /\ acc_sem a i v1 v2 /\ acc_sem b i' v1 v2.
Proof. exact Par_Region_Proof.find_pair_sound. Qed.
Print Assumptions c15_witness_sound.

(* ---------------------------------------------------------------- the regions of tapkee (generated) *)

(* T10 every `omp parallel` region found in the source (isomap x2 in both heap variants, mds x2,
   diffusion, KLLE/KLTSA/HLLE weight matrices, triangulate, CLI matrix_from_callback) is accepted *)
Theorem c15_gen_regions_ok : forallb check_region regions = true.
Proof. exact Par_Region_Gen.gen_regions_ok. Qed.
Print Assumptions c15_gen_regions_ok.

(* T11 hence for each of them Bernstein's condition holds for every number of iterations *)
Theorem c15_gen_regions_disjoint : forall r, In r regions ->
  forall n, fp_disjoint n (Ad (r_shared r)) (Wd (r_shared r)).
Proof. exact Par_Region_Gen.gen_regions_disjoint. Qed.
Print Assumptions c15_gen_regions_disjoint.

(* T12 no thread-private variable that lives across iterations is classified stale
   (partial: the classification PConst / PInit / PRestored is the translator's syntactic one; that
   PInit really overwrites every location read later is proved only for the index shapes below) *)
Theorem c15_gen_regions_private_partial : forall r, In r regions ->
  forall p, In p (r_private r) -> p_class p <> PStale.
Proof. exact Par_Region_Gen.gen_regions_private. Qed.
Print Assumptions c15_gen_regions_private_partial.

(* T13 HLLE: with the counter update and column index extracted from the source, for EVERY target
   dimension d the quadratic columns 1+d .. d+d(d+1)/2 of the private Yi are each written exactly once
   per iteration and nothing outside *)
Theorem c15_gen_hlle_cover : forall d, hlle_cols_ok gen_hlle_step gen_hlle_col d = true.
Proof. exact Par_Region_Gen.gen_hlle_cover. Qed.
Print Assumptions c15_gen_hlle_cover.

(* regression: the code before the repair of F6 left column 9 stale and wrote column 12 of 10 at d = 3 *)
Theorem c15_hlle_old_refuted :
  hlle_cols_ok hlle_step_old hlle_col_expected 3 = false /\
  ~ In 9%Z (hlle_written hlle_step_old hlle_col_expected 3) /\
  In 12%Z (hlle_written hlle_step_old hlle_col_expected 3).
Proof. exact Par_Region_Proof.hlle_cols_old_refuted. Qed.
Print Assumptions c15_hlle_old_refuted.

(* ---------------------------------------------------------------- the footprints in plain arithmetic *)
Theorem c15_sym_pair_disjoint : forall i i' j j' : Z, i <> i' -> (i <= j)%Z -> (i' <= j')%Z ->
  (i, j) <> (i', j') /\ (i, j) <> (j', i') /\ (j, i) <> (i', j') /\ (j, i) <> (j', i').
Proof. exact Par_Region_Proof.sym_pair_disjoint. Qed.
Print Assumptions c15_sym_pair_disjoint.

Theorem c15_sym_pair_cover : forall N a b : Z, (0 <= a < N)%Z -> (0 <= b < N)%Z ->
  exists i, (0 <= i < N)%Z /\
    (exists j, (i <= j < N)%Z /\ ((a, b) = (i, j) \/ (a, b) = (j, i))) /\
    forall i', (0 <= i' < N)%Z ->
      (exists j', (i' <= j' < N)%Z /\ ((a, b) = (i', j') \/ (a, b) = (j', i'))) -> i' = i.
Proof. exact Par_Region_Proof.sym_pair_cover. Qed.
Print Assumptions c15_sym_pair_cover.

Theorem c15_sym_pair_from_zero_refuted :
  exists i i' j j' : Z, i <> i' /\ (0 <= j)%Z /\ (0 <= j')%Z /\ (i, j) = (j', i').
Proof. exact Par_Region_Proof.sym_pair_from_zero_refuted. Qed.
Print Assumptions c15_sym_pair_from_zero_refuted.

Theorem c15_row_disjoint : forall i i' j j' : Z, i <> i' -> (i, j) <> (i', j').
Proof. exact Par_Region_Proof.row_disjoint. Qed.
Print Assumptions c15_row_disjoint.

Theorem c15_gram_fill_cover : forall k a b : Z, (0 <= a < k)%Z -> (0 <= b < k)%Z ->
  exists i j, (0 <= i < k)%Z /\ (i <= j < k)%Z /\ ((a, b) = (i, j) \/ (a, b) = (j, i)).
Proof. exact Par_Region_Proof.gram_fill_cover. Qed.
Print Assumptions c15_gram_fill_cover.

(* ---------------------------------------------------------------- non-vacuity *)

(* the hypotheses of T2/T3/T8 hold together for a concrete accepted descriptor, body family,
   assignment (2 threads) and complete interleaved schedule *)
Example c15_hypotheses_satisfiable :
  check_shared ex_accs = true /\
  (forall i, i < 2 -> within (Ad ex_accs i) (Wd ex_accs i) (ex_body i)) /\
  (forall i, i < 2 -> reinit (fun _ => False) (ex_body i)) /\
  valid_asg 2 ex_asg /\
  exists qs st, run_sched key_eqb ex_sched (init_queues ex_body ex_asg, mkState ex_m0 ex_p0 []) = (qs, st) /\
                done qs /\ sh st (dm 0 0) = 5%Z /\ sh st (dm 1 1) = 6%Z.
Proof. exact Par_Example.ex_nonvacuous. Qed.

(* the reinit hypothesis is needed: a body that reads its scratch first gives 1 on one thread, 77 on two *)
Example c15_stale_private_refuted :
  let one := run_sched key_eqb [0; 0; 0; 0; 0; 0; 0; 0]
               (init_queues stale_body (fun t => match t with 0 => [0; 1] | _ => [] end),
                mkState ex_m0 ex_p0 []) in
  let two := run_sched key_eqb [0; 0; 0; 0; 1; 1; 1; 1]
               (init_queues stale_body ex_asg, mkState ex_m0 ex_p0 []) in
  done (fst one) /\ done (fst two) /\
  sh (snd one) (dm 1 1) = 1%Z /\ sh (snd two) (dm 1 1) = 77%Z.
Proof. exact Par_Example.stale_private_refuted. Qed.

(* the disjointness hypothesis is needed: overlapping writes are a race *)
Example c15_overlapping_writes_race : race (init_queues racy_body ex_asg).
Proof. exact Par_Example.overlapping_writes_race. Qed.

(* T6/T9 non-vacuity: the checker rejects the `j = 0` variant and the search names the entry *)
Example c15_checker_rejects_from_zero :
  let bad := [ mkAcc "dm" true false AElem (XIt 0) (XIn BTop BTop);
               mkAcc "dm" true false AElem (XIn BTop BTop) (XIt 0) ] in
  check_shared bad = false /\
  find_conflict (mkRegion "bad" bad []) = Some ("dm"%string, (0, 1, (1, 0)))%Z.
Proof. exact Par_Example.ex_from_zero. Qed.

(* ---------------------------------------------------------------- one region family end to end *)

(* T14 the symmetric fill (compute_distance_matrix x2, compute_diffusion_matrix, CLI
   matrix_from_callback) as a program of the model: for EVERY size N, assignment and interleaving there
   is no race, and when all threads are done entry (a,b) holds f (min a b) (max a b) — the value the
   callback expression gives for that pair, computed once by the iteration that owns it *)
Theorem c15_sym_fill_all_schedules :
  forall (V C : Type) (var : string) (f : nat -> nat -> V) N asg (m0 : key -> V) p0 sch qs st,
    valid_asg N asg ->
    run_sched key_eqb sch (init_queues (sym_body V C var f N) asg, mkState m0 p0 []) = (qs, st) ->
    ~ race qs /\
    (done qs -> forall a b, a < N -> b < N ->
       sh st (mkey var a b) = f (Nat.min a b) (Nat.max a b)).
Proof. exact Par_Fill_Proof.sym_fill_all_schedules. Qed.
Print Assumptions c15_sym_fill_all_schedules.

(* T15 the descriptors T-omp extracts for those regions have exactly the shape T14's body conforms to *)
Theorem c15_gen_sym_shapes :
  Forall (fun r => same_shapes (r_shared r) (sym_accs "") = true)
         (filter is_sym_region regions).
Proof. exact Par_Region_Gen.gen_sym_shapes. Qed.
Print Assumptions c15_gen_sym_shapes.

Example c15_sym_fill_example :
  valid_asg 2 ex_asg /\ done (fst sym_final) /\
  sh (snd sym_final) (mkey "dm" 1 0) = 1%Z /\ sh (snd sym_final) (mkey "dm" 1 1) = 11%Z.
Proof. exact Par_Example.ex_sym_fill. Qed.

(* ---------------------------------------------------------------- HLLE: private_reinit of Yi *)

(* T16 the model of the HLLE iteration (write column 0, columns 1..d, the quadratic columns given by the
   bookkeeping EXTRACTED FROM THE SOURCE; then read every column 0..d+d(d+1)/2; then the critical
   section) re-initialises the thread-private Yi, for every target dimension: with T2 its result does
   not depend on which neighbourhood the same thread handled before *)
Theorem c15_gen_hlle_body_reinit : forall (V C : Type) (v0 : V) (c0 : C) d,
  reinit (fun _ => False) (hlle_body V C v0 c0 gen_hlle_step gen_hlle_col d).
Proof. exact Par_Region_Gen.gen_hlle_body_reinit. Qed.
Print Assumptions c15_gen_hlle_body_reinit.

(* regression (F6): the old counter update fails private_reinit at d = 3 (column 9 read stale) *)
Theorem c15_hlle_body_old_refuted : forall (V C : Type) (v0 : V) (c0 : C),
  ~ reinit (fun _ => False) (hlle_body V C v0 c0 hlle_step_old hlle_col_expected 3).
Proof. exact Par_Fill_Proof.hlle_body_old_not_reinit. Qed.
Print Assumptions c15_hlle_body_old_refuted.

(* ---------------------------------------------------------------- triangulate end to end *)

(* T17 the loop body of triangulate as a program of the model (skip landmarks; fill the thread-private
   scratch vector; read it back; write row i): for EVERY N, number of landmarks L, target dimension d,
   assignment and interleaving there is no race, and row i of the result is h(i, ., [g(i,0)..g(i,L-1)])
   — it never sees scratch values left by another sample *)
Theorem c15_triangulate_all_schedules :
  forall (V C : Type) (evar svar : string) (g : nat -> nat -> V) (h : nat -> nat -> list V -> V)
         (skip : nat -> bool) N L d asg (m0 : key -> V) p0 sch qs st,
    valid_asg N asg ->
    run_sched key_eqb sch (init_queues (tri_body V C evar svar g h skip L d) asg, mkState m0 p0 []) = (qs, st) ->
    ~ race qs /\
    (done qs -> forall i c, i < N -> c < d ->
       sh st (mkey evar i c) = if skip i then m0 (mkey evar i c) else h i c (map (g i) (seq 0 L))).
Proof. exact Par_Row_Proof.triangulate_all_schedules. Qed.
Print Assumptions c15_triangulate_all_schedules.

Theorem c15_gen_row_shape :
  Forall (fun r => same_shapes (r_shared r) (row_accs "") = true /\
                   existsb (fun p => match p_class p with PInit => true | _ => false end) (r_private r) = true)
         (filter (fun r => contains "triangulate" (r_name r)) regions).
Proof. exact Par_Region_Gen.gen_row_shape. Qed.
Print Assumptions c15_gen_row_shape.

(* ---------------------------------------------------------------- critical sections that commute *)

(* T18 the general form of "critical bodies commute up to ~": interpret every logged block as a
   transformer of an accumulator; if the transformers respect ~ and commute up to ~, two runs that log
   the same blocks per iteration (T2/T3) end in ~-equal accumulators, whatever the order of the
   critical sections *)
Theorem c15_crit_commute_logs :
  forall (A C : Type) (eqv : A -> A -> Prop) (apply : C -> A -> A),
    (forall a, eqv a a) -> (forall a b c, eqv a b -> eqv b c -> eqv a c) ->
    (forall c a a', eqv a a' -> eqv (apply c a) (apply c a')) ->
    (forall c1 c2 a, eqv (apply c1 (apply c2 a)) (apply c2 (apply c1 a))) ->
  forall (lg lg' : list (nat * C)), (forall i, proj i lg = proj i lg') ->
  forall a, eqv (apply_all A C apply (map snd lg) a) (apply_all A C apply (map snd lg') a).
Proof. exact Par_Proof.crit_commute_logs. Qed.
Print Assumptions c15_crit_commute_logs.

(* ---------------------------------------------------------------- the weight-matrix regions end to end *)

(* T19 KLLE / KLTSA / HLLE weight matrices: an iteration re-initialises and uses its private scratch, then
   appends its block of triplets T i inside the critical section.  For EVERY number of iterations,
   assignment and interleaving: no race, and the matrix assembled from the shared container equals the
   single-threaded one (the entrywise sum over T 0 .. T (n-1)) in exact arithmetic *)
Theorem c15_weight_matrix_all_schedules :
  forall (cs : list Z) (T : nat -> list triplet) n asg (m0 : key -> Z) p0 sch qs st,
    valid_asg n asg ->
    run_sched key_eqb sch (init_queues (weight_body cs T) asg, mkState m0 p0 []) = (qs, st) ->
    ~ race qs /\
    (done qs -> forall r c,
       from_triplets (apply_log (clog st)) r c = from_triplets (List.concat (map T (seq 0 n))) r c).
Proof. exact Par_Weight_Proof.weight_matrix_all_schedules. Qed.
Print Assumptions c15_weight_matrix_all_schedules.

Theorem c15_gen_weight_shapes :
  Forall (fun r => same_shapes (r_shared r) (crit_accs "") = true)
         (filter (fun r => contains "_weight_matrix" (r_name r)) regions).
Proof. exact Par_Region_Gen.gen_weight_shapes. Qed.
Print Assumptions c15_gen_weight_shapes.

(* ---------------------------------------------------------------- preserved private state *)
From TK Require Par_Proof_Restore.

(* T20 Bernstein with PRESERVED private state (generalises T2; P empty gives T2).  P is a set of private
   keys holding a canonical content `canon` whenever a thread is between iterations: data set up once
   per thread before the loop and never written by the body (the translator's class PConst: rhs =
   Ones(k), column 0 of G), and objects the body mutates but resets before it ends (class PRestored:
   heap.clear(), local_triplets.clear()).  Bodies may read P-keys without writing them first
   (reinit P) provided they leave them canonical.  Same conclusion as T2, for every assignment,
   schedule and canonical initial private memory. *)
Theorem c15_bernstein_restore :
  forall (K : Type) (K_eqb : K -> K -> bool), (forall x y, K_eqb x y = true <-> x = y) ->
  forall (V C : Type) (n : nat) (body : nat -> prog K V C) (R W : nat -> K -> Prop),
    fp_disjoint n R W ->
    (forall i, i < n -> within (R i) (W i) (body i)) ->
  forall (P : K -> Prop) (canon : K -> V),
    (forall i, i < n -> reinit P (body i)) ->
    (forall i t (st : state K V C), i < n ->
       (forall x, P x -> pr st t x = canon x) ->
       forall x, P x -> pr (run K_eqb t i (body i) st) t x = canon x) ->
  forall (m0 : K -> V) (pref : nat -> K -> V),
    (forall x, P x -> pref 0 x = canon x) ->
  forall asg p0 sch qs st,
    valid_asg n asg ->
    (forall t x, P x -> p0 t x = canon x) ->
    run_sched K_eqb sch (init_queues body asg, mkState m0 p0 []) = (qs, st) ->
    ~ race qs /\
    (done qs ->
       (forall i x, i < n -> W i x -> sh st x = Par_Proof_Restore.Final K K_eqb V C body m0 pref i x) /\
       (forall x, (forall i, i < n -> ~ W i x) -> sh st x = m0 x) /\
       (forall i, i < n -> proj i (clog st) = Par_Proof_Restore.isolog K K_eqb V C body m0 pref i) /\
       (forall j c, In (j, c) (clog st) -> j < n)).
Proof. exact Par_Proof_Restore.bernstein_restore. Qed.
Print Assumptions c15_bernstein_restore.

(* non-vacuity of T20: a body that reads a heap-like private object first, mutates it and resets it *)
Example c15_heap_restore_example : forall asg p0 sch qs st,
  valid_asg 2 asg -> (forall t x, heapP x -> p0 t x = heap_canon x) ->
  run_sched key_eqb sch (init_queues heap_body asg, mkState ex_m0 p0 []) = (qs, st) ->
  ~ race qs /\ (done qs -> sh st (dm 0 0) = 7%Z /\ sh st (dm 1 1) = 8%Z).
Proof. exact Par_Example.ex_heap_restore. Qed.

(* ---------------------------------------------------------------- what the private-variable classes mean *)

(* T21 the class of a thread-private variable is COMPUTED in Coq (classify) from the events the translator
   lists (c15_gen_regions_ok checks that it agrees with the translator's).  At whole-object granularity,
   for every choice of which conditional events execute, the abstract program of the events satisfies
   PInit     => the hypothesis of T2 (nothing is read before it is written),
   PConst    => the body leaves the state unchanged            } the hypotheses of T20 with P = {x}
   PRestored => the variable is canonical when the body ends   } *)
Theorem c15_classify_init_sound :
  forall (K V C : Type) (x : K) (v : V) (f : V -> V) (canon : V) evs, classify evs = PInit ->
  forall take, reinit (fun _ => False) (prog_of K V C x v f canon evs take).
Proof. exact Par_Event_Proof.classify_init_sound. Qed.
Print Assumptions c15_classify_init_sound.

Theorem c15_classify_const_sound :
  forall (K : Type) (K_eqb : K -> K -> bool) (V C : Type) (x : K) (v : V) (f : V -> V) (canon : V) evs,
  classify evs = PConst ->
  forall take t i (st : state K V C),
    run K_eqb t i (prog_of K V C x v f canon evs take) st = st /\
    reinit (fun y => y = x) (prog_of K V C x v f canon evs take).
Proof. exact Par_Event_Proof.classify_const_sound. Qed.
Print Assumptions c15_classify_const_sound.

Theorem c15_classify_restored_sound :
  forall (K : Type) (K_eqb : K -> K -> bool), (forall a b, K_eqb a b = true <-> a = b) ->
  forall (V C : Type) (x : K) (v : V) (f : V -> V) (canon : V) evs, classify evs = PRestored ->
  forall take t i (st : state K V C),
    pr (run K_eqb t i (prog_of K V C x v f canon evs take) st) t x = canon /\
    reinit (fun y => y = x) (prog_of K V C x v f canon evs take).
Proof. exact Par_Event_Proof.classify_restored_sound. Qed.
Print Assumptions c15_classify_restored_sound.

Theorem c15_gen_regions_classified : forall r, In r regions ->
  forall p, In p (r_private r) -> p_class p = classify (p_events p) /\ p_class p <> PStale.
Proof. exact Par_Region_Gen.gen_regions_classified. Qed.
Print Assumptions c15_gen_regions_classified.

(* ---------------------------------------------------------------- Isomap's geodesic stage: C15 linked with C04 *)

(* T22 the loop body of compute_shortest_distances_matrix as a PROGRAM (Par_Iso_Model.iso_body: init writes, heap
   insert, passes of the while loop built on C04's step functions, heap.clear()) under EVERY assignment of the rows
   to threads and EVERY interleaving: no data race, and when all threads are done entry (k,j) of the shared matrix is
   entry j of the row C04's single-row function computes from fresh arrays — whatever s[] / f[] and the matrix held
   at the start and whatever earlier iterations of the same thread left behind; the heaps only have to start empty. *)
Theorem c15_iso_all_schedules :
  forall (fl : flavour) (nbrs : list (list nat)) (w : nat -> nat -> Z) (pick : list entry -> option entry)
         (N K R : nat) (src_of : nat -> dres (nat * nat)) (want : nat -> list (option Z)),
    (forall k, k < R -> exists src fidx, src_of k = DOk (src, fidx) /\
                                         row_fl fl nbrs w pick N K src fidx = DOk (want k)) ->
  forall (m0 : ikey -> ival) (p0 : nat -> ikey -> ival) asg sch qs st,
    mem_nbrs N K m0 = nbrs -> valid_asg R asg -> (forall t, p0 t KHeap = VH []) ->
    run_sched ikey_eqb sch (init_queues (iso_body fl w pick N K src_of) asg, mkState m0 p0 []) = (qs, st) ->
    ~ race qs /\
    (done qs ->
       (forall k j, k < R -> j < N -> sh st (KD k j) = VD (nth j (want k) None)) /\
       (forall x, (forall k j, k < R -> x <> KD k j) -> sh st x = m0 x)).
Proof. exact Par_Iso_Proof.iso_all_schedules. Qed.
Print Assumptions c15_iso_all_schedules.

(* T23 with C04's correctness theorems: both overloads, both heap variants, every schedule: the matrix of
   shortest-path distances (sp = Bellman-Ford characterisation of Dijkstra_Spec) *)
Theorem c15_iso_full_matrix_all_schedules : forall fl nbrs w N K pick m0 p0 asg sch qs st,
  wf_graph nbrs N K -> nonneg_w nbrs w -> pick_ok pick ->
  mem_nbrs N K m0 = nbrs -> valid_asg N asg -> (forall t, p0 t KHeap = VH []) ->
  run_sched ikey_eqb sch (init_queues (iso_body fl w pick N K (fun k => DOk (k, k))) asg, mkState m0 p0 []) = (qs, st) ->
  ~ race qs /\
  (done qs -> forall k j, k < N -> j < N -> sh st (KD k j) = VD (sp nbrs w N k j)).
Proof. exact Par_Iso_Proof.iso_full_matrix_all_schedules. Qed.
Print Assumptions c15_iso_full_matrix_all_schedules.

Theorem c15_iso_landmark_matrix_all_schedules : forall fl nbrs w N K pick lm m0 p0 asg sch qs st,
  wf_graph nbrs N K -> nonneg_w nbrs w -> pick_ok pick -> Forall (fun v => v < N) lm ->
  mem_nbrs N K m0 = nbrs -> valid_asg (List.length lm) asg -> (forall t, p0 t KHeap = VH []) ->
  run_sched ikey_eqb sch (init_queues (iso_body fl w pick N K (lm_src lm)) asg, mkState m0 p0 []) = (qs, st) ->
  ~ race qs /\
  (done qs -> forall k j, k < List.length lm -> j < N -> sh st (KD k j) = VD (sp nbrs w N (nth k lm O) j)).
Proof. exact Par_Iso_Proof.iso_landmark_matrix_all_schedules. Qed.
Print Assumptions c15_iso_landmark_matrix_all_schedules.

(* the hypotheses are satisfiable (C04's 3-vertex graph, two threads, garbage in s[] / f[] / the matrix), the model
   runs (an interleaved schedule of 2000 steps ends with both queues empty and the matrix sp_matrix), every
   well-formed neighbour table has a memory image, and the empty-heap hypothesis cannot be dropped *)
Example c15_iso_hypotheses_satisfiable :
  wf_graph Dijkstra_Proof.f4_nbrs 3 1 /\ nonneg_w Dijkstra_Proof.f4_nbrs Dijkstra_Proof.f4_w /\ pick_ok pick_first_min /\
  mem_nbrs 3 1 iso_ex_m0 = Dijkstra_Proof.f4_nbrs /\ valid_asg 3 iso_ex_asg /\ (forall t, iso_ex_p0 [] t KHeap = VH []).
Proof. exact Par_Iso_Proof.iso_hypotheses_satisfiable. Qed.

Example c15_iso_example :
  iso_ex_out PQ [] = (0, 0, sp_matrix Dijkstra_Proof.f4_nbrs Dijkstra_Proof.f4_w 3) /\
  iso_ex_out FIB [] = (0, 0, sp_matrix Dijkstra_Proof.f4_nbrs Dijkstra_Proof.f4_w 3).
Proof. exact Par_Iso_Proof.iso_example. Qed.

Theorem c15_iso_nbrs_encodable : forall nbrs N K dflt, wf_graph nbrs N K -> mem_nbrs N K (enc_nbrs nbrs dflt) = nbrs.
Proof. exact Par_Iso_Proof.enc_nbrs_ok. Qed.
Print Assumptions c15_iso_nbrs_encodable.

Example c15_iso_stale_heap_refuted :
  iso_ex_out PQ [(1, (-5)%Z)] <> (0, 0, sp_matrix Dijkstra_Proof.f4_nbrs Dijkstra_Proof.f4_w 3) /\
  nth 1 (nth 2 (snd (iso_ex_out PQ [(1, (-5)%Z)])) []) (Some 0%Z) = None.
Proof. exact Par_Iso_Proof.iso_stale_heap_refuted. Qed.

(* T24 the four generated descriptors of compute_shortest_distances_matrix have the shape T22 is about *)
Theorem c15_gen_iso_shapes :
  Forall (fun r => iso_shape r = true) (filter is_iso_region regions) /\
  List.length (filter is_iso_region regions) = 4.
Proof. exact Par_Region_Gen.gen_iso_shapes. Qed.
Print Assumptions c15_gen_iso_shapes.

(* ... and that shape means: every shared key a body inside the extracted footprint of iteration i may touch, outside
   critical sections, lies in row i of the matrix (the footprint W k = row k of T22) *)
Theorem c15_gen_iso_row_owned : forall r, In r (filter is_iso_region regions) ->
  forall i x, Ad (r_shared r) i x -> fst (snd x) = Z.of_nat i.
Proof. exact Par_Region_Gen.gen_iso_row_owned. Qed.
Print Assumptions c15_gen_iso_row_owned.

(* the while loop of the Dijkstra body ends only on an empty heap: on a normal exit the private heap is already
   canonical before heap.clear() runs (C04's loop, both heap variants) *)
Theorem c15_iso_loop_exit_heap_empty : forall fl nbrs w pick K fuel ds ds',
  loop (step_fl fl nbrs w pick K) fuel ds = DOk ds' -> d_heap ds' = [].
Proof. exact Par_Iso_Proof.loop_exit_heap_empty. Qed.
Print Assumptions c15_iso_loop_exit_heap_empty.

(* ---------------------------------------------------------------- wave 3: the team that RUNS the region
   "the same embedding for any number of threads and any assignment of loop iterations to threads": the theorems above
   take a valid assignment for granted.  Par_Team_Model describes where the assignment comes from (a worksharing `omp for`
   inside / outside an `omp parallel` of the same function; a hand-made cyclic schedule with the source of its first
   iteration and of its stride) and the execution environment (team size 1..omp_get_max_threads(), the caller's team). *)
From TK Require Import Par_Team_Model Par_Team_Proof.

(* T25 bernstein for an assignment that gives every iteration to AT MOST one thread: still no race; the footprints of the
   iterations that were given to a thread hold what they leave there; every key written only by iterations nobody was given
   still holds its INITIAL value ("the rows of the missing threads are never written") *)
Theorem c15_bernstein_partial :
  forall (K : Type) (K_eqb : K -> K -> bool), (forall x y, K_eqb x y = true <-> x = y) ->
  forall (V C : Type) (n : nat) (body : nat -> prog K V C) (R W : nat -> K -> Prop),
    fp_disjoint n R W ->
    (forall i, i < n -> within (R i) (W i) (body i)) ->
    (forall i, i < n -> reinit (fun _ => False) (body i)) ->
  forall (m0 : K -> V) (pref : nat -> K -> V) asg p0 sch qs st,
    partial_asg n asg ->
    run_sched K_eqb sch (init_queues body asg, mkState m0 p0 []) = (qs, st) ->
    ~ race qs /\
    (done qs ->
       (forall i x, i < n -> covered asg i -> W i x -> sh st x = Final K K_eqb V C body m0 pref i x) /\
       (forall x, (forall i, i < n -> W i x -> ~ covered asg i) -> sh st x = m0 x) /\
       (forall i, i < n -> covered asg i -> proj i (clog st) = isolog K K_eqb V C body m0 pref i) /\
       (forall j c, In (j, c) (clog st) -> j < n)).
Proof. exact Par_Proof.bernstein_partial. Qed.
Print Assumptions c15_bernstein_partial.

(* T26 the hand-made schedule  for (k = tid; k < n; k += step)  run by a team of `team` threads:
   step = team (omp_get_num_threads() inside the region): every iteration exactly once, for EVERY n and EVERY team size;
   step >= team: every iteration at most once, and iteration i is executed iff i mod step < team;
   step > team (omp_get_max_threads() while a smaller team runs the region): iteration `team` is executed by nobody *)
Theorem c15_cyclic_valid : forall n team, 1 <= team -> valid_asg n (cyclic_asg team team n).
Proof. exact Par_Team_Proof.cyclic_valid. Qed.
Print Assumptions c15_cyclic_valid.

Theorem c15_cyclic_covered_iff : forall n team step, 1 <= step -> team <= step ->
  partial_asg n (cyclic_asg team step n) /\
  forall i, i < n -> (covered (cyclic_asg team step n) i <-> i mod step < team).
Proof. exact Par_Team_Proof.cyclic_partial_covered. Qed.
Print Assumptions c15_cyclic_covered_iff.

Theorem c15_cyclic_max_refuted : forall n team step, team < step -> team < n ->
  ~ covered (cyclic_asg team step n) team.
Proof. exact Par_Team_Proof.cyclic_max_refuted. Qed.
Print Assumptions c15_cyclic_max_refuted.

(* T27 an orphaned worksharing loop (no `omp parallel` of its own function around it) binds to the CALLER's team: one call
   executes only the calling thread's share; it is complete exactly when the runtime gives every iteration to the caller *)
Theorem c15_orphan_valid_iff : forall n sched tid, valid_asg n sched ->
  partial_asg n (orphan_asg sched tid) /\
  (forall u i, u <> tid -> In i (sched u) -> ~ covered (orphan_asg sched tid) i) /\
  (valid_asg n (orphan_asg sched tid) <-> forall u i, In i (sched u) -> u = tid).
Proof. exact Par_Team_Proof.orphan_all. Qed.
Print Assumptions c15_orphan_valid_iff.

(* T28 the decision procedure on distribution descriptors: accepted => a valid assignment in EVERY environment (team size
   1..max, any caller's team, any runtime schedule); the two rejected forms seeded against this check lose iterations *)
Theorem c15_dist_ok_valid : forall d, dist_ok d = true ->
  forall e n, env_ok e n -> valid_asg n (dist_asg d e n).
Proof. exact Par_Team_Proof.dist_ok_valid. Qed.
Print Assumptions c15_dist_ok_valid.

Theorem c15_dist_max_refuted : forall e n, env_ok e n -> e_team e < e_max e -> e_team e < n ->
  partial_asg n (dist_asg (DCyclic FirstTid SrcMaxThreads) e n) /\
  ~ covered (dist_asg (DCyclic FirstTid SrcMaxThreads) e n) (e_team e) /\
  ~ valid_asg n (dist_asg (DCyclic FirstTid SrcMaxThreads) e n).
Proof. exact Par_Team_Proof.dist_max_refuted. Qed.
Print Assumptions c15_dist_max_refuted.

Theorem c15_dist_orphan_refuted : forall e n, env_ok e n ->
  partial_asg n (dist_asg (DWorkshare false) e n) /\
  (forall u i, u <> e_tid e -> In i (e_sched e u) -> ~ covered (dist_asg (DWorkshare false) e n) i) /\
  (valid_asg n (dist_asg (DWorkshare false) e n) <-> forall u i, In i (e_sched e u) -> u = e_tid e).
Proof. exact Par_Team_Proof.dist_orphan_refuted. Qed.
Print Assumptions c15_dist_orphan_refuted.

(* T29 regions: accepted footprints + accepted distribution => for every environment, every interleaving: no race and the
   result of the serial run;  accepted footprints + stride omp_get_max_threads(): the keys of the iterations with
   i mod max >= team keep their initial value *)
Theorem c15_region_team_bernstein : forall (V C : Type) (accs : list access) (d : dist) (n : nat)
    (body : nat -> prog key V C) (m0 : key -> V),
  check_shared accs = true -> dist_ok d = true ->
  (forall i, (i < n)%nat -> within (Ad accs i) (Wd accs i) (body i)) ->
  (forall i, (i < n)%nat -> reinit (fun _ => False) (body i)) ->
  forall e, env_ok e n ->
  forall p0 p0' sch qs st,
    run_sched key_eqb sch (init_queues body (dist_asg d e n), mkState m0 p0 []) = (qs, st) ->
    ~ race qs /\
    (done qs ->
       let sq := seq_run key_eqb body (seq 0 n) (mkState m0 p0' []) in
       (forall x, sh st x = sh sq x) /\ (forall i, proj i (clog st) = proj i (clog sq))).
Proof. exact Par_Team_Proof.region_team_bernstein. Qed.
Print Assumptions c15_region_team_bernstein.

Theorem c15_region_team_partial : forall (V C : Type) (accs : list access) (n : nat)
    (body : nat -> prog key V C) (m0 : key -> V) (pref : nat -> key -> V),
  check_shared accs = true ->
  (forall i, (i < n)%nat -> within (Ad accs i) (Wd accs i) (body i)) ->
  (forall i, (i < n)%nat -> reinit (fun _ => False) (body i)) ->
  forall e, env_ok e n ->
  forall p0 sch qs st,
    run_sched key_eqb sch (init_queues body (dist_asg (DCyclic FirstTid SrcMaxThreads) e n), mkState m0 p0 []) = (qs, st) ->
    ~ race qs /\
    (done qs ->
       (forall i x, i < n -> i mod e_max e < e_team e -> Wd accs i x ->
          sh st x = Final key key_eqb V C body m0 pref i x) /\
       (forall x, (forall i, i < n -> Wd accs i x -> e_team e <= i mod e_max e) -> sh st x = m0 x)).
Proof. exact Par_Team_Proof.region_team_partial. Qed.
Print Assumptions c15_region_team_partial.

(* T30 obligations on the generated table: every region has a distribution entry and all are accepted (no orphaned
   worksharing construct, no hand-made schedule with a stride from outside the region) — so each generated region is
   covered exactly once by whatever team runs it *)
Theorem c15_gen_dists_ok :
  forallb (fun p => dist_ok (snd p)) dists = true /\ map fst dists = map r_name regions.
Proof. exact Par_Region_Gen.gen_dists_ok. Qed.
Print Assumptions c15_gen_dists_ok.

Theorem c15_gen_dists_valid : forall nm d, In (nm, d) dists ->
  forall e n, env_ok e n -> valid_asg n (dist_asg d e n).
Proof. exact Par_Region_Gen.gen_dists_valid. Qed.
Print Assumptions c15_gen_dists_valid.

(* non-vacuity and witnesses *)
Example c15_team_env_example : env_ok (witness_env 5) 5 /\ dist_ok (DWorkshare true) = true /\
  dist_ok (DCyclic FirstTid SrcTeam) = true /\ dist_ok (DCyclic FirstTid SrcMaxThreads) = false /\
  dist_ok (DWorkshare false) = false.
Proof. exact Par_Team_Proof.team_env_example. Qed.

Example c15_team_max_example :
  dist_asg (DCyclic FirstTid SrcMaxThreads) (witness_env 5) 5 0 = [0; 4] /\
  uncovered (dist_asg (DCyclic FirstTid SrcMaxThreads) (witness_env 5) 5) 8 5 = [1; 2; 3] /\
  uncovered (dist_asg (DCyclic FirstTid SrcTeam) (witness_env 5) 5) 8 5 = [] /\
  dist_asg (DWorkshare false) (witness_env 5) 5 0 = [0; 3] /\
  uncovered (dist_asg (DWorkshare false) (witness_env 5) 5) 8 5 = [1; 2; 4] /\
  uncovered (dist_asg (DWorkshare true) (witness_env 5) 5) 8 5 = [].
Proof. exact Par_Team_Proof.team_max_example. Qed.

Example c15_team_max_program_refuted :
  fst (team_final (DCyclic FirstTid SrcMaxThreads)) 0 = [] /\
  sh (snd (team_final (DCyclic FirstTid SrcMaxThreads))) (mkey "dm" 0 4) = 4%Z /\
  sh (snd (team_final (DCyclic FirstTid SrcMaxThreads))) (mkey "dm" 4 4) = 44%Z /\
  sh (snd (team_final (DCyclic FirstTid SrcMaxThreads))) (mkey "dm" 1 1) = (-1)%Z /\
  sh team_serial (mkey "dm" 1 1) = 11%Z /\
  sh (snd (team_final (DCyclic FirstTid SrcTeam))) (mkey "dm" 1 1) = 11%Z /\
  sh (snd (team_final (DWorkshare false))) (mkey "dm" 2 2) = (-1)%Z /\
  sh team_serial (mkey "dm" 2 2) = 22%Z.
Proof. exact Par_Team_Proof.team_max_program_refuted. Qed.

(* ---------------------------------------------------------------- wave 4: "claim under the lock, fill in place after it" *)
From TK Require Import Par_Claim_Model Par_Claim_Proof.

(* T31 an accepted descriptor contains no write through an iterator / pointer into a shared container that escaped from
   the place where it was obtained (access kind AEscape, reported by the translator for `*it++ = ...` where
   `it = shared.end() - b` was taken inside a critical section) *)
Theorem c15_checker_no_escape : forall accs, check_shared accs = true ->
  forall a, In a accs -> a_kind a <> AEscape.
Proof. exact Par_Region_Proof.check_shared_no_escape. Qed.
Print Assumptions c15_checker_no_escape.

(* T32 the pattern on a growable array with a capacity (Par_Claim_Model: handles = (buffer generation, offset); a claim
   that does not fit allocates a new generation).  Reserved in full: under EVERY order of claims and fills nothing
   reallocates, no iteration is in flight during a reallocation, no fill goes through a dangling handle *)
Theorem c15_claim_fill_reserved : forall (b cap : nat) (es : list event), (b * count_claims es <= cap)%nat ->
  let s := crun b es (cinit cap) in
  v_gen (c_vec s) = 0%nat /\ c_raced s = [] /\ c_dangling s = [].
Proof. exact Par_Claim_Proof.claim_fill_reserved. Qed.
Print Assumptions c15_claim_fill_reserved.

(* T33 capped below the final size (cap < b * n: the seeded change C15_4 has b = k*k, cap = 2^22): two threads are
   enough — iteration 0 claims and is slow, the others complete, iteration 0 fills: it was in flight during a
   reallocation (the race with the reallocating copy), it writes through a handle of a dead generation (use after
   free) and its block never reaches the live container (lost triplets) *)
Theorem c15_claim_fill_capped_refuted : forall b n cap : nat, (1 <= b)%nat -> (2 <= n)%nat -> (b <= cap)%nat -> (cap < b * n)%nat ->
  let s := crun b (slow_first n) (cinit cap) in
  In 0%nat (c_raced s) /\ In 0%nat (c_dangling s) /\ ~ In 0%nat (c_live s).
Proof. exact Par_Claim_Proof.claim_fill_capped_refuted. Qed.
Print Assumptions c15_claim_fill_capped_refuted.

(* the single-threaded order shows nothing, whatever the capacity: only a second thread makes the defect visible *)
Theorem c15_claim_serial_ok : forall b n cap : nat,
  let s := crun b (serial n) (cinit cap) in c_raced s = [] /\ c_dangling s = [].
Proof. exact Par_Claim_Proof.claim_serial_ok. Qed.
Print Assumptions c15_claim_serial_ok.

(* non-vacuity: blocks of 2, capacity 4 (capped) resp. 6 (reserved), 3 iterations *)
Example c15_claim_capped_example :
  let s := crun 2 (slow_first 3) (cinit 4) in
  c_raced s = [0%nat] /\ c_dangling s = [0%nat] /\ c_live s = [2%nat; 1%nat] /\ v_gen (c_vec s) = 1%nat.
Proof. exact Par_Claim_Proof.claim_capped_example. Qed.

Example c15_claim_reserved_example :
  let s := crun 2 (slow_first 3) (cinit 6) in
  c_raced s = [] /\ c_dangling s = [] /\ c_live s = [0%nat; 2%nat; 1%nat] /\ v_gen (c_vec s) = 0%nat.
Proof. exact Par_Claim_Proof.claim_reserved_example. Qed.
