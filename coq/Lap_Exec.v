(* ====================================================================== *)
(*  Lap_Exec.v — the closed instance (Qc) of the C09 models and spec       *)
(*  decision procedures that is extracted and run by the check.            *)
(*  No proofs here.  The oracles (exp, sqrt) are passed in by the driver   *)
(*  as functions (tables of the implementation's own values).              *)
(* ====================================================================== *)
Require Import Arith List Bool ZArith QArith Qcanon.
From TK Require Import Mat_Sums Mat_Core Mat_Qc Lap_Model Lap_Spec.
Import ListNotations.

(* the arguments handed to exp, as the two routines compute them *)
Definition lap_exp_arg (d w : Qc) : Qc := ((- d) * d / w)%F.
Definition dm_exp_arg (d w : Qc) : Qc := ((- (d * d)) / w)%F.

(* compute_laplacian: dense table of the sparse matrix and the degree vector *)
Definition lap_run (dist : list (list Qc)) (width : Qc) (expo : Qc -> Qc) (n : nat)
           (nbrs : list (list nat)) : lres (list (list Qc) * list Qc) :=
  laplacian_dense (mof dist) width expo n nbrs.

(* the SPEC applied to an (implementation) output: L = D - (A + A^T), D = W 1 with
   heat i j = exp(-d(i,j)^2/width) as the property writes it *)
Definition lap_spec_run (dist : list (list Qc)) (width : Qc) (expo : Qc -> Qc) (n : nat)
           (nbrs : list (list nat)) (L : list (list Qc)) (D : list Qc) : bool :=
  let heat := mtab n n (fun i j => expo (dm_exp_arg (mof dist i j) width)) in
  lap_matrix_b (mof heat) (length (hd [] nbrs)) nbrs qeqb n L D.

Definition dm_run (dist : list (list Qc)) (width : Qc) (expo sqrto : Qc -> Qc) (n : nat)
  : list (list Qc) :=
  compute_diffusion_matrix (mof dist) width expo sqrto n.

Definition dm_sqrt_args_run (dist : list (list Qc)) (width : Qc) (expo : Qc -> Qc) (n : nat)
  : list Qc :=
  dm_sqrt_args (mof dist) width expo n.

(* the SPEC applied to an output M: M = S^-1 (P^-1 K P^-1) S^-1 for the SYMMETRIC kernel
   K i j = exp(-d(i,j)^2/width) (upper triangle of the distance table) and s = given roots *)
Definition dm_spec_run (dist : list (list Qc)) (width : Qc) (expo : Qc -> Qc) (n : nat)
           (M : list (list Qc)) (s : list Qc) : bool :=
  let K := mtab n n (fun i j => expo (dm_exp_arg (mof dist (Nat.min i j) (Nat.max i j)) width)) in
  dm_matrix_b (mof K) n qeqb M s.

(* the roots must be roots: s_j * s_j = q_j (exact stream only) *)
Definition dm_roots_ok (dist : list (list Qc)) (width : Qc) (expo : Qc -> Qc) (n : nat)
           (s : list Qc) : bool :=
  let K := mtab n n (fun i j => expo (dm_exp_arg (mof dist (Nat.min i j) (Nat.max i j)) width)) in
  Nat.eqb (length s) n &&
  forallb (fun j => qeqb (vof s j * vof s j)%F (dm_Q (mof K) n j)) (seq 0 n).

(* embed(): column selection / scaling; V, lam = full dense answer; None = out of range *)
Definition le_embed_run (N d : nat) (V : list (list Qc)) : option (list (list Qc)) :=
  match le_embedding N d (mof V) with
  | Some Y => Some (mtab N d Y)
  | None => None
  end.

Definition dm_embed_run (N d t : nat) (V : list (list Qc)) (lam : list Qc)
           (powo : Qc -> nat -> Qc) : option (list (list Qc)) :=
  match dm_embedding N d t (mof V) (vof lam) powo with
  | Some Y => Some (mtab N d Y)
  | None => None
  end.

Definition qc_pow (x : Qc) (t : nat) : Qc := fpow x t.

(* selectors only (cheap; used by the search for out-of-range requests) *)
Definition le_select_run (N d : nat) : option (nat * nat) := le_select N d.
Definition dm_select_run (N d1 : nat) : option ((nat * nat) * (nat * nat)) := dm_select N d1.
