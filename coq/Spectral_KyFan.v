(* ====================================================================== *)
(*  Spectral_KyFan.v — Ky Fan's trace inequality over an ordered field     *)
(*                                                                         *)
(*  The classical bridge from 'eigenvectors of the d extreme eigenvalues'  *)
(*  to 'optimal'.  For a symmetric M with a FULL orthonormal               *)
(*  eigendecomposition (V^T V = V V^T = I, M V = V diag lam, lam ascending)*)
(*  and ANY n x d matrix Q with orthonormal columns (Q^T Q = I_d):         *)
(*     sum of the d smallest lam <= tr(Q^T M Q) <= sum of the d largest    *)
(*  (ky_fan_min, ky_fan_max) with equality for the corresponding columns   *)
(*  of V (ky_fan_attained).                                                *)
(*  Proof: tr(Q^T M Q) = sum_t lam_t w_t with w_t = |Q^T v_t|^2,           *)
(*  0 <= w_t <= 1 (Bessel), sum_t w_t = d, then the elementary weighted-   *)
(*  sum inequality.  Every n, d, every ordered field; instance Qc at the   *)
(*  end.  Axiom free.                                                      *)
(* ====================================================================== *)
From Coq Require Import Field Ring Arith Lia List Bool.
From TK Require Import Mat_Sums Mat_Core.

Class OrderedField (F : Type) {Fo : FieldOps F} := {
  fle : F -> F -> Prop;
  fle_refl : forall x, fle x x;
  fle_trans : forall x y z, fle x y -> fle y z -> fle x z;
  fle_antisym : forall x y, fle x y -> fle y x -> x = y;
  fle_add_r : forall x y z, fle x y -> fle (fadd x z) (fadd y z);
  fle_mul_nonneg : forall x y, fle fzero x -> fle fzero y -> fle fzero (fmul x y);
  fle_sq : forall x, fle fzero (fmul x x)
}.

Section KyFan.
  Context {F : Type} {Fo : FieldOps F} {Ff : IsField F} {Fle : OrderedField F}.
  Add Field KyFanField : (@Fth F Fo Ff).
  Local Open Scope nat_scope.
  Local Open Scope F_scope.
  Notation "x <== y" := (fle x y) (at level 70, no associativity).

  (* ---------------- order basics ---------------- *)
  Lemma fle_eq x y : x = y -> x <== y.
  Proof. intros ->. apply fle_refl. Qed.

  Lemma fle_sub_nonneg x y : x <== y -> 0 <== y - x.
  Proof.
    intros H. apply (fle_add_r _ _ (- x)) in H.
    replace (x + - x) with 0 in H by ring. replace (y + - x) with (y - x) in H by ring. exact H.
  Qed.

  Lemma fle_of_sub_nonneg x y : 0 <== y - x -> x <== y.
  Proof.
    intros H. apply (fle_add_r _ _ x) in H.
    replace (0 + x) with x in H by ring. replace (y - x + x) with y in H by ring. exact H.
  Qed.

  Lemma fle_add_nonneg x y : 0 <== x -> 0 <== y -> 0 <== x + y.
  Proof.
    intros Hx Hy. apply fle_trans with y; [exact Hy|].
    apply (fle_add_r _ _ y) in Hx. replace (0 + y) with y in Hx by ring. exact Hx.
  Qed.

  Lemma sumn_nonneg n (f : nat -> F) : (forall i, (i < n)%nat -> 0 <== f i) -> 0 <== sumn n f.
  Proof.
    induction n as [|n IH]; intros H; cbn [sumn]; [apply fle_refl|].
    apply fle_add_nonneg; [apply IH; intros; apply H; lia | apply H; lia].
  Qed.

  Lemma fle_mul_nonpos x y : x <== 0 -> y <== 0 -> 0 <== x * y.
  Proof.
    intros Hx Hy. apply fle_sub_nonneg in Hx. apply fle_sub_nonneg in Hy.
    replace (x * y) with ((0 - x) * (0 - y)) by ring. apply fle_mul_nonneg; assumption.
  Qed.

  (* ---------------- the weighted-sum lemma ---------------- *)
  (* lam split by a pivot p: lam t <= p for t < d, p <= lam t for d <= t < n; weights in [0,1]
     summing to d.  Then the weighted sum dominates the sum of the first d values. *)
  Lemma weighted_sum_lower n d (lam w : nat -> F) (p : F) :
    (d <= n)%nat ->
    (forall t, (t < d)%nat -> lam t <== p) ->
    (forall t, (d <= t)%nat -> (t < n)%nat -> p <== lam t) ->
    (forall t, (t < n)%nat -> 0 <== w t) ->
    (forall t, (t < n)%nat -> w t <== 1) ->
    sumn n w = of_nat d ->
    sumn d lam <== sumn n (fun t => lam t * w t).
  Proof.
    intros Hd Hlo Hhi Hw0 Hw1 Hsum.
    apply fle_of_sub_nonneg.
    set (ind := fun t : nat => if Nat.ltb t d then (1 : F) else 0).
    assert (E : sumn n (fun t => lam t * w t) - sumn d lam
                = sumn n (fun t => (lam t - p) * (w t - ind t))).
    { rewrite <- (sumn_if_lt n d lam Hd).
      assert (Hind : sumn n ind = of_nat d).
      { unfold ind. rewrite (sumn_if_lt n d (fun _ => 1) Hd). rewrite sumn_const. ring. }
      transitivity (sumn n (fun t => lam t * w t)
                    - sumn n (fun t => if Nat.ltb t d then lam t else 0)
                    - p * (sumn n w - sumn n ind)).
      { rewrite Hsum, Hind. ring. }
      rewrite <- sumn_sub, <- sumn_sub, <- sumn_mul_l, <- sumn_sub.
      apply sumn_ext. intros t _. unfold ind. destruct (Nat.ltb t d); ring. }
    rewrite E. apply sumn_nonneg. intros t Ht. unfold ind.
    destruct (Nat.ltb t d) eqn:Htd.
    - apply Nat.ltb_lt in Htd. apply fle_mul_nonpos.
      + apply fle_of_sub_nonneg. replace (0 - (lam t - p)) with (p - lam t) by ring.
        apply fle_sub_nonneg. apply Hlo. exact Htd.
      + apply fle_of_sub_nonneg. replace (0 - (w t - 1)) with (1 - w t) by ring.
        apply fle_sub_nonneg. apply Hw1. exact Ht.
    - apply Nat.ltb_ge in Htd. apply fle_mul_nonneg.
      + apply fle_sub_nonneg. apply Hhi; assumption.
      + replace (w t - 0) with (w t) by ring. apply Hw0. exact Ht.
  Qed.

  (* the mirror image: the weighted sum is dominated by the sum of the LAST d values *)
  Lemma weighted_sum_upper n d (lam w : nat -> F) (p : F) :
    (d <= n)%nat ->
    (forall t, (t < n - d)%nat -> lam t <== p) ->
    (forall t, (n - d <= t)%nat -> (t < n)%nat -> p <== lam t) ->
    (forall t, (t < n)%nat -> 0 <== w t) ->
    (forall t, (t < n)%nat -> w t <== 1) ->
    sumn n w = of_nat d ->
    sumn n (fun t => lam t * w t) <== sumn d (fun c => lam (n - d + c)%nat).
  Proof.
    intros Hd Hlo Hhi Hw0 Hw1 Hsum.
    assert (Hnd : (n - d <= n)%nat) by lia.
    pose proof (weighted_sum_lower n (n - d) lam (fun t => 1 - w t) p Hnd Hlo Hhi) as H.
    assert (Hs : sumn n (fun t => 1 - w t) = of_nat (n - d)).
    { rewrite sumn_sub, sumn_const, Hsum.
      replace n with ((n - d) + d)%nat at 1 by lia. rewrite of_nat_add. ring. }
    specialize (H (fun t Ht => fle_sub_nonneg _ _ (Hw1 t Ht))).
    assert (H1 : forall t, (t < n)%nat -> 1 - w t <== 1).
    { intros t Ht. apply fle_of_sub_nonneg. replace (1 - (1 - w t)) with (w t) by ring.
      apply Hw0. exact Ht. }
    specialize (H H1 Hs).
    (* total = first (n-d) + last d *)
    assert (Hsplit : sumn n lam = sumn (n - d) lam + sumn d (fun c => lam (n - d + c)%nat)).
    { replace n with ((n - d) + d)%nat at 1 by lia. apply sumn_split. }
    apply fle_of_sub_nonneg. apply fle_sub_nonneg in H.
    replace (sumn d (fun c => lam (n - d + c)%nat) - sumn n (fun t => lam t * w t))
      with (sumn n (fun t => lam t * (1 - w t)) - sumn (n - d) lam); [exact H|].
    rewrite (sumn_ext n (fun t => lam t * (1 - w t)) (fun t => lam t - lam t * w t)) by (intros; ring).
    rewrite sumn_sub, Hsplit. ring.
  Qed.

  (* ---------------- trace of Q^T M Q through the eigenbasis ---------------- *)
  (* Q is n x d (Q i c); V is n x n, column t = eigenvector t *)
  Definition quad (n d : nat) (M Q : mat F) : F :=
    sumn d (fun c => sumn n (fun i => sumn n (fun j => Q i c * M i j * Q j c))).

  Definition coef (n : nat) (V Q : mat F) (t c : nat) : F := sumn n (fun i => V i t * Q i c).
  Definition weight (n d : nat) (V Q : mat F) (t : nat) : F :=
    sumn d (fun c => coef n V Q t c * coef n V Q t c).

  Definition eig_form (n : nat) (V : mat F) (lam : vec F) : mat F :=
    fun i j => sumn n (fun t => V i t * lam t * V j t).

  (* M V = V diag lam and V V^T = I give M = V diag lam V^T *)
  Lemma spectral_form n (M V : mat F) (lam : vec F) :
    meq n n (mmul n V (mtrans V)) mI ->
    meq n n (mmul n M V) (mmul n V (mdiag lam)) ->
    meq n n M (eig_form n V lam).
  Proof.
    intros HVVt HMV i j Hi Hj.
    transitivity (mmul n M (mmul n V (mtrans V)) i j).
    { unfold mmul at 1. rewrite (sumn_ext n _ (fun s => M i s * mI s j)).
      - unfold mI. rewrite sumn_delta_r by assumption. reflexivity.
      - intros s Hs. rewrite (HVVt s j Hs Hj). reflexivity. }
    rewrite <- mmul_assoc. unfold mmul at 1, eig_form. apply sumn_ext. intros t Ht.
    rewrite (HMV i t Hi Ht). rewrite mmul_diag_r by assumption. unfold mtrans. ring.
  Qed.

  Lemma quad_eig n d (V : mat F) (lam : vec F) (Q M : mat F) :
    meq n n M (eig_form n V lam) ->
    quad n d M Q = sumn n (fun t => lam t * weight n d V Q t).
  Proof.
    intros HM. unfold quad, weight.
    rewrite (sumn_ext n (fun t => lam t * sumn d _)
               (fun t => sumn d (fun c => lam t * (coef n V Q t c * coef n V Q t c))))
      by (intros; rewrite sumn_mul_l; reflexivity).
    rewrite (sumn_swap n d). apply sumn_ext. intros c _.
    transitivity (sumn n (fun i => sumn n (fun j => sumn n (fun t =>
                    lam t * ((V i t * Q i c) * (V j t * Q j c)))))).
    { apply sumn_ext. intros i Hi. apply sumn_ext. intros j Hj.
      rewrite (HM i j Hi Hj). unfold eig_form.
      rewrite <- sumn_mul_l, <- sumn_mul_r. apply sumn_ext. intros t _. ring. }
    (* move the t-sum outside *)
    rewrite (sumn_ext n _ (fun i => sumn n (fun t => sumn n (fun j =>
                    lam t * ((V i t * Q i c) * (V j t * Q j c))))))
      by (intros; apply sumn_swap).
    rewrite sumn_swap. apply sumn_ext. intros t _. unfold coef.
    rewrite sumn_mul_sumn, <- sumn_mul_l. apply sumn_ext. intros i _.
    rewrite <- sumn_mul_l. apply sumn_ext. intros j _. ring.
  Qed.

  Lemma weight_nonneg n d (V Q : mat F) t : 0 <== weight n d V Q t.
  Proof. unfold weight. apply sumn_nonneg. intros c _. apply fle_sq. Qed.

  (* sum_t w_t = d  (needs V V^T = I and Q^T Q = I) *)
  Lemma weight_sum n d (V Q : mat F) :
    meq n n (mmul n V (mtrans V)) mI ->
    meq d d (mmul n (mtrans Q) Q) mI ->
    sumn n (weight n d V Q) = of_nat d.
  Proof.
    intros HVVt HQ. unfold weight. rewrite sumn_swap.
    rewrite (sumn_ext d _ (fun _ => 1)); [rewrite sumn_const; ring|].
    intros c Hc. unfold coef.
    rewrite (sumn_ext n _ (fun t => sumn n (fun i => sumn n (fun j =>
               (Q i c * Q j c) * (V i t * V j t)))))
      by (intros t _; rewrite sumn_mul_sumn; apply sumn_ext; intros i _;
          apply sumn_ext; intros j _; ring).
    rewrite sumn_swap.
    rewrite (sumn_ext n _ (fun i => sumn n (fun j => (Q i c * Q j c) * mI i j))).
    2:{ intros i Hi. rewrite sumn_swap. apply sumn_ext. intros j Hj.
        rewrite sumn_mul_l. f_equal. specialize (HVVt i j Hi Hj). unfold mmul, mtrans in HVVt.
        exact HVVt. }
    rewrite (sumn_ext n _ (fun i => Q i c * Q i c)).
    2:{ intros i Hi. unfold mI. rewrite (sumn_ext n _ (fun j => (Q i c * Q j c) * delta j i))
          by (intros; rewrite delta_sym; reflexivity).
        rewrite sumn_delta_r by assumption. reflexivity. }
    specialize (HQ c c Hc Hc). unfold mmul, mtrans, mI in HQ. rewrite delta_eq in HQ. exact HQ.
  Qed.

  (* Bessel: w_t <= 1  (needs V^T V = I for |v_t| = 1 and Q^T Q = I) *)
  Lemma weight_le_one n d (V Q : mat F) t :
    (t < n)%nat ->
    meq n n (mmul n (mtrans V) V) mI ->
    meq d d (mmul n (mtrans Q) Q) mI ->
    weight n d V Q t <== 1.
  Proof.
    intros Ht HVtV HQ.
    set (a := fun c => coef n V Q t c).
    set (r := fun i => V i t - sumn d (fun c => a c * Q i c)).
    assert (Hr : sumn n (fun i => r i * r i) = 1 - weight n d V Q t).
    { unfold r.
      rewrite (sumn_ext n _ (fun i => V i t * V i t
                 - (1 + 1) * sumn d (fun c => a c * (V i t * Q i c))
                 + sumn d (fun c => sumn d (fun c' => (a c * a c') * (Q i c * Q i c'))))).
      2:{ intros i _.
          rewrite (sumn_ext d (fun c => a c * (V i t * Q i c)) (fun c => V i t * (a c * Q i c)))
            by (intros; ring).
          rewrite sumn_mul_l.
          rewrite (sumn_ext d (fun c => sumn d (fun c' => a c * a c' * (Q i c * Q i c')))
                     (fun c => sumn d (fun c' => a c * Q i c * (a c' * Q i c')))).
          2:{ intros c _. apply sumn_ext. intros c' _. ring. }
          rewrite <- sumn_mul_sumn. ring. }
      rewrite sumn_add, sumn_sub, sumn_mul_l.
      (* |v_t|^2 = 1 *)
      assert (E1 : sumn n (fun i => V i t * V i t) = 1).
      { specialize (HVtV t t Ht Ht). unfold mmul, mtrans, mI in HVtV. rewrite delta_eq in HVtV.
        exact HVtV. }
      (* cross term = w_t *)
      assert (E2 : sumn n (fun i => sumn d (fun c => a c * (V i t * Q i c))) = weight n d V Q t).
      { rewrite sumn_swap. unfold weight. apply sumn_ext. intros c _.
        rewrite sumn_mul_l. reflexivity. }
      (* quadratic term = w_t *)
      assert (E3 : sumn n (fun i => sumn d (fun c => sumn d (fun c' =>
                      (a c * a c') * (Q i c * Q i c')))) = weight n d V Q t).
      { rewrite sumn_swap. unfold weight. apply sumn_ext. intros c Hc.
        rewrite sumn_swap.
        rewrite (sumn_ext d _ (fun c' => (a c * a c') * mI c c')).
        2:{ intros c' Hc'. rewrite sumn_mul_l. f_equal.
            specialize (HQ c c' Hc Hc'). unfold mmul, mtrans in HQ. exact HQ. }
        unfold mI. rewrite (sumn_ext d _ (fun c' => (a c * a c') * delta c' c))
          by (intros; rewrite delta_sym; reflexivity).
        rewrite sumn_delta_r by assumption. reflexivity. }
      rewrite E1, E2, E3. ring. }
    apply fle_of_sub_nonneg. rewrite <- Hr. apply sumn_nonneg. intros i _. apply fle_sq.
  Qed.

  Definition ascending (n : nat) (lam : vec F) : Prop :=
    forall a b, (a <= b)%nat -> (b < n)%nat -> lam a <== lam b.

  (* ---------------- Ky Fan ---------------- *)
  Theorem ky_fan_max n d (M V Q : mat F) (lam : vec F) :
    (d <= n)%nat ->
    meq n n (mmul n (mtrans V) V) mI ->
    meq n n (mmul n V (mtrans V)) mI ->
    meq n n (mmul n M V) (mmul n V (mdiag lam)) ->
    ascending n lam ->
    meq d d (mmul n (mtrans Q) Q) mI ->
    quad n d M Q <== sumn d (fun c => lam (n - d + c)%nat).
  Proof.
    intros Hd HVtV HVVt HMV Hasc HQ.
    rewrite (quad_eig n d V lam Q M (spectral_form n M V lam HVVt HMV)).
    destruct d as [|d'].
    { cbn [sumn]. apply fle_eq. apply sumn_zero'. intros t _. unfold weight. cbn [sumn]. ring. }
    apply (weighted_sum_upper n (S d') lam (weight n (S d') V Q) (lam (n - S d')%nat) Hd).
    - intros t Ht. apply Hasc; lia.
    - intros t H1 H2. apply Hasc; lia.
    - intros t _. apply weight_nonneg.
    - intros t Ht. apply weight_le_one; assumption.
    - apply weight_sum; assumption.
  Qed.

  Theorem ky_fan_min n d (M V Q : mat F) (lam : vec F) :
    (d <= n)%nat ->
    meq n n (mmul n (mtrans V) V) mI ->
    meq n n (mmul n V (mtrans V)) mI ->
    meq n n (mmul n M V) (mmul n V (mdiag lam)) ->
    ascending n lam ->
    meq d d (mmul n (mtrans Q) Q) mI ->
    sumn d lam <== quad n d M Q.
  Proof.
    intros Hd HVtV HVVt HMV Hasc HQ.
    rewrite (quad_eig n d V lam Q M (spectral_form n M V lam HVVt HMV)).
    destruct (Nat.eq_dec d n) as [->|Hne].
    { destruct n as [|n']; [cbn [sumn]; apply fle_refl|].
      apply (weighted_sum_lower (S n') (S n') lam (weight (S n') (S n') V Q) (lam n') (le_n _)).
      - intros t Ht. apply Hasc; lia.
      - intros t H1 H2. lia.
      - intros t _. apply weight_nonneg.
      - intros t Ht. apply weight_le_one; assumption.
      - apply weight_sum; assumption. }
    apply (weighted_sum_lower n d lam (weight n d V Q) (lam d) Hd).
    - intros t Ht. apply Hasc; lia.
    - intros t H1 H2. apply Hasc; lia.
    - intros t _. apply weight_nonneg.
    - intros t Ht. apply weight_le_one; assumption.
    - apply weight_sum; assumption.
  Qed.

  (* the bound is attained by the eigenvector columns themselves: off .. off+d-1 *)
  Theorem ky_fan_attained n d off (M V : mat F) (lam : vec F) :
    (off + d <= n)%nat ->
    meq n n (mmul n (mtrans V) V) mI ->
    meq n n (mmul n M V) (mmul n V (mdiag lam)) ->
    quad n d M (fun i c => V i (off + c)%nat) = sumn d (fun c => lam (off + c)%nat).
  Proof.
    intros Hle HVtV HMV. unfold quad. apply sumn_ext. intros c Hc.
    rewrite (sumn_ext n _ (fun i => V i (off + c)%nat * (lam (off + c)%nat * V i (off + c)%nat))).
    2:{ intros i Hi.
        rewrite (sumn_ext n _ (fun j => V i (off + c)%nat * (M i j * V j (off + c)%nat)))
          by (intros; ring).
        rewrite sumn_mul_l. f_equal.
        assert (Hoc : (off + c < n)%nat) by lia.
        pose proof (HMV i (off + c)%nat Hi Hoc) as E. unfold mmul at 1 in E. rewrite E.
        rewrite mmul_diag_r by assumption. ring. }
    rewrite (sumn_ext n _ (fun i => lam (off + c)%nat * (mtrans V (off + c)%nat i * V i (off + c)%nat)))
      by (intros; unfold mtrans; ring).
    rewrite sumn_mul_l.
    assert (Hoc : (off + c < n)%nat) by lia.
    pose proof (HVtV (off + c)%nat (off + c)%nat Hoc Hoc) as E.
    unfold mmul in E. rewrite E. unfold mI. rewrite delta_eq. ring.
  Qed.

  Theorem ky_fan n d (M V Q : mat F) (lam : vec F) :
    (d <= n)%nat ->
    meq n n (mmul n (mtrans V) V) mI ->
    meq n n (mmul n V (mtrans V)) mI ->
    meq n n (mmul n M V) (mmul n V (mdiag lam)) ->
    ascending n lam ->
    meq d d (mmul n (mtrans Q) Q) mI ->
    sumn d lam <== quad n d M Q /\
    quad n d M Q <== sumn d (fun c => lam (n - d + c)%nat) /\
    quad n d M (fun i c => V i (n - d + c)%nat) = sumn d (fun c => lam (n - d + c)%nat).
  Proof.
    intros Hd H1 H2 H3 H4 H5. split; [|split].
    - exact (ky_fan_min n d M V Q lam Hd H1 H2 H3 H4 H5).
    - exact (ky_fan_max n d M V Q lam Hd H1 H2 H3 H4 H5).
    - apply (ky_fan_attained n d (n - d) M V lam); [lia|assumption|assumption].
  Qed.

End KyFan.

(* ---------------- the Qc instance ---------------- *)
From Coq Require Import ZArith QArith Qcanon Lqa.
From TK Require Import Mat_Qc.

Lemma Qc_sq_nonneg (x : Qc) : (Q2Qc 0 <= x * x)%Qc.
Proof.
  unfold Qcle. cbn [this Q2Qc Qcmult]. rewrite !Qred_correct.
  destruct x as [q Hq]. cbn [this]. nra.
Qed.

Lemma Qc_mul_nonneg (x y : Qc) : (Q2Qc 0 <= x)%Qc -> (Q2Qc 0 <= y)%Qc -> (Q2Qc 0 <= x * y)%Qc.
Proof.
  unfold Qcle. cbn [this Q2Qc Qcmult]. rewrite !Qred_correct.
  destruct x as [p Hp], y as [q Hq]. cbn [this]. intros H1 H2. nra.
Qed.

Global Instance QcOrdered : @OrderedField Qc QcOps := {|
  fle := Qcle;
  fle_refl := Qcle_refl;
  fle_trans := Qcle_trans;
  fle_antisym := Qcle_antisym;
  fle_add_r := fun x y z H => Qcplus_le_compat x y z z H (Qcle_refl z);
  fle_mul_nonneg := Qc_mul_nonneg;
  fle_sq := Qc_sq_nonneg
|}.
