(* ====================================================================== *)
(*  Spectral_KyFan.v — Ky Fan's trace inequality over an ordered field     *)
(*                                                                         *)
(*  This is the classical bridge from "eigenvectors of the d extreme       *)
(*  eigenvalues" to "optimal": for a symmetric M with a FULL orthonormal   *)
(*  eigendecomposition  M = V diag(lam) V^T  (V^T V = V V^T = I) and any   *)
(*  n x d matrix Y with orthonormal columns (Y^T Y = I_d),                 *)
(*     tr(Y^T M Y) >= sum of the d smallest eigenvalues     (ky_fan_min)   *)
(*     tr(Y^T M Y) <= sum of the d largest  eigenvalues     (ky_fan_max)   *)
(*  with equality for Y = the corresponding columns of V (ky_fan_attained).*)
(*  Used to upgrade the `_partial` optimality clauses of C05/C06/C08/C09/  *)
(*  C10: what remains assumed there is only the eigen-solver oracle        *)
(*  contract (that the returned pairs are part of such a decomposition).   *)
(*                                                                         *)
(*  Everything is proved for every n, d and every ordered field; the       *)
(*  closed instances at Qc are at the end of the file.  Axiom free.        *)
(* ====================================================================== *)
From Coq Require Import Field Ring Arith Lia List Bool QArith Qcanon.
From TK Require Import Mat_Sums Mat_Core Mat_Qc.

Class OrderedField (F : Type) {Fo : FieldOps F} {Ff : IsField F} := {
  fle : F -> F -> Prop;
  fle_refl : forall x, fle x x;
  fle_trans : forall x y z, fle x y -> fle y z -> fle x z;
  fle_add_r : forall x y z, fle x y -> fle (fadd x z) (fadd y z);
  fle_mul_nonneg : forall x y, fle fzero x -> fle fzero y -> fle fzero (fmul x y);
  fle_sq : forall x, fle fzero (fmul x x)
}.

Section KyFan.
  Context {F : Type} {Fo : FieldOps F} {Ff : IsField F} {Fle : OrderedField F}.
  Add Field KyFanField : (@Fth F Fo Ff).
  Local Open Scope F_scope.
  Infix "<=" := fle : F_scope.

  (* ---------------- order basics ---------------- *)
  Lemma fle_eq x y : x = y -> x <= y.
  Proof. intros ->. apply fle_refl. Qed.

  Lemma fle_sub_nonneg x y : x <= y -> 0 <= y - x.
  Proof.
    intros H. apply (fle_add_r _ _ (- x)) in H.
    replace (x + - x) with 0 in H by ring. replace (y + - x) with (y - x) in H by ring. exact H.
  Qed.

  Lemma fle_of_sub_nonneg x y : 0 <= y - x -> x <= y.
  Proof.
    intros H. apply (fle_add_r _ _ x) in H.
    replace (0 + x) with x in H by ring. replace (y - x + x) with y in H by ring. exact H.
  Qed.

  Lemma fle_add_nonneg x y : 0 <= x -> 0 <= y -> 0 <= x + y.
  Proof.
    intros Hx Hy. apply fle_trans with y; [exact Hy|].
    apply (fle_add_r _ _ y) in Hx. replace (0 + y) with y in Hx by ring. exact Hx.
  Qed.

  Lemma sumn_nonneg n f : (forall i, i < n -> 0 <= f i) -> 0 <= sumn n f.
  Proof.
    induction n as [|n IH]; intros H; cbn [sumn]; [apply fle_refl|].
    apply fle_add_nonneg; [apply IH; intros; apply H; lia | apply H; lia].
  Qed.

  Lemma fle_mul_nonpos x y : x <= 0 -> y <= 0 -> 0 <= x * y.
  Proof.
    intros Hx Hy. apply fle_sub_nonneg in Hx. apply fle_sub_nonneg in Hy.
    replace (x * y) with ((0 - x) * (0 - y)) by ring. apply fle_mul_nonneg; assumption.
  Qed.

  (* ---------------- the weighted-sum lemma ---------------- *)
  (* lam is split by a pivot p: lam t <= p for t < d, p <= lam t for d <= t < n;
     weights in [0,1] summing to d.  Then the weighted sum dominates the sum of
     the first d values. *)
  Lemma weighted_sum_lower n d (lam w : nat -> F) (p : F) :
    d <= n ->
    (forall t, t < d -> lam t <= p) ->
    (forall t, d <= t -> t < n -> p <= lam t) ->
    (forall t, t < n -> 0 <= w t) ->
    (forall t, t < n -> w t <= 1) ->
    sumn n w = of_nat d ->
    sumn d lam <= sumn n (fun t => lam t * w t).
  Proof.
    intros Hd Hlo Hhi Hw0 Hw1 Hsum.
    apply fle_of_sub_nonneg.
    set (ind := fun t : nat => if Nat.ltb t d then 1 else 0).
    assert (E : sumn n (fun t => lam t * w t) - sumn d lam
                = sumn n (fun t => (lam t - p) * (w t - ind t))).
    { rewrite <- (sumn_if_lt n d lam Hd).
      assert (Hind : sumn n ind = of_nat d).
      { unfold ind. rewrite (sumn_if_lt n d (fun _ => 1) Hd). rewrite sumn_const. ring. }
      transitivity (sumn n (fun t => lam t * w t) - sumn n (fun t => if Nat.ltb t d then lam t else 0)
                    - p * (sumn n w - sumn n ind)).
      { rewrite Hsum, Hind. ring. }
      rewrite <- sumn_sub, <- sumn_sub, <- sumn_mul_l, <- sumn_sub.
      apply sumn_ext. intros t _. unfold ind. destruct (Nat.ltb t d); ring. }
    rewrite E. apply sumn_nonneg. intros t Ht. unfold ind.
    destruct (Nat.ltb t d) eqn:Htd.
    - apply Nat.ltb_lt in Htd. apply fle_mul_nonpos.
      + apply fle_of_sub_nonneg. replace (0 - (lam t - p)) with (p - lam t) by ring.
        apply fle_sub_nonneg. apply Hlo. exact Htd.
      + apply fle_of_sub_nonneg. replace (0 - (w t - 1)) with (1 - w t) by ring.
        apply fle_sub_nonneg. apply Hw1. exact Ht.
    - apply Nat.ltb_ge in Htd. apply fle_mul_nonneg.
      + apply fle_sub_nonneg. apply Hhi; assumption.
      + replace (w t - 0) with (w t) by ring. apply Hw0. exact Ht.
  Qed.

  (* ---------------- trace of Y^T M Y through the eigenbasis ---------------- *)
  Definition trace (d : nat) (A : mat) : F := sumn d (fun c => A c c).

  (* Y is n x d (Y i c), V is n x n with columns the eigenvectors *)
  Definition quad (n d : nat) (M Y : mat) : F :=
    sumn d (fun c => sumn n (fun i => sumn n (fun j => Y i c * M i j * Y j c))).

  Lemma quad_is_trace n d M Y :
    quad n d M Y = trace d (mmul n (mmul n (mtrans Y) M) Y).
  Proof.
    unfold quad, trace, mmul, mtrans. apply sumn_ext. intros c _.
    rewrite sumn_swap. apply sumn_ext. intros j _.
    rewrite <- sumn_mul_r. apply sumn_ext. intros i _. ring.
  Qed.

  Definition coef (n : nat) (V Y : mat) (t c : nat) : F := sumn n (fun i => V i t * Y i c).
  Definition weight (n d : nat) (V Y : mat) (t : nat) : F :=
    sumn d (fun c => coef n V Y t c * coef n V Y t c).

  Definition eig_form (n : nat) (V : mat) (lam : vec) : mat :=
    fun i j => sumn n (fun t => V i t * lam t * V j t).

  Lemma eig_form_is_product n V lam i j :
    i < n -> j < n -> eig_form n V lam i j = mmul n (mmul n V (mdiag lam)) (mtrans V) i j.
  Proof.
    intros Hi Hj. unfold eig_form, mmul at 1, mtrans. apply sumn_ext. intros t Ht.
    rewrite mmul_diag_r by exact Ht. ring.
  Qed.

  Lemma quad_eig n d V lam Y M :
    meq n n M (eig_form n V lam) ->
    quad n d M Y = sumn n (fun t => lam t * weight n d V Y t).
  Proof.
    intros HM. unfold quad, weight.
    transitivity (sumn d (fun c => sumn n (fun t => lam t * (coef n V Y t c * coef n V Y t c)))).
    - apply sumn_ext. intros c _.
      transitivity (sumn n (fun i => sumn n (fun j => sumn n (fun t =>
                      lam t * ((V i t * Y i c) * (V j t * Y j c)))))).
      { apply sumn_ext. intros i Hi. apply sumn_ext. intros j Hj.
        rewrite (HM i j Hi Hj). unfold eig_form.
        rewrite <- sumn_mul_l, <- sumn_mul_r. apply sumn_ext. intros t _. ring. }
      transitivity (sumn n (fun t => sumn n (fun i => sumn n (fun j =>
                      lam t * ((V i t * Y i c) * (V j t * Y j c)))))).
      { rewrite sumn_swap. apply sumn_ext. intros i _...
