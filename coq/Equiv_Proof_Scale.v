(* ====================================================================== *)
(*  Equiv_Proof_Scale.v — C12: centerMatrix commutes with EVERY scale      *)
(*  (the model over a field has no absolute thresholds), an early-out on   *)
(*  exactly-zero column means is harmless, an early-out on an ABSOLUTE     *)
(*  threshold is not (regression theorems for that class of edits).        *)
(* ====================================================================== *)
Require Import Field Ring Arith Lia List Bool.
From TK Require Import Mat_Sums Mat_Core Equiv_Model Equiv_Spec Equiv_Proof_Perm Equiv_Proof_Rigid.
Import ListNotations.

Section SkipExact.
  Context {F : Type} {Fo : FieldOps F} {Ff : IsField F}.
  Add Field EquivScaleField : (@Fth F Fo Ff).
  Local Open Scope F_scope.

  Lemma colmean_zero_colsum n (M : mat F) j :
    of_nat n <> 0 -> colmean n M j = 0 -> colsum n M j = 0.
  Proof.
    intros Hn H. unfold colmean in H.
    assert (E : colsum n M j = colsum n M j / of_nat n * of_nat n) by (field; exact Hn).
    rewrite E, H. ring.
  Qed.

  (* all column means zero: the matrix is its own centring, whatever the matrix *)
  Lemma center_matrix_fixpoint n (M : mat F) :
    of_nat n <> 0 -> (forall j, j < n -> colmean n M j = 0) ->
    forall i j, i < n -> j < n -> center_matrix n M i j = M i j.
  Proof.
    intros Hn Hz i j Hi Hj. unfold center_matrix.
    rewrite (Hz i Hi), (Hz j Hj).
    assert (G : grandmean n n M = 0).
    { unfold grandmean. rewrite totsum_swap.
      rewrite sumn_zero' by (intros t Ht; apply colmean_zero_colsum; auto).
      rewrite of_nat_mul. field. exact Hn. }
    rewrite G. ring.
  Qed.

  (* an early-out whose test accepts only exact zeros never changes the result *)
  Theorem center_skip_exact_harmless small n (M : mat F) :
    of_nat n <> 0 -> (forall x, small x = true -> x = 0) ->
    meq n n (center_matrix_skip small n M) (center_matrix n M).
  Proof.
    intros Hn Hs i j Hi Hj. unfold center_matrix_skip.
    destruct (forallb (fun j0 => small (colmean n M j0)) (seq 0 n)) eqn:E; [|reflexivity].
    symmetry. apply center_matrix_fixpoint; try assumption.
    intros t Ht. apply Hs.
    rewrite forallb_forall in E. apply E. apply in_seq. lia.
  Qed.

  (* the Isomap stage WITHOUT the symmetrisation of F23 (isomap_matrix_pre_f23) is equivariant as well:
     a tree that drops `(S + S^T)/2` changes the embedding (C04's business) but none of C12's relations *)
  Theorem isomap_pre_f23_perm n p q (G : mat F) :
    is_bij n p q -> meq n n (isomap_matrix_pre_f23 n (pact q G)) (pact q (isomap_matrix_pre_f23 n G)).
  Proof.
    intros Hb i j Hi Hj. unfold isomap_matrix_pre_f23.
    change (geo_sq (pact q G)) with (pact q (geo_sq G)).
    rewrite (center_matrix_perm n p q) by assumption. reflexivity.
  Qed.

  Theorem isomap_pre_f23_scale n c (G : mat F) :
    of_nat n <> 0 ->
    meq n n (isomap_matrix_pre_f23 n (mscale c G)) (mscale (c * c) (isomap_matrix_pre_f23 n G)).
  Proof.
    intros Hn i j Hi Hj. unfold isomap_matrix_pre_f23.
    rewrite (center_matrix_meq n _ (mscale (c * c) (geo_sq G))).
    - rewrite center_matrix_scale by assumption. unfold mscale. ring.
    - intros a b _ _. unfold geo_sq, mscale. ring.
    - exact Hi.
    - exact Hj.
  Qed.
End SkipExact.

Require Import ZArith QArith Qcanon Qabs.
From TK Require Import Mat_Qc Equiv_Proof_Exec.
Local Open Scope nat_scope.

(* the shape of `if (col_means.isZero()) return;` : |x| <= 10^-12, an ABSOLUTE test *)
Definition small_abs (x : Qc) : bool := Qle_bool (Qabs (this x)) (1 # 1000000000000).

Definition w_M2 : mat Qc := fun i j => if Nat.eqb i j then 0%F else 1%F.
Definition w_tiny : Qc := qfrac 1 10000000000000.

(* with the absolute test, centring no longer commutes with a scale: the 2 x 2 matrix [[0,1],[1,0]]
   (column means 1/2) is centred, its multiple by 10^-13 (column means 5 10^-14) is returned as is *)
Theorem center_skip_absolute_refuted :
  exists n (M : mat Qc) (c : Qc) i j, i < n /\ j < n /\ c <> 0%F /\
    center_matrix_skip small_abs n (mscale c M) i j <> mscale c (center_matrix_skip small_abs n M) i j.
Proof.
  exists 2%nat, w_M2, w_tiny, 0%nat, 0%nat. split; [lia|split; [lia|split]].
  - apply Qc_neq_by_compute. vm_compute. reflexivity.
  - apply Qc_neq_by_compute. vm_compute. reflexivity.
Qed.

(* ... whereas the shipped centerMatrix does, on the same witness (instance of center_matrix_scale) *)
Example center_scale_on_witness :
  meq 2 2 (center_matrix 2 (mscale w_tiny w_M2)) (mscale w_tiny (center_matrix 2 w_M2)).
Proof.
  intros i j _ _. apply center_matrix_scale. apply Qc_of_nat_neq0. lia.
Qed.
