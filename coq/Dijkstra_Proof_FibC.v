(* Dijkstra_Proof_FibC.v — Dijkstra over the CONCRETE Fibonacci-heap model of property C16
   (Dijkstra_FibC_Model.v) returns the shortest-path row.  Every heap call is discharged by C16's
   per-operation refinement theorems (insert_spec, decrease_key_spec, extract_min_spec: the
   pointer structure abstracts to a finite map `abs h`; extract_min returns a minimal key, never
   touches A[] out of range once Dn >= dn_req cap); the Dijkstra invariant is the one of
   Dijkstra_Proof_Fib.v, read through the abstraction  alpha c = (dist, s, f, entries (abs heap)). *)
From Coq Require Import List ZArith Bool Arith Lia.
From TK Require Import Dijkstra_Model Dijkstra_Spec Dijkstra_Proof_Base Dijkstra_Proof_Core
     Dijkstra_Proof_Fib Dijkstra_Proof_Spec Dijkstra_Proof Dijkstra_FibC_Model.
From TK Require FibHeap_Model FibHeap_Dn FibHeap_Proof_Basics FibHeap_Proof_Degree
     FibHeap_Proof_Decrease FibHeap_Proof_Extract FibHeap_Proof_Main.
Import ListNotations.
Local Open Scope Z_scope.

Module FM := FibHeap_Model.
Module FB := FibHeap_Proof_Basics.
Module FP := FibHeap_Proof_Main.

(* ---------- the abstraction of a concrete heap as a list of (vertex, key) ---------- *)
Definition entries (m : FM.amap) : list entry := map (fun p => (Z.to_nat (fst p), snd p)) m.

Definition alpha (c : cstate) : dstate :=
  mkD (c_dist c) (c_s c) (c_f c) (entries (FB.abs (c_heap c))).

Lemma abs_nonneg : forall h i k, FB.Inv h -> In (i, k) (FB.abs h) -> 0 <= i < FM.h_cap h.
Proof.
  intros h i k HI Hin. pose proof (FB.inv_range h HI) as HR. rewrite Forall_forall in HR.
  apply HR. unfold FB.forest_idxs. apply in_map_iff. exists (i, k). split; [reflexivity | exact Hin].
Qed.

Lemma entries_in : forall h y e, FB.Inv h ->
    (In (y, e) (entries (FB.abs h)) <-> FM.a_get (Z.of_nat y) (FB.abs h) = Some e).
Proof.
  intros h y e HI. unfold entries. rewrite in_map_iff. split.
  - intros ([i k] & Heq & Hin). cbn [fst snd] in Heq. inversion Heq; subst y e.
    destruct (abs_nonneg h i k HI Hin) as [H0 _].
    rewrite Z2Nat.id by assumption. apply FB.a_get_in; [apply FP.abs_nodup; exact HI | exact Hin].
  - intros Hg. apply FB.a_get_some_in in Hg. exists (Z.of_nat y, e). split; [|exact Hg].
    cbn [fst snd]. rewrite Nat2Z.id. reflexivity.
Qed.

Lemma of_nat_eqb : forall a b, Z.eqb (Z.of_nat a) (Z.of_nat b) = Nat.eqb a b.
Proof.
  intros a b. destruct (Nat.eqb_spec a b) as [->|Hne].
  - apply Z.eqb_refl.
  - apply Z.eqb_neq. lia.
Qed.

(* insert of an absent, in-range index *)
Lemma entries_insert : forall h v nd y e, FB.Inv h -> Z.of_nat v < FM.h_cap h ->
    FM.a_get (Z.of_nat v) (FB.abs h) = None ->
    (In (y, e) (entries (FB.abs (FM.insert (Z.of_nat v) nd h))) <->
     (y = v /\ e = nd) \/ (y <> v /\ In (y, e) (entries (FB.abs h)))).
Proof.
  intros h v nd y e HI Hcap Hnone.
  destruct (FP.insert_spec (Z.of_nat v) nd h HI) as (HI' & _ & _ & Hag).
  rewrite (entries_in _ y e HI'), (entries_in _ y e HI), (Hag (Z.of_nat y)).
  unfold FM.spec_insert.
  replace (Z.leb (FM.h_cap h) (Z.of_nat v) || Z.ltb (Z.of_nat v) 0) with false
    by (symmetry; apply orb_false_iff; split; [apply Z.leb_gt | apply Z.ltb_ge]; lia).
  rewrite Hnone, FB.a_get_set, of_nat_eqb.
  destruct (Nat.eqb_spec y v) as [->|Hne].
  - split.
    + intros H; inversion H; left; auto.
    + intros [[_ ->]|[C _]]; [reflexivity | congruence].
  - split.
    + intros H; right; auto.
    + intros [[C _]|[_ H]]; [congruence | exact H].
Qed.

(* decrease_key of a stored, in-range index to a key that is not larger *)
Lemma entries_decrease : forall h v nd d0 y e, FB.Inv h -> Z.of_nat v < FM.h_cap h ->
    FM.a_get (Z.of_nat v) (FB.abs h) = Some d0 -> nd <= d0 ->
    (In (y, e) (entries (FB.abs (FM.decrease_key (Z.of_nat v) nd h))) <->
     (y = v /\ e = nd) \/ (y <> v /\ In (y, e) (entries (FB.abs h)))).
Proof.
  intros h v nd d0 y e HI Hcap Hget Hle.
  destruct (FibHeap_Proof_Decrease.decrease_key_spec (Z.of_nat v) nd h HI) as (HI' & _ & _ & Hag).
  rewrite (entries_in _ y e HI'), (entries_in _ y e HI), (Hag (Z.of_nat y)).
  unfold FM.spec_decrease.
  replace (Z.leb (FM.h_cap h) (Z.of_nat v) || Z.ltb (Z.of_nat v) 0) with false
    by (symmetry; apply orb_false_iff; split; [apply Z.leb_gt | apply Z.ltb_ge]; lia).
  rewrite Hget.
  replace (Z.ltb d0 nd) with false by (symmetry; apply Z.ltb_ge; lia).
  rewrite FB.a_get_set, of_nat_eqb.
  destruct (Nat.eqb_spec y v) as [->|Hne].
  - split.
    + intros H; inversion H; left; auto.
    + intros [[_ ->]|[C _]]; [reflexivity | congruence].
  - split.
    + intros H; right; auto.
    + intros [[C _]|[_ H]]; [congruence | exact H].
Qed.

Section FibC.
  Variable nbrs : list (list nat).
  Variable w : nat -> nat -> Z.
  Variables N K : nat.
  Variable k : nat.
  Hypothesis Hwf : wf_graph nbrs N K.
  Hypothesis Hnn : nonneg_w nbrs w.
  Hypothesis Hk : (k < N)%nat.

  Notation inv_core := (inv_core nbrs w N k).
  Notation inv_fib := (inv_fib nbrs w N k).
  Notation midf := (midf nbrs w N k).

  (* the heap object: C16's invariant, capacity N, and a scratch array that is large enough *)
  Definition hp_ok (h : FM.heap) : Prop :=
    FB.Inv h /\ FM.h_cap h = Z.of_nat N /\ (FibHeap_Dn.dn_req (Z.of_nat N) <= FM.h_dn h)%nat.

  Definition inv_c (c : cstate) : Prop := hp_ok (c_heap c) /\ inv_fib (alpha c).

  Lemma hp_ok_insert : forall h i x, hp_ok h -> hp_ok (FM.insert i x h).
  Proof.
    intros h i x (HI & Hc & Hd). destruct (FP.insert_spec i x h HI) as (HI' & Hc' & Hd' & _).
    split; [exact HI' | split; congruence].
  Qed.

  Lemma hp_ok_decrease : forall h i x, hp_ok h -> hp_ok (FM.decrease_key i x h).
  Proof.
    intros h i x (HI & Hc & Hd).
    destruct (FibHeap_Proof_Decrease.decrease_key_spec i x h HI) as (HI' & Hc' & Hd' & _).
    split; [exact HI' | split; congruence].
  Qed.

  (* ---------- the inner for-loop ---------- *)
  Lemma relax_fibc_mid : forall u du ws c,
      (forall v, In v ws -> edge nbrs u v) -> hp_ok (c_heap c) -> midf u du ws (alpha c) ->
      exists c', relax_fibc w u ws c = DOk c' /\ hp_ok (c_heap c') /\
                 midf u du [] (alpha c') /\ c_s c' = c_s c.
  Proof.
    intros u du ws; induction ws as [|v ws IH]; intros c Hed Hhp Hmid.
    - exists c. split; [reflexivity | split; [exact Hhp | split; [exact Hmid | reflexivity]]].
    - assert (He : edge nbrs u v) by (apply Hed; left; reflexivity).
      assert (Hed' : forall v', In v' ws -> edge nbrs u v') by (intros; apply Hed; right; assumption).
      destruct (edge_lt nbrs N K Hwf u v He) as [HuN HvN].
      pose proof Hmid as (HI & HH & Hsu & Hdu & Hmax).
      pose proof (ic_len_d _ _ _ _ _ _ HI) as HLd. pose proof (ic_len_s _ _ _ _ _ _ HI) as HLs.
      pose proof HH as (HLf & HF2 & HF3).
      pose proof Hhp as (HIh & Hcap & Hdn).
      cbn [alpha d_dist d_s d_f] in HLd, HLs, HLf.
      assert (Es : nth_error (c_s c) v = Some (Sd (alpha c) v))
        by (apply (nth_error_nth_some _ (c_s c) v false); lia).
      assert (Edu : nth_error (c_dist c) u = Some (Some du)).
      { rewrite <- Hdu. apply (nth_error_nth_some _ (c_dist c) u None). lia. }
      assert (Edv : nth_error (c_dist c) v = Some (D (alpha c) v))
        by (apply (nth_error_nth_some _ (c_dist c) v None); lia).
      assert (Ef : nth_error (c_f c) v = Some (Fd (alpha c) v))
        by (apply (nth_error_nth_some _ (c_f c) v false); lia).
      assert (HvCap : Z.of_nat v < FM.h_cap (c_heap c)) by (rewrite Hcap; lia).
      cbn [relax_fibc]. rewrite Es. destruct (Sd (alpha c) v) eqn:Esv.
      + destruct (ic_fin _ _ _ _ _ _ HI v Esv) as (dv & Hdv).
        assert (Hm' : midf u du ws (alpha c)).
        { eapply midf_skip; eauto. exists dv. split; [assumption|].
          specialize (Hmax v dv Esv Hdv). specialize (Hnn u v He). lia. }
        destruct (IH c Hed' Hhp Hm') as (c' & R & P & M & S1). exists c'. auto.
      + rewrite Edu, Edv, Ef. destruct (lt_inf (du + w u v) (D (alpha c) v)) eqn:Elt.
        * destruct (Fd (alpha c) v) eqn:Efv.
          -- (* decrease_key *)
             destruct (HF3 v Efv) as (d0 & Hin0).
             destruct (HF2 v d0 Hin0) as (Hd0 & _ & _).
             assert (Hnd : du + w u v < d0).
             { rewrite Hd0 in Elt. cbn in Elt. apply Z.ltb_lt. assumption. }
             cbn [alpha d_heap] in Hin0.
             assert (Hget : FM.a_get (Z.of_nat v) (FB.abs (c_heap c)) = Some d0)
               by (apply entries_in; assumption).
             set (c2 := mkC (upd (c_dist c) v (Some (du + w u v))) (c_s c) (c_f c)
                            (FM.decrease_key (Z.of_nat v) (du + w u v) (c_heap c))).
             assert (Hhp2 : hp_ok (c_heap c2)) by (apply hp_ok_decrease; exact Hhp).
             assert (Hm' : midf u du ws (alpha c2)).
             { apply (midf_relax_gen nbrs w N K k Hwf Hnn Hk u du v ws (alpha c) (c_f c)
                                     (entries (FB.abs (c_heap c2))));
                 [exact Hmid | exact He | exact Esv | exact Elt | exact HLf | exact Efv | | | | ].
               - intros y _. reflexivity.
               - apply (entries_decrease _ v _ d0); [assumption | assumption | assumption | lia |].
                 left; auto.
               - intros y e Hin.
                 apply (entries_decrease _ v _ d0) in Hin; [|assumption|assumption|assumption|lia].
                 exact Hin.
               - intros y e Hne Hin.
                 apply (entries_decrease _ v _ d0); [assumption | assumption | assumption | lia |].
                 right; auto. }
             destruct (IH c2 Hed' Hhp2 Hm') as (c' & R & P & M & S1). exists c'. auto.
          -- (* insert *)
             assert (Hnone : FM.a_get (Z.of_nat v) (FB.abs (c_heap c)) = None).
             { destruct (FM.a_get (Z.of_nat v) (FB.abs (c_heap c))) as [d0|] eqn:E; [|reflexivity].
               apply entries_in in E; [|assumption].
               destruct (HF2 v d0 E) as (_ & _ & Hf). congruence. }
             set (c2 := mkC (upd (c_dist c) v (Some (du + w u v))) (c_s c) (upd (c_f c) v true)
                            (FM.insert (Z.of_nat v) (du + w u v) (c_heap c))).
             assert (Hhp2 : hp_ok (c_heap c2)) by (apply hp_ok_insert; exact Hhp).
             assert (Hm' : midf u du ws (alpha c2)).
             { apply (midf_relax_gen nbrs w N K k Hwf Hnn Hk u du v ws (alpha c) (upd (c_f c) v true)
                                     (entries (FB.abs (c_heap c2))));
                 [exact Hmid | exact He | exact Esv | exact Elt | | | | | | ].
               - rewrite upd_length. assumption.
               - apply nth_upd_eq. lia.
               - intros y Hy. unfold Fd. cbn [alpha d_f]. apply nth_upd_neq. congruence.
               - apply entries_insert; [assumption | assumption | assumption |]. left; auto.
               - intros y e Hin. apply entries_insert in Hin; [|assumption|assumption|assumption].
                 exact Hin.
               - intros y e Hne Hin. apply entries_insert; [assumption | assumption | assumption |].
                 right; auto. }
             destruct (IH c2 Hed' Hhp2 Hm') as (c' & R & P & M & S1). exists c'. auto.
        * assert (Hm' : midf u du ws (alpha c)).
          { eapply midf_skip; eauto. destruct (D (alpha c) v) as [dv|]; cbn in Elt; [|discriminate].
            exists dv. split; [reflexivity|]. apply Z.ltb_ge in Elt. assumption. }
          destruct (IH c Hed' Hhp Hm') as (c' & R & P & M & S1). exists c'. auto.
  Qed.

  (* ---------- settling the extracted vertex (abstract: any heap' = heap minus index u) ---------- *)
  Lemma settle_mid : forall st u d row heap',
      inv_fib st -> In (u, d) (d_heap st) ->
      (forall y e, In (y, e) (d_heap st) -> d <= e) ->
      nth_error nbrs u = Some row ->
      (forall y e, In (y, e) heap' <-> In (y, e) (d_heap st) /\ y <> u) ->
      (u < N)%nat /\
      count_true (upd (d_s st) u true) = S (count_true (d_s st)) /\
      midf u d row (mkD (d_dist st) (upd (d_s st) u true) (upd (d_f st) u false) heap').
  Proof.
    intros st u d row heap' [HI HH] Hin Hmin Erow Hheap.
    pose proof (ic_len_d _ _ _ _ _ _ HI) as HLd. pose proof (ic_len_s _ _ _ _ _ _ HI) as HLs.
    destruct HH as (HLf & HF2 & HF3).
    destruct (HF2 u d Hin) as (Hdu & Esu & Efu).
    assert (HuN : (u < N)%nat) by (eapply D_lt; eauto).
    set (st1 := mkD (d_dist st) (upd (d_s st) u true) (upd (d_f st) u false) heap').
    assert (Hcount : count_true (d_s st1) = S (count_true (d_s st))).
    { cbn [st1 d_s]. apply count_true_upd_false_true; [lia | exact Esu]. }
    assert (HSu : Sd st1 u = true).
    { unfold Sd; cbn [st1 d_s]. apply nth_upd_eq. lia. }
    assert (HSo : forall y, u <> y -> Sd st1 y = Sd st y).
    { intros y Hy. unfold Sd; cbn [st1 d_s]. apply nth_upd_neq. assumption. }
    assert (HFu : Fd st1 u = false).
    { unfold Fd; cbn [st1 d_f]. apply nth_upd_eq. lia. }
    assert (HFo : forall y, u <> y -> Fd st1 y = Fd st y).
    { intros y Hy. unfold Fd; cbn [st1 d_f]. apply nth_upd_neq. assumption. }
    assert (HDs : forall y, D st1 y = D st y) by reflexivity.
    split; [exact HuN|]. split; [exact Hcount|].
    destruct HI as [H1 H2 H3 H4 H5 H6 H7 H8].
    split; [|split; [|split; [|split]]].
    - constructor.
      + assumption.
      + cbn [st1 d_s]. rewrite upd_length. assumption.
      + assumption.
      + intros v dv Hdv. rewrite HDs in Hdv. destruct (H4 v dv Hdv) as (n & HP & Hn).
        exists n. split; [assumption|]. rewrite Hcount.
        destruct (Nat.eq_dec u v) as [<-|Hne].
        * rewrite HSu. rewrite Esu in Hn. cbn [b2n] in *. lia.
        * rewrite HSo by assumption. lia.
      + intros x v dx Hsx He Hdx. destruct (Nat.eq_dec u x) as [<-|Hne].
        * left. split; [reflexivity|]. destruct He as (row' & Er' & Hv').
          rewrite Erow in Er'. inversion Er'; subst row'. assumption.
        * rewrite HSo in Hsx by assumption. rewrite HDs in *.
          destruct (H5 x v dx Hsx He Hdx) as [[]|Hr]. right. exact Hr.
      + intros x Hsx. destruct (Nat.eq_dec u x) as [<-|Hne].
        * exists d. assumption.
        * rewrite HSo in Hsx by assumption. apply H6. assumption.
      + intros v dv HvN Hsv Hdv. destruct (Nat.eq_dec u v) as [<-|Hne]; [congruence|].
        rewrite HSo in Hsv by assumption. rewrite HDs in Hdv. cbn [st1 d_heap].
        apply Hheap. split; [apply H7; assumption | congruence].
      + intros x dx y e Hsx Hdx Hy. rewrite HDs in Hdx. cbn [st1 d_heap] in Hy.
        apply Hheap in Hy. destruct Hy as [Hy _].
        destruct (Nat.eq_dec u x) as [<-|Hne].
        * rewrite Hdu in Hdx. inversion Hdx; subst dx. eapply Hmin; eauto.
        * rewrite HSo in Hsx by assumption. eapply H8; eauto.
    - split; [cbn [st1 d_f]; rewrite upd_length; assumption|]. split.
      + intros v e Hv. cbn [st1 d_heap] in Hv. apply Hheap in Hv. destruct Hv as [Hv Hne].
        destruct (HF2 v e Hv) as (Y1 & Y2 & Y3).
        split; [exact Y1|]. split; [rewrite HSo by congruence; exact Y2|].
        rewrite HFo by congruence. exact Y3.
      + intros v Hv. destruct (Nat.eq_dec u v) as [<-|Hne]; [congruence|].
        rewrite HFo in Hv by assumption. destruct (HF3 v Hv) as (e & He).
        exists e. cbn [st1 d_heap]. apply Hheap. split; [assumption|congruence].
    - assumption.
    - assumption.
    - intros x dx Hsx Hdx. rewrite HDs in Hdx. destruct (Nat.eq_dec u x) as [<-|Hne].
      + rewrite Hdu in Hdx. inversion Hdx; lia.
      + rewrite HSo in Hsx by assumption. eapply H8; eauto.
  Qed.

  Definition measure_c (c : cstate) : nat := (N - count_true (c_s c))%nat.

  (* ---------- one iteration of the while loop ---------- *)
  Lemma step_fibc_ok : forall c, inv_c c ->
      match step_fibc nbrs w K c with
      | None => True
      | Some r => exists c', r = DOk c' /\ inv_c c' /\ (measure_c c' < measure_c c)%nat
      end.
  Proof.
    intros c [Hhp Hinv]. unfold step_fibc.
    destruct (Z.eqb_spec (FM.h_num_nodes (c_heap c)) 0) as [E0|E0]; [exact I|].
    pose proof Hhp as (HIh & Hcap & Hdn).
    pose proof (FibHeap_Proof_Extract.extract_min_spec (c_heap c) HIh) as Hx.
    destruct (FM.extract_min (c_heap c)) as [[h' r]|dd ss|].
    2:{ (* A[] out of range: impossible, Dn is large enough *)
      exfalso. destruct Hx as (_ & Hle & Hfib).
      pose proof (FB.forest_size_items (FM.h_roots (c_heap c))) as Hsz.
      pose proof (FB.range_nodup_length (FB.forest_idxs (FM.h_roots (c_heap c))) (FM.h_cap (c_heap c))
                                        ltac:(lia) (FB.inv_nodup _ HIh) (FB.inv_range _ HIh)) as Hlen.
      unfold FB.forest_idxs in Hlen. rewrite map_length in Hlen.
      assert (Hb : (dd < FibHeap_Dn.dn_req (Z.of_nat N))%nat).
      { apply FibHeap_Proof_Degree.dn_req_bound. rewrite <- Hcap. lia. }
      lia. }
    2:{ contradiction. }
    destruct Hx as (HI' & Hc' & Hd' & Hok).
    destruct r as [[i k0]|].
    2:{ (* extract_min answered -1 on a heap with num_nodes <> 0: impossible *)
      exfalso. cbn [FM.spec_extract_ok] in Hok. destruct Hok as [Hab _].
      pose proof (FB.inv_nn _ HIh) as Hnn'. rewrite FB.forest_size_items in Hnn'.
      unfold FB.abs in Hab. rewrite Hab in Hnn'. cbn in Hnn'. lia. }
    cbn [FM.spec_extract_ok] in Hok. destruct Hok as (Hget & Hmin & Hrem).
    assert (Hi0 : 0 <= i < FM.h_cap (c_heap c)).
    { apply (abs_nonneg _ i k0 HIh). apply FB.a_get_some_in. exact Hget. }
    replace (Z.ltb i 0) with false by (symmetry; apply Z.ltb_ge; lia).
    set (u := Z.to_nat i).
    assert (Hiu : Z.of_nat u = i) by (unfold u; apply Z2Nat.id; lia).
    assert (Hin : In (u, k0) (d_heap (alpha c))).
    { cbn [alpha d_heap]. apply entries_in; [assumption|]. rewrite Hiu. exact Hget. }
    assert (Hmin' : forall y e, In (y, e) (d_heap (alpha c)) -> k0 <= e).
    { intros y e Hy. cbn [alpha d_heap] in Hy. apply entries_in in Hy; [|assumption].
      eapply Hmin; eauto. }
    pose proof Hinv as [HIc HHc].
    destruct HHc as (HLf & HF2 & HF3).
    destruct (HF2 u k0 Hin) as (Hdu & Esu & Efu).
    pose proof (ic_len_d _ _ _ _ _ _ HIc) as HLd. pose proof (ic_len_s _ _ _ _ _ _ HIc) as HLs.
    cbn [alpha d_dist d_s d_f] in HLd, HLs, HLf.
    assert (HuN : (u < N)%nat) by (apply (D_lt N k Hk (alpha c) u k0); [exact HLd | exact Hdu]).
    assert (Es : nth_error (c_s c) u = Some (Sd (alpha c) u))
      by (apply (nth_error_nth_some _ (c_s c) u false); lia).
    rewrite Es.
    destruct (nbr_row_ok nbrs N K Hwf u HuN) as (row & Erow & Enr). rewrite Enr.
    assert (Hrow_edge : forall v, In v row -> edge nbrs u v).
    { intros v Hv. exists row. auto. }
    set (c1 := mkC (c_dist c) (upd (c_s c) u true) (upd (c_f c) u false) h').
    assert (Hheap : forall y e, In (y, e) (entries (FB.abs h')) <->
                                In (y, e) (d_heap (alpha c)) /\ y <> u).
    { intros y e. cbn [alpha d_heap].
      rewrite (entries_in h' y e HI'), (entries_in (c_heap c) y e HIh), (Hrem (Z.of_nat y)).
      rewrite <- Hiu, of_nat_eqb.
      destruct (Nat.eqb_spec y u) as [->|Hne].
      - split; [discriminate | intros [_ C]; congruence].
      - tauto. }
    destruct (settle_mid (alpha c) u k0 row (entries (FB.abs h')) Hinv Hin Hmin' Erow Hheap)
      as (_ & Hcount & Hmid).
    assert (Hhp1 : hp_ok (c_heap c1)).
    { cbn [c1 c_heap]. split; [exact HI' | split; congruence]. }
    destruct (relax_fibc_mid u k0 row c1 Hrow_edge Hhp1 Hmid) as (c' & R & P & M & S1).
    rewrite R. exists c'. split; [reflexivity|].
    destruct M as (HI2 & HH2 & _). split.
    - split; [exact P|]. split; [|assumption].
      eapply inv_core_weaken; [|exact HI2]. intros x v [_ []].
    - unfold measure_c. rewrite S1. cbn [c1 c_s]. cbn [alpha d_s] in Hcount. rewrite Hcount.
      pose proof (count_true_lt_of_false (c_s c) u ltac:(lia) Esu) as Hc.
      rewrite HLs in Hc. lia.
  Qed.

  Lemma loop_c_rule : forall fuel c, inv_c c -> (measure_c c < fuel)%nat ->
      exists c', loop_c nbrs w K fuel c = DOk c' /\ inv_c c' /\ step_fibc nbrs w K c' = None.
  Proof.
    induction fuel as [|fuel IH]; intros c HI Hm; [lia|].
    cbn [loop_c]. pose proof (step_fibc_ok c HI) as Hs.
    destruct (step_fibc nbrs w K c) as [r|] eqn:E.
    - destruct Hs as (c' & -> & HI' & Hlt). apply IH; [assumption|lia].
    - exists c. auto.
  Qed.

  (* ---------- the initial state ---------- *)
  Lemma init_c_inv :
      inv_c (mkC (upd (repeat None N) k (Some 0)) (repeat false N) (upd (repeat false N) k true)
                 (FM.insert (Z.of_nat k) 0
                            (FM.empty_heap (Z.of_nat N) (FibHeap_Dn.dn_fixed (Z.of_nat N))))).
  Proof.
    set (h0 := FM.empty_heap (Z.of_nat N) (FibHeap_Dn.dn_fixed (Z.of_nat N))).
    assert (Hh0 : hp_ok h0).
    { split; [apply FB.Inv_empty | split; [reflexivity|]]. apply FibHeap_Proof_Degree.dn_fixed_ge_req. }
    split; [apply hp_ok_insert; exact Hh0|].
    assert (Habs : entries (FB.abs (FM.insert (Z.of_nat k) 0 h0)) = [(k, 0)]).
    { unfold FM.insert. cbn [h0 FM.empty_heap FM.h_cap].
      replace (Z.leb (Z.of_nat N) (Z.of_nat k) || Z.ltb (Z.of_nat k) 0) with false
        by (symmetry; apply orb_false_iff; split; [apply Z.leb_gt | apply Z.ltb_ge]; lia).
      cbn. rewrite Nat2Z.id. reflexivity. }
    unfold alpha; cbn [c_dist c_s c_f c_heap]. rewrite Habs.
    apply init_fib; assumption.
  Qed.

  Theorem row_fibc_is_sp :
      exists row, row_fibc nbrs w N K k k = DOk row /\ length row = N /\
                  forall v, (v < N)%nat -> is_sp nbrs w k v (nth v row None).
  Proof.
    unfold row_fibc, init_c. apply Nat.ltb_lt in Hk as Hk'. rewrite Hk'.
    destruct (loop_c_rule (fuel_of N K) _ init_c_inv) as (c' & EL & [Hhp [HI HH]] & Hend).
    { unfold measure_c, fuel_of; cbn [c_s]. lia. }
    rewrite EL. exists (c_dist c'). split; [reflexivity|]. split.
    - apply (ic_len_d _ _ _ _ _ _ HI).
    - assert (Hh : d_heap (alpha c') = []).
      { unfold step_fibc in Hend.
        destruct (Z.eqb_spec (FM.h_num_nodes (c_heap c')) 0) as [E0|E0]; [|discriminate].
        destruct Hhp as (HIh & _ & _). pose proof (FB.inv_nn _ HIh) as Hnn'.
        assert (Hr : FM.h_roots (c_heap c') = []) by (apply FibHeap_Proof_Extract.forest_size_0; lia).
        cbn [alpha d_heap]. unfold FB.abs. rewrite Hr. reflexivity. }
      intros v Hv. apply (final_core nbrs w N K k Hwf Hnn Hk (alpha c') HI Hh v Hv).
  Qed.
End FibC.

(* ---------- rows and matrices ---------- *)
Theorem row_fibc_eq_sp : forall nbrs w N K k,
    wf_graph nbrs N K -> nonneg_w nbrs w -> (k < N)%nat ->
    row_fibc nbrs w N K k k = DOk (sp_row nbrs w N k).
Proof.
  intros nbrs w N K k Hwf Hnn Hk.
  destruct (row_fibc_is_sp nbrs w N K k Hwf Hnn Hk) as (row & E & HL & Hrow).
  rewrite E. f_equal. apply (rows_equal _ _ N); [assumption | |].
  - eapply sp_row_length; eassumption.
  - intros v Hv. eapply is_sp_fun; [exact (Hrow v Hv)|].
    apply (sp_char nbrs w N K k Hwf Hnn Hk v Hv).
Qed.

Theorem full_matrix_fibc_correct : forall nbrs w N K,
    wf_graph nbrs N K -> nonneg_w nbrs w -> (0 < N)%nat ->
    full_matrix_fibc nbrs w N = DOk (sp_matrix nbrs w N).
Proof.
  intros nbrs w N K Hwf Hnn HN.
  destruct (wf_first_row nbrs w N K Hwf Hnn HN) as (r0 & rest & E & HK).
  unfold full_matrix_fibc, sp_matrix. rewrite E, HK, <- E.
  apply sequence_map_ok. intros k Hin. apply in_seq in Hin.
  apply row_fibc_eq_sp; [assumption | assumption | lia].
Qed.

Theorem landmark_matrix_fibc_correct : forall nbrs w N K lm,
    wf_graph nbrs N K -> nonneg_w nbrs w -> (0 < N)%nat -> Forall (fun v => (v < N)%nat) lm ->
    landmark_matrix_fibc nbrs w N lm = DOk (sp_landmarks nbrs w N lm).
Proof.
  intros nbrs w N K lm Hwf Hnn HN Hlm.
  destruct (wf_first_row nbrs w N K Hwf Hnn HN) as (r0 & rest & E & HK).
  unfold landmark_matrix_fibc. rewrite E, HK, <- E.
  apply (sequence_map_lm nbrs w N (fun r => match nth_error lm r with
                                            | None => DOOB site_landmark r
                                            | Some src => row_fibc nbrs w N K src src end)).
  intros r src Hr. rewrite Hr. rewrite Forall_forall in Hlm.
  apply row_fibc_eq_sp; [assumption | assumption |]. apply Hlm. eapply nth_error_In; eauto.
Qed.

(* ---------- the instrumented copies compute the same rows ---------- *)
Lemma loop_c_tr_erase : forall nbrs w K fuel st,
    fst (loop_c_tr nbrs w K fuel st) = loop_c nbrs w K fuel st.
Proof.
  intros nbrs w K fuel; induction fuel as [|fuel IH]; intros st; cbn [loop_c_tr loop_c]; [reflexivity|].
  destruct (step_fibc nbrs w K st) as [[st'| |]|]; cbn [fst]; [apply IH | reflexivity | reflexivity | reflexivity].
Qed.

Theorem row_fibc_tr_erase : forall nbrs w N K src fidx,
    fst (row_fibc_tr nbrs w N K src fidx) = row_fibc nbrs w N K src fidx.
Proof.
  intros. unfold row_fibc_tr, row_fibc. destruct (init_c N src fidx); cbn [fst]; [|reflexivity|reflexivity].
  rewrite loop_c_tr_erase. reflexivity.
Qed.
