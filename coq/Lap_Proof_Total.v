(* ====================================================================== *)
(*  Lap_Proof_Total.v — compute_laplacian never leaves a container on     *)
(*  well-formed neighbour lists (property C09 / index clause of C01)       *)
(*                                                                         *)
(*  compute_laplacian_total : if there are at least n lists, every one of  *)
(*  the first n has at least k = |neighbors[0]| entries and the first k    *)
(*  entries of each are < n, the model returns LOk (no OOB at any of the   *)
(*  five access sites).  Together with compute_laplacian_spec_k (which     *)
(*  shows LOk implies ids < n) the id condition is also necessary.         *)
(* ====================================================================== *)
Require Import Arith Lia List Bool.
From TK Require Import Mat_Sums Mat_Core Lap_Model Lap_Spec Lap_Proof_Lap.
Import ListNotations.
Local Open Scope list_scope.
Local Open Scope nat_scope.

Section LapTotal.
  Context {F : Type} {Fo : FieldOps F}.

  Variable dist : nat -> nat -> F.
  Variable width : F.
  Variable expo : F -> F.
  Variable n : nat.
  Variable nbrs : list (list nat).
  Variable k : nat.

  Lemma edge_step_progress i cur p st :
    length (st_D st) = n -> i < n -> p < length cur -> nth p cur 0 < n ->
    exists st', edge_step dist width expo i cur (LOk st) p = LOk st' /\ length (st_D st') = n.
  Proof.
    intros HL Hi Hp Hnb. unfold edge_step.
    rewrite (List.nth_error_nth' cur 0 Hp).
    assert (Hi' : i < length (st_D st)) by lia.
    rewrite (List.nth_error_nth' (st_D st) fzero Hi').
    set (h := heat_of dist width expo i (nth p cur 0)).
    set (D1 := upd (st_D st) i (fadd (nth i (st_D st) fzero) h)).
    assert (HL1 : length D1 = n) by (unfold D1; rewrite upd_length; exact HL).
    assert (Hn' : nth p cur 0 < length D1) by lia.
    rewrite (List.nth_error_nth' D1 fzero Hn').
    eexists. split; [reflexivity|]. cbn [st_D]. rewrite upd_length. exact HL1.
  Qed.

  Lemma edges_progress i cur st p :
    length (st_D st) = n -> i < n -> p <= length cur ->
    (forall q, q < p -> nth q cur 0 < n) ->
    exists st', fold_left (edge_step dist width expo i cur) (seq 0 p) (LOk st) = LOk st' /\
                length (st_D st') = n.
  Proof.
    intros HL Hi. induction p as [|p IH]; intros Hp Hb.
    - exists st. split; [reflexivity|exact HL].
    - assert (H1 : p <= length cur) by lia.
      assert (H2 : forall q, q < p -> nth q cur 0 < n) by (intros; apply Hb; lia).
      destruct (IH H1 H2) as [st1 [E1 L1]].
      rewrite fold_seq_S, E1.
      apply edge_step_progress; [exact L1|exact Hi|lia|apply Hb; lia].
  Qed.

  Hypothesis Hlen : n <= length nbrs.
  Hypothesis Hk : forall i, i < n -> k <= length (nth i nbrs []).
  Hypothesis Hid : forall i q, i < n -> q < k -> nb_at nbrs i q < n.

  Lemma rows_progress m st :
    m <= n -> length (st_D st) = n ->
    exists st', fold_left (row_step dist width expo k nbrs) (seq 0 m) (LOk st) = LOk st' /\
                length (st_D st') = n.
  Proof.
    intros Hm HL. induction m as [|m IH].
    - exists st. split; [reflexivity|exact HL].
    - assert (H1 : m <= n) by lia.
      destruct (IH H1) as [st1 [E1 L1]].
      rewrite fold_seq_S, E1. unfold row_step.
      assert (Hm' : m < length nbrs) by lia.
      rewrite (List.nth_error_nth' nbrs [] Hm').
      apply edges_progress; [exact L1|lia|apply Hk; lia|].
      intros q Hq. apply (Hid m q); [lia|exact Hq].
  Qed.

  Theorem compute_laplacian_total :
    k = length (hd [] nbrs) -> nbrs <> [] ->
    exists ts D, compute_laplacian dist width expo n nbrs = LOk (ts, D).
  Proof.
    intros Ek Hne. unfold compute_laplacian.
    destruct nbrs as [|first rest] eqn:En; [contradiction|].
    cbn [hd] in Ek. rewrite <- Ek. rewrite <- En in *.
    destruct (rows_progress n (mk_lstate (repeat fzero n) []) (le_n n)) as [st' [E _]].
    { cbn [st_D]. apply repeat_length. }
    rewrite E. eexists. eexists. reflexivity.
  Qed.
End LapTotal.

(* ---------------------------------------------------------------------- *)
(*  ... and conversely: LOk only on well-formed neighbour lists             *)
(* ---------------------------------------------------------------------- *)
Section LapTotalConverse.
  Context {F : Type} {Fo : FieldOps F} {Ff : IsField F}.

  Variable dist : nat -> nat -> F.
  Variable width : F.
  Variable expo : F -> F.
  Variable n : nat.
  Variable nbrs : list (list nat).
  Variable k : nat.

  Lemma edges_ok_len i cur st p st' :
    fold_left (edge_step dist width expo i cur) (seq 0 p) (LOk st) = LOk st' -> p <= length cur.
  Proof.
    revert st'. induction p as [|p IH]; intros st' H; [lia|].
    rewrite fold_seq_S in H.
    destruct (fold_left (edge_step dist width expo i cur) (seq 0 p) (LOk st)) as [st1|a b c] eqn:E.
    - pose proof (IH st1 eq_refl) as Hp. unfold edge_step in H.
      destruct (nth_error cur p) as [nb0|] eqn:En; [|discriminate].
      assert (Hlt : p < length cur) by (apply nth_error_Some; rewrite En; discriminate). lia.
    - cbn [edge_step] in H. discriminate.
  Qed.

  Lemma rows_ok_len m st st' :
    fold_left (row_step dist width expo k nbrs) (seq 0 m) (LOk st) = LOk st' ->
    forall i, i < m -> i < length nbrs /\ k <= length (nth i nbrs []).
  Proof.
    revert st'. induction m as [|m IH]; intros st' H i Hi; [lia|].
    rewrite fold_seq_S in H.
    destruct (fold_left (row_step dist width expo k nbrs) (seq 0 m) (LOk st)) as [st1|a b c] eqn:E.
    - destruct (Nat.eq_dec i m) as [->|Hne]; [|apply (IH st1 eq_refl); lia].
      unfold row_step in H. destruct (nth_error nbrs m) as [cur|] eqn:En; [|discriminate].
      split.
      + apply nth_error_Some. rewrite En. discriminate.
      + rewrite (nth_error_nth nbrs m [] En). apply (edges_ok_len m cur st1 k st'). exact H.
    - cbn [row_step] in H. discriminate.
  Qed.

  Theorem compute_laplacian_ok_iff :
    k = length (hd [] nbrs) -> nbrs <> [] ->
    ((exists ts D, compute_laplacian dist width expo n nbrs = LOk (ts, D)) <->
     (n <= length nbrs /\
      (forall i, i < n -> k <= length (nth i nbrs [])) /\
      (forall i q, i < n -> q < k -> nb_at nbrs i q < n))).
  Proof.
    intros Ek Hne. split.
    - intros [ts [D H]].
      pose proof (compute_laplacian_spec_k dist width expo n nbrs k ts D Ek H) as [_ [_ [Hid _]]].
      unfold compute_laplacian in H.
      destruct nbrs as [|first rest] eqn:En; [contradiction|].
      cbn [hd] in Ek. rewrite <- Ek in H. rewrite <- En in *.
      destruct (fold_left (row_step dist width expo k nbrs) (seq 0 n)
                  (LOk (mk_lstate (repeat fzero n) []))) as [st|a b c] eqn:Ef; [|discriminate].
      pose proof (rows_ok_len n _ _ Ef) as R.
      split; [|split; [|exact Hid]].
      + destruct n as [|n']; [lia|]. destruct (R n' (Nat.lt_succ_diag_r n')) as [Hl _]. lia.
      + intros i Hi. apply (R i Hi).
    - intros [Hlen [Hk Hid]].
      apply (compute_laplacian_total dist width expo n nbrs k Hlen Hk Hid Ek Hne).
  Qed.
End LapTotalConverse.

