(* FibHeap_Dn.v — sizes of the consolidation scratch array A (definitions only,
   no proofs, extractable with ExtrOcamlBasic).

   fib        : the Fibonacci numbers, fib 0 = 0, fib 1 = 1.
   dn_req cap : least r with fib (r+2) > cap.  A tree of rank r holds at least
                fib (r+2) nodes, so every rank met inside consolidate is
                < dn_req cap: an array A of dn_req cap slots is enough.
   dn_fixed   : the repaired constructor (commit 5c47b41), mirrored literally:
                  Dn = 1;
                  for (long long a = 1, b = 2; a <= max_num_nodes; Dn++)
                  { next = a + b; a = b; b = next; }
                The loop is fuelled; FibHeap_Proof_Degree.dn_fixed_eq shows that the
                fuel never runs out (dn_fixed cap = S (dn_req cap)). *)
From Coq Require Import ZArith.
Local Open Scope Z_scope.

Fixpoint fib (n : nat) : nat :=
  match n with
  | O => O
  | S n' => match n' with O => 1%nat | S n'' => (fib n' + fib n'')%nat end
  end.

(* a = fib (dn+2-dn0) ..., see FibHeap_Proof_Degree.dn_loop_spec *)
Fixpoint dn_loop (fuel : nat) (a b : Z) (dn : nat) (cap : Z) : nat :=
  match fuel with
  | O => dn
  | S fuel' => if Z.leb a cap then dn_loop fuel' b (a + b) (S dn) cap else dn
  end.

(* 2*floor(log2 cap)+2 iterations are always enough: fib (2k+2) >= 2^k *)
Definition dn_fuel (cap : Z) : nat := S (S (2 * Z.to_nat (Z.log2 cap))).

Definition dn_req (cap : Z) : nat := dn_loop (dn_fuel cap) 1 2 0 cap.
Definition dn_fixed (cap : Z) : nat := dn_loop (dn_fuel cap) 1 2 1 cap.
