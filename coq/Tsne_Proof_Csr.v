(* Tsne_Proof_Csr.v — the CSR triple the K-NN overload of computeGaussianPerplexity hands to
   symmetrizeMatrix is well formed: row_P[n+1] = row_P[n] + (length of row n), the rows laid
   out one after the other; if every row has distinct columns below N (what is_knn gives:
   NoDup, in range) then Tsne_Spec.wf_csr holds, i.e. the hypothesis of sparse_symmetrise. *)
From Coq Require Import List Arith Bool Lia.
From TK Require Import Tsne_Sym_Model Tsne_Spec Tsne_Proof_Sym.
Import ListNotations.

Section Csr.
Variable V : Type.

Definition csr_of_rows (rows : list (list (nat * V))) : csr V :=
  mkCsr (prefix_sums 0 (map (@length _) rows))
        (concat (map (map fst) rows)) (concat (map (map snd) rows)).

Lemma fold_add_from : forall l b, fold_left Nat.add l b = b + fold_left Nat.add l 0.
Proof.
  induction l as [|y l IH]; intros b; cbn [fold_left]; [lia|].
  rewrite (IH (b + y)), (IH (0 + y)). lia.
Qed.

Lemma concat_length_sum : forall {T} (ls : list (list T)),
  length (concat ls) = fold_left Nat.add (map (@length _) ls) 0.
Proof.
  intros T ls. induction ls as [|l ls IH]; [reflexivity|].
  cbn [concat map fold_left]. rewrite app_length, IH, (fold_add_from _ (0 + length l)). lia.
Qed.

(* the segment of a concatenation that starts after the first n lists and has the length of the n-th *)
Lemma seg_concat : forall {T} (ls : list (list T)) n,
  n < length ls ->
  firstn (length (nth n ls [])) (skipn (fold_left Nat.add (firstn n (map (@length _) ls)) 0) (concat ls))
  = nth n ls [].
Proof.
  intros T ls. induction ls as [|l ls IH]; intros n Hn; [cbn in Hn; lia|].
  destruct n as [|n].
  - cbn [firstn fold_left nth skipn concat]. rewrite firstn_app, Nat.sub_diag, firstn_all. cbn [firstn].
    now rewrite app_nil_r.
  - cbn [map firstn fold_left nth concat]. rewrite (fold_add_from _ (0 + length l)).
    replace (0 + length l + fold_left Nat.add (firstn n (map (@length _) ls)) 0)
      with (length l + fold_left Nat.add (firstn n (map (@length _) ls)) 0) by lia.
    rewrite skipn_app. rewrite skipn_all2 by lia. cbn [app].
    replace (length l + fold_left Nat.add (firstn n (map (@length _) ls)) 0 - length l)
      with (fold_left Nat.add (firstn n (map (@length _) ls)) 0) by lia.
    apply IH. cbn [length] in Hn. lia.
Qed.

Theorem csr_of_rows_wf : forall rows,
  (forall row, In row rows -> NoDup (map fst row) /\ forall c, In c (map fst row) -> c < length rows) ->
  wf_csr (length rows) (csr_of_rows rows).
Proof.
  intros rows H. set (N := length rows). set (lens := map (@length _) rows).
  assert (Ll : length lens = N) by (unfold lens; apply map_length).
  assert (HR : forall n, n <= N -> rowp (csr_of_rows rows) n = fold_left Nat.add (firstn n lens) 0).
  { intros n Hn. unfold rowp, csr_of_rows. cbn [row_P]. fold lens. rewrite prefix_sums_nth by lia. lia. }
  assert (Hstep : forall n, n < N -> rowp (csr_of_rows rows) (n + 1) = rowp (csr_of_rows rows) n + nth n lens 0).
  { intros n Hn. unfold rowp, csr_of_rows. cbn [row_P]. fold lens. apply prefix_sums_step. lia. }
  assert (Hlen_n : forall n, n < N -> nth n lens 0 = length (nth n rows [])).
  { intros n Hn. unfold lens. change 0 with (length (@nil (nat * V))). apply map_nth. }
  unfold wf_csr. split; [unfold csr_of_rows; cbn [row_P]; rewrite prefix_sums_length; fold lens; lia|].
  split; [rewrite HR by lia; reflexivity|].
  split; [intros n Hn; rewrite Hstep by assumption; lia|].
  split.
  { rewrite HR by lia. rewrite <- Ll, firstn_all. unfold csr_of_rows. cbn [col_P].
    rewrite concat_length_sum, map_map. unfold lens. f_equal. apply map_ext. intros a. now rewrite map_length. }
  split.
  { unfold csr_of_rows. cbn [val_P col_P]. rewrite !concat_length_sum, !map_map. f_equal. apply map_ext.
    intros a. now rewrite !map_length. }
  split.
  { intros c Hc. unfold csr_of_rows in Hc. cbn [col_P] in Hc. apply in_concat in Hc.
    destruct Hc as (l & Hl & Hcl). apply in_map_iff in Hl. destruct Hl as (row & <- & Hrow).
    now apply (proj2 (H row Hrow)). }
  intros n Hn. unfold row_cols, seg. rewrite Hstep by assumption.
  replace (rowp (csr_of_rows rows) n + nth n lens 0 - rowp (csr_of_rows rows) n) with (nth n lens 0) by lia.
  rewrite HR by lia. unfold csr_of_rows. cbn [col_P].
  assert (E : nth n lens 0 = length (nth n (map (map fst) rows) [])).
  { rewrite Hlen_n by assumption. change (@nil nat) with (map fst (@nil (nat * V))). rewrite map_nth. now rewrite map_length. }
  assert (E2 : lens = map (@length _) (map (map fst) rows)).
  { unfold lens. rewrite map_map. apply map_ext. intros a. now rewrite map_length. }
  rewrite E, E2. rewrite seg_concat by (rewrite map_length; exact Hn).
  change (@nil nat) with (map fst (@nil (nat * V))). rewrite map_nth.
  apply (proj1 (H (nth n rows []) (nth_In rows [] Hn))).
Qed.
End Csr.

Example knn_csr_wf_example :
  forall row, In row [[(1, 1%nat)]; [(0, 1%nat)]] ->
    NoDup (map fst row) /\ forall c, In c (map fst row) -> c < length [[(1, 1%nat)]; [(0, 1%nat)]].
Proof.
  intros row [<-|[<-|[]]]; (split; [repeat constructor; intros [] | intros c [<-|[]]; cbn; lia]).
Qed.
