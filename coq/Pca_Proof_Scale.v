(* ====================================================================== *)
(*  Pca_Proof_Scale.v — C06, wave 2: scale equivariance of the whole       *)
(*  pipeline.  Scaling the data by ANY s scales the mean by s, the         *)
(*  covariance (specification AND what compute_covariance_matrix returns)  *)
(*  by s^2, leaves the eigenvector contract unchanged when the eigenvalues *)
(*  are scaled by s^2, and scales the embedding by s.  Hence no absolute   *)
(*  magnitude may enter anywhere between the data and the embedding, and   *)
(*  the check may evaluate a run on 2^k X after undoing the scaling.       *)
(*  Generic over every field.                                              *)
(* ====================================================================== *)
Require Import Field Ring Arith Lia List Bool.
From TK Require Import Mat_Sums Mat_Core Proj_Model Proj_Spec Proj_Proof Proj_Proof_Range
                       Pca_Model Pca_Spec Pca_Proof.
Import ListNotations.

Section PcaScale.
  Context {F : Type} {Fo : FieldOps F} {Ff : IsField F}.
  Add Field PcaScaleField : (@Fth F Fo Ff).
  Local Open Scope nat_scope.
  Local Open Scope F_scope.

  Definition mscaleX (s : F) (X : mat F) : mat F := fun k t => s * X k t.

  Lemma mul_self_neq0 (s : F) : s <> 0 -> s * s <> 0.
  Proof.
    intros Hs E. apply Hs.
    transitivity ((/ s * s) * s); [rewrite (Finv_l (@Fth F Fo Ff) s Hs); ring|].
    transitivity (/ s * (s * s)); [ring|]. rewrite E. ring.
  Qed.

  Lemma centred_scale N s (X : mat F) k t :
    centred N (mscaleX s X) k t = s * centred N X k t.
  Proof. unfold centred, mscaleX. rewrite (mean_vec_scale N s X t). ring. Qed.

  (* the specification: cov(sX) = s^2 cov(X), every N (no side condition) *)
  Theorem cov_spec_scale N s (X : mat F) i j :
    cov_spec N (mscaleX s X) i j = s * s * cov_spec N X i j.
  Proof.
    unfold cov_spec. rewrite <- div_scale. f_equal. rewrite <- sumn_mul_l. apply sumn_ext.
    intros k _. rewrite !centred_scale. ring.
  Qed.

  (* the code: what compute_mean + compute_covariance_matrix return on the scaled data *)
  Theorem pca_matrix_scale N s (X : mat F) :
    of_nat N <> 0 -> forall i j, pca_matrix N (mscaleX s X) i j = s * s * pca_matrix N X i j.
  Proof.
    intros HN i j. rewrite !(cov_is_covariance N _ HN). apply cov_spec_scale.
  Qed.

  (* the oracle contract is invariant: (P, lam) for C  <->  (P, s^2 lam) for s^2 C  (s <> 0) *)
  Theorem eig_contract_scale n d c (B Vs : mat F) (lam : vec F) :
    eig_contract n d B Vs lam ->
    eig_contract n d (fun i j => c * B i j) Vs (fun a => c * lam a).
  Proof.
    intros [Ho He]. split; [exact Ho|]. intros i a Hi Ha. specialize (He i a Hi Ha).
    unfold mmul in *. rewrite (sumn_ext n _ (fun t => c * (B i t * Vs t a))) by (intros; ring).
    rewrite sumn_mul_l, He. rewrite <- sumn_mul_l. apply sumn_ext. intros t Ht.
    unfold mdiag. destruct (Nat.eqb t a); ring.
  Qed.

  Theorem eig_contract_unscale n d c (B Vs : mat F) (lam : vec F) :
    c <> 0 ->
    eig_contract n d (fun i j => c * B i j) Vs (fun a => c * lam a) -> eig_contract n d B Vs lam.
  Proof.
    intros Hc H. apply (eig_contract_scale n d (/ c)) in H. destruct H as [Ho He]. split; [exact Ho|].
    intros i a Hi Ha. specialize (He i a Hi Ha). unfold mmul in *.
    rewrite (sumn_ext n _ (fun t => B i t * Vs t a)) in He by (intros; field; assumption).
    rewrite He. apply sumn_ext. intros t Ht. unfold mdiag. destruct (Nat.eqb t a); field; assumption.
  Qed.

  (* the embedding of the scaled data with the SAME P is the scaled embedding *)
  Theorem pca_embedding_scale N D s (X P : mat F) k a :
    pca_embedding N D (mscaleX s X) P k a = s * pca_embedding N D X P k a.
  Proof. unfold pca_embedding, mscaleX. apply embedding_scale. Qed.

  (* uncorrelatedness and retained variance transform accordingly *)
  Theorem uncorrelated_scale N d s (Y : mat F) (lam : vec F) :
    uncorrelated N d Y lam -> uncorrelated N d (fun k a => s * Y k a) (fun a => s * s * lam a).
  Proof.
    intros H a b Ha Hb. specialize (H a b Ha Hb).
    rewrite (sumn_ext N _ (fun k => (s * s) * (Y k a * Y k b))) by (intros; ring).
    rewrite sumn_mul_l, div_scale, H. destruct (Nat.eqb a b); ring.
  Qed.

  Theorem retained_scale D d c (C Q : mat F) :
    retained D d (fun i j => c * C i j) Q = c * retained D d C Q.
  Proof.
    unfold retained. rewrite <- sumn_mul_l. apply sumn_ext. intros a _.
    rewrite <- sumn_mul_l. apply sumn_ext. intros i _.
    rewrite <- sumn_mul_l. apply sumn_ext. intros j _. ring.
  Qed.

  (* packaged for Properties_C06.v *)
  Theorem pca_scale_equivariant_all N D d s (X P : mat F) (lam : vec F) :
    (forall t, mean_vec N (mscaleX s X) t = s * mean_vec N X t) /\
    (forall i j, cov_spec N (mscaleX s X) i j = s * s * cov_spec N X i j) /\
    (of_nat N <> 0 -> forall i j, pca_matrix N (mscaleX s X) i j = s * s * pca_matrix N X i j) /\
    (eig_contract D d (cov_spec N X) P lam ->
     eig_contract D d (cov_spec N (mscaleX s X)) P (fun a => s * s * lam a)) /\
    (s <> 0 -> eig_contract D d (cov_spec N (mscaleX s X)) P (fun a => s * s * lam a) ->
     eig_contract D d (cov_spec N X) P lam) /\
    (forall k a, pca_embedding N D (mscaleX s X) P k a = s * pca_embedding N D X P k a).
  Proof.
    split; [exact (mean_vec_scale N s X)|]. split; [exact (cov_spec_scale N s X)|].
    split; [exact (pca_matrix_scale N s X)|]. split.
    - intros H. apply (eig_contract_scale D d (s * s)) in H. destruct H as [Ho He]. split; [exact Ho|].
      intros i a Hi Ha. specialize (He i a Hi Ha). unfold mmul in *.
      rewrite (sumn_ext D _ (fun t => s * s * cov_spec N X i t * P t a)); [exact He|].
      intros t _. rewrite cov_spec_scale. reflexivity.
    - split; [|exact (pca_embedding_scale N D s X P)].
      intros Hs H. apply (eig_contract_unscale D d (s * s)).
      + apply mul_self_neq0. assumption.
      + destruct H as [Ho He]. split; [exact Ho|]. intros i a Hi Ha. specialize (He i a Hi Ha).
        unfold mmul in *. rewrite <- He. apply sumn_ext. intros t _. rewrite cov_spec_scale. reflexivity.
  Qed.

  Theorem scale_uncorrelated_retained_all N D d s c (Y C Q : mat F) (lam : vec F) :
    (uncorrelated N d Y lam -> uncorrelated N d (fun k a => s * Y k a) (fun a => s * s * lam a)) /\
    retained D d (fun i j => c * C i j) Q = c * retained D d C Q.
  Proof. split; [apply uncorrelated_scale|apply retained_scale]. Qed.

End PcaScale.
