(* Par_Model.v — property C15: executable model of an OpenMP `parallel { ... for nowait ... }` region.

   NO proofs in this file (CONVENTIONS section 0).

   What is modelled (DESIGN.md section 6 C15):
   * a parallel loop is a family `body : nat -> prog` of iteration bodies;
   * an iteration body is a tree of actions  Rd loc | Wr loc v | Crit c  — a *tree* rather than a flat
     list because what the C++ bodies do next depends on the values they read (Dijkstra relaxations,
     `if (!to_process[i]) continue`): `Rd l k` continues with `k v` where `v` is the value read.  A flat
     list of actions is the special case of constant continuations;
   * locations are `Sh x` (shared: captured by the region) or `Pr x` (declared inside the region: one
     instance per thread, it PERSISTS from one iteration to the next iteration run by the same thread —
     that is what makes `private_reinit` a real obligation);
   * `Crit c` is an `omp critical` section.  In every region of tapkee the critical section appends the
     thread-local triplets to the one shared container, so a critical section is modelled as the atomic
     logging of a payload `c` (the appended block), tagged with the iteration that executed it;
   * a schedule is a list of thread ids (who moves next); `asg t` is the list of iterations thread `t`
     runs, in that order (any partition, any order: covers static, dynamic, guided and every chunk size);
     each step executes ONE action of the chosen thread, so every interleaving that respects the
     program order of each thread is some schedule; a `Crit` is one step, i.e. atomic.

   Trusted (not modelled): the OpenMP runtime (a critical region is atomic, the end of the parallel
   region is a barrier), sequential consistency for race-free programs. *)
From Coq Require Import List Arith Bool.
Import ListNotations.

Section ParModel.
  Variable K : Type.                  (* keys: (array, index tuple) *)
  Variable K_eqb : K -> K -> bool.
  Variable V : Type.                  (* values *)
  Variable C : Type.                  (* payload of a critical section *)

  Inductive loc := Sh (x : K) | Pr (x : K).

  Inductive prog :=
  | Ret
  | Rd (l : loc) (k : V -> prog)
  | Wr (l : loc) (v : V) (k : prog)
  | Crit (c : C) (k : prog).

  (* shared memory, one private memory per thread, log of critical sections (newest first) *)
  Record state := mkState { sh : K -> V; pr : nat -> K -> V; clog : list (nat * C) }.

  Definition upd (m : K -> V) (x : K) (v : V) : K -> V :=
    fun y => if K_eqb x y then v else m y.
  Definition updp (p : nat -> K -> V) (t : nat) (x : K) (v : V) : nat -> K -> V :=
    fun u => if Nat.eqb t u then upd (p u) x v else p u.

  Definition rd (t : nat) (l : loc) (st : state) : V :=
    match l with Sh x => sh st x | Pr x => pr st t x end.
  Definition wr (t : nat) (l : loc) (v : V) (st : state) : state :=
    match l with
    | Sh x => mkState (upd (sh st) x v) (pr st) (clog st)
    | Pr x => mkState (sh st) (updp (pr st) t x v) (clog st)
    end.
  Definition crit (i : nat) (c : C) (st : state) : state :=
    mkState (sh st) (pr st) ((i, c) :: clog st).

  (* thread t runs (the rest of) iteration i to completion, alone *)
  Fixpoint run (t i : nat) (p : prog) (st : state) : state :=
    match p with
    | Ret => st
    | Rd l k => run t i (k (rd t l st)) st
    | Wr l v k => run t i k (wr t l v st)
    | Crit c k => run t i k (crit i c st)
    end.

  (* one action *)
  Definition tstep (t i : nat) (p : prog) (st : state) : option (prog * state) :=
    match p with
    | Ret => None
    | Rd l k => Some (k (rd t l st), st)
    | Wr l v k => Some (k, wr t l v st)
    | Crit c k => Some (k, crit i c st)
    end.

  (* per thread: the iterations still to run; the head is the one in progress *)
  Definition item := (nat * prog)%type.
  Definition queues := nat -> list item.
  Definition setq (qs : queues) (t : nat) (q : list item) : queues :=
    fun u => if Nat.eqb t u then q else qs u.

  Definition sched_step (t : nat) (cf : queues * state) : queues * state :=
    let (qs, st) := cf in
    match qs t with
    | [] => cf
    | (i, p) :: rest =>
        match tstep t i p st with
        | None => (setq qs t rest, st)
        | Some (p', st') => (setq qs t ((i, p') :: rest), st')
        end
    end.

  Definition run_sched (sch : list nat) (cf : queues * state) : queues * state :=
    fold_left (fun c t => sched_step t c) sch cf.

  Definition init_queues (body : nat -> prog) (asg : nat -> list nat) : queues :=
    fun t => map (fun i => (i, body i)) (asg t).

  (* the single-threaded execution: iterations 0 .. n-1 in order on thread 0 *)
  Fixpoint seq_run (body : nat -> prog) (l : list nat) (st : state) : state :=
    match l with
    | [] => st
    | i :: l' => seq_run body l' (run 0 i (body i) st)
    end.

  (* the blocks logged by iteration i, newest first *)
  Definition proj (i : nat) (l : list (nat * C)) : list C :=
    map snd (filter (fun e => Nat.eqb (fst e) i) l).

  (* the access a residual program is about to make (None: finished or at a critical section) *)
  Definition next_acc (p : prog) : option (bool * loc) :=
    match p with
    | Rd l _ => Some (false, l)
    | Wr l _ _ => Some (true, l)
    | _ => None
    end.
End ParModel.

Arguments Sh {K} x.
Arguments Pr {K} x.
Arguments Ret {K V C}.
Arguments Rd {K V C} l k.
Arguments Wr {K V C} l v k.
Arguments Crit {K V C} c k.
Arguments mkState {K V C} sh pr clog.
Arguments sh {K V C} s.
Arguments pr {K V C} s.
Arguments clog {K V C} s.
Arguments upd {K} K_eqb {V} m x v.
Arguments updp {K} K_eqb {V} p t x v.
Arguments rd {K V C} t l st.
Arguments wr {K} K_eqb {V C} t l v st.
Arguments crit {K V C} i c st.
Arguments run {K} K_eqb {V C} t i p st.
Arguments tstep {K} K_eqb {V C} t i p st.
Arguments setq {K V C} qs t q.
Arguments sched_step {K} K_eqb {V C} t cf.
Arguments run_sched {K} K_eqb {V C} sch cf.
Arguments init_queues {K V C} body asg.
Arguments seq_run {K} K_eqb {V C} body l st.
Arguments proj {C} i l.
Arguments next_acc {K V C} p.
