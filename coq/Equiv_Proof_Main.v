(* ====================================================================== *)
(*  Equiv_Proof_Main.v — C12: the statements of Properties_C12.v, proved   *)
(*  from the lemmas of Equiv_Proof_*.v / Conn_Proof_Main.v (glue only).    *)
(* ====================================================================== *)
Require Import Arith List Bool ZArith String QArith Qcanon.
From TK Require Import Mat_Sums Mat_Core Mat_Qc Equiv_Model Equiv_Spec Equiv_SpecExec
     Equiv_Proof_Perm Equiv_Proof_Rigid Equiv_Proof_Spectral Equiv_Proof_Affine Equiv_Proof_Knn
     Equiv_Proof_Exec Equiv_Proof_Align Equiv_Proof_Scale Equiv_Effects Equiv_Proof_Effects
     Knn_Spec Conn_Model Conn_Spec Conn_Proof_Main Statics.
Import ListNotations.
Local Open Scope nat_scope.

Lemma main_perm_center_matrix : forall F (Fo : FieldOps F) (Ff : IsField F) n p q (M : mat F) i j,
  is_bij n p q -> center_matrix n (pact q M) i j = pact q (center_matrix n M) i j.
Proof.
  intros F Fo Ff. first [exact (@center_matrix_perm F Fo Ff) | exact (@center_matrix_perm F Fo)].
Qed.

Lemma main_perm_mds_matrix : forall F (Fo : FieldOps F) (Ff : IsField F) n p q (dist : mat F),
  is_bij n p q -> msym n dist ->
  meq n n (mds_matrix n (pact q dist)) (pact q (mds_matrix n dist)).
Proof.
  intros F Fo Ff. first [exact (@mds_matrix_perm F Fo Ff) | exact (@mds_matrix_perm F Fo)].
Qed.

Lemma main_perm_kpca_matrix : forall F (Fo : FieldOps F) (Ff : IsField F) n p q (kern : mat F),
  is_bij n p q -> msym n kern ->
  meq n n (kpca_matrix n (pact q kern)) (pact q (kpca_matrix n kern)).
Proof.
  intros F Fo Ff. first [exact (@kpca_matrix_perm F Fo Ff) | exact (@kpca_matrix_perm F Fo)].
Qed.

Lemma main_perm_isomap_matrix : forall F (Fo : FieldOps F) (Ff : IsField F) n p q (G : mat F),
  is_bij n p q -> meq n n (isomap_matrix n (pact q G)) (pact q (isomap_matrix n G)).
Proof.
  intros F Fo Ff. first [exact (@isomap_matrix_perm F Fo Ff) | exact (@isomap_matrix_perm F Fo)].
Qed.

Lemma main_perm_diffusion_matrix : forall F (Fo : FieldOps F) (Ff : IsField F) n p q fexp fsqrt w (dist : mat F),
  is_bij n p q -> msym n dist ->
  meq n n (diffusion_matrix fexp fsqrt w n (pact q dist)) (pact q (diffusion_matrix fexp fsqrt w n dist)).
Proof.
  intros F Fo Ff. first [exact (@diffusion_matrix_perm F Fo Ff) | exact (@diffusion_matrix_perm F Fo)].
Qed.

Lemma main_perm_laplacian : forall F (Fo : FieldOps F) (Ff : IsField F) n k p q nb (h h' : nat -> nat -> F),
  0 < n -> is_bij n p q -> uniform_rows n k nb -> rows_in_range n nb ->
  (forall a b, a < n -> b < n -> h' (p a) (p b) = h a b) ->
  exists L Dg L' Dg',
    laplacian n nb h = Ok (L, Dg) /\ laplacian n (pnbrs p q nb) h' = Ok (L', Dg') /\
    meq n n L' (pact q L) /\ veq n Dg' (pvec q Dg).
Proof.
  intros F Fo Ff. first [exact (@laplacian_perm F Fo Ff) | exact (@laplacian_perm F Fo)].
Qed.

Lemma main_perm_laplacian_first_row_refuted :
  exists n nb p q, is_bij n p q /\ rows_in_range n nb /\
    rows_in_bounds n nb = true /\ rows_in_bounds n (pnbrs p q nb) = false.
Proof.
  exact laplacian_first_row_order_refuted.
Qed.

Lemma main_perm_lle_gram : forall F (Fo : FieldOps F) (Ff : IsField F) n p q (K : mat F) x nb i j,
  is_bij n p q -> x < n -> nb i < n -> nb j < n ->
  lle_gram (pact q K) (p x) (fun t => p (nb t)) i j = lle_gram K x nb i j.
Proof.
  intros F Fo Ff. first [exact (@lle_gram_perm F Fo Ff) | exact (@lle_gram_perm F Fo)].
Qed.

Lemma main_perm_local_centered_gram : forall F (Fo : FieldOps F) (Ff : IsField F) n k p q (K : mat F) nb,
  is_bij n p q -> (forall t, t < k -> nb t < n) ->
  meq k k (local_centered_gram k (pact q K) (fun t => p (nb t))) (local_centered_gram k K nb).
Proof.
  intros F Fo Ff. first [exact (@local_centered_gram_perm F Fo Ff) | exact (@local_centered_gram_perm F Fo)].
Qed.

Lemma main_perm_pencils : forall F (Fo : FieldOps F) (Ff : IsField F) n p q (W X : mat F) (Dg : vec F) a b,
  is_bij n p q ->
  pencil_lhs n (pact q W) (perm_rows q X) a b = pencil_lhs n W X a b /\
  npe_rhs n (perm_rows q X) a b = npe_rhs n X a b /\
  lpp_rhs n (pvec q Dg) (perm_rows q X) a b = lpp_rhs n Dg X a b /\
  lltsa_rhs n (perm_rows q X) a b = lltsa_rhs n X a b.
Proof.
  intros F Fo Ff n p q W X Dg a b Hb.
  exact (conj (pencil_lhs_perm n p q W X a b Hb) (conj (npe_rhs_perm n p q X a b Hb)
        (conj (lpp_rhs_perm n p q Dg X a b Hb) (lltsa_rhs_perm n p q X a b Hb)))).
Qed.

Lemma main_perm_spectral_embedding : forall F (Fo : FieldOps F) (Ff : IsField F) n d p q (G G' V : mat F) lam s,
  is_bij n p q -> meq n n G' (pact q G) -> eig_answer n d G V lam ->
  eig_answer n d G' (perm_rows q V) lam /\
  rows_permuted n d q (scale_cols V s) (scale_cols (perm_rows q V) s) /\
  forall i j, i < n -> j < n ->
    emb_sq_dist d (scale_cols (perm_rows q V) s) i j = emb_sq_dist d (scale_cols V s) (q i) (q j).
Proof.
  intros F Fo Ff n d p q G G' V lam s Hb HG Ha.
  destruct (spectral_embedding_perm n d p q G G' V lam s Hb HG Ha) as [H1 H2].
  split; [exact H1|]. split; [exact H2|]. intros i j Hi Hj.
  exact (rows_permuted_distances n d q _ _ i j H2 Hi Hj).
Qed.

Lemma main_perm_pca_embedding : forall F (Fo : FieldOps F) (Ff : IsField F) n D d p q (X P : mat F) lam,
  is_bij n p q -> eig_answer D d (pca_matrix_fixed n X) P lam ->
  eig_answer D d (pca_matrix_fixed n (perm_rows q X)) P lam /\
  forall i c, project D P (mean_vec n (perm_rows q X)) (perm_rows q X) i c
              = project D P (mean_vec n X) X (q i) c.
Proof.
  intros F Fo Ff. first [exact (@pca_embedding_perm F Fo Ff) | exact (@pca_embedding_perm F Fo)].
Qed.

Lemma main_perm_knn_spec : forall N p pinv d q k l,
  zbij N p pinv -> (0 <= q < Z.of_nat N)%Z -> (forall i, In i l -> (0 <= i < Z.of_nat N)%Z) ->
  (is_knn d N q k l <-> is_knn (relabel_dist pinv d) N (p q) k (map p l)).
Proof.
  exact knn_spec_perm_equivariant.
Qed.

Lemma main_perm_knn_distances : forall N p pinv d q k l l',
  zbij N p pinv -> (0 <= q < Z.of_nat N)%Z ->
  is_knn d N q k l -> is_knn (relabel_dist pinv d) N (p q) k l' ->
  dists_sorted (relabel_dist pinv d) (p q) l' = dists_sorted d q l.
Proof.
  exact knn_dists_perm_invariant.
Qed.

Lemma main_perm_connectivity : forall N nb p, 0 < N -> wf_graph N nb -> is_perm N p ->
  is_connected_fixed N (relabel p nb) = is_connected_fixed N nb.
Proof.
  exact main_cc_perm.
Qed.

Lemma main_perm_connectivity_pre_f3_refuted :
  exists N nb p, wf_graph N nb /\ uniform nb /\ is_perm N p /\
    is_connected N nb = COk true /\ is_connected N (relabel p nb) = COk false.
Proof.
  exact main_cc_order_refuted.
Qed.

Lemma main_orthogonal_tables : forall F (Fo : FieldOps F) (Ff : IsField F) D (R X : mat F) fsqrt i j,
  orthogonal D R ->
  lin_kernel D (rotate D R X) i j = lin_kernel D X i j /\
  sq_dist D (rotate D R X) i j = sq_dist D X i j /\
  euclid_dist fsqrt D (rotate D R X) i j = euclid_dist fsqrt D X i j.
Proof.
  intros F Fo Ff D R X fsqrt i j Ho.
  exact (conj (lin_kernel_orthogonal D R X i j Ho) (conj (sq_dist_orthogonal D R X i j Ho)
        (euclid_dist_orthogonal fsqrt D R X i j Ho))).
Qed.

Lemma main_orthogonal_mds_kpca : forall F (Fo : FieldOps F) (Ff : IsField F) n D (R X : mat F) fsqrt,
  orthogonal D R ->
  meq n n (mds_matrix n (euclid_dist fsqrt D (rotate D R X))) (mds_matrix n (euclid_dist fsqrt D X)) /\
  meq n n (kpca_matrix n (lin_kernel D (rotate D R X))) (kpca_matrix n (lin_kernel D X)).
Proof.
  intros F Fo Ff n D R X fsqrt Ho.
  exact (conj (mds_orthogonal_invariant n D R fsqrt X Ho) (kpca_orthogonal_invariant n D R X Ho)).
Qed.

Lemma main_same_matrix_same_answer_set : forall F (Fo : FieldOps F) (Ff : IsField F) n d (G G' V : mat F) lam,
  meq n n G' G -> (eig_answer n d G V lam <-> eig_answer n d G' V lam).
Proof.
  intros F Fo Ff. first [exact (@same_matrix_same_answers F Fo Ff) | exact (@same_matrix_same_answers F Fo)].
Qed.

Lemma main_orthogonal_pca_embedding : forall F (Fo : FieldOps F) (Ff : IsField F) n D d (R X P : mat F) lam,
  of_nat n <> 0%F -> two <> 0%F -> orthogonal D R ->
  eig_answer D d (pca_matrix_fixed n X) P lam ->
  eig_answer D d (pca_matrix_fixed n (rotate D R X)) (mmul D R P) lam /\
  forall i k, project D (mmul D R P) (mean_vec n (rotate D R X)) (rotate D R X) i k
              = project D P (mean_vec n X) X i k.
Proof.
  intros F Fo Ff. first [exact (@pca_embedding_orthogonal_fixed F Fo Ff) | exact (@pca_embedding_orthogonal_fixed F Fo)].
Qed.

Lemma main_orthogonal_pca_pre_f8_refuted :
  exists n D (R X : mat Qc) a b, orthogonal D R /\ a < D /\ b < D /\
    pca_matrix_shipped n (rotate D R X) a b <> conj_R D R (pca_matrix_shipped n X) a b.
Proof.
  exact pca_pre_f8_orthogonal_refuted.
Qed.

Lemma main_orthogonal_pencils : forall F (Fo : FieldOps F) (Ff : IsField F) n D d (R W X : mat F) (Dg : vec F)
                                    (P : mat F) lam,
  orthogonal D R ->
  (geig_answer D d (pencil_lhs n W X) (npe_rhs n X) P lam ->
   geig_answer D d (pencil_lhs n W (rotate D R X)) (npe_rhs n (rotate D R X)) (mmul D R P) lam) /\
  (geig_answer D d (pencil_lhs n W X) (lpp_rhs n Dg X) P lam ->
   geig_answer D d (pencil_lhs n W (rotate D R X)) (lpp_rhs n Dg (rotate D R X)) (mmul D R P) lam) /\
  (geig_answer D d (pencil_lhs n W X) (lltsa_rhs n X) P lam ->
   geig_answer D d (pencil_lhs n W (rotate D R X)) (lltsa_rhs n (rotate D R X)) (mmul D R P) lam) /\
  forall m i k, project D (mmul D R P) (rot_vec D R m) (rotate D R X) i k = project D P m X i k.
Proof.
  intros F Fo Ff n D d R W X Dg P lam Ho. split; [|split; [|split]].
  - intros Ha. eapply geig_answer_rotate; [exact Ho| | |exact Ha].
    + intros a b _ _. apply pencil_lhs_rotate.
    + intros a b _ _. apply npe_rhs_rotate.
  - intros Ha. eapply geig_answer_rotate; [exact Ho| | |exact Ha].
    + intros a b _ _. apply pencil_lhs_rotate.
    + intros a b _ _. apply lpp_rhs_rotate.
  - intros Ha. eapply geig_answer_rotate; [exact Ho| | |exact Ha].
    + intros a b _ _. apply pencil_lhs_rotate.
    + intros a b _ _. apply lltsa_rhs_rotate.
  - intros m i k. apply project_rotate. exact Ho.
Qed.

Lemma main_translation_tables : forall F (Fo : FieldOps F) (Ff : IsField F) D (t : vec F) (X : mat F) fsqrt i j,
  sq_dist D (translate t X) i j = sq_dist D X i j /\
  euclid_dist fsqrt D (translate t X) i j = euclid_dist fsqrt D X i j /\
  lin_kernel D (translate t X) i j =
    shifted (lin_kernel D X) (fun s => dot D (X s) t) (dot D t t) i j.
Proof.
  intros F Fo Ff D t X fsqrt i j.
  exact (conj (sq_dist_translate D t X i j) (conj (euclid_dist_translate fsqrt D t X i j)
        (lin_kernel_translate D t X i j))).
Qed.

Lemma main_translation_kpca : forall F (Fo : FieldOps F) (Ff : IsField F) n D (t : vec F) (X : mat F),
  of_nat n <> 0%F ->
  meq n n (kpca_matrix n (lin_kernel D (translate t X))) (kpca_matrix n (lin_kernel D X)) /\
  meq n n (double_center n (lin_kernel D (translate t X))) (double_center n (lin_kernel D X)).
Proof.
  intros F Fo Ff n D t X Hn.
  exact (conj (kpca_matrix_translate n D t X Hn) (double_center_translate n D t X Hn)).
Qed.

Lemma main_translation_center_matrix : forall F (Fo : FieldOps F) (Ff : IsField F) n (K : mat F) a c i j,
  of_nat n <> 0%F -> center_matrix n (shifted K a c) i j = center_matrix n K i j.
Proof.
  intros F Fo Ff. first [exact (@center_matrix_shifted F Fo Ff) | exact (@center_matrix_shifted F Fo)].
Qed.

Lemma main_translation_local_grams : forall F (Fo : FieldOps F) (Ff : IsField F) k D (t : vec F) (X : mat F) x nb,
  of_nat k <> 0%F ->
  (forall i j, lle_gram (lin_kernel D (translate t X)) x nb i j = lle_gram (lin_kernel D X) x nb i j) /\
  (forall l r, kernel_sq_dist (lin_kernel D (translate t X)) l r = kernel_sq_dist (lin_kernel D X) l r) /\
  meq k k (local_centered_gram k (lin_kernel D (translate t X)) nb)
          (local_centered_gram k (lin_kernel D X) nb).
Proof.
  intros F Fo Ff k D t X x nb Hk. split; [|split].
  - intros i j. apply lle_gram_translate.
  - intros l r. apply kernel_sq_dist_translate.
  - apply local_centered_gram_translate. exact Hk.
Qed.

Lemma main_translation_mds : forall F (Fo : FieldOps F) (Ff : IsField F) n D (t : vec F) fsqrt (X : mat F),
  meq n n (mds_matrix n (euclid_dist fsqrt D (translate t X))) (mds_matrix n (euclid_dist fsqrt D X)).
Proof.
  intros F Fo Ff. first [exact (@mds_translation_invariant F Fo Ff) | exact (@mds_translation_invariant F Fo)].
Qed.

Lemma main_translation_pca_embedding : forall F (Fo : FieldOps F) (Ff : IsField F) n D d (t : vec F) (X P : mat F) lam,
  of_nat n <> 0%F -> eig_answer D d (pca_matrix_fixed n X) P lam ->
  eig_answer D d (pca_matrix_fixed n (translate t X)) P lam /\
  forall i c, project D P (mean_vec n (translate t X)) (translate t X) i c
              = project D P (mean_vec n X) X i c.
Proof.
  intros F Fo Ff. first [exact (@pca_embedding_translate F Fo Ff) | exact (@pca_embedding_translate F Fo)].
Qed.

Lemma main_translation_lltsa_pencil : forall F (Fo : FieldOps F) (Ff : IsField F) n (W : mat F) (t : vec F) (X : mat F) a b,
  of_nat n <> 0%F -> zero_row_col_sums n W ->
  lltsa_rhs n (translate t X) a b = lltsa_rhs n X a b /\
  pencil_lhs n W (translate t X) a b = pencil_lhs n W X a b.
Proof.
  intros F Fo Ff n W t X a b Hn HW.
  exact (conj (lltsa_rhs_translate n t X a b Hn) (pencil_lhs_translate n W t X a b HW)).
Qed.

Lemma main_translation_npe_refuted :
  exists (n D d : nat) (W X : mat Qc) (t : vec Qc),
    zero_row_col_sums n W /\
    (exists P lam, geig_answer D d (pencil_lhs n W X) (npe_rhs n X) P lam) /\
    (exists P' lam', geig_answer D d (pencil_lhs n W (translate t X)) (npe_rhs n (translate t X)) P' lam') /\
    forall P lam P' lam',
      geig_answer D d (pencil_lhs n W X) (npe_rhs n X) P lam ->
      geig_answer D d (pencil_lhs n W (translate t X)) (npe_rhs n (translate t X)) P' lam' ->
      emb_sq_dist d (project D P' (mean_vec n (translate t X)) (translate t X)) 0 1
      <> emb_sq_dist d (project D P (mean_vec n X) X) 0 1.
Proof.
  exact npe_translation_refuted_Qc.
Qed.

Lemma main_translation_lpp_refuted :
  exists (n D d : nat) (L X : mat Qc) (Dg t : vec Qc),
    zero_row_col_sums n L /\
    (exists P lam, geig_answer D d (pencil_lhs n L X) (lpp_rhs n Dg X) P lam) /\
    (exists P' lam', geig_answer D d (pencil_lhs n L (translate t X)) (lpp_rhs n Dg (translate t X)) P' lam') /\
    forall P lam P' lam',
      geig_answer D d (pencil_lhs n L X) (lpp_rhs n Dg X) P lam ->
      geig_answer D d (pencil_lhs n L (translate t X)) (lpp_rhs n Dg (translate t X)) P' lam' ->
      emb_sq_dist d (project D P' (mean_vec n (translate t X)) (translate t X)) 0 1
      <> emb_sq_dist d (project D P (mean_vec n X) X) 0 1.
Proof.
  exact lpp_translation_refuted_Qc.
Qed.

Lemma main_scale_matrices : forall F (Fo : FieldOps F) (Ff : IsField F) n D c fsqrt (X G : mat F),
  of_nat n <> 0%F -> two <> 0%F -> (forall x, fsqrt (c * c * x) = c * fsqrt x)%F ->
  meq n n (mds_matrix n (euclid_dist fsqrt D (scale c X)))
          (mscale (c * c)%F (mds_matrix n (euclid_dist fsqrt D X))) /\
  meq n n (kpca_matrix n (lin_kernel D (scale c X))) (mscale (c * c)%F (kpca_matrix n (lin_kernel D X))) /\
  meq n n (isomap_matrix n (mscale c G)) (mscale (c * c)%F (isomap_matrix n G)).
Proof.
  intros F Fo Ff n D c fsqrt X G Hn H2 Hs.
  exact (conj (mds_scale_equivariant n D c fsqrt X Hn Hs) (conj (kpca_scale_equivariant n D c X Hn)
        (isomap_matrix_scale n c G Hn H2))).
Qed.

Lemma main_scale_geodesics : forall nb w c i j d,
  (0 < c)%Z -> is_geodesic nb w i j d ->
  is_geodesic nb (fun a b => (c * w a b)%Z) i j (option_map (Z.mul c) d).
Proof.
  exact geodesic_scale.
Qed.

Lemma main_scale_spectral_embedding : forall F (Fo : FieldOps F) (Ff : IsField F) n d c (G G' V : mat F) lam s,
  meq n n G' (mscale (c * c)%F G) ->
  eig_answer n d G V lam -> (forall k, k < d -> (s k * s k = lam k)%F) ->
  eig_answer n d G' V (fun k => (c * c * lam k)%F) /\
  (forall k, k < d -> ((c * s k) * (c * s k) = c * c * lam k)%F) /\
  scaled_by n d c (scale_cols V s) (scale_cols V (fun k => (c * s k)%F)) /\
  forall i j, i < n -> j < n ->
    emb_sq_dist d (scale_cols V (fun k => (c * s k)%F)) i j = (c * c * emb_sq_dist d (scale_cols V s) i j)%F.
Proof.
  intros F Fo Ff n d c G G' V lam s HG Ha Hs.
  destruct (spectral_embedding_scale n d c G G' V lam s HG Ha Hs) as (H1 & H2 & H3).
  split; [exact H1|]. split; [exact H2|]. split; [exact H3|].
  intros i j Hi Hj. exact (scaled_by_distances n d c _ _ i j H3 Hi Hj).
Qed.

Lemma main_scale_pca_embedding : forall F (Fo : FieldOps F) (Ff : IsField F) n D d c (X P : mat F) lam,
  of_nat n <> 0%F -> two <> 0%F -> eig_answer D d (pca_matrix_fixed n X) P lam ->
  eig_answer D d (pca_matrix_fixed n (scale c X)) P (fun k => (c * c * lam k)%F) /\
  forall i k, project D P (mean_vec n (scale c X)) (scale c X) i k
              = (c * project D P (mean_vec n X) X i k)%F.
Proof.
  intros F Fo Ff. first [exact (@pca_embedding_scale F Fo Ff) | exact (@pca_embedding_scale F Fo)].
Qed.

Lemma main_no_hidden_state_partial : inventory_ok Statics.inventory = true.
Proof.
  vm_compute. reflexivity.
Qed.

Lemma main_exec_tables : forall F (Fo : FieldOps F) (Ff : IsField F) n D (L : list (list F)),
  mds_matrix_exec n L = mtab n n (mds_matrix n (mof L)) /\
  kpca_matrix_exec n L = mtab n n (kpca_matrix n (mof L)) /\
  isomap_matrix_exec n L = mtab n n (isomap_matrix n (mof L)) /\
  mean_exec n D L = vtab D (mean_vec n (mof L)) /\
  (of_nat n <> 0%F -> cov_exec n D L = mtab D D (cov_full n (mof L))).
Proof.
  intros F Fo Ff n D L.
  exact (conj (mds_matrix_exec_ok n L) (conj (kpca_matrix_exec_ok n L) (conj (isomap_matrix_exec_ok n L)
        (conj (mean_exec_ok n D L) (cov_exec_is_cov_full n D L))))).
Qed.

Lemma main_checkers_sound : forall n m d D ql c (M M' R : T),
  (perm_list_b n ql = true -> is_bij n (perm_inv_fun ql) (qfun ql)) /\
  (rel_perm_tab_b n ql M M' = true -> meq n n (mof M') (pact (qfun ql) (mof M))) /\
  (rel_perm_rows_b n d ql M M' = true -> rows_permuted n d (qfun ql) (mof M) (mof M')) /\
  (rel_eq_tab_b n m M M' = true -> meq n m (mof M') (mof M)) /\
  (rel_scale_tab_b n m c M M' = true -> meq n m (mof M') (mscale c (mof M))) /\
  (rel_conj_tab_b D R M M' = true -> meq D D (mof M') (conj_R D (mof R) (mof M))) /\
  (orth_b D R = true -> orthogonal D (mof R)).
Proof.
  intros n m d D ql c M M' R.
  exact (conj (perm_list_b_sound n ql) (conj (rel_perm_tab_b_sound n ql M M')
        (conj (rel_perm_rows_b_sound n d ql M M') (conj (rel_eq_tab_b_sound n m M M')
        (conj (rel_scale_tab_b_sound n m c M M') (conj (rel_conj_tab_b_sound D R M M')
        (orth_b_sound D R))))))).
Qed.

Lemma main_translation_lltsa_f42 : forall F (Fo : FieldOps F) (Ff : IsField F) n (W' : mat F) (t : vec F) (X : mat F) a b,
  of_nat n <> 0%F ->
  lltsa_lhs_f42 n W' (translate t X) a b = lltsa_lhs_f42 n W' X a b /\
  lltsa_rhs_f42 n (translate t X) a b = lltsa_rhs_f42 n X a b /\
  lltsa_rhs_f42 n X a b = lltsa_rhs n X a b.
Proof.
  intros F Fo Ff n W' t X a b Hn.
  destruct (lltsa_f42_translate n W' t X a b Hn) as [H1 H2].
  exact (conj H1 (conj H2 (lltsa_rhs_f42_is_lltsa_rhs n X a b Hn))).
Qed.

Lemma main_perm_alignment_matrices : forall F (Fo : FieldOps F) (Ff : IsField F) n k p q nb
    (w w' : nat -> nat -> F) (Gx Gx' : nat -> mat F) shift,
  is_bij n p q -> rows_in_range n nb ->
  (forall y a, y < n -> w' (p y) a = w y a) ->
  (forall y a b, y < n -> Gx' (p y) a b = Gx y a b) ->
  meq n n (klle_M n k (pnbrs p q nb) w' shift) (pact q (klle_M n k nb w shift)) /\
  meq n n (kltsa_M n k (pnbrs p q nb) Gx' shift) (pact q (kltsa_M n k nb Gx shift)) /\
  meq n n (hlle_M n k (pnbrs p q nb) Gx') (pact q (hlle_M n k nb Gx)).
Proof.
  intros F Fo Ff n k p q nb w w' Gx Gx' shift Hb Hr Hw Hg.
  exact (conj (klle_M_perm n k p q nb w w' shift Hb Hr Hw) (conj (kltsa_M_perm n k p q nb Gx Gx' shift Hb Hr Hg)
        (hlle_M_perm n k p q nb Gx Gx' Hb Hr Hg))).
Qed.

Lemma main_alignment_row_col_sums : forall F (Fo : FieldOps F) (Ff : IsField F) n k nb
    (w : nat -> nat -> F) (Gx : nat -> mat F) shift,
  rows_in_range n nb ->
  (forall x, x < n -> sumn k (fun a => w x a) = 1%F) ->
  (forall x a, x < n -> a < k -> sumn k (fun b => Gx x a b) = 1%F) ->
  zero_row_col_sums n (klle_M n k nb w 0%F) /\
  (forall i, i < n -> sumn n (fun j => klle_M n k nb w shift i j) = shift) /\
  (forall i, i < n -> sumn n (fun j => kltsa_M n k nb Gx shift i j) = shift).
Proof.
  intros F Fo Ff n k nb w Gx shift Hr Hw Hg. split; [|split].
  - apply klle_M_zero_sums; assumption.
  - intros i Hi. apply klle_M_row_sums; assumption.
  - intros i Hi. apply kltsa_M_row_sums; assumption.
Qed.

Lemma main_perm_laplacian_eigenmaps : forall F (Fo : FieldOps F) (Ff : IsField F) n k d p q nb
    (h h' : nat -> nat -> F) (V : mat F) lam,
  0 < n -> is_bij n p q -> uniform_rows n k nb -> rows_in_range n nb ->
  (forall a b, a < n -> b < n -> h' (p a) (p b) = h a b) ->
  geig_answer n d (lap_L n nb h) (mdiag (lap_D n nb h)) V lam ->
  geig_answer n d (lap_L n (pnbrs p q nb) h') (mdiag (lap_D n (pnbrs p q nb) h')) (perm_rows q V) lam /\
  rows_permuted n d q V (perm_rows q V).
Proof. intros F Fo Ff. exact (@laplacian_eigenmaps_perm F Fo Ff). Qed.

(* ---- wave 2: centerMatrix and scales; the process state and draw-free calls ---- *)
Lemma main_scale_center_matrix : forall F (Fo : FieldOps F) (Ff : IsField F) n c (M : mat F) i j,
  of_nat n <> 0%F -> center_matrix n (mscale c M) i j = mscale c (center_matrix n M) i j.
Proof. intros F Fo Ff. exact (@center_matrix_scale F Fo Ff). Qed.

Lemma main_center_skip_exact_harmless : forall F (Fo : FieldOps F) (Ff : IsField F) small n (M : mat F),
  of_nat n <> 0%F -> (forall x, small x = true -> x = 0%F) ->
  meq n n (center_matrix_skip small n M) (center_matrix n M).
Proof. intros F Fo Ff. exact (@center_skip_exact_harmless F Fo Ff). Qed.

Lemma main_center_skip_absolute_refuted :
  exists n (M : mat Qc) (c : Qc) i j, i < n /\ j < n /\ c <> 0%F /\
    center_matrix_skip small_abs n (mscale c M) i j <> mscale c (center_matrix_skip small_abs n M) i j.
Proof. exact center_skip_absolute_refuted. Qed.

Lemma main_draw_free_call_state_independent : forall A (p : prog A) s,
  effects p s = 0 ->
  forall s', fst (run p s') = fst (run p s) /\ effects p s' = 0 /\
             ps_pos (snd (run p s')) = ps_pos s' /\ ps_shuf (snd (run p s')) = ps_shuf s'.
Proof. exact no_effects_state_independent. Qed.

Lemma main_draw_free_call_history_independent : forall A (h : list (prog unit)) (p : prog A) s0,
  effects p s0 = 0 -> forall s, fst (run_history h p s) = fst (run p s0).
Proof. exact no_effects_history_independent. Qed.

Lemma main_logger_never_matters : forall A (p : prog A) s s',
  same_streams s s' ->
  fst (run p s) = fst (run p s') /\ effects p s = effects p s' /\
  same_streams (snd (run p s)) (snd (run p s')).
Proof. exact logger_blind. Qed.

Lemma main_drawing_call_depends_on_state_refuted :
  exists (p : prog nat) s s', effects p s = 1 /\ fst (run p s) <> fst (run p s').
Proof. exact draw_depends_on_state_refuted. Qed.

Lemma main_isomap_pre_f23_equivariant : forall F (Fo : FieldOps F) (Ff : IsField F) n p q c (G : mat F),
  (is_bij n p q -> meq n n (isomap_matrix_pre_f23 n (pact q G)) (pact q (isomap_matrix_pre_f23 n G))) /\
  (of_nat n <> 0%F ->
   meq n n (isomap_matrix_pre_f23 n (mscale c G)) (mscale (c * c)%F (isomap_matrix_pre_f23 n G))) /\
  (forall LG, isomap_matrix_pre_f23_exec n LG = mtab n n (isomap_matrix_pre_f23 n (mof LG))).
Proof.
  intros F Fo Ff n p q c G. split; [|split].
  - exact (@isomap_pre_f23_perm F Fo Ff n p q G).
  - exact (@isomap_pre_f23_scale F Fo Ff n c G).
  - intros LG. unfold isomap_matrix_pre_f23_exec. apply mtab_ext. intros i j Hi Hj.
    unfold isomap_matrix_pre_f23. rewrite !vof_vtab by assumption.
    rewrite <- (center_matrix_meq n _ _ (mof_mtab_meq n n (geo_sq (mof LG))) i j Hi Hj).
    reflexivity.
Qed.
