(* ====================================================================== *)
(*  Pca_Proof_Qc.v — the closed Qc facts of C06: the regression witness    *)
(*  for defect F8 (old code), and soundness of the decision procedures     *)
(*  run by checks/c06.py in exact mode (tol = 0).                          *)
(* ====================================================================== *)
Require Import Arith Lia List Bool ZArith QArith Qcanon.
From TK Require Import Mat_Sums Mat_Core Mat_Qc Proj_Model Proj_Spec Proj_Proof Pca_Model Pca_Spec Pca_Proof.
Import ListNotations.
Local Open Scope nat_scope.

(* two samples (0,0) and (2,2): covariance [[1,1],[1,1]]; the OLD code handed the dense solver a
   matrix it saw as [[1,1/2],[1/2,1]] *)
Definition f8_X : list (list Qc) := [[qz 0; qz 0]; [qz 2; qz 2]].

Lemma mlist_neq (A B : list (list Qc)) : mlist_eqb A B = false -> A <> B.
Proof. intros H E. apply mlist_eqb_ok in E. congruence. Qed.

Theorem cov_seen_dense_refuted :
  exists (N D : nat) (Xs : list (list Qc)), wf_mat N D Xs /\ N <> 0 /\
    exists U, pca_matrix_old_exec D Xs = POk U /\
      seen_dense_exec D U <> mtab D D (cov_spec N (mof Xs)) /\
      seen_dense_exec D U = [[qz 1; qfrac 1 2]; [qfrac 1 2; qz 1]] /\
      mtab D D (cov_spec N (mof Xs)) = [[qz 1; qz 1]; [qz 1; qz 1]] /\
      (* while the CURRENT code hands over a matrix seen as the covariance *)
      exists C, pca_matrix_exec D Xs = POk C /\
        seen_dense_exec D C = mtab D D (cov_spec N (mof Xs)).
Proof.
  exists 2, 2, f8_X. split; [split; [reflexivity|repeat constructor]|]. split; [lia|].
  destruct (@pca_matrix_exec_ok Qc QcOps QcField 2 2 f8_X) as [E1 E2];
    [split; [reflexivity|repeat constructor]|].
  eexists. split; [exact E2|]. split; [|split; [|split]].
  - apply mlist_neq. vm_compute. reflexivity.
  - apply mlist_eqb_ok. vm_compute. reflexivity.
  - apply mlist_eqb_ok. vm_compute. reflexivity.
  - eexists. split; [exact E1|]. apply mlist_eqb_ok. vm_compute. reflexivity.
Qed.

(* ---------------- decision procedures, exact mode ---------------- *)
Lemma mwithin_zero n m (A B : mat Qc) : mwithin n m (Q2Qc 0) A B -> meq n m A B.
Proof.
  intros H i j Hi Hj. apply (vwithin_zero m (A i) (B i)); [|assumption].
  intros t Ht. apply H; assumption.
Qed.

Theorem cov_seen_dense_b_exact N D (Xs Cret : list (list Qc)) :
  cov_seen_dense_b N D (Q2Qc 0) Xs Cret = Some true ->
  meq D D (seen_dense (mof Cret)) (cov_spec N (mof Xs)).
Proof.
  unfold cov_seen_dense_b. destruct (wf_matb N D Xs && wf_matb D D Cret); [|discriminate].
  intros H. inversion H as [H1]. apply mwithin_b_ok in H1. apply mwithin_zero in H1.
  intros i j Hi Hj. rewrite (H1 i j Hi Hj). apply mof_mtab; assumption.
Qed.

Theorem cov_seen_randomized_b_exact N D (Xs Cret : list (list Qc)) :
  cov_seen_randomized_b N D (Q2Qc 0) Xs Cret = Some true ->
  meq D D (seen_randomized (mof Cret)) (cov_spec N (mof Xs)).
Proof.
  unfold cov_seen_randomized_b. destruct (wf_matb N D Xs && wf_matb D D Cret); [|discriminate].
  intros H. inversion H as [H1]. apply mwithin_b_ok in H1. apply mwithin_zero in H1.
  intros i j Hi Hj. rewrite (H1 i j Hi Hj). apply mof_mtab; assumption.
Qed.

Theorem eig_contract_tol_b_exact D d (C P : list (list Qc)) (lam : list Qc) :
  eig_contract_tol_b D d (Q2Qc 0) C P lam = Some true ->
  eig_contract D d (mof C) (mof P) (vof lam).
Proof.
  unfold eig_contract_tol_b.
  destruct (wf_matb D D C && wf_matb D d P && Nat.eqb (length lam) d); [|discriminate].
  intros H. inversion H as [H1]. apply andb_true_iff in H1. destruct H1 as [Ha Hb].
  apply mwithin_b_ok in Ha. apply mwithin_zero in Ha.
  apply mwithin_b_ok in Hb. apply mwithin_zero in Hb. split; [exact Ha|].
  intros i j Hi Hj. rewrite <- (Hb i j Hi Hj). symmetry. apply mof_mtab; assumption.
Qed.

Theorem uncorrelated_tol_b_exact N d (Y : list (list Qc)) (lam : list Qc) :
  uncorrelated_tol_b N d (Q2Qc 0) Y lam = Some true -> uncorrelated N d (mof Y) (vof lam).
Proof.
  unfold uncorrelated_tol_b. destruct (wf_matb N d Y && Nat.eqb (length lam) d); [|discriminate].
  intros H. inversion H as [H1]. apply mwithin_b_ok in H1. apply mwithin_zero in H1.
  intros a b Ha Hb. exact (H1 a b Ha Hb).
Qed.

(* the model's own covariance passes the exact procedure for both front-ends *)
Theorem model_cov_passes N D (Xs C : list (list Qc)) :
  N <> 0 -> wf_mat N D Xs -> pca_matrix_exec D Xs = POk C ->
  cov_seen_dense_b N D (Q2Qc 0) Xs C = Some true /\
  cov_seen_randomized_b N D (Q2Qc 0) Xs C = Some true.
Proof.
  intros HN HX HC.
  destruct (@pca_matrix_exec_ok Qc QcOps QcField N D Xs HX) as [E _]. rewrite HC in E.
  injection E as E. subst C.
  assert (W : wf_matb D D (mtab D D (pca_matrix N (mof Xs))) = true)
    by (apply wf_matb_ok; apply mtab_wf).
  apply wf_matb_ok in HX. unfold cov_seen_dense_b, cov_seen_randomized_b. rewrite HX, W. cbn [andb].
  assert (HN' : @of_nat Qc QcOps N <> 0%F) by (apply Qc_of_nat_neq0; assumption).
  assert (ME : forall (G : mat Qc -> mat Qc),
             (forall A B, meq D D A B -> meq D D (G A) (G B)) ->
             (forall i j, G (pca_matrix N (mof Xs)) i j = cov_spec N (mof Xs) i j) ->
             mwithin_b D D (Q2Qc 0) (G (mof (mtab D D (pca_matrix N (mof Xs)))))
                       (mof (mtab D D (cov_spec N (mof Xs)))) = true).
  { intros G Gext Gok. apply mwithin_b_ok. intros i j Hi Hj.
    rewrite (Gext _ _ (mof_mtab_meq D D (pca_matrix N (mof Xs))) i j Hi Hj).
    rewrite Gok, mof_mtab by assumption.
    unfold Qcminus. rewrite Qcplus_opp_r. unfold pq_abs.
    assert (E0 : pq_leb (Q2Qc 0) (Q2Qc 0) = true) by (apply pq_leb_ok; apply Qcle_refl).
    rewrite E0. apply Qcle_refl. }
  split; f_equal; apply ME.
  - intros A B HAB i j Hi Hj. unfold seen_dense, read_lower, sym_avg.
    destruct (Nat.leb j i); rewrite (HAB i j), (HAB j i) by assumption; reflexivity.
  - intros i j. apply (@cov_seen_dense Qc QcOps QcField); [apply Qc_two_neq0|assumption].
  - intros A B HAB i j Hi Hj. unfold seen_randomized, read_upper.
    destruct (Nat.leb i j); apply HAB; assumption.
  - intros i j. apply (@cov_seen_randomized Qc QcOps QcField). assumption.
Qed.

(* packaged statements used by Properties_C06.v *)
Theorem cov_is_covariance_Qc (N : nat) (X : mat Qc) :
  N <> 0 -> forall i j, pca_matrix N X i j = cov_spec N X i j.
Proof. intros HN. apply (@cov_is_covariance Qc QcOps QcField). apply Qc_of_nat_neq0. exact HN. Qed.

Theorem decisions_sound :
  (forall N D (Xs C : list (list Qc)),
     cov_seen_dense_b N D (Q2Qc 0) Xs C = Some true ->
     meq D D (seen_dense (mof C)) (cov_spec N (mof Xs))) /\
  (forall N D (Xs C : list (list Qc)),
     cov_seen_randomized_b N D (Q2Qc 0) Xs C = Some true ->
     meq D D (seen_randomized (mof C)) (cov_spec N (mof Xs))) /\
  (forall D d (C P : list (list Qc)) (lam : list Qc),
     eig_contract_tol_b D d (Q2Qc 0) C P lam = Some true ->
     eig_contract D d (mof C) (mof P) (vof lam)) /\
  (forall N d (Y : list (list Qc)) (lam : list Qc),
     uncorrelated_tol_b N d (Q2Qc 0) Y lam = Some true -> uncorrelated N d (mof Y) (vof lam)) /\
  (forall N D (Xs C : list (list Qc)), N <> 0 -> wf_mat N D Xs -> pca_matrix_exec D Xs = POk C ->
     cov_seen_dense_b N D (Q2Qc 0) Xs C = Some true /\
     cov_seen_randomized_b N D (Q2Qc 0) Xs C = Some true).
Proof.
  split; [exact cov_seen_dense_b_exact|]. split; [exact cov_seen_randomized_b_exact|].
  split; [exact eig_contract_tol_b_exact|]. split; [exact uncorrelated_tol_b_exact|].
  exact model_cov_passes.
Qed.
