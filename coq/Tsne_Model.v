(* Tsne_Model.v — executable model of the dense parts of tsne::TSNE (tsne.hpp):
   zeroMean, the max-normalisation in run(), computeSquaredEuclideanDistance (shipped
   and repaired), the perplexity search of computeGaussianPerplexity (dense and K-NN
   overloads share it), the dense symmetrisation + normalisation in run(),
   computeExactGradient, and K = (int)(3 * perplexity).  No proofs in this file.
   (The VP-tree is in Tsne_Vp_Model.v, symmetrizeMatrix in Tsne_Sym_Model.v, the
   quadtree in c18's QuadTree_Model.v.)

   Layout.  A raw buffer `ScalarType* X` with N samples of dimension D is the function
   X : nat -> nat -> F, X n d = X[n * D + d]; an N x N buffer is M n m = M[n * N + m].
   Numbers.
   * Algebraic parts (genuine division, no comparisons): an abstract field F (Mat_Sums
     classes); closed instance Qc.  Sums are `sumn` = left folds from 0 in index order,
     as the C++ loops.
   * The perplexity search compares: Q, with exp and log as VALUE ORACLES (functions
     passed in; the theorems hold for every oracle), DBL_MIN, DBL_MAX and tol as
     parameters.  min_beta/max_beta are `option Q`: None is the initial -/+DBL_MAX
     (`max_beta == DBL_MAX || max_beta == -DBL_MAX` is `None`; assumption: beta itself
     never equals +-DBL_MAX, which 200 doublings from 1.0 cannot reach).
   * K: PrimFloat (binary64 product, C truncation toward zero). *)
From Coq Require Import List Arith Bool ZArith QArith Floats.
From TK Require Import Mat_Sums.
Import ListNotations.

(* ====================================================================== *)
Section Dense.
  Context {F : Type} {Fo : FieldOps F} {Ff : IsField F}.
  Local Open Scope F_scope.

  Definition buf := nat -> nat -> F.

  (* zeroMean(X, N, D): mean[d] = (sum_n X[n*D+d]) / (double) N;  X[n*D+d] -= mean[d] *)
  Definition col_mean (N : nat) (X : buf) (d : nat) : F :=
    sumn N (fun n => X n d) / of_nat N.
  Definition zero_mean (N : nat) (X : buf) : buf :=
    fun n d => X n d - col_mean N X d.

  (* X.array() /= X.maxCoeff();  (the maximum is taken by max_coeff below, over Q) *)
  Definition scale_by (mx : F) (X : buf) : buf := fun n d => X n d / mx.

  (* computeSquaredEuclideanDistance(X, N, D, DD) *)
  Definition data_sum (D : nat) (X : buf) (n : nat) : F :=
    sumn D (fun d => X n d * X n d).
  (* entry (n, m) of  -2.0 * X_map.transpose() * X_map   (X_map is D x N, column n = sample n) *)
  Definition m2gram (D : nat) (X : buf) (n m : nat) : F :=
    sumn D (fun d => (- two * X n d) * X m d).
  (* shipped: DD[n*N+m] = dataSums[n] + dataSums[m]; then  DD_map.noalias() = -2 X^T X
     OVERWRITES every entry *)
  Definition sqdist_shipped (D : nat) (X : buf) : buf :=
    fun n m => m2gram D X n m.
  (* fixes/F10_tsne_sqdist_accumulate.patch:  DD_map.noalias() += -2 X^T X *)
  Definition sqdist_fixed (D : nat) (X : buf) : buf :=
    fun n m => (data_sum D X n + data_sum D X m) + m2gram D X n m.

  (* run(), exact branch:  for n, for m > n: P[n*N+m] += P[m*N+n]; P[m*N+n] = P[n*N+m];
     entry (n, m) is read and written only in iteration (min, max), so the in-place loop
     is this function *)
  Definition dsym (P : buf) : buf :=
    fun n m => if Nat.eqb n m then P n n
               else if Nat.ltb n m then P n m + P m n else P m n + P n m.
  Definition total (N : nat) (P : buf) : F := sumn N (fun n => sumn N (fun m => P n m)).
  (* P.array() /= P.array().sum() *)
  Definition dnorm (N : nat) (P : buf) : buf := fun n m => P n m / total N P.
  Definition dense_joint (N : nat) (P : buf) : buf := dnorm N (dsym P).

  (* computeExactGradient(P, Y, N, D, dC), parametrised by the distance routine it calls *)
  Definition qnum (DD : buf) (n m : nat) : F := 1 / (1 + DD n m).
  Definition sum_Q (N : nat) (DD : buf) : F :=
    sumn N (fun n => sumn N (fun m => if Nat.eqb n m then 0 else qnum DD n m)).
  Definition grad_with (sqd : nat -> buf -> buf) (N D : nat) (P Y : buf) : buf :=
    let DD := sqd D Y in
    fun n d => sumn N (fun m =>
      if Nat.eqb n m then 0
      else (Y n d - Y m d) * ((P n m - qnum DD n m / sum_Q N DD) * qnum DD n m)).
  Definition exact_grad_shipped := grad_with sqdist_shipped.
  Definition exact_grad_fixed := grad_with sqdist_fixed.
End Dense.

(* ====================================================================== *)
(* X.maxCoeff(): the largest SIGNED coefficient, first maximum wins (irrelevant for the
   value).  Empty matrix: None (Eigen asserts). *)
Local Open Scope Q_scope.
Definition Qltb (a b : Q) : bool := negb (Qle_bool b a).

Definition max_coeff (l : list Q) : option Q :=
  match l with
  | [] => None
  | x :: r => Some (fold_left (fun m y => if Qltb m y then y else m) r x)
  end.

(* before 6fbb30b (F43):  X.array() /= X.maxCoeff();  unconditionally — constant (zero after
   centring) data divides 0 by 0 *)
Definition max_normalise_shipped (l : list Q) : option (list Q) :=
  match max_coeff l with
  | None => None
  | Some mx => Some (map (fun x => x / mx) l)
  end.

(* current:  const ScalarType max_X = X.maxCoeff(); if (max_X > 0) X.array() /= max_X; *)
Definition max_normalise (l : list Q) : option (list Q) :=
  match max_coeff l with
  | None => None
  | Some mx => if Qltb 0 mx then Some (map (fun x => x / mx) l) else Some l
  end.

(* ====================================================================== *)
(* The perplexity search (one row).  dd = the row of squared distances the kernel is
   evaluated on (DD[n*N + m], m < N, for the dense overload; distances[m+1], m < K, for
   the K-NN overload); self = Some n for the dense overload (P[n*N+n] = DBL_MIN after
   the kernel row is computed), None for the K-NN overload. *)
Section Perplexity.
  Variable expf logf : Q -> Q.
  Variable dbl_min : Q.
  Variable tol : Q.

  Record evalr : Type := mkEval {
    e_beta : Q;          (* the beta this row was computed with *)
    e_row : list Q;      (* un-normalised kernel row *)
    e_sum : Q;           (* sum_P = DBL_MIN + sum of the row *)
    e_H : Q              (* H = (sum_m beta * (dd_m * P_m)) / sum_P + log(sum_P) *)
  }.

  Fixpoint kernel_from (i : nat) (self : option nat) (beta : Q) (dd : list Q) : list Q :=
    match dd with
    | [] => []
    | x :: r =>
        (match self with
         | Some s => if Nat.eqb s i then dbl_min else expf (- beta * x)
         | None => expf (- beta * x)
         end) :: kernel_from (S i) self beta r
    end.
  Definition kernel_row := kernel_from 0.

  Definition evaluate (self : option nat) (dd : list Q) (beta : Q) : evalr :=
    let P := kernel_row self beta dd in
    let sum_P := fold_left Qplus P dbl_min in
    let H0 := fold_left (fun h xp => h + beta * (fst xp * snd xp)) (combine dd P) 0 in
    mkEval beta P sum_P (H0 / sum_P + logf sum_P).

  (* Hdiff < tol && -Hdiff < tol *)
  Definition good (logperp : Q) (ev : evalr) : bool :=
    let Hdiff := e_H ev - logperp in
    Qltb Hdiff tol && Qltb (- Hdiff) tol.

  (* (beta, min_beta, max_beta) *)
  Definition bstate : Type := (Q * option Q * option Q)%type.

  Definition next (logperp : Q) (ev : evalr) (st : bstate) : bstate :=
    let '(beta, minb, maxb) := st in
    let Hdiff := e_H ev - logperp in
    if Qltb 0 Hdiff then                        (* Hdiff > 0 *)
      match maxb with
      | None => (beta * 2, Some beta, maxb)
      | Some mb => ((beta + mb) / 2, Some beta, maxb)
      end
    else
      match minb with
      | None => (beta / 2, minb, Some beta)
      | Some mb => ((beta + mb) / 2, minb, Some beta)
      end.

  (* while (!found && iter < 200) {...}; `last` is the row left in memory by the previous
     iteration (None before the first: uninitialised) *)
  Fixpoint perp_loop (fuel : nat) (self : option nat) (dd : list Q) (perplexity : Q)
                     (st : bstate) (last : option evalr) : bool * option evalr :=
    match fuel with
    | O => (false, last)
    | S f =>
        let ev := evaluate self dd (fst (fst st)) in
        if good (logf perplexity) ev then (true, Some ev)
        else perp_loop f self dd perplexity (next (logf perplexity) ev st) (Some ev)
    end.

  Definition perp_search (self : option nat) (dd : list Q) (perplexity : Q) : bool * option evalr :=
    perp_loop 200 self dd perplexity (1, None, None) None.

  (* Row normalize: P[n*N+m] /= sum_P *)
  Definition normalised (ev : evalr) : list Q := map (fun p => p / e_sum ev) (e_row ev).

  Definition perp_row (self : option nat) (dd : list Q) (perplexity : Q) : option (list Q) :=
    option_map normalised (snd (perp_search self dd perplexity)).
End Perplexity.

(* ====================================================================== *)
(* K = (int)(3 * perplexity): binary64 product, then C conversion double -> int
   (truncation toward zero; None when the value is not finite — undefined in C). *)
Definition trunc_float (x : float) : option Z :=
  match Prim2SF x with
  | S754_zero _ => Some 0%Z
  | S754_finite s m e =>
      let mag := (if (0 <=? e)%Z then Z.shiftl (Z.pos m) e else Z.shiftr (Z.pos m) (- e))%Z in
      Some (if s then (- mag)%Z else mag)
  | _ => None
  end.

Definition K_of (perplexity : float) : option Z := trunc_float (3 * perplexity)%float.

(* the same computation over the rationals with the rounding of the product as an oracle *)
Definition Qtrunc (x : Q) : Z := Z.quot (Qnum x) (Z.pos (Qden x)).
Definition K_of_Q (fl : Q -> Q) (perplexity : Q) : Z := Qtrunc (fl (3 * perplexity)).
