(* ====================================================================== *)
(*  Landmark_Exec.v — the closed (Qc) instances of the C11 model and spec  *)
(*  functions that are extracted and run by the check.  No proofs; no new  *)
(*  logic: wrappers that turn tables (lists) into the function arguments   *)
(*  of Landmark_Model / Landmark_Spec and tabulate the results.            *)
(* ====================================================================== *)
Require Import Arith List Bool ZArith QArith Qcanon.
From TK Require Import Mat_Sums Mat_Core Mat_Qc Landmark_Model Landmark_Spec.
Import ListNotations.
Local Open Scope nat_scope.

(* dyadic literal m * 2^e, as the harness prints doubles *)
Definition c11_dyadic (m : Z) (e : Z) : Qc :=
  match e with
  | Z0 => Q2Qc (m # 1)
  | Zpos p => Q2Qc ((m * 2 ^ (Zpos p))%Z # 1)
  | Zneg p => Q2Qc (m # (2 ^ p)%positive)
  end.

Definition c11_select (shuffled : list nat) (count : nat) : lres (list nat) :=
  select_landmarks shuffled count.

Definition c11_landmarks_okb := landmarks_okb.

(* (D2, mu, B) of the Landmark-MDS front end *)
Definition c11_stages (lm : list nat) (Ldist : list (list Qc))
  : list (list Qc) * list Qc * list (list Qc) :=
  @lmds_stages_exec Qc QcOps lm Ldist.

(* LandmarkMultidimensionalScaling embed() after the landmark choice, through the very function
   the theorems are about (lmds_embed); V = the L x d selected eigenvectors (placed in the last d
   columns of the dense answer), lam = the d selected values, keep = the outcomes of the
   null-eigenvalue comparison of triangulate (recomputed bit-exactly by the check) *)
Definition c11_lmds_embed (N d : nat) (keep : list bool) (lm : list nat) (Ldist V : list (list Qc))
           (lam s : list Qc) : lres (list (option (list Qc))) :=
  let L := length lm in
  let W : mat Qc := fun r c => mof V r (c - (L - d)) in
  let w : vec Qc := fun c => vof lam (c - (L - d)) in
  match @lmds_embed Qc QcOps N d (fun c => nth c keep true) lm (mof Ldist) W w (vof s) with
  | LOk ws => LOk (emb_table N d ws)
  | LOOB a b c => LOOB a b c
  end.

(* triangulate alone, on harness-chosen mean vector / landmark embedding / eigenvalues;
   also returns first after the in-place division *)
Definition c11_triangulate (N d : nat) (keep : list bool) (lm : list nat) (Ldist : list (list Qc))
           (mu : list Qc) (first : list (list Qc)) (second : list Qc)
  : lres (list (option (list Qc)) * list (list Qc)) :=
  let E := {| er_rows := length first; er_cols := match first with r :: _ => length r | [] => d end;
              er_first := mof first; er_size := length second; er_second := vof second |} in
  let k := fun c => nth c keep true in
  match @triangulate Qc QcOps N d k lm (mof Ldist) (length mu) (vof mu) E with
  | LOk ws => LOk (emb_table N d ws, mtab (length first) d (tri_divide d k E))
  | LOOB a b c => LOOB a b c
  end.

(* memoised variant for larger sizes (tolerance stream) *)
Definition c11_lmds_tri_exec (N d : nat) (keep : list bool) :=
  @lmds_tri_exec Qc QcOps N d (fun c => nth c keep true).

Definition c11_lisomap_matrix := @lisomap_matrix_exec Qc QcOps.
Definition c11_lisomap_embed := @lisomap_embed_exec Qc QcOps.

Definition c11_dist_reproduced_b := lm_dist_reproduced_b.
Definition c11_same_upto_sign_b := lm_same_upto_sign_b.
Definition c11_triangulation_b := lm_triangulation_b.
