(* ====================================================================== *)
(*  Proj_Spec.v — what C07 claims, against the mathematical object         *)
(*    is_projection_of  y = P^T (x - m)                 (entrywise)        *)
(*    training_mean     N * m = sum of the samples                         *)
(*    affine_on         f (a x + (1-a) y) = a f x + (1-a) f y              *)
(*  and boolean decision procedures over Qc (exact: tol = 0; or with a     *)
(*  tolerance) that the check runs on the implementation's OWN outputs.    *)
(* ====================================================================== *)
Require Import Arith Lia List Bool ZArith QArith Qcanon.
From TK Require Import Mat_Sums Mat_Core Mat_Qc Proj_Model.
Import ListNotations.

Section ProjSpec.
  Context {F : Type} {Fo : FieldOps F}.
  Local Open Scope nat_scope.
  Local Open Scope F_scope.

  (* y (d entries) is the image of x (D entries) under x -> P^T (x - m) *)
  Definition is_projection_of (D d : nat) (P : mat F) (m x y : vec F) : Prop :=
    forall c, c < d -> y c = sumn D (fun t => P t c * (x t - m t)).

  (* m is the arithmetic mean of the N samples (division free form) *)
  Definition training_mean (N D : nat) (X : mat F) (m : vec F) : Prop :=
    forall t, t < D -> of_nat N * m t = sumn N (fun i => X i t).

  (* convex / affine combination of two vectors *)
  Definition vcomb (a : F) (x y : vec F) : vec F := fun t => a * x t + (1 - a) * y t.

  Definition affine_on (D d : nat) (f : vec F -> vec F) : Prop :=
    forall (a : F) (x y : vec F) c, c < d -> f (vcomb a x y) c = a * f x c + (1 - a) * f y c.

  (* the whole of C07 for one call that returned (Y, PFMatrix P m) on samples X *)
  Definition output_consistent (N D d : nat) (X : mat F) (Y P : mat F) (m : vec F) : Prop :=
    training_mean N D X m /\
    forall i, i < N -> is_projection_of D d P m (X i) (Y i).
End ProjSpec.

(* ---------------- decision procedures over Qc ---------------- *)
Local Open Scope nat_scope.

Definition pq_leb (x y : Qc) : bool :=
  match (x ?= y)%Qc with Gt => false | _ => true end.
Definition pq_abs (x : Qc) : Qc := if pq_leb (Q2Qc 0) x then x else (- x)%Qc.

Lemma pq_leb_ok x y : pq_leb x y = true <-> (x <= y)%Qc.
Proof.
  unfold pq_leb, Qcle, Qccompare. rewrite Qle_alt.
  destruct (this x ?= this y)%Q; split; intros H; try reflexivity; try discriminate.
  exfalso. apply H. reflexivity.
Qed.

Definition pq_close (tol x y : Qc) : bool := pq_leb (pq_abs (x - y)%Qc) tol.

Definition vwithin_b (n : nat) (tol : Qc) (x y : vec Qc) : bool :=
  forallb (fun i => pq_close tol (x i) (y i)) (seq 0 n).
Definition vwithin (n : nat) (tol : Qc) (x y : vec Qc) : Prop :=
  forall i, i < n -> (pq_abs (x i - y i) <= tol)%Qc.

Lemma vwithin_b_ok n tol x y : vwithin_b n tol x y = true <-> vwithin n tol x y.
Proof.
  unfold vwithin_b, vwithin, pq_close. rewrite forallb_forall. split.
  - intros H i Hi. apply pq_leb_ok. apply H. apply in_seq. lia.
  - intros H i Hi. apply in_seq in Hi. apply pq_leb_ok. apply H. lia.
Qed.

(* y =~ P^T (x - m), every entry within tol; None = ill-formed input *)
Definition is_projection_tol_b (D d : nat) (tol : Qc)
           (P : list (list Qc)) (m x y : list Qc) : option bool :=
  if wf_matb D d P && Nat.eqb (length m) D && Nat.eqb (length x) D && Nat.eqb (length y) d then
    Some (vwithin_b d tol (vof y) (mpi_project D (mof P) (vof m) (vof x)))
  else None.

(* N * m =~ sum of samples *)
Definition training_mean_tol_b (N D : nat) (tol : Qc)
           (Xs : list (list Qc)) (m : list Qc) : option bool :=
  if wf_matb N D Xs && Nat.eqb (length m) D then
    Some (vwithin_b D tol (fun t => (of_nat N * vof m t)%F) (fun t => sumn N (fun i => mof Xs i t)))
  else None.

(* f(a x + (1-a) y) =~ a f(x) + (1-a) f(y) on observed values fx fy fz *)
Definition affine_tol_b (d : nat) (tol a : Qc) (fx fy fz : list Qc) : option bool :=
  if Nat.eqb (length fx) d && Nat.eqb (length fy) d && Nat.eqb (length fz) d then
    Some (vwithin_b d tol (vof fz) (fun c => (a * vof fx c + (1 - a) * vof fy c)%F))
  else None.

(* the whole output of one projecting call *)
Definition output_consistent_tol_b (N D d : nat) (tol : Qc)
           (Xs Y P : list (list Qc)) (m : list Qc) : option bool :=
  if wf_matb N D Xs && wf_matb N d Y && wf_matb D d P && Nat.eqb (length m) D then
    match training_mean_tol_b N D tol Xs m with
    | Some b =>
        Some (b && forallb (fun i => vwithin_b d tol (mof Y i)
                                       (mpi_project D (mof P) (vof m) (mof Xs i))) (seq 0 N))
    | None => None
    end
  else None.

(* ---------------- tolerance RELATIVE TO THE OUTPUT (wave 3) ---------------- *)
(* The property says "reproduces ... to rounding error of the output".  Evaluating P^T (x - m) in binary
   floating point (one rounding for x_t - m_t, D products, D - 1 additions, any order) has the componentwise
   forward error  |fl - exact|_c <= gamma_(D+1) * A_c,   A_c = sum_t |P t c| * |x t - m t|.
   A_c does not grow with a common offset of x and m (it is a function of x - m), whereas the absolute
   tolerances above are built from max|x|.  `is_projection_rel_b` is the decision procedure for
        |y_c - (P^T (x - m))_c| <= eps * A_c      for every c < d;
   at eps = 0 it decides the exact specification. *)
Definition mpi_abs_project (D : nat) (P : mat Qc) (m x : vec Qc) : vec Qc :=
  fun c => sumn D (fun t => (pq_abs (P t c) * pq_abs (x t - m t))%F).

Definition vwithin_rel_b (n : nat) (eps : Qc) (y s a : vec Qc) : bool :=
  forallb (fun c => pq_leb (pq_abs (y c - s c)%Qc) (eps * a c)%Qc) (seq 0 n).
Definition vwithin_rel (n : nat) (eps : Qc) (y s a : vec Qc) : Prop :=
  forall c, c < n -> (pq_abs (y c - s c) <= eps * a c)%Qc.

Lemma vwithin_rel_b_ok n eps y s a : vwithin_rel_b n eps y s a = true <-> vwithin_rel n eps y s a.
Proof.
  unfold vwithin_rel_b, vwithin_rel. rewrite forallb_forall. split.
  - intros H c Hc. apply pq_leb_ok. apply H. apply in_seq. lia.
  - intros H c Hc. apply in_seq in Hc. apply pq_leb_ok. apply H. lia.
Qed.

Definition is_projection_rel_b (D d : nat) (eps : Qc)
           (P : list (list Qc)) (m x y : list Qc) : option bool :=
  if wf_matb D d P && Nat.eqb (length m) D && Nat.eqb (length x) D && Nat.eqb (length y) d then
    Some (vwithin_rel_b d eps (vof y) (mpi_project D (mof P) (vof m) (vof x))
                        (mpi_abs_project D (mof P) (vof m) (vof x)))
  else None.

(* every row of Y against its own sample *)
Definition rows_rel_b (N D d : nat) (eps : Qc) (Xs Y P : list (list Qc)) (m : list Qc) : option bool :=
  if wf_matb N D Xs && wf_matb N d Y && wf_matb D d P && Nat.eqb (length m) D then
    Some (forallb (fun i => vwithin_rel_b d eps (mof Y i)
                              (mpi_project D (mof P) (vof m) (mof Xs i))
                              (mpi_abs_project D (mof P) (vof m) (mof Xs i))) (seq 0 N))
  else None.
