(* ====================================================================== *)
(*  Pca_Tie.v — obligation over the GENERATED statement chain of           *)
(*  PrincipalComponentAnalysisImplementation::embed() (gen/PcaEmbed.v,     *)
(*  translate/t_pca.py; locals alpha-renamed L0, L1, ...): it is the       *)
(*  composition Pca_Model.v mirrors —                                      *)
(*     mean -> covariance(mean) -> eigendecomposition_via(LargestEigenvalues, covariance, d)   *)
(*          -> (project(P, mean, ...), MatrixProjectionImplementation(P, mean))                *)
(*  and eigendecomposition_via forwards its strategy and matrix unchanged. *)
(*  Re-proved by vm_compute on every run; an edit of embed() re-opens it.  *)
(* ====================================================================== *)
Require Import List String Bool.
From TK Require Import Proj_Table PcaEmbed.
Import ListNotations.
Open Scope string_scope.

Definition pca_chain_expected : list (string * string) := [
  ("L0", "compute_mean(begin,end,features,current_dimension)");
  ("L1", "compute_covariance_matrix(begin,end,L0,features,current_dimension)");
  ("L2", "eigendecomposition_via(LargestEigenvalues,L1,parameters[target_dimension])");
  ("L3", "newtapkee::MatrixProjectionImplementation(L2.first,L0)");
  ("return", "TapkeeOutput(project(L2.first,L0,begin,end,features,current_dimension),L3)")
].

Definition via_expected : string :=
  "eigendecomposition(parameters[eigen_method],parameters[computation_strategy],eigen_strategy,m,target_dimension)".

Fixpoint chain_eqb (a b : list (string * string)) : bool :=
  match a, b with
  | [], [] => true
  | (n, e) :: a', (n', e') :: b' => String.eqb n n' && String.eqb e e' && chain_eqb a' b'
  | _, _ => false
  end.

Lemma chain_eqb_ok a b : chain_eqb a b = true -> a = b.
Proof.
  revert b. induction a as [|[n e] a IH]; intros [|[n' e'] b]; cbn [chain_eqb]; try discriminate;
    [reflexivity|].
  rewrite !andb_true_iff. intros [[H1 H2] H3]. apply String.eqb_eq in H1. apply String.eqb_eq in H2.
  rewrite H1, H2, (IH b H3). reflexivity.
Qed.

Lemma pca_chain_ok_b :
  chain_eqb pca_embed_stmts pca_chain_expected && String.eqb eigendecomposition_via_returns via_expected = true.
Proof. vm_compute. reflexivity. Qed.

Theorem pca_embed_chain :
  pca_embed_stmts = pca_chain_expected /\ eigendecomposition_via_returns = via_expected.
Proof.
  pose proof pca_chain_ok_b as H. apply andb_true_iff in H. destruct H as [H1 H2].
  split; [apply chain_eqb_ok; exact H1|apply String.eqb_eq; exact H2].
Qed.
