(* Par_Region_Model.v — property C15: the region descriptors produced by translate/t_omp.py from the
   C++ source (coq/gen/Omp.v) and the executable checker applied to them.  NO proofs here.

   A descriptor lists, for one `#pragma omp parallel` region, every access the loop body makes to a
   variable SHARED by the threads (captured from outside the region), with its index expressions in a
   small symbolic language, and every variable PRIVATE to a thread that lives across iterations
   (declared inside the region but outside the work-shared loop) with the way the body treats it.

   index language (Z arithmetic; IV = the induction variable of the `omp for`):
     XIt c        the expression IV + c
     XIn lo hi    an inner-loop variable v with  lo <= v < hi  where a bound is  IV + c  (BIt c) or
                  unknown (BTop: no information)
     XAny         anything else (data dependent, whole row/column, ...)
   a 1-D access x[e] is (e, XAny); a whole-object access is (XAny, XAny).

   check_region is a sound (not complete) decision procedure for "distinct iterations touch disjoint
   shared locations, except inside critical sections, where they only append"; find_conflict
   enumerates small sizes for a concrete witness (two iterations and a location) when it fails. *)
From Coq Require Import ZArith List String Bool.
Import ListNotations.
Local Open Scope Z_scope.

Inductive bound := BIt (c : Z) | BTop.
Inductive ix := XIt (c : Z) | XIn (lo hi : bound) | XAny.

Inductive akind :=
| AElem      (* element / row / whole-object read or write through an index pattern *)
| AAppend    (* push_back / back_inserter copy into a container *)
| AOpaque    (* anything the translator cannot classify (unknown or mutating call on a shared object) *)
| AEscape.   (* wave 4: a write THROUGH an iterator / pointer into a shared container that the body obtained earlier
                (typically inside a critical section: "claim a block under the lock, fill it in place after the lock") —
                a_crit says whether the write itself is inside a critical section.  The location written is whatever the
                iterator pointed at when it was obtained: if another iteration makes the container reallocate in between
                (resize / push_back / reserve under the lock), the write goes to the freed buffer and the reallocating
                copy reads cells that are being written.  Never accepted (Par_Claim_Model: what the pattern needs to be
                safe is a capacity invariant the descriptor language cannot express). *)

Record access := mkAcc {
  a_var : string; a_write : bool; a_crit : bool; a_kind : akind; a_i : ix; a_j : ix }.

Inductive pclass :=
| PConst      (* never written by the loop body *)
| PInit       (* the first thing the body does with it, unconditionally, is overwrite it *)
| PRestored   (* the last thing the body does with it, unconditionally, is reset it (clear()) *)
| PStale.     (* anything else: may carry state from one iteration to the next *)

(* what the loop body does with ONE private persistent variable, in source order, at whole-object
   granularity (an element write inside a loop counts as a write of the object):
     EW plain write (=, for-init, compute(), setConstant()),  ERMW compound assignment / ++,
     ER read,  EM other mutating call (push, insert, extract_min ...),  ECLR clear().
   e_cond: inside if / while (may not execute); e_top: a top-level statement of the loop body. *)
Inductive pev := EW | ERMW | ER | EM | ECLR.
Record pevent := mkEv { e_kind : pev; e_cond : bool; e_top : bool }.

Definition ev_writes (e : pevent) : bool := match e_kind e with ER => false | _ => true end.

(* the class is COMPUTED here from the events the translator lists; the translator's own opinion
   (p_class) must agree *)
Definition classify (evs : list pevent) : pclass :=
  if negb (existsb ev_writes evs) then PConst
  else match evs with
       | [] => PConst
       | e :: _ =>
           match e_kind e, e_cond e with
           | EW, false => PInit
           | _, _ =>
               match last evs (mkEv ER true false) with
               | mkEv ECLR false true => PRestored
               | _ => PStale
               end
           end
       end.

Definition pclass_eqb (a b : pclass) : bool :=
  match a, b with
  | PConst, PConst | PInit, PInit | PRestored, PRestored | PStale, PStale => true
  | _, _ => false
  end.

Record pvar := mkPvar { p_name : string; p_class : pclass; p_events : list pevent }.

Record region := mkRegion {
  r_name : string; r_shared : list access; r_private : list pvar }.

(* ------------------------------------------------------------------ semantics of index patterns *)
Definition lo_ok (b : bound) (i v : Z) : Prop := match b with BIt c => i + c <= v | BTop => True end.
Definition hi_ok (b : bound) (i v : Z) : Prop := match b with BIt c => v < i + c | BTop => True end.
Definition ix_sem (x : ix) (i v : Z) : Prop :=
  match x with
  | XIt c => v = i + c
  | XIn lo hi => lo_ok lo i v /\ hi_ok hi i v
  | XAny => True
  end.
Definition acc_sem (a : access) (i v1 v2 : Z) : Prop := ix_sem (a_i a) i v1 /\ ix_sem (a_j a) i v2.

Definition lo_okb (b : bound) (i v : Z) : bool := match b with BIt c => i + c <=? v | BTop => true end.
Definition hi_okb (b : bound) (i v : Z) : bool := match b with BIt c => v <? i + c | BTop => true end.
Definition ix_semb (x : ix) (i v : Z) : bool :=
  match x with
  | XIt c => v =? i + c
  | XIn lo hi => lo_okb lo i v && hi_okb hi i v
  | XAny => true
  end.
Definition acc_semb (a : access) (i v1 v2 : Z) : bool := ix_semb (a_i a) i v1 && ix_semb (a_j a) i v2.

(* ------------------------------------------------------------------ separation of two patterns
   x is evaluated in iteration i, y in iteration i', both give the same value v.
   cons x y = (e, g, l):  e -> i = i',  g -> i >= i',  l -> i <= i'. *)
Definition cons (x y : ix) : bool * bool * bool :=
  match x, y with
  | XIt c, XIt c' => (c =? c', c <=? c', c' <=? c)
  | XIt c, XIn lo hi =>
      (false,
       match lo with BIt c' => c <=? c' | BTop => false end,
       match hi with BIt c' => c' <=? c + 1 | BTop => false end)
  | XIn lo hi, XIt c' =>
      (false,
       match hi with BIt c => c <=? c' + 1 | BTop => false end,
       match lo with BIt c => c' <=? c | BTop => false end)
  | _, _ => (false, false, false)
  end.

Definition separated (a b : access) : bool :=
  match cons (a_i a) (a_i b), cons (a_j a) (a_j b) with
  | (e1, g1, l1), (e2, g2, l2) => e1 || e2 || ((g1 || g2) && (l1 || l2))
  end.

Definition same_var (a b : access) : bool := String.eqb (a_var a) (a_var b).

(* one access against all the others *)
Definition access_ok (accs : list access) (a : access) : bool :=
  match a_kind a with
  | AOpaque => false
  | AEscape => false
  | AAppend => a_crit a && forallb (fun b => negb (same_var a b) || a_crit b) accs
  | AElem =>
      negb (a_crit a) &&
      (if a_write a
       then forallb (fun b => negb (same_var a b) || (negb (a_crit b) && separated a b)) accs
       else true)
  end.

Definition check_shared (accs : list access) : bool := forallb (access_ok accs) accs.

Definition pclass_ok (c : pclass) : bool := match c with PStale => false | _ => true end.
Definition pvar_ok (p : pvar) : bool :=
  pclass_ok (p_class p) && pclass_eqb (p_class p) (classify (p_events p)).
Definition check_private (ps : list pvar) : bool := forallb pvar_ok ps.

Definition check_region (r : region) : bool := check_shared (r_shared r) && check_private (r_private r).

(* ------------------------------------------------------------------ keys of the generic model
   (Par_Model) when it is instantiated for a region: (variable, two indices) *)
Definition key := (string * (Z * Z))%type.
Definition key_eqb (x y : key) : bool :=
  String.eqb (fst x) (fst y) && (fst (snd x) =? fst (snd y)) && (snd (snd x) =? snd (snd y)).

(* ------------------------------------------------------------------ witness search (small sizes) *)
Definition zrange (n : nat) : list Z := map Z.of_nat (seq 0 n).

Definition conflict_at (a b : access) (i i' v1 v2 : Z) : bool :=
  negb (i =? i') && acc_semb a i v1 v2 && acc_semb b i' v1 v2.

(* first (variable, i, i', v1, v2) at which write access a of iteration i and access b of iteration
   i' (i <> i') meet, indices below n *)
Definition find_pair (n : nat) (a b : access) : option (string * (Z * Z * (Z * Z))) :=
  let r := zrange n in
  let cands := flat_map (fun i => flat_map (fun i' => flat_map (fun v1 => map (fun v2 =>
                 (i, i', (v1, v2))) r) r) r) r in
  match find (fun c => match c with (i, i', (v1, v2)) => conflict_at a b i i' v1 v2 end) cands with
  | Some c => Some (a_var a, c)
  | None => None
  end.

Definition bad_access (accs : list access) (a : access) : option (string * (Z * Z * (Z * Z))) :=
  match a_kind a with
  | AOpaque => Some (a_var a, (0, 1, (-1, -1)))
  | AEscape => Some (a_var a, (0, 1, (-1, -1)))
  | AAppend =>
      if a_crit a && forallb (fun b => negb (same_var a b) || a_crit b) accs then None
      else Some (a_var a, (0, 1, (-1, -1)))
  | AElem =>
      if a_crit a then Some (a_var a, (0, 1, (-1, -1)))
      else if a_write a then
        fold_right (fun b acc =>
          match acc with
          | Some w => Some w
          | None => if same_var a b
                    then (if a_crit b then Some (a_var a, (0, 1, (-1, -1))) else find_pair 4 a b)
                    else None
          end) None accs
      else None
  end.

Definition find_conflict (r : region) : option (string * (Z * Z * (Z * Z))) :=
  fold_right (fun a acc => match acc with Some w => Some w | None => bad_access (r_shared r) a end)
             None (r_shared r).

(* ------------------------------------------------------------------ HLLE column bookkeeping
   hessian_weight_matrix fills the quadratic columns of Yi with
       ct = 0; for j < d: { for p < d - j: write column (COL ct p d j); ct = ct + (STEP ct d j) }
   the translator extracts COL and STEP as expressions. *)
Inductive hvar := HCt | HD | HJ | HP.
Inductive hexpr := HV (v : hvar) | HC (z : Z) | HAdd (a b : hexpr) | HSub (a b : hexpr) | HMul (a b : hexpr).

Fixpoint heval (e : hexpr) (ct d j p : Z) : Z :=
  match e with
  | HV HCt => ct | HV HD => d | HV HJ => j | HV HP => p
  | HC z => z
  | HAdd a b => heval a ct d j p + heval b ct d j p
  | HSub a b => heval a ct d j p - heval b ct d j p
  | HMul a b => heval a ct d j p * heval b ct d j p
  end.

(* the columns written, in order: r = iterations of the outer loop still to run, j = d - r *)
Fixpoint hlle_cols (step col : hexpr) (d : Z) (r : nat) (j ct : Z) : list Z :=
  match r with
  | O => []
  | S r' =>
      map (fun p => heval col ct d j (Z.of_nat p)) (seq 0 (S r'))
      ++ hlle_cols step col d r' (j + 1) (ct + heval step ct d j 0)
  end.

Definition hlle_written (step col : hexpr) (d : nat) : list Z :=
  hlle_cols step col (Z.of_nat d) d 0 0.

Fixpoint tri (r : nat) : nat := match r with O => O | S r' => (S r' + tri r')%nat end.

(* columns 1+d .. d+dp are each written (exactly once, in increasing order), none outside the matrix *)
Definition hlle_cols_ok (step col : hexpr) (d : nat) : bool :=
  if list_eq_dec Z.eq_dec (hlle_written step col d)
       (map (fun c => Z.of_nat (1 + d + c)) (seq 0 (tri d)))
  then true else false.

Definition hlle_step_expected : hexpr := HSub (HV HD) (HV HJ).
Definition hlle_col_expected : hexpr := HAdd (HAdd (HAdd (HV HCt) (HV HP)) (HC 1)) (HV HD).
(* the code before commit cd6c3b2 (F6): ct += ct + target_dimension - j *)
Definition hlle_step_old : hexpr := HSub (HAdd (HV HCt) (HV HD)) (HV HJ).

(* linear normal form of an index expression: coefficients of (ct, d, j, p, 1); None when the expression
   multiplies two non-constant parts.  Two expressions with the same normal form are equal as functions, so
   an algebraically equivalent rewrite of the C++ expression keeps the proof obligation. *)
Definition lin := (Z * Z * Z * Z * Z)%type.
Definition lin_eval (l : lin) (ct d j p : Z) : Z :=
  match l with (a, b, c, e, k) => a * ct + b * d + c * j + e * p + k end.
Definition lin_const (l : lin) : option Z :=
  match l with (a, b, c, e, k) => if (a =? 0) && (b =? 0) && (c =? 0) && (e =? 0) then Some k else None end.
Fixpoint hlin (e : hexpr) : option lin :=
  match e with
  | HV HCt => Some (1, 0, 0, 0, 0) | HV HD => Some (0, 1, 0, 0, 0)
  | HV HJ => Some (0, 0, 1, 0, 0) | HV HP => Some (0, 0, 0, 1, 0)
  | HC z => Some (0, 0, 0, 0, z)
  | HAdd a b =>
      match hlin a, hlin b with
      | Some (a1, a2, a3, a4, a5), Some (b1, b2, b3, b4, b5) => Some (a1 + b1, a2 + b2, a3 + b3, a4 + b4, a5 + b5)
      | _, _ => None
      end
  | HSub a b =>
      match hlin a, hlin b with
      | Some (a1, a2, a3, a4, a5), Some (b1, b2, b3, b4, b5) => Some (a1 - b1, a2 - b2, a3 - b3, a4 - b4, a5 - b5)
      | _, _ => None
      end
  | HMul a b =>
      match hlin a, hlin b with
      | Some (a1, a2, a3, a4, a5), Some (b1, b2, b3, b4, b5) =>
          if (a1 =? 0) && (a2 =? 0) && (a3 =? 0) && (a4 =? 0)
          then Some (a5 * b1, a5 * b2, a5 * b3, a5 * b4, a5 * b5)
          else if (b1 =? 0) && (b2 =? 0) && (b3 =? 0) && (b4 =? 0)
          then Some (b5 * a1, b5 * a2, b5 * a3, b5 * a4, b5 * a5)
          else None
      | _, _ => None
      end
  end.

(* ------------------------------------------------------------------ triplets *)
(* the entry (r, c) of the sparse matrix assembled by setFromTriplets: the sum of the values of the
   triplets with that position (exact arithmetic) *)
Definition triplet := (Z * Z * Z)%type.
Definition from_triplets (l : list triplet) (r c : Z) : Z :=
  fold_right (fun t acc => match t with (r', c', v) => if (r' =? r) && (c' =? c) then v + acc else acc end)
             0 l.

(* the shared container after the logged critical sections have run in log order (oldest last) *)
Definition apply_log (lg : list (nat * list triplet)) : list triplet :=
  List.concat (map snd (rev lg)).

(* substring test on region names *)
Fixpoint contains (s t : string) : bool :=
  String.prefix s t || match t with EmptyString => false | String _ t' => contains s t' end.
