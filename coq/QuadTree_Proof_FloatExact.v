(* QuadTree_Proof_FloatExact.v — a class of inputs on which the binary64 box arithmetic of quadtree.hpp
   (QuadTree_Float_Model.v, Coq primitive floats) is EXACT, so that the exact-arithmetic theorems transfer:
   a cell whose centre and half sizes are multiples of one power of two 2^g with enough headroom in the 53-bit
   significand (|mx| + 2|mw| < 2^53, -1074 <= g <= 971).  For such a cell and EVERY finite point (on the grid or not)
     - containsPoint decides exactly  x - hw <= p0 <= x + hw /\ y - hh <= p1 <= y + hh  over the reals,
     - the child boxes are exactly x -/+ hw/2, y -/+ hh/2, hw/2, hh/2,
     - the four children cover the cell: no crack (children_cover_binary64_exact_inputs),
     - the children lie on the grid 2^(g-1) with the bound doubled, so `d` levels below a root with
       |mx| + 2|mw| < 2^(53-d) are crack-free (no_crack_below_grid_root).
   Uses Flocq 4.1 (user-contrib): Flocq.IEEE754.PrimFloat relates the primitive operations to Flocq's binary64
   (from the axioms of Coq.Floats.FloatAxioms) and BinarySingleNaN gives their real-number semantics.
   Print Assumptions therefore lists the PrimFloat specification axioms and the classical-reals axioms. *)
From Coq Require Import ZArith Reals Floats Lia Lra Bool List Psatz.
From Flocq Require Import Core BinarySingleNaN.
Require Import Flocq.IEEE754.PrimFloat.
From TK Require Import QuadTree_Float_Model.
Import ListNotations.
Local Open Scope R_scope.

Local Existing Instance Hprec.
Local Existing Instance Hmax.
Notation pfloat := Coq.Floats.PrimFloat.float (only parsing).
Definition FR (x : pfloat) : R := B2R (Prim2B x).
Definition ffin (x : pfloat) : Prop := is_finite (Prim2B x) = true.
(* x is the finite double m * 2^g *)
Definition grid (g m : Z) (x : pfloat) : Prop := ffin x /\ FR x = IZR m * bpow radix2 g.

Definition gmin : Z := (3 - emax - prec)%Z.      (* -1074 *)
Definition gmax : Z := (emax - prec)%Z.          (* 971 *)

Lemma rnd_grid : forall g m, (gmin <= g)%Z -> (Z.abs m < 2 ^ prec)%Z ->
  round radix2 (fexp prec emax) ZnearestE (IZR m * bpow radix2 g) = IZR m * bpow radix2 g.
Proof.
  intros g m Hg Hm. apply round_generic; [apply valid_rnd_N|].
  unfold fexp, emin. apply generic_format_FLT. apply FLT_spec with (Float radix2 m g).
  - reflexivity.
  - exact Hm.
  - exact Hg.
Qed.

Lemma grid_lt_emax : forall g m, (g <= gmax)%Z -> (Z.abs m < 2 ^ prec)%Z ->
  Rabs (IZR m * bpow radix2 g) < bpow radix2 emax.
Proof.
  intros g m Hg Hm. change (IZR m * bpow radix2 g) with (F2R (Float radix2 m g)).
  apply F2R_lt_bpow. cbn [Fnum Fexp]. eapply Z.lt_le_trans; [exact Hm|].
  change (radix2 : Z) with 2%Z. apply Z.pow_le_mono_r; [lia|]. unfold gmax in Hg. lia.
Qed.

Lemma sub_grid : forall g mx my x y,
  (gmin <= g <= gmax)%Z -> (Z.abs (mx - my) < 2 ^ prec)%Z ->
  grid g mx x -> grid g my y -> grid g (mx - my) (x - y)%float.
Proof.
  intros g mx my x y [Hg1 Hg2] Hm [Fx Hx] [Fy Hy]. unfold grid, ffin, FR in *.
  rewrite sub_equiv.
  pose proof (@Bminus_correct prec emax _ _ mode_NE (Prim2B x) (Prim2B y) Fx Fy) as H.
  rewrite Hx, Hy in H.
  replace (IZR mx * bpow radix2 g - IZR my * bpow radix2 g) with (IZR (mx - my) * bpow radix2 g) in H
    by (rewrite minus_IZR; ring).
  cbn [round_mode] in H.   rewrite (rnd_grid g (mx - my) Hg1 Hm) in H.
  rewrite Rlt_bool_true in H by (apply grid_lt_emax; assumption).
  destruct H as (H1 & H2 & _). split; assumption.
Qed.

Lemma add_grid : forall g mx my x y,
  (gmin <= g <= gmax)%Z -> (Z.abs (mx + my) < 2 ^ prec)%Z ->
  grid g mx x -> grid g my y -> grid g (mx + my) (x + y)%float.
Proof.
  intros g mx my x y [Hg1 Hg2] Hm [Fx Hx] [Fy Hy]. unfold grid, ffin, FR in *.
  rewrite add_equiv.
  pose proof (@Bplus_correct prec emax _ _ mode_NE (Prim2B x) (Prim2B y) Fx Fy) as H.
  rewrite Hx, Hy in H.
  replace (IZR mx * bpow radix2 g + IZR my * bpow radix2 g) with (IZR (mx + my) * bpow radix2 g) in H
    by (rewrite plus_IZR; ring).
  cbn [round_mode] in H. rewrite (rnd_grid g (mx + my) Hg1 Hm) in H.
  rewrite Rlt_bool_true in H by (apply grid_lt_emax; assumption).
  destruct H as (H1 & H2 & _). split; assumption.
Qed.

Lemma FR_half : ffin fhalf /\ FR fhalf = / 2.
Proof.
  unfold ffin, FR, fhalf, Prim2B. split.
  - rewrite is_finite_SF2B. vm_compute. reflexivity.
  - rewrite B2R_SF2B.
    replace (Prim2SF 0.5) with (S754_finite false 4503599627370496 (-53)) by (vm_compute; reflexivity).
    unfold SF2R, F2R. cbn [cond_Zopp Fnum Fexp bpow Z.pow_pos Pos.iter radix_val radix2 Z.mul Pos.mul]. lra.
Qed.

Lemma half_grid : forall g m x,
  (gmin <= g <= gmax)%Z -> (Z.abs m < 2 ^ prec)%Z ->
  grid g (2 * m) x -> grid g m (fhalf * x)%float.
Proof.
  intros g m x [Hg1 Hg2] Hm [Fx Hx]. destruct FR_half as [Fh Hh]. unfold grid, ffin, FR in *.
  rewrite mul_equiv.
  pose proof (@Bmult_correct prec emax _ _ mode_NE (Prim2B fhalf) (Prim2B x)) as H.
  rewrite Hx, Hh in H.
  replace (/ 2 * (IZR (2 * m) * bpow radix2 g)) with (IZR m * bpow radix2 g) in H
    by (rewrite mult_IZR; field).
  cbn [round_mode] in H. rewrite (rnd_grid g m Hg1 Hm) in H.
  rewrite Rlt_bool_true in H by (apply grid_lt_emax; assumption).
  destruct H as (H1 & H2 & _). rewrite Fh, Fx in H2. split; assumption.
Qed.

Lemma ltb_R : forall x y, ffin x -> ffin y -> (x <? y)%float = Rlt_bool (FR x) (FR y).
Proof. intros x y Fx Fy. rewrite ltb_equiv. apply Bltb_correct; assumption. Qed.

Lemma ltb_false_R : forall x y, ffin x -> ffin y -> (x <? y)%float = false <-> FR y <= FR x.
Proof.
  intros x y Fx Fy. rewrite (ltb_R x y Fx Fy). split; intros H.
  - destruct (Rlt_bool_spec (FR x) (FR y)); [discriminate|assumption].
  - apply Rlt_bool_false. exact H.
Qed.

(* ---------- one axis ---------- *)

(* headroom: every significand that occurs (mx -/+ 2mw, mw, mx -/+ mw, (mx -/+ mw) -/+ mw) is below 2^53 *)
Definition headroom (mx mw : Z) : Prop := (Z.abs mx + 2 * Z.abs mw < 2 ^ prec)%Z.

Section Axis.
  Variables (g mx mw : Z) (x hw p : pfloat).
  Hypothesis Hg : (gmin <= g <= gmax)%Z.
  Hypothesis Hh : headroom mx mw.
  Hypothesis Gx : grid g mx x.
  Hypothesis Gw : grid g (2 * mw) hw.
  Hypothesis Fp : ffin p.

  Let hw2 := (fhalf * hw)%float.
  Let xw := (x - hw2)%float.       (* centre of the west / north child on this axis *)
  Let xe := (x + hw2)%float.       (* centre of the east / south child *)

  Lemma G_hw2 : grid g mw hw2.
  Proof. unfold headroom in Hh. apply half_grid; [exact Hg|lia|exact Gw]. Qed.
  Lemma G_xw : grid g (mx - mw) xw.
  Proof. unfold headroom in Hh. apply sub_grid; [exact Hg|lia|exact Gx|exact G_hw2]. Qed.
  Lemma G_xe : grid g (mx + mw) xe.
  Proof. unfold headroom in Hh. apply add_grid; [exact Hg|lia|exact Gx|exact G_hw2]. Qed.
  Lemma G_lo : grid g (mx - 2 * mw) (x - hw)%float.
  Proof. unfold headroom in Hh. apply sub_grid; [exact Hg|lia|exact Gx|exact Gw]. Qed.
  Lemma G_hi : grid g (mx + 2 * mw) (x + hw)%float.
  Proof. unfold headroom in Hh. apply add_grid; [exact Hg|lia|exact Gx|exact Gw]. Qed.
  Lemma G_wlo : grid g (mx - mw - mw) (xw - hw2)%float.
  Proof. unfold headroom in Hh. apply sub_grid; [exact Hg|lia|exact G_xw|exact G_hw2]. Qed.
  Lemma G_whi : grid g (mx - mw + mw) (xw + hw2)%float.
  Proof. unfold headroom in Hh. apply add_grid; [exact Hg|lia|exact G_xw|exact G_hw2]. Qed.
  Lemma G_elo : grid g (mx + mw - mw) (xe - hw2)%float.
  Proof. unfold headroom in Hh. apply sub_grid; [exact Hg|lia|exact G_xe|exact G_hw2]. Qed.
  Lemma G_ehi : grid g (mx + mw + mw) (xe + hw2)%float.
  Proof. unfold headroom in Hh. apply add_grid; [exact Hg|lia|exact G_xe|exact G_hw2]. Qed.

  (* the two tests of containsPoint on this axis decide the real inequalities exactly *)
  Lemma axis_tests_exact :
    ((p <? x - hw)%float = false /\ (x + hw <? p)%float = false) <->
    (FR x - FR hw <= FR p <= FR x + FR hw).
  Proof.
    destruct G_lo as [F1 E1]. destruct G_hi as [F2 E2]. destruct Gx as [_ Ex]. destruct Gw as [_ Ew].
    rewrite (ltb_false_R _ _ Fp F1), (ltb_false_R _ _ F2 Fp). rewrite E1, E2, Ex, Ew.
    rewrite minus_IZR, plus_IZR, mult_IZR. split; intros [A B]; split; lra.
  Qed.

  (* accepted by the cell on this axis -> accepted by the west or by the east child on this axis *)
  Lemma axis_cover :
    (p <? x - hw)%float = false -> (x + hw <? p)%float = false ->
    ((p <? xw - hw2)%float = false /\ (xw + hw2 <? p)%float = false) \/
    ((p <? xe - hw2)%float = false /\ (xe + hw2 <? p)%float = false).
  Proof.
    intros A B.
    destruct G_lo as [F1 E1]. destruct G_hi as [F2 E2].
    destruct G_wlo as [F3 E3]. destruct G_whi as [F4 E4]. destruct G_elo as [F5 E5]. destruct G_ehi as [F6 E6].
    apply (ltb_false_R _ _ Fp F1) in A. apply (ltb_false_R _ _ F2 Fp) in B.
    rewrite E1 in A. rewrite E2 in B.
    rewrite (ltb_false_R _ _ Fp F3), (ltb_false_R _ _ F4 Fp), (ltb_false_R _ _ Fp F5), (ltb_false_R _ _ F6 Fp).
    rewrite E3, E4, E5, E6.
    replace (mx - mw - mw)%Z with (mx - 2 * mw)%Z by lia.
    replace (mx - mw + mw)%Z with mx by lia.
    replace (mx + mw - mw)%Z with mx by lia.
    replace (mx + mw + mw)%Z with (mx + 2 * mw)%Z by lia.
    destruct (Rle_dec (FR p) (IZR mx * bpow radix2 g)) as [L|L].
    - left. split; assumption.
    - right. split; [lra|assumption].
  Qed.
End Axis.

(* ---------- the cell ---------- *)

Lemma fcontains_iff : forall c p,
  fcontains c p = true <->
  (fst p <? fcx c - fchw c)%float = false /\ (fcx c + fchw c <? fst p)%float = false /\
  (snd p <? fcy c - fchh c)%float = false /\ (fcy c + fchh c <? snd p)%float = false.
Proof.
  intros c p. unfold fcontains.
  destruct (fst p <? fcx c - fchw c)%float; [split; [discriminate|intros [A _]; discriminate]|].
  destruct (fcx c + fchw c <? fst p)%float; [split; [discriminate|intros [_ [A _]]; discriminate]|].
  destruct (snd p <? fcy c - fchh c)%float; [split; [discriminate|intros [_ [_ [A _]]]; discriminate]|].
  destruct (fcy c + fchh c <? snd p)%float; [split; [discriminate|intros [_ [_ [_ A]]]; discriminate]|].
  split; [intros _; repeat split|reflexivity].
Qed.

(* centre and half sizes are multiples of 2^g with headroom *)
Definition cell_on_grid (g : Z) (c : fcell) : Prop :=
  exists mx my mw mh : Z,
    grid g mx (fcx c) /\ grid g my (fcy c) /\ grid g (2 * mw) (fchw c) /\ grid g (2 * mh) (fchh c) /\
    headroom mx mw /\ headroom my mh.

Definition pt_finite (p : fpt) : Prop := ffin (fst p) /\ ffin (snd p).

(* on the class, containsPoint is the exact (real-number) containment *)
Theorem fcontains_exact_on_grid : forall g c p,
  (gmin <= g <= gmax)%Z -> cell_on_grid g c -> pt_finite p ->
  (fcontains c p = true <->
   FR (fcx c) - FR (fchw c) <= FR (fst p) <= FR (fcx c) + FR (fchw c) /\
   FR (fcy c) - FR (fchh c) <= FR (snd p) <= FR (fcy c) + FR (fchh c)).
Proof.
  intros g c p Hg (mx & my & mw & mh & Gx & Gy & Gw & Gh & Hx & Hy) [Fp0 Fp1].
  rewrite fcontains_iff.
  rewrite <- (axis_tests_exact g mx mw (fcx c) (fchw c) (fst p) Hg Hx Gx Gw Fp0).
  rewrite <- (axis_tests_exact g my mh (fcy c) (fchh c) (snd p) Hg Hy Gy Gh Fp1).
  tauto.
Qed.

(* ... and the child boxes are the exact halves *)
Theorem fchildren_exact_on_grid : forall g c,
  (gmin <= g <= gmax)%Z -> cell_on_grid g c ->
  FR (fchw (fnwc c)) = FR (fchw c) / 2 /\ FR (fchh (fnwc c)) = FR (fchh c) / 2 /\
  FR (fcx (fnwc c)) = FR (fcx c) - FR (fchw c) / 2 /\ FR (fcx (fnec c)) = FR (fcx c) + FR (fchw c) / 2 /\
  FR (fcy (fnwc c)) = FR (fcy c) - FR (fchh c) / 2 /\ FR (fcy (fswc c)) = FR (fcy c) + FR (fchh c) / 2.
Proof.
  intros g c Hg (mx & my & mw & mh & Gx & Gy & Gw & Gh & Hx & Hy).
  pose proof (G_hw2 g mx mw (fchw c) Hg Hx Gw) as [_ A1].
  pose proof (G_hw2 g my mh (fchh c) Hg Hy Gh) as [_ A2].
  pose proof (G_xw g mx mw (fcx c) (fchw c) Hg Hx Gx Gw) as [_ A3].
  pose proof (G_xe g mx mw (fcx c) (fchw c) Hg Hx Gx Gw) as [_ A4].
  pose proof (G_xw g my mh (fcy c) (fchh c) Hg Hy Gy Gh) as [_ A5].
  pose proof (G_xe g my mh (fcy c) (fchh c) Hg Hy Gy Gh) as [_ A6].
  destruct Gx as [_ Ex]. destruct Gy as [_ Ey]. destruct Gw as [_ Ew]. destruct Gh as [_ Eh].
  cbn [fnwc fnec fswc fcx fcy fchw fchh].
  rewrite A1, A2, A3, A4, A5, A6, Ex, Ey, Ew, Eh.
  rewrite !minus_IZR, !plus_IZR, !mult_IZR. repeat split; field.
Qed.

(* NO CRACK on the class: the exact-arithmetic theorem children_cover holds bit for bit in binary64 *)
Theorem children_cover_binary64_exact_inputs_gen : forall g c p,
  (gmin <= g <= gmax)%Z -> cell_on_grid g c -> pt_finite p ->
  fcontains c p = true ->
  fcontains (fnwc c) p = true \/ fcontains (fnec c) p = true \/
  fcontains (fswc c) p = true \/ fcontains (fsec c) p = true.
Proof.
  intros g c p Hg (mx & my & mw & mh & Gx & Gy & Gw & Gh & Hx & Hy) [Fp0 Fp1] H.
  apply fcontains_iff in H. destruct H as (A & B & C & D).
  pose proof (axis_cover g mx mw (fcx c) (fchw c) (fst p) Hg Hx Gx Gw Fp0 A B) as X.
  pose proof (axis_cover g my mh (fcy c) (fchh c) (snd p) Hg Hy Gy Gh Fp1 C D) as Y.
  rewrite !fcontains_iff. cbn [fnwc fnec fswc fsec fcx fcy fchw fchh].
  destruct X as [[X1 X2]|[X1 X2]]; destruct Y as [[Y1 Y2]|[Y1 Y2]].
  - left. repeat split; assumption.
  - right. right. left. repeat split; assumption.
  - right. left. repeat split; assumption.
  - right. right. right. repeat split; assumption.
Qed.

Lemma fcrack_false_on_grid : forall g c p,
  (gmin <= g <= gmax)%Z -> cell_on_grid g c -> pt_finite p -> fcrack c p = false.
Proof.
  intros g c p Hg Hc Hp. unfold fcrack. destruct (fcontains c p) eqn:E; [|reflexivity].
  cbn [andb]. apply negb_false_iff. unfold fchildren. cbn [existsb].
  destruct (children_cover_binary64_exact_inputs_gen g c p Hg Hc Hp E) as [H|[H|[H|H]]]; rewrite H;
    rewrite ?orb_true_r; reflexivity.
Qed.

(* ---------- descending: the children are on the next finer grid, the headroom bound doubles ---------- *)

Definition cell_on_grid_b (g : Z) (B : Z) (c : fcell) : Prop :=
  exists mx my mw mh : Z,
    grid g mx (fcx c) /\ grid g my (fcy c) /\ grid g (2 * mw) (fchw c) /\ grid g (2 * mh) (fchh c) /\
    (Z.abs mx + 2 * Z.abs mw < B)%Z /\ (Z.abs my + 2 * Z.abs mh < B)%Z.

Lemma grid_finer : forall g m x, grid g m x -> grid (g - 1) (2 * m) x.
Proof.
  intros g m x [F E]. split; [exact F|]. rewrite E, mult_IZR.
  replace g with (g - 1 + 1)%Z at 1 by lia. rewrite bpow_plus. cbn [bpow Z.pow_pos Pos.iter radix_val radix2 Z.mul Pos.mul].
  ring.
Qed.

Lemma child_on_grid : forall g B c k,
  (gmin <= g <= gmax)%Z -> (0 < B <= 2 ^ prec)%Z -> (k < 4)%nat ->
  cell_on_grid_b g B c -> cell_on_grid_b (g - 1) (2 * B) (fchild k c).
Proof.
  intros g B c k Hg HB Hk (mx & my & mw & mh & Gx & Gy & Gw & Gh & Hx & Hy).
  assert (Hhx : headroom mx mw) by (unfold headroom; lia).
  assert (Hhy : headroom my mh) by (unfold headroom; lia).
  pose proof (G_hw2 g mx mw (fchw c) Hg Hhx Gw) as A1.
  pose proof (G_hw2 g my mh (fchh c) Hg Hhy Gh) as A2.
  pose proof (G_xw g mx mw (fcx c) (fchw c) Hg Hhx Gx Gw) as A3.
  pose proof (G_xe g mx mw (fcx c) (fchw c) Hg Hhx Gx Gw) as A4.
  pose proof (G_xw g my mh (fcy c) (fchh c) Hg Hhy Gy Gh) as A5.
  pose proof (G_xe g my mh (fcy c) (fchh c) Hg Hhy Gy Gh) as A6.
  apply grid_finer in A1, A2, A3, A4, A5, A6.
  destruct k as [|[|[|[|k]]]]; [| | | |lia]; cbn [fchild fnwc fnec fswc fsec].
  - exists (2 * (mx - mw))%Z, (2 * (my - mh))%Z, mw, mh. cbn [fcx fcy fchw fchh].
    refine (conj A3 (conj A5 (conj A1 (conj A2 (conj _ _))))); lia.
  - exists (2 * (mx + mw))%Z, (2 * (my - mh))%Z, mw, mh. cbn [fcx fcy fchw fchh].
    refine (conj A4 (conj A5 (conj A1 (conj A2 (conj _ _))))); lia.
  - exists (2 * (mx - mw))%Z, (2 * (my + mh))%Z, mw, mh. cbn [fcx fcy fchw fchh].
    refine (conj A3 (conj A6 (conj A1 (conj A2 (conj _ _))))); lia.
  - exists (2 * (mx + mw))%Z, (2 * (my + mh))%Z, mw, mh. cbn [fcx fcy fchw fchh].
    refine (conj A4 (conj A6 (conj A1 (conj A2 (conj _ _))))); lia.
Qed.

Lemma cell_on_grid_of_b : forall g B c, (B <= 2 ^ prec)%Z -> cell_on_grid_b g B c -> cell_on_grid g c.
Proof.
  intros g B c HB (mx & my & mw & mh & Gx & Gy & Gw & Gh & Hx & Hy).
  exists mx, my, mw, mh. unfold headroom. refine (conj Gx (conj Gy (conj Gw (conj Gh (conj _ _))))); lia.
Qed.

(* a root on the grid 2^g whose significands leave d spare bits: every cell down to depth d is crack-free *)
Theorem no_crack_below_grid_root_gen : forall (path : list nat) g d root p,
  (length path <= d)%nat -> (Z.of_nat d <= prec)%Z ->
  (gmin + Z.of_nat d <= g <= gmax)%Z ->
  cell_on_grid_b g (2 ^ (prec - Z.of_nat d)) root ->
  Forall (fun k => (k < 4)%nat) path ->
  pt_finite p ->
  fcrack (fdescend path root) p = false /\
  (fcontains (fdescend path root) p = true ->
   existsb (fun k => fcontains k p) (fchildren (fdescend path root)) = true).
Proof.
  induction path as [|k path IH]; intros g d root p Hlen Hd Hg Hroot Hpath Hp.
  - cbn [fdescend].
    assert (Hc : cell_on_grid g root).
    { apply (cell_on_grid_of_b g (2 ^ (prec - Z.of_nat d))); [|exact Hroot].
      apply Z.pow_le_mono_r; lia. }
    assert (Hg' : (gmin <= g <= gmax)%Z) by lia.
    pose proof (fcrack_false_on_grid g root p Hg' Hc Hp) as Hcr.
    split; [exact Hcr|]. intros Hin. unfold fcrack in Hcr. rewrite Hin in Hcr. cbn [andb] in Hcr.
    apply negb_false_iff in Hcr. exact Hcr.
  - cbn [fdescend]. cbn [length] in Hlen. destruct d as [|d]; [lia|].
    inversion Hpath as [|k' path' Hk Hrest]; subst.
    assert (Hg' : (gmin <= g <= gmax)%Z) by lia.
    apply (IH (g - 1)%Z d (fchild k root) p); try assumption; try lia.
    replace (2 ^ (prec - Z.of_nat d))%Z with (2 * 2 ^ (prec - Z.of_nat (S d)))%Z.
    + apply child_on_grid; try assumption.
      split; [apply Z.pow_pos_nonneg; lia|apply Z.pow_le_mono_r; lia].
    + rewrite <- Z.pow_succ_r by lia. f_equal. lia.
Qed.

(* non-vacuity: the unit box at the origin is on the grid 2^-1 (and on every finer one) *)
Example grid_one : grid 0 1 1%float.
Proof.
  unfold grid, ffin, FR, Prim2B. split.
  - rewrite is_finite_SF2B. vm_compute. reflexivity.
  - rewrite B2R_SF2B.
    replace (Prim2SF 1) with (S754_finite false 4503599627370496 (-52)) by (vm_compute; reflexivity).
    unfold SF2R, F2R. cbn [cond_Zopp Fnum Fexp bpow Z.pow_pos Pos.iter radix_val radix2 Z.mul Pos.mul]. lra.
Qed.
Example grid_zero : forall g, grid g 0 0%float.
Proof.
  intros g. unfold grid, ffin, FR, Prim2B. split.
  - rewrite is_finite_SF2B. vm_compute. reflexivity.
  - rewrite B2R_SF2B. replace (Prim2SF 0) with (S754_zero false) by (vm_compute; reflexivity). cbn. ring.
Qed.
Definition unit_cell : fcell := mkFCell 0 0 1 1.
Example unit_cell_on_grid : cell_on_grid_b (-1) (2 ^ (prec - 40)) unit_cell.
Proof.
  exists 0%Z, 0%Z, 1%Z, 1%Z. cbn [unit_cell fcx fcy fchw fchh].
  assert (H1 : grid (-1) (2 * 1) 1%float) by (apply (grid_finer 0 1); exact grid_one).
  refine (conj (grid_zero _) (conj (grid_zero _) (conj H1 (conj H1 (conj _ _))))); vm_compute; reflexivity.
Qed.

Definition origin_pt : fpt := (0%float, 0%float).

Example exact_inputs_hyps :
  (gmin <= -1 <= gmax)%Z /\ cell_on_grid (-1) unit_cell /\ pt_finite origin_pt /\
  fcontains unit_cell origin_pt = true.
Proof.
  split; [vm_compute; split; discriminate|].
  split; [apply (cell_on_grid_of_b (-1) (2 ^ (prec - 40))); [vm_compute; discriminate|exact unit_cell_on_grid]|].
  split; [split; apply (grid_zero 0)|]. vm_compute. reflexivity.
Qed.

Example no_crack_hyps :
  (length [0; 3; 1]%nat <= 40)%nat /\ (Z.of_nat 40 <= prec)%Z /\ (gmin + Z.of_nat 40 <= -1 <= gmax)%Z /\
  cell_on_grid_b (-1) (2 ^ (prec - Z.of_nat 40)) unit_cell /\
  Forall (fun k => (k < 4)%nat) [0; 3; 1]%nat /\ pt_finite origin_pt.
Proof.
  split; [cbn; lia|]. split; [vm_compute; discriminate|]. split; [vm_compute; split; discriminate|].
  split; [exact unit_cell_on_grid|]. split; [repeat constructor|]. split; apply (grid_zero 0).
Qed.
