(* ====================================================================== *)
(*  Lle_Proof_Proj.v — orthogonal projectors are determined by their range *)
(*  (C08, wave 2).  Over a formally real field (hypothesis sos_zero; Qc at *)
(*  the end):                                                              *)
(*    osys k U            U is an orthogonal system: columns with their    *)
(*                        non-zero squared norms, pairwise orthogonal      *)
(*    proj_fix            P_U y = y  whenever y lies in the span of U,     *)
(*                        stated dually: every w orthogonal to U is        *)
(*                        orthogonal to y                                  *)
(*    proj_unique         two orthogonal systems with the same orthogonal  *)
(*                        complement have the same projector               *)
(*                        sum_u u u^T / (u.u)                              *)
(*    gs_orth_iff         for U = mgs_sf [] C (sqrt-free Gram-Schmidt):    *)
(*                        w is orthogonal to U iff it is to every input    *)
(*                        column                                           *)
(*    gs_proj_span        hence the projector computed by Gram-Schmidt     *)
(*                        depends on the input columns only through their  *)
(*                        span                                             *)
(*    hlle_local_basis_free                                                *)
(*                        HLLE's local matrix H H^T depends on the tangent *)
(*                        coordinates V only through their span: V' = V R, *)
(*                        V = V' R'  ->  same local matrix.  This is what  *)
(*                        lets the check run the exact model on INTEGER    *)
(*                        bases of the tangent space (streams hlle-flat,   *)
(*                        hlle-curved-sym) while the C++ uses eigenvectors.*)
(* ====================================================================== *)
Require Import Field Ring Arith Lia List Bool.
From TK Require Import Mat_Sums Mat_Core Lle_Model Lle_Spec Lle_Proof_Triplets Lle_Proof_Hlle Lle_Proof_Gs.
Import ListNotations.

Section Proj.
  Context {F : Type} {Fo : FieldOps F} {Ff : IsField F}.
  Add Field LleProjField : (@Fth F Fo Ff).
  Local Open Scope F_scope.
  Local Notation vec := (Mat_Core.vec F).
  Local Notation mat := (Mat_Core.mat F).
  Local Notation ulist := (list (vec * F)).

  Hypothesis sos_zero : forall n (f : nat -> F),
      sumn n (fun t => f t * f t) = 0 -> forall t, t < n -> f t = 0.

  Ltac fring := unfold Mat_Core.vec in *; rewrite ?fdiv_mul; ring.

  Inductive osys (k : nat) : ulist -> Prop :=
  | osys_nil : osys k []
  | osys_snoc U u : osys k U -> orth_to k U u -> dot k u u <> 0 -> osys k (U ++ [(u, dot k u u)]).

  (* P_U y *)
  Definition pv (k : nat) (U : ulist) (y : vec) : vec :=
    fun a => fold_right (fun un acc => fst un a / snd un * dot k (fst un) y + acc) 0 U.

  Lemma pv_app k U U' y a : pv k (U ++ U') y a = pv k U y a + pv k U' y a.
  Proof.
    unfold pv. induction U as [|x U IH]; cbn [app fold_right]; [ring_simplify; reflexivity|]. rewrite IH. ring.
  Qed.

  Lemma pv_single k x y a : pv k [x] y a = fst x a / snd x * dot k (fst x) y.
  Proof. unfold pv. cbn [fold_right]. fring. Qed.

  Lemma dot_add_r n (w x x' : vec) : dot n w (fun i => x i + x' i) = dot n w x + dot n w x'.
  Proof. rewrite dot_comm, dot_add_l, (dot_comm n x), (dot_comm n x'). reflexivity. Qed.

  Lemma dot_sub_r n (w x x' : vec) : dot n w (fun i => x i - x' i) = dot n w x - dot n w x'.
  Proof. rewrite dot_comm, dot_sub_l, (dot_comm n x), (dot_comm n x'). reflexivity. Qed.

  Lemma dot_scale_r n c (w x : vec) : dot n w (fun i => c * x i) = c * dot n w x.
  Proof. rewrite dot_comm, dot_scale_l, dot_comm. reflexivity. Qed.

  Lemma dot_pv k (w : vec) U y :
    dot k w (pv k U y) =
    fold_right (fun un acc => dot k w (fst un) / snd un * dot k (fst un) y + acc) 0 U.
  Proof.
    induction U as [|x U IH]; cbn [fold_right].
    - unfold pv, dot. cbn [fold_right]. apply sumn_zero'. intros; ring.
    - rewrite <- IH.
      rewrite (dot_ext k w w (pv k (x :: U) y)
                 (fun a => (/ snd x * dot k (fst x) y) * fst x a + pv k U y a)).
      + rewrite dot_add_r, dot_scale_r. fring.
      + intros; reflexivity.
      + intros a Ha. unfold pv. cbn [fold_right]. fring.
  Qed.

  Lemma orth_pv k U (w y : vec) : orth_to k U w -> dot k w (pv k U y) = 0.
  Proof.
    intros Hw. rewrite dot_pv. unfold orth_to, Mat_Core.vec in *.
    induction U as [|x U IH]; cbn [fold_right]; [reflexivity|].
    rewrite (Hw x) by (left; reflexivity).
    rewrite IH by (intros un Hun; apply Hw; right; assumption).
    fring.
  Qed.

  (* the residual y - P_U y is orthogonal to U *)
  Lemma pv_dot k U y :
    osys k U -> forall un, In un U -> dot k (fst un) (pv k U y) = dot k (fst un) y.
  Proof.
    induction 1 as [|U u H IH Ho Hne]; intros un Hin; [contradiction|].
    rewrite (dot_ext k (fst un) (fst un) (pv k (U ++ [(u, dot k u u)]) y)
               (fun a => pv k U y a + pv k [(u, dot k u u)] y a))
      by (intros; try reflexivity; apply pv_app).
    rewrite dot_add_r.
    rewrite (dot_ext k (fst un) (fst un) (pv k [(u, dot k u u)] y)
               (fun a => (/ dot k u u * dot k u y) * u a))
      by (intros; try reflexivity; rewrite pv_single; cbn [fst snd]; fring).
    rewrite dot_scale_r.
    apply in_app_or in Hin. destruct Hin as [Hin|[<-|[]]].
    - rewrite (IH un Hin). rewrite (dot_comm k (fst un) u), (Ho un Hin). ring.
    - cbn [fst]. rewrite (orth_pv k U u y Ho). field. exact Hne.
  Qed.

  Lemma osys_in k U : osys k U -> forall un, In un U -> snd un = dot k (fst un) (fst un) /\ snd un <> 0.
  Proof.
    induction 1 as [|U u H IH Ho Hne]; intros un Hin; [contradiction|].
    apply in_app_or in Hin. destruct Hin as [Hin|[<-|[]]]; [apply IH; assumption|].
    cbn [fst snd]. split; [reflexivity|exact Hne].
  Qed.

  Theorem proj_fix k U (y : vec) :
    osys k U -> (forall w, orth_to k U w -> dot k w y = 0) ->
    forall a, a < k -> pv k U y a = y a.
  Proof.
    intros HU Hy a Ha.
    set (w := fun a => y a - pv k U y a).
    assert (Hw : orth_to k U w).
    { intros un Hin. unfold w. rewrite dot_comm, dot_sub_r, (pv_dot k U y HU un Hin). ring. }
    assert (Hww : dot k w w = 0).
    { unfold w at 2. rewrite dot_sub_r, (Hy w Hw), (orth_pv k U w y Hw). ring. }
    pose proof (sos_zero k w Hww a Ha) as Hz. unfold w in Hz.
    replace (pv k U y a) with (y a - (y a - pv k U y a)) by ring. rewrite Hz. ring.
  Qed.

  Lemma outer_sum_sf_sym (U : ulist) a b : outer_sum_sf U a b = outer_sum_sf U b a.
  Proof.
    unfold outer_sum_sf. induction U as [|x U IH]; cbn [fold_right]; [reflexivity|].
    rewrite IH, !fdiv_mul. ring.
  Qed.

  Lemma outer_sum_sf_pv k (U : ulist) (y : vec) a :
    sumn k (fun b => outer_sum_sf U a b * y b) = pv k U y a.
  Proof. rewrite outer_sum_sf_mv. reflexivity. Qed.

  Lemma outer_sum_sf_app (U U' : ulist) a b :
    outer_sum_sf (U ++ U') a b = outer_sum_sf U a b + outer_sum_sf U' a b.
  Proof.
    unfold outer_sum_sf. induction U as [|x U IH]; cbn [app fold_right]; [ring|]. rewrite IH. ring.
  Qed.

  (* A fixes every column of L  ->  A P_L = P_L *)
  Lemma mul_fix k (A : mat) (L : ulist) a b :
    (forall un, In un L -> sumn k (fun c => A a c * fst un c) = fst un a) ->
    sumn k (fun c => A a c * outer_sum_sf L c b) = outer_sum_sf L a b.
  Proof.
    induction L as [|x L IH]; intros H.
    - unfold outer_sum_sf. cbn [fold_right]. apply sumn_zero'. intros; ring.
    - rewrite (sumn_ext k _ (fun c => (fst x b / snd x) * (A a c * fst x c)
                                      + A a c * outer_sum_sf L c b)).
      2:{ intros c _. unfold outer_sum_sf. cbn [fold_right]. fring. }
      rewrite sumn_add, sumn_mul_l, IH by (intros un Hun; apply H; right; assumption).
      rewrite (H x) by (left; reflexivity).
      unfold outer_sum_sf. cbn [fold_right]. fring.
  Qed.

  Theorem proj_unique k (U U' : ulist) :
    osys k U -> osys k U' ->
    (forall w, orth_to k U w <-> orth_to k U' w) ->
    forall a b, a < k -> b < k -> outer_sum_sf U a b = outer_sum_sf U' a b.
  Proof.
    intros HU HU' Hiff a b Ha Hb.
    assert (H1 : sumn k (fun c => outer_sum_sf U a c * outer_sum_sf U' c b) = outer_sum_sf U' a b).
    { apply mul_fix. intros un Hin. rewrite outer_sum_sf_pv.
      apply (proj_fix k U (fst un) HU); [|assumption].
      intros w Hw. apply (proj1 (Hiff w) Hw un Hin). }
    assert (H2 : sumn k (fun c => outer_sum_sf U' b c * outer_sum_sf U c a) = outer_sum_sf U b a).
    { apply mul_fix. intros un Hin. rewrite outer_sum_sf_pv.
      apply (proj_fix k U' (fst un) HU'); [|assumption].
      intros w Hw. apply (proj2 (Hiff w) Hw un Hin). }
    rewrite <- H1, (outer_sum_sf_sym U a b), <- H2.
    apply sumn_ext. intros c _.
    rewrite (outer_sum_sf_sym U a c), (outer_sum_sf_sym U' b c). ring.
  Qed.

  (* ---------------- Gram-Schmidt output as an orthogonal system ---------------- *)
  Lemma gs_rel_osys k U C : gs_rel k U C -> gs_nondegenerate U -> osys k U.
  Proof.
    induction 1 as [|U C u c H IH Ho Hs]; intros Hnd; [constructor|].
    constructor.
    - apply IH. intros x Hx. apply Hnd. apply in_or_app. left. assumption.
    - assumption.
    - apply (Hnd (u, dot k u u)). apply in_or_app. right. left. reflexivity.
  Qed.

  (* w orthogonal to every input column -> w orthogonal to every output column *)
  Lemma mgs_sf_dual k (w : vec) cols :
    forall U, orth_to k U w -> (forall c, In c cols -> dot k w c = 0) ->
              orth_to k (mgs_sf k U cols) w.
  Proof.
    induction cols as [|v rest IH]; intros U HU Hc; cbn [mgs_sf]; [assumption|].
    apply IH; [|intros c Hin; apply Hc; right; assumption].
    intros un Hin. apply in_app_or in Hin. destruct Hin as [Hin|[<-|[]]]; [apply HU; assumption|].
    cbn [fst]. rewrite (orth_transfer k U w v HU). apply Hc. left. reflexivity.
  Qed.

  Theorem gs_orth_iff k cols (w : vec) :
    gs_nondegenerate (mgs_sf k [] cols) ->
    (orth_to k (mgs_sf k [] cols) w <-> (forall c, In c cols -> dot k w c = 0)).
  Proof.
    intros Hnd.
    pose proof (mgs_sf_rel k [] [] cols (gs_rel_nil k) Hnd) as H. cbn [app] in H.
    split.
    - intros Hw c Hin. apply (gs_rel_pairwise k _ _ H w Hw c Hin).
    - intros Hc. apply mgs_sf_dual; [intros un []|assumption].
  Qed.

  Theorem gs_proj_span k (cols cols' : list vec) :
    gs_nondegenerate (mgs_sf k [] cols) -> gs_nondegenerate (mgs_sf k [] cols') ->
    (forall w : vec, (forall c, In c cols -> dot k w c = 0) <-> (forall c, In c cols' -> dot k w c = 0)) ->
    forall a b, a < k -> b < k ->
      outer_sum_sf (mgs_sf k [] cols) a b = outer_sum_sf (mgs_sf k [] cols') a b.
  Proof.
    intros Hnd Hnd' Hspan a b Ha Hb.
    apply (proj_unique k); try assumption.
    - apply (gs_rel_osys k _ cols); [|assumption].
      pose proof (mgs_sf_rel k [] [] cols (gs_rel_nil k) Hnd) as H. exact H.
    - apply (gs_rel_osys k _ cols'); [|assumption].
      pose proof (mgs_sf_rel k [] [] cols' (gs_rel_nil k) Hnd') as H. exact H.
    - intros w. rewrite (gs_orth_iff k cols w Hnd), (gs_orth_iff k cols' w Hnd'). apply Hspan.
  Qed.

  (* ---------------- HLLE: the local matrix depends on span(V) only ---------------- *)
  Lemma hlle_writes_from_complete d n j0 ct j p :
    j0 <= j < j0 + n -> p < d - j -> exists col, In (j, p, col) (hlle_writes_from false d n j0 ct).
  Proof.
    revert j0 ct. induction n as [|n IH]; intros j0 ct Hj Hp; [lia|]. cbn [hlle_writes_from].
    destruct (Nat.eq_dec j j0) as [->|Hne].
    - exists (ct + p + 1 + d)%nat. apply in_or_app. left. apply in_map_iff. exists p.
      split; [reflexivity|apply in_seq; lia].
    - destruct (IH (S j0) (hlle_ct_next false d j0 ct) ltac:(lia) Hp) as [col H].
      exists col. apply in_or_app. right. exact H.
  Qed.

  Lemma in_cols_of k n (Y : mat) (w : vec) :
    (forall c, In c (cols_of k n Y) -> dot k w c = 0) <-> (forall j, j < n -> dot k w (mcol Y j) = 0).
  Proof.
    unfold cols_of. split.
    - intros H j Hj. rewrite <- (dot_memo_r k w (mcol Y j)). apply H. apply in_map_iff.
      exists j. split; [reflexivity|apply in_seq; lia].
    - intros H c Hin. apply in_map_iff in Hin. destruct Hin as [j [<- Hj]]. apply in_seq in Hj.
      rewrite dot_memo_r. apply H. lia.
  Qed.

  Lemma dot_sumn_r k d (w : vec) (G : nat -> nat -> F) :
    dot k w (fun a => sumn d (fun s => G a s)) = sumn d (fun s => dot k w (fun a => G a s)).
  Proof.
    unfold dot.
    rewrite (sumn_ext k _ (fun a => sumn d (fun s => w a * G a s)))
      by (intros; rewrite sumn_mul_l; reflexivity).
    apply sumn_swap.
  Qed.

  Section SpanStep.
    Variables (k d : nat) (prev prev' V V' R : mat) (M w : vec).
    (* affine change of the tangent coordinates: V' = 1 M^T + V R  (the C++ uses centred eigenvectors,
       the exact stream of the check raw integer coordinates) *)
    Hypothesis HV' : forall a t, a < k -> t < d -> V' a t = M t + sumn d (fun s => V a s * R s t).
    Let Y := hlle_Yprod false d prev V.
    Let Y' := hlle_Yprod false d prev' V'.

    Lemma ycol_tangent t : t < d -> dot k w (mcol Y (S t)) = dot k w (fun a => V a t).
    Proof.
      intros Ht. apply dot_ext; [intros; reflexivity|]. intros a _. unfold mcol, Y.
      destruct (hlle_Yprod_entries d prev V a) as [_ [H1 _]]. apply H1. exact Ht.
    Qed.

    Lemma const_zero c :
      (forall j, j < 1 + d -> dot k w (mcol Y j) = 0) -> dot k w (fun _ => c) = 0.
    Proof.
      intros H.
      rewrite (dot_ext k w w (fun _ => c) (fun a => c * mcol Y 0%nat a)).
      - rewrite dot_scale_r, (H 0%nat) by lia. ring.
      - intros; reflexivity.
      - intros a _. unfold mcol, Y. destruct (hlle_Yprod_entries d prev V a) as [H0 _]. rewrite H0. ring.
    Qed.

    Lemma lin_zero (r : vec) :
      (forall j, j < 1 + d -> dot k w (mcol Y j) = 0) ->
      dot k w (fun a => sumn d (fun s => V a s * r s)) = 0.
    Proof.
      intros H. rewrite dot_sumn_r. apply sumn_zero'. intros s Hs.
      rewrite (dot_ext k w w _ (fun a => r s * V a s)) by (intros; try reflexivity; ring).
      rewrite dot_scale_r, <- (ycol_tangent s Hs), (H (S s)) by lia. ring.
    Qed.

    Lemma span_low :
      (forall j, j < 1 + d -> dot k w (mcol Y j) = 0) ->
      forall j, j < 1 + d -> dot k w (mcol Y' j) = 0.
    Proof.
      intros H j Hj. destruct j as [|c].
      - rewrite <- (H 0%nat ltac:(lia)). apply dot_ext; [intros; reflexivity|]. intros a _.
        unfold mcol, Y, Y'.
        destruct (hlle_Yprod_entries d prev V a) as [H0 _].
        destruct (hlle_Yprod_entries d prev' V' a) as [H0' _]. congruence.
      - assert (Hc : c < d) by lia.
        rewrite (dot_ext k w w (mcol Y' (S c)) (fun a => M c + sumn d (fun s => V a s * R s c))).
        + rewrite dot_add_r, (const_zero (M c) H), (lin_zero (fun s => R s c) H). ring.
        + intros; reflexivity.
        + intros a Ha. unfold mcol, Y'.
          destruct (hlle_Yprod_entries d prev' V' a) as [_ [H1 _]]. rewrite (H1 c Hc).
          apply HV'; assumption.
    Qed.

    Lemma pair_zero :
      (forall j, j < hlle_ncols d -> dot k w (mcol Y j) = 0) ->
      forall s t, s < d -> t < d -> dot k w (fun a => V a s * V a t) = 0.
    Proof.
      intros H.
      assert (Hle : forall s t, s <= t -> t < d -> dot k w (fun a => V a s * V a t) = 0).
      { intros s t Hst Ht.
        destruct (hlle_writes_from_complete d d 0 0 s (t - s) ltac:(lia) ltac:(lia)) as [col Hin].
        fold (hlle_writes false d) in Hin.
        pose proof (hlle_columns_in_range d _ Hin) as Hr. unfold wcol in Hr. cbn [snd] in Hr.
        rewrite <- (H col) by lia. apply dot_ext; [intros; reflexivity|]. intros a _.
        unfold mcol, Y. destruct (hlle_Yprod_entries d prev V a) as [_ [_ H2]].
        rewrite (H2 _ _ _ Hin). replace (s + (t - s))%nat with t by lia. reflexivity. }
      intros s t Hs Ht. destruct (Nat.le_gt_cases s t) as [Hst|Hts].
      - apply Hle; assumption.
      - rewrite (dot_ext k w w _ (fun a => V a t * V a s)) by (intros; try reflexivity; ring).
        apply Hle; [lia|assumption].
    Qed.

    Lemma span_high :
      (forall j, j < hlle_ncols d -> dot k w (mcol Y j) = 0) ->
      forall j, 1 + d <= j < hlle_ncols d -> dot k w (mcol Y' j) = 0.
    Proof.
      intros H j Hj.
      assert (Hlow : forall j, j < 1 + d -> dot k w (mcol Y j) = 0)
        by (intros j' Hj'; apply H; unfold hlle_ncols; lia).
      destruct (hlle_columns_cover d j Hj) as [[[j0 p0] col] [Hin Hcol]].
      unfold wcol in Hcol. cbn [snd] in Hcol. subst col.
      destruct (hlle_sources false d j0 p0 j Hin) as [Hs1 Hs2].
      set (q := (j0 + p0)%nat) in *.
      rewrite (dot_ext k w w (mcol Y' j)
                 (fun a => (M j0 * M q
                            + sumn d (fun s => V a s * (M q * R s j0)))
                           + (sumn d (fun s => V a s * (M j0 * R s q))
                              + sumn d (fun s => sumn d (fun t =>
                                  (R s j0 * R t q) * (V a s * V a t)))))).
      - rewrite !dot_add_r, (const_zero _ Hlow), !(lin_zero _ Hlow).
        rewrite dot_sumn_r, sumn_zero'; [ring|]. intros s Hs.
        rewrite dot_sumn_r. apply sumn_zero'. intros t Ht.
        rewrite dot_scale_r, (pair_zero H s t Hs Ht). ring.
      - intros; reflexivity.
      - intros a Ha. unfold mcol, Y'.
        destruct (hlle_Yprod_entries d prev' V' a) as [_ [_ H2]].
        rewrite (H2 _ _ _ Hin). fold q.
        rewrite (HV' a j0 Ha ltac:(lia)), (HV' a q Ha ltac:(unfold q; lia)).
        rewrite (sumn_ext d (fun s => V a s * (M q * R s j0)) (fun s => M q * (V a s * R s j0)))
          by (intros; ring).
        rewrite (sumn_ext d (fun s => V a s * (M j0 * R s q)) (fun s => M j0 * (V a s * R s q)))
          by (intros; ring).
        rewrite !sumn_mul_l.
        rewrite (sumn_ext d (fun s => sumn d (fun t => R s j0 * R t q * (V a s * V a t)))
                   (fun s => sumn d (fun t => (V a s * R s j0) * (V a t * R t q)))).
        2:{ intros s _. apply sumn_ext. intros t _. ring. }
        rewrite <- sumn_mul_sumn. ring.
    Qed.

    Lemma span_full :
      (forall j, j < hlle_ncols d -> dot k w (mcol Y j) = 0) ->
      forall j, j < hlle_ncols d -> dot k w (mcol Y' j) = 0.
    Proof.
      intros H j Hj. destruct (Nat.lt_ge_cases j (1 + d)) as [Hlo|Hhi].
      - apply span_low; [|assumption]. intros j' Hj'. apply H. unfold hlle_ncols. lia.
      - apply span_high; [assumption|lia].
    Qed.
  End SpanStep.

  Lemma mgs_sf_app k U c1 c2 : mgs_sf k U (c1 ++ c2) = mgs_sf k (mgs_sf k U c1) c2.
  Proof. revert U. induction c1 as [|v c1 IH]; intros U; cbn [app mgs_sf]; [reflexivity|apply IH]. Qed.

  Lemma mgs_sf_prefix k cols :
    forall U, exists T, mgs_sf k U cols = U ++ T /\ length T = length cols.
  Proof.
    induction cols as [|v rest IH]; intros U; cbn [mgs_sf].
    - exists []. rewrite app_nil_r. split; reflexivity.
    - destruct (IH (U ++ [(mgs_orth_sf k U v, dot k (mgs_orth_sf k U v) (mgs_orth_sf k U v))])) as [T [E L]].
      exists ((mgs_orth_sf k U v, dot k (mgs_orth_sf k U v) (mgs_orth_sf k U v)) :: T).
      rewrite E, <- app_assoc. split; [reflexivity|cbn [length]; lia].
  Qed.

  Lemma gs_tail_proj k c1 c2 a b :
    outer_sum_sf (skipn (length c1) (mgs_sf k [] (c1 ++ c2))) a b =
    outer_sum_sf (mgs_sf k [] (c1 ++ c2)) a b - outer_sum_sf (mgs_sf k [] c1) a b.
  Proof.
    rewrite mgs_sf_app.
    destruct (mgs_sf_prefix k c1 []) as [T1 [E1 L1]]. cbn [app] in E1.
    destruct (mgs_sf_prefix k c2 (mgs_sf k [] c1)) as [T2 [E2 L2]].
    rewrite E2, outer_sum_sf_app.
    replace (length c1) with (length (mgs_sf k [] c1)) by (rewrite E1; exact L1).
    rewrite skipn_app, skipn_all, Nat.sub_diag. cbn [app skipn]. ring.
  Qed.

  Lemma gs_prefix_nondeg k c1 c2 :
    gs_nondegenerate (mgs_sf k [] (c1 ++ c2)) -> gs_nondegenerate (mgs_sf k [] c1).
  Proof.
    intros H un Hin. apply H. rewrite mgs_sf_app. apply mgs_sf_incl. exact Hin.
  Qed.

  Lemma cols_of_split k d (Y : mat) :
    cols_of k (hlle_ncols d) Y =
    cols_of k (1 + d) Y ++ map (fun c => memo_vec k (mcol Y c)) (seq (1 + d) (hlle_dp d)).
  Proof.
    unfold cols_of, hlle_ncols.
    replace (1 + d + hlle_dp d)%nat with ((1 + d) + hlle_dp d)%nat by lia.
    rewrite seq_app, map_app. reflexivity.
  Qed.

  Theorem hlle_local_basis_free k d (prev prev' V V' R R' : mat) (M M' : vec) :
    (forall a t, a < k -> t < d -> V' a t = M t + sumn d (fun s => V a s * R s t)) ->
    (forall a t, a < k -> t < d -> V a t = M' t + sumn d (fun s => V' a s * R' s t)) ->
    gs_nondegenerate (hlle_gs_sf false k d prev V) ->
    gs_nondegenerate (hlle_gs_sf false k d prev' V') ->
    forall a b, a < k -> b < k ->
      hlle_local_sf false k d prev V a b = hlle_local_sf false k d prev' V' a b.
  Proof.
    intros HV' HV Hnd Hnd' a b Ha Hb.
    unfold hlle_local_sf, hlle_local_of, hlle_gs_sf in *.
    set (Y := hlle_Yprod false d prev V) in *. set (Y' := hlle_Yprod false d prev' V') in *.
    rewrite (cols_of_split k d Y) in *. rewrite (cols_of_split k d Y') in *.
    set (c2 := map (fun c => memo_vec k (mcol Y c)) (seq (1 + d) (hlle_dp d))) in *.
    set (c2' := map (fun c => memo_vec k (mcol Y' c)) (seq (1 + d) (hlle_dp d))) in *.
    replace (1 + d)%nat with (length (cols_of k (1 + d) Y)) at 1 by apply cols_of_length.
    rewrite gs_tail_proj.
    replace (1 + d)%nat with (length (cols_of k (1 + d) Y')) at 3 by apply cols_of_length.
    rewrite gs_tail_proj.
    f_equal.
    - apply gs_proj_span; try assumption.
      intros w. rewrite <- !cols_of_split. rewrite !in_cols_of. split; intros H.
      + apply (span_full k d prev prev' V V' R M w HV'). exact H.
      + apply (span_full k d prev' prev V' V R' M' w HV). exact H.
    - apply gs_proj_span; try assumption.
      + apply (gs_prefix_nondeg k _ c2). exact Hnd.
      + apply (gs_prefix_nondeg k _ c2'). exact Hnd'.
      + intros w. rewrite !in_cols_of. split; intros H.
        * apply (span_low k d prev prev' V V' R M w HV'). exact H.
        * apply (span_low k d prev' prev V' V R' M' w HV). exact H.
  Qed.
End Proj.

(* ---------------- Qc instances (Qc is formally real: Lle_Proof_Flat.Qc_sos_zero) ---------------- *)
From Coq Require Import ZArith QArith Qcanon.
From TK Require Import Mat_Qc Lle_Proof_Flat.
Close Scope Qc_scope.
Close Scope Q_scope.
Close Scope Z_scope.

Definition gs_proj_span_Qc := @gs_proj_span Qc QcOps QcField Qc_sos_zero.
Definition hlle_local_basis_free_Qc := @hlle_local_basis_free Qc QcOps QcField Qc_sos_zero.
