(* Conn_Spec.v — what property C03 says, against the mathematical object (a finite
   digraph given by neighbour lists), plus boolean decision procedures that do not
   share any code with the depth-first search of Conn_Model.v.

   The neighbourhood graph has an edge i -> j when j occurs in the list of i: that is
   the direction in which compute_shortest_distances_matrix (routines/isomap.hpp)
   relaxes, `w = neighbors[min_item][i]`.  The geodesic from i to j is finite exactly
   when j is reachable from i along such edges, so "all geodesics finite" is strong
   connectivity.  Distances are integers (Z): only comparisons and sums matter here and
   any finite set of dyadic doubles scales to integers. *)
From Coq Require Import List Arith Bool ZArith Permutation.
From TK Require Import Conn_Model.
Import ListNotations.

(* ---------------------------------------------------------------- the graph *)
Definition edge (nb : graph) (i j : nat) : Prop := In j (nth i nb []).

Inductive reach (nb : graph) : nat -> nat -> Prop :=
| reach_refl : forall i, reach nb i i
| reach_step : forall i j l, edge nb i j -> reach nb j l -> reach nb i l.

(* Well-formedness assumed by every theorem (and checked by the harness on every graph
   it compares): one list per sample, every entry is a sample index.  Repeated entries
   and self-loops are allowed. *)
Definition wf_graph (N : nat) (nb : graph) : Prop :=
  length nb = N /\ forall row, In row nb -> forall j, In j row -> j < N.

(* All lists have the length of list 0 (what any k-NN search returns; the shipped
   is_connected reads every list up to the length of list 0). *)
Definition uniform (nb : graph) : Prop :=
  forall row, In row nb -> length row = length (nth 0 nb []).

Definition strongly_connected (N : nat) (nb : graph) : Prop :=
  forall i j, i < N -> j < N -> reach nb i j.

Definition all_from_first (N : nat) (nb : graph) : Prop :=
  forall j, j < N -> reach nb 0 j.

Definition wf_b (N : nat) (nb : graph) : bool :=
  (length nb =? N) && forallb (forallb (fun j => j <? N)) nb.

Definition uniform_b (nb : graph) : bool :=
  forallb (fun row => length row =? length (nth 0 nb [])) nb.

(* ---------------------------------------------------------------- decision procedure:
   Warshall's transitive closure on an N x N boolean matrix (rows as lists). *)
Definition mem (x : nat) (l : list nat) : bool := existsb (Nat.eqb x) l.

Definition bmat := list (list bool).
Definition get (R : bmat) (i j : nat) : bool := nth j (nth i R []) false.

Definition w_init (N : nat) (nb : graph) : bmat :=
  map (fun i => map (fun j => (i =? j) || mem j (nth i nb [])) (seq 0 N)) (seq 0 N).

Definition or_rows (a b : list bool) : list bool :=
  map (fun p => fst p || snd p) (combine a b).

Definition w_step (R : bmat) (k : nat) : bmat :=
  let rowk := nth k R [] in
  map (fun ri => if nth k ri false then or_rows ri rowk else ri) R.

Definition closure (N : nat) (nb : graph) : bmat :=
  fold_left w_step (seq 0 N) (w_init N nb).

Definition strong_b (N : nat) (nb : graph) : bool :=
  let R := closure N nb in
  forallb (fun i => forallb (fun j => get R i j) (seq 0 N)) (seq 0 N).

Definition from_first_b (N : nat) (nb : graph) : bool :=
  let R := closure N nb in forallb (fun j => get R 0 j) (seq 0 N).

(* ---------------------------------------------------------------- relabelling
   `p` lists the old indices in their new order: the sample at new position v is the old
   sample `nth v p`.  `pos p x` is the new position of old sample x.  The neighbour lists
   of the same data supplied in the order p are the old lists, renamed and reordered. *)
Fixpoint pos (p : list nat) (x : nat) : nat :=
  match p with
  | [] => 0
  | h :: t => if h =? x then 0 else S (pos t x)
  end.

Definition relabel (p : list nat) (nb : graph) : graph :=
  map (fun old => map (pos p) (nth old nb [])) p.

Definition is_perm (N : nat) (p : list nat) : Prop := Permutation p (seq 0 N).

(* ---------------------------------------------------------------- geodesics
   A walk i -> v1 -> ... -> vn = j is the list [v1; ...; vn]; its weight is the sum of the
   edge weights.  `is_geodesic nb w i j d`: d = Some z when z is the least weight of a walk
   from i to j, d = None ("infinite", the 1.797e308 of the C++) when there is no walk.  This
   is the specification any correct shortest-path routine meets (property C04). *)
Fixpoint walk (nb : graph) (i : nat) (vs : list nat) (j : nat) : Prop :=
  match vs with
  | [] => i = j
  | v :: vs' => edge nb i v /\ walk nb v vs' j
  end.

Fixpoint walk_weight (w : nat -> nat -> Z) (i : nat) (vs : list nat) : Z :=
  match vs with
  | [] => 0%Z
  | v :: vs' => (w i v + walk_weight w v vs')%Z
  end.

Definition is_geodesic (nb : graph) (w : nat -> nat -> Z) (i j : nat) (d : option Z) : Prop :=
  match d with
  | Some z => (exists vs, walk nb i vs j /\ walk_weight w i vs = z) /\
              (forall vs, walk nb i vs j -> (z <= walk_weight w i vs)%Z)
  | None => forall vs, ~ walk nb i vs j
  end.

(* ---------------------------------------------------------------- exact k-NN lists
   (the conclusion of property C02, used here as a hypothesis on the abstract search). *)
Definition is_knn_row (dist : nat -> nat -> Z) (N k i : nat) (row : list nat) : Prop :=
  length row = k /\ NoDup row /\
  (forall j, In j row -> j < N /\ j <> i) /\
  (forall j m, In j row -> m < N -> m <> i -> ~ In m row -> (dist i j <= dist i m)%Z).

Definition is_knn_graph (dist : nat -> nat -> Z) (N k : nat) (g : graph) : Prop :=
  length g = N /\ forall i, i < N -> is_knn_row dist N k i (nth i g []).

Fixpoint nodup_b (l : list nat) : bool :=
  match l with
  | [] => true
  | h :: t => negb (mem h t) && nodup_b t
  end.

Definition is_knn_row_b (dist : nat -> nat -> Z) (N k i : nat) (row : list nat) : bool :=
  (length row =? k) && nodup_b row &&
  forallb (fun j => (j <? N) && negb (j =? i)) row &&
  forallb (fun j => forallb (fun m => (m =? i) || mem m row || (dist i j <=? dist i m)%Z)
                            (seq 0 N)) row.

Definition is_knn_graph_b (dist : nat -> nat -> Z) (N k : nat) (g : graph) : bool :=
  (length g =? N) && forallb (fun i => is_knn_row_b dist N k i (nth i g [])) (seq 0 N).

(* The sequence of k tried by find_neighbors: k, 2k, 4k, ... each clamped to N-1. *)
Definition kseq (N k j : nat) : nat := Nat.min (k * 2 ^ j) (N - 1).

(* ---------------------------------------------------------------- a reference exact
   k-NN search on points of Z x Z under the L1 metric (1-D sets have second coordinate 0):
   sort the other samples by (distance, index), keep the first k.  Used to build witnesses
   and by the harness to feed the model; it is not a model of any tapkee search. *)
Definition l1 (p q : Z * Z) : Z := (Z.abs (fst p - fst q) + Z.abs (snd p - snd q))%Z.
Definition pdist (pts : list (Z * Z)) (i j : nat) : Z :=
  l1 (nth i pts (0, 0)%Z) (nth j pts (0, 0)%Z).

(* the other samples as (distance from i, index) pairs, in index order *)
Definition keyed (pts : list (Z * Z)) (i : nat) : list (Z * nat) :=
  let pi := nth i pts (0, 0)%Z in
  filter (fun p => negb (snd p =? i))
         (map (fun jq => (l1 pi (snd jq), fst jq)) (combine (seq 0 (length pts)) pts)).

(* insertion sort by distance; equal distances stay in index order *)
Fixpoint insert_kd (x : Z * nat) (l : list (Z * nat)) : list (Z * nat) :=
  match l with
  | [] => [x]
  | h :: t => if (fst x <=? fst h)%Z then x :: l else h :: insert_kd x t
  end.

Definition knn_brute (pts : list (Z * Z)) (k : nat) : graph :=
  map (fun i => map snd (firstn k (fold_right insert_kd [] (keyed pts i))))
      (seq 0 (length pts)).

(* ---------------------------------------------------------------- ties
   tie_free: every sample sees all the others at pairwise different distances.
   boundary_free_b dist N k: no sample has a tie AT THE BOUNDARY of its k-NN list: for every other
   sample a of sample i, with c = #{x : d(i,x) < d(i,a)} and e = #{x : d(i,x) <= d(i,a)} (x over the
   other samples), e <= k (a and everything tied with it is inside every exact list) or k <= c (all
   outside); on the sorted distances ds of sample i: ds[k-1] <> ds[k].
   rows_unique: the exact k-NN list of every sample is unique as a set. *)
Definition tie_free (dist : nat -> nat -> Z) (N : nat) : Prop :=
  forall i a b, i < N -> a < N -> b < N -> a <> i -> b <> i -> a <> b -> dist i a <> dist i b.

Definition tie_free_b (dist : nat -> nat -> Z) (N : nat) : bool :=
  forallb (fun i => forallb (fun a => forallb (fun b =>
     (a =? i) || (b =? i) || (a =? b) || negb (dist i a =? dist i b)%Z)
     (seq 0 N)) (seq 0 N)) (seq 0 N).

Definition others (N i : nat) : list nat := filter (fun x => negb (x =? i)) (seq 0 N).

Definition cnt_lt (dist : nat -> nat -> Z) (N i a : nat) : nat :=
  length (filter (fun x => (dist i x <? dist i a)%Z) (others N i)).
Definition cnt_le (dist : nat -> nat -> Z) (N i a : nat) : nat :=
  length (filter (fun x => (dist i x <=? dist i a)%Z) (others N i)).

Definition boundary_free_b (dist : nat -> nat -> Z) (N k : nat) : bool :=
  forallb (fun i => forallb (fun a => (cnt_le dist N i a <=? k) || (k <=? cnt_lt dist N i a))
                            (others N i)) (seq 0 N).

Definition rows_unique (dist : nat -> nat -> Z) (N k : nat) : Prop :=
  forall i r1 r2, i < N -> is_knn_row dist N k i r1 -> is_knn_row dist N k i r2 ->
  forall j, In j r1 -> In j r2.

