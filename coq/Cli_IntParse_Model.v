(* ====================================================================== *)
(*  Cli_IntParse_Model.v — cxxopts 3.1.1 integer_parser<int> (the reading  *)
(*  of --target-dimension, --num-neighbors, --timesteps, --max-iters,      *)
(*  --spe-num-updates), as an executable function.  NO proofs here.        *)
(*                                                                         *)
(*  /usr/include/cxxopts.hpp:                                              *)
(*    SplitInteger: regex (-)?(0x)?([0-9a-zA-Z]+)|((0x)?0)  (ECMAScript,   *)
(*      backtracking, first alternative first: every text the second       *)
(*      alternative matches is matched by the first; `(0x)?` takes "0x"    *)
(*      exactly when at least one more alphanumeric character follows);    *)
(*    integer_parser: US = unsigned int; for every character of the value: *)
(*      digit (0-9; a-f / A-F only in base 16; anything else throws),      *)
(*      next = US(result * base + digit); if (result > next) throw;        *)
(*      then the range test against INT_MIN / INT_MAX and the negation.    *)
(*  The arithmetic is modulo 2^32 as in the C++; the overflow test         *)
(*  `result > next` does NOT catch every wrap-around (quirk kept).         *)
(* ====================================================================== *)
From Coq Require Import String Ascii List ZArith Bool Arith.
From TK Require Import Cli_Model.
Import ListNotations.
Local Open Scope string_scope.

Definition code (c : ascii) : nat := nat_of_ascii c.

Definition in_range (lo hi : nat) (c : ascii) : bool := Nat.leb lo (code c) && Nat.leb (code c) hi.

Definition is_lower (c : ascii) : bool := in_range 97 122 c.
Definition is_upper (c : ascii) : bool := in_range 65 90 c.
Definition is_alnum (c : ascii) : bool := is_digit c || is_lower c || is_upper c.

Fixpoint all_alnum (s : string) : bool :=
  match s with EmptyString => true | String c r => is_alnum c && all_alnum r end.

(* IntegerDesc: negative, base 16?, the value text; None = the regex does not match *)
Definition split_integer (s : string) : option (bool * bool * string) :=
  let '(neg, r) := match s with
                   | String c r => if Ascii.eqb c "-" then (true, r) else (false, s)
                   | EmptyString => (false, s)
                   end in
  if is_empty r || negb (all_alnum r) then None
  else match r with
       | String c0 (String c1 r') =>
         if Ascii.eqb c0 "0" && Ascii.eqb c1 "x" && negb (is_empty r') then Some (neg, true, r')
         else Some (neg, false, r)
       | _ => Some (neg, false, r)
       end.

Definition digit_value (hex : bool) (c : ascii) : option Z :=
  if is_digit c then Some (Z.of_nat (code c - 48))
  else if hex && in_range 97 102 c then Some (Z.of_nat (code c - 97 + 10))
  else if hex && in_range 65 70 c then Some (Z.of_nat (code c - 65 + 10))
  else None.

Definition two32 : Z := 4294967296.

(* the loop over the characters of the value; None = incorrect_argument_type *)
Fixpoint accumulate (hex : bool) (s : string) (result : Z) : option Z :=
  match s with
  | EmptyString => Some result
  | String c r =>
    match digit_value hex c with
    | None => None
    | Some d =>
      let next := ((result * (if hex then 16 else 10) + d) mod two32)%Z in
      if (next <? result)%Z then None else accumulate hex r next
    end
  end.

Definition int_parse (s : string) : option Z :=
  match split_integer s with
  | None => None
  | Some (neg, hex, v) =>
    match accumulate hex v 0%Z with
    | None => None
    | Some u =>
      if neg then (if (2147483648 <? u)%Z then None else Some (- u)%Z)
      else (if (2147483647 <? u)%Z then None else Some u)
    end
  end.
