(* Properties_C13.v — property C13: "the result depends on the data only through callback values, however
   supplied".  Statements only; proofs are in Chain_Proof.v.  [chain_gen] and [uses_gen] are REGENERATED from
   the C++ working tree (translate/t_chain.py, translate/t_use.py) before this file is compiled, so an edit
   of chain_interface.hpp / embed.hpp / methods.hpp / methods/*.hpp / defines/methods.hpp re-opens these
   obligations.  The finite domain (16 duplicate-free attachment orders x 3 entry points x 20 methods) is
   enumerated completely inside the proofs (all_orders_complete); no bound appears in the statements
   because NoDup over a three-element type is the bound. *)
From Coq Require Import List String.
From TK Require Import Chain_Model Chain_Spec Chain_Proof Chain Uses.
Import ListNotations.
Local Open Scope string_scope.

(* 1. ROUTING.  Whatever the order of withKernel/withDistance/withFeatures and whichever entry point,
      tapkee::embed receives (begin, end, k, d, f, parameters) with the caller's object in its own position
      and the dummy OF THAT KIND elsewhere (tapkee's eigen callbacks for the matrix form), and the slots of
      the method implementation object -- after tapkee::embed, initialize, the base-class constructor and
      the two copy constructions -- hold the same objects (plain_distance wraps the distance callback,
      kernel_distance the kernel callback). *)
Theorem chain_routes : forall order en, valid_chain order en ->
  user_chain chain_gen order en = REmbed (expected_embed_args order en) /\
  exists cls slots, reach chain_gen order en = RObj cls slots /\
    forall n v, In (n, v) (expected_slots (supplied order en)) -> lookup n slots = Some v.
Proof. exact chain_routes_proof. Qed.
Print Assumptions chain_routes.

Example chain_routes_nonvacuous : valid_chain [Feat; Kern; Dist] ByContainer /\ valid_chain [] ByMatrix.
Proof.
  split; split.
  - repeat constructor; simpl; intuition discriminate.
  - split; discriminate.
  - constructor.
  - split; reflexivity.
Qed.

(* 2. USAGE.  The slots the code of a method refers to hold callbacks of kinds the method declares
      (needs_kernel / needs_distance / needs_features through its traits constant). *)
Theorem uses_subset_needs : forall m, In m (u_methods uses_gen) ->
  incl (uses chain_gen uses_gen m) (declared uses_gen m).
Proof. exact uses_subset_needs_proof. Qed.
Print Assumptions uses_subset_needs.

Example uses_subset_needs_nonvacuous : exists m, In m (u_methods uses_gen) /\ uses chain_gen uses_gen m <> [].
Proof. exact witness_uses. Qed.

(* 3. SUFFICIENCY.  Supplying (at least) the declared callbacks, in any order, through either entry point
      -- or using the matrix form -- makes the method run without touching a dummy callback. *)
Theorem declared_sufficient : forall m order en, In m (u_methods uses_gen) -> valid_chain order en ->
  (en = ByMatrix \/ forall k, In k (declared uses_gen m) -> In k order) ->
  run_method chain_gen uses_gen m order en = Ok.
Proof. exact declared_sufficient_proof. Qed.
Print Assumptions declared_sufficient.

Example declared_sufficient_nonvacuous : exists m order,
  In m (u_methods uses_gen) /\ valid_chain order ByRange /\ (forall k, In k (declared uses_gen m) -> In k order).
Proof. exact witness_sufficient. Qed.

(* 4. ... and a chain that lacks a declared callback is refused by the documented guard. *)
Theorem missing_declared_refused : forall m order en, In m (u_methods uses_gen) -> valid_chain order en ->
  en <> ByMatrix -> (exists k, In k (declared uses_gen m) /\ ~ In k order) ->
  exists msg, run_method chain_gen uses_gen m order en = Missed msg.
Proof. exact missing_declared_refused_proof. Qed.
Print Assumptions missing_declared_refused.

Example missing_declared_refused_nonvacuous : exists m order,
  In m (u_methods uses_gen) /\ valid_chain order ByRange /\ ByRange <> ByMatrix /\
  (exists k, In k (declared uses_gen m) /\ ~ In k order).
Proof. exact witness_missing. Qed.

(* 5. Meaning of the model's verdict Ok, for EVERY table (not only the generated one). *)
Theorem ok_touches_no_dummy : forall u m slots, run_method_on u m slots = Ok ->
  In (md_name m) (u_dispatched u) /\
  (forall s, In s (md_refs m) \/ In s (u_base_unguarded u) ->
     exists v, lookup s slots = Some v /\ value_is_dummy v = false) /\
  (forall fld slot msg, In (fld, slot, msg) (u_guards u) ->
     exists b v, method_field u m fld = Some b /\ lookup slot slots = Some v /\
                 (b = true -> value_is_dummy v = false)).
Proof. exact ok_touches_no_dummy_proof. Qed.
Print Assumptions ok_touches_no_dummy.

Example ok_touches_no_dummy_nonvacuous : exists m slots,
  In m (u_methods uses_gen) /\ run_method_on uses_gen m slots = Ok.
Proof. exact witness_ok. Qed.

(* 6. Who may be called.  In every valid chain, an object can receive a call only if the caller supplied it,
      only if its kind is declared by the method (exception: the base constructor asks a supplied features
      callback for dimension()), and only through the member function of its own role. *)
Theorem only_declared_called : forall m order en k f, In m (u_methods uses_gen) -> valid_chain order en ->
  In (k, f) (may_call chain_gen uses_gen m order en) ->
  (en = ByMatrix \/ In k order) /\
  (In k (declared uses_gen m) \/ (k = Feat /\ f = "dimension")) /\
  (f = role_function k \/ (k = Feat /\ f = "dimension")).
Proof. exact only_declared_called_proof. Qed.
Print Assumptions only_declared_called.

Example only_declared_called_nonvacuous : exists m c,
  In m (u_methods uses_gen) /\ In c (may_call chain_gen uses_gen m [Kern; Dist; Feat] ByRange).
Proof. exact witness_called. Qed.

(* 7. The dispatch list of DynamicImplementation::embedUsing and the method table name the same methods. *)
Theorem dispatch_complete :
  (forall m, In m (u_methods uses_gen) -> In (md_name m) (u_dispatched uses_gen)) /\
  (forall n, In n (u_dispatched uses_gen) -> exists m, In m (u_methods uses_gen) /\ md_name m = n).
Proof. exact dispatch_complete_proof. Qed.
Print Assumptions dispatch_complete.

(* 8. is_dummy<T> (SFINAE on `typedef int dummy`) is true exactly of the three dummy callback classes, each of
      whose member functions is a throw statement; tapkee's real callback classes (the eigen_ and precomputed_ families) are
      not marked and none of their members throws unconditionally. *)
Theorem dummies_marked_and_throw :
  (forall k, exists ms, In (dummy_class k, true, ms) (u_callback_classes uses_gen) /\ ms <> [] /\
                        forall f th, In (f, th) ms -> th = true) /\
  (forall n mk ms, In (n, mk, ms) (u_callback_classes uses_gen) -> starts_with "dummy_" n = false ->
                   mk = false /\ forall f th, In (f, th) ms -> th = false).
Proof. exact dummies_marked_and_throw_proof. Qed.
Print Assumptions dummies_marked_and_throw.

(* 9. Every place in routines/, neighbors/, methods/ and utils/features.hpp (u_deref_files) where a
      RandomAccessIterator is dereferenced ( *it, it[i], *(it + n), it-> ) is an argument of a
      .kernel(...) / .distance(...) / .vector(...) call: data objects are only handed to callbacks. *)
Theorem deref_only_into_callbacks : forall file snippet into_callback,
  In (file, snippet, into_callback) (u_derefs uses_gen) -> into_callback = true.
Proof. exact deref_only_into_callbacks_proof. Qed.
Print Assumptions deref_only_into_callbacks.

Example deref_only_into_callbacks_nonvacuous : u_derefs uses_gen <> [] /\ u_deref_files uses_gen <> [].
Proof. exact witness_derefs. Qed.

(* 9b. The wrapper objects built by the ImplementationBase constructor (slots plain_distance, kernel_distance): every
       member function of the wrapper calls, on the wrapped callback, only the member function of the role of the slot
       (.distance for plain_distance, .kernel for kernel_distance).  That the wrapped callback IS the one of that role
       is part of chain_routes (expected_slots). *)
Theorem wrappers_forward_to_own_role : forall c slot w e,
  find_class (t_classes chain_gen) (t_impl_class chain_gen) = Some c ->
  In (slot, EWrap w e) (c_inits c) ->
  exists tb r, In (w, tb) (u_wrappers uses_gen) /\ slot_role slot = Some r /\ tb <> [] /\
    forall member calls, In (member, calls) tb -> calls <> [] /\ forall f, In f calls -> f = role_function r.
Proof. exact wrappers_forward_to_own_role_proof. Qed.
Print Assumptions wrappers_forward_to_own_role.

Example wrappers_forward_nonvacuous : exists c slot w e,
  find_class (t_classes chain_gen) (t_impl_class chain_gen) = Some c /\ In (slot, EWrap w e) (c_inits c).
Proof. exact witness_wrappers. Qed.

(* 10. The deciders the check evaluates (extracted) on the regenerated tables are sound for EVERY table: whenever
       they answer true, the Prop-level statements 1, 3 and 4 hold of that table (no finiteness of the table is used). *)
Theorem routing_decider_sound : forall t, all_routes_ok t = true ->
  forall order en, valid_chain order en ->
  user_chain t order en = REmbed (expected_embed_args order en) /\
  exists cls slots, reach t order en = RObj cls slots /\
    forall n v, In (n, v) (expected_slots (supplied order en)) -> lookup n slots = Some v.
Proof. exact all_routes_ok_sound. Qed.
Print Assumptions routing_decider_sound.

Theorem sufficiency_decider_sound : forall t u, all_sufficient_ok t u = true ->
  forall m order en, In m (u_methods u) -> valid_chain order en ->
  ((en = ByMatrix \/ forall k, In k (declared u m) -> In k order) -> run_method t u m order en = Ok) /\
  (en <> ByMatrix -> (exists k, In k (declared u m) /\ ~ In k order) ->
     exists msg, run_method t u m order en = Missed msg).
Proof. exact all_sufficient_ok_meaning. Qed.
Print Assumptions sufficiency_decider_sound.

Example deciders_nonvacuous : all_routes_ok chain_gen = true /\ all_sufficient_ok chain_gen uses_gen = true.
Proof. split; vm_compute; reflexivity. Qed.

(* 11. Regression (F13): with the traits of the pinned commit (ManifoldSculpting built from RequiresFeatures)
      the usage property is refuted: supplying exactly the declared callback makes the method touch the
      dummy distance callback. *)
Theorem uses_refuted_before_F13 :
  exists m, In m (u_methods (uses_before_F13 uses_gen)) /\
    md_name m = "ManifoldSculpting" /\
    declared (uses_before_F13 uses_gen) m = [Feat] /\
    ~ incl (uses chain_gen (uses_before_F13 uses_gen) m) (declared (uses_before_F13 uses_gen) m) /\
    exists slot, run_method chain_gen (uses_before_F13 uses_gen) m [Feat] ByRange = TouchesDummy slot Dist.
Proof. exact uses_refuted_before_F13_proof. Qed.
Print Assumptions uses_refuted_before_F13.
