(* QuadTree_Proof_Observers.v — the public observers of the tree the code builds:
   isCorrect() is true, getAllIndices() lists pairwise different inserted indices, one for every
   group of coincident inserted points, and the mean-centred constructor QuadTree(Y, N) (the one
   tsne.hpp uses) chooses a root box that contains all N points (exact arithmetic). *)
From Coq Require Import List Arith Bool ZArith QArith Permutation Lia Lqa.
From TK Require Import QuadTree_Model QuadTree_Spec QuadTree_SpecExec QuadTree_Proof_Base
                       QuadTree_Proof_Insert QuadTree_Proof_Main QuadTree_Proof_Spec.
Import ListNotations.
Local Open Scope Q_scope.

(* ---------- isCorrect ---------- *)

Lemma Inv_is_correct : forall data l t, Inv data l t -> is_correct data t = true.
Proof.
  intros data l t H.
  induction H as [c com | c j cnt cum com l Hj Hco Hin Hcnt Hagg
                 | c cum com nw ne sw se l l1 l2 l3 l4 HP I1 IH1 I2 IH2 I3 IH3 I4 IH4 HG HF Hins H2 Hagg].
  - reflexivity.
  - cbn [is_correct]. destruct Hin as (p & Hp & Hc). rewrite Hp. exact Hc.
  - cbn [is_correct]. rewrite IH1, IH2, IH3, IH4. reflexivity.
Qed.

(* ---------- getAllIndices ---------- *)

Lemma FOP_NoDup : forall data s,
  (forall a, In a s -> coinc data a a) ->
  ForallOrdPairs (fun a b => ~ coinc data a b) s -> NoDup s.
Proof.
  intros data s Hv H. induction H as [|a s Ha Hs IH]; constructor.
  - intro Hin. rewrite Forall_forall in Ha. apply (Ha a Hin). apply Hv. left. reflexivity.
  - apply IH. intros b Hb. apply Hv. right. exact Hb.
Qed.

(* every inserted index coincides with exactly one listed index *)
Lemma Routed_owner : forall data l t, Routed data l t ->
  forall i, In i l -> exists j, In j (all_indices t) /\ coinc data i j.
Proof.
  intros data l t H.
  induction H as [c com | c j cnt cum com l Hne Hco Hin Hagg
                 | c cum com nw ne sw se l l1 l2 l3 l4 HP R1 IH1 R2 IH2 R3 IH3 R4 IH4 Hin Hagg]; intros i Hi.
  - destruct Hi.
  - exists j. split; [left; reflexivity | apply Hco; exact Hi].
  - cbn [all_indices].
    apply (Permutation_in _ HP) in Hi.
    apply in_app_or in Hi. destruct Hi as [Hi|Hi].
    { destruct (IH1 i Hi) as (j & Hj & C). exists j. split; [apply in_or_app; auto | exact C]. }
    apply in_app_or in Hi. destruct Hi as [Hi|Hi].
    { destruct (IH2 i Hi) as (j & Hj & C). exists j. split; [|exact C].
      apply in_or_app; right; apply in_or_app; auto. }
    apply in_app_or in Hi. destruct Hi as [Hi|Hi].
    { destruct (IH3 i Hi) as (j & Hj & C). exists j. split; [|exact C].
      apply in_or_app; right; apply in_or_app; right; apply in_or_app; auto. }
    destruct (IH4 i Hi) as (j & Hj & C). exists j. split; [|exact C].
    apply in_or_app; right; apply in_or_app; right; apply in_or_app; auto.
Qed.

Theorem observers_gen : forall fx fuel data order root ok t,
  (forall i, In i order -> inside data root i) ->
  mode fx data order ->
  fill_order fx fuel data order (init root) = Done ok t ->
  is_correct data t = true /\
  NoDup (all_indices t) /\ incl (all_indices t) order /\
  (forall i, In i order -> exists j, In j (all_indices t) /\ coinc data i j) /\
  (forall i j j', In i order -> In j (all_indices t) -> In j' (all_indices t) ->
                  coinc data i j -> coinc data i j' -> j = j').
Proof.
  intros fx fuel data order root ok t Hin Hm E.
  destruct (build_Inv fx fuel data order root Hin Hm) as [[E' _]|(t' & E' & I & Ec)]; rewrite E in E'.
  - discriminate.
  - injection E' as -> ->.
    destruct (Inv_spec _ _ _ I) as (R & A & N).
    assert (Hv : forall a, In a (all_indices t') -> coinc data a a).
    { intros a Ha. apply A in Ha. apply in_rev in Ha. destruct (Hin a Ha) as (p & Hp & _).
      apply (coinc_refl _ _ _ Hp). }
    assert (ND : NoDup (all_indices t')) by (apply (FOP_NoDup data); assumption).
    split; [apply (Inv_is_correct _ _ _ I)|]. split; [exact ND|]. split.
    { intros x Hx. apply in_rev. apply A. exact Hx. }
    split.
    { intros i Hi. apply (Routed_owner _ _ _ R). apply in_rev in Hi. exact Hi. }
    intros i j j' Hi Hj Hj' C C'.
    (* two listed indices coinciding with i coincide with each other: impossible unless equal *)
    assert (Cjj : coinc data j j') by (apply (coinc_trans _ _ i); [apply coinc_sym; exact C | exact C']).
    clear - N Hj Hj' Cjj ND Hv.
    unfold noncoinc_list in N.
    induction N as [|a s Ha Hs IH].
    + destruct Hj.
    + rewrite Forall_forall in Ha. inversion ND as [|? ? Hn ND']. subst.
      destruct Hj as [<-|Hj]; destruct Hj' as [<-|Hj'].
      * reflexivity.
      * exfalso. apply (Ha j' Hj'). exact Cjj.
      * exfalso. apply (Ha j Hj). apply coinc_sym. exact Cjj.
      * apply IH; try assumption. intros b Hb. apply Hv. right. exact Hb.
Qed.

(* ---------- the mean-centred root box of QuadTree(Y, N) ---------- *)

Lemma max_list_ge_init : forall (d : pt -> Q) l m, m <= max_list d l m.
Proof.
  intros d l. induction l as [|a l IH]; intro m; cbn [max_list fold_left]; [lra|].
  fold (max_list d l (if Qltb m (d a) then d a else m)).
  destruct (Qltb m (d a)) eqn:E.
  - apply Qltb_true in E. specialize (IH (d a)). lra.
  - apply IH.
Qed.

Lemma max_list_ge : forall (d : pt -> Q) l m p, In p l -> d p <= max_list d l m.
Proof.
  intros d l. induction l as [|a l IH]; intros m p Hp; [destruct Hp|].
  cbn [max_list fold_left]. fold (max_list d l (if Qltb m (d a) then d a else m)).
  destruct Hp as [<-|Hp].
  - destruct (Qltb m (d a)) eqn:E.
    + apply max_list_ge_init.
    + apply Qltb_false in E. pose proof (max_list_ge_init d l m). lra.
  - apply IH. exact Hp.
Qed.

Lemma min_list_le_init : forall (d : pt -> Q) l m, min_list d l m <= m.
Proof.
  intros d l. induction l as [|a l IH]; intro m; cbn [min_list fold_left]; [lra|].
  fold (min_list d l (if Qltb (d a) m then d a else m)).
  destruct (Qltb (d a) m) eqn:E.
  - apply Qltb_true in E. specialize (IH (d a)). lra.
  - apply IH.
Qed.

Lemma min_list_le : forall (d : pt -> Q) l m p, In p l -> min_list d l m <= d p.
Proof.
  intros d l. induction l as [|a l IH]; intros m p Hp; [destruct Hp|].
  cbn [min_list fold_left]. fold (min_list d l (if Qltb (d a) m then d a else m)).
  destruct Hp as [<-|Hp].
  - destruct (Qltb (d a) m) eqn:E.
    + apply min_list_le_init.
    + apply Qltb_false in E. pose proof (min_list_le_init d l m). lra.
  - apply IH. exact Hp.
Qed.

Lemma firstn_In_nth : forall N (l : list pt) i p,
  (i < N)%nat -> nth_error l i = Some p -> In p (firstn N l).
Proof.
  induction N as [|N IH]; intros l i p Hi Hp; [lia|].
  destruct l as [|a l]; [destruct i; discriminate|].
  cbn [firstn]. destruct i as [|i].
  - cbn in Hp. injection Hp as ->. left. reflexivity.
  - right. apply (IH l i p); [lia | exact Hp].
Qed.

Local Opaque Qred Qdiv Qplus Qminus qmax sum_pts max_list min_list.
Theorem auto_root_contains : forall slack data N c,
  0 <= slack ->
  auto_root slack data N = Some c ->
  forall i, (i < N)%nat -> forall p, nth_error data i = Some p -> contains c p = true.
Proof.
  intros slack data N c Hs E i Hi p Hp.
  unfold auto_root in E.
  assert (Hin : In p (firstn N data)) by (apply (firstn_In_nth N data i p Hi Hp)).
  destruct (firstn N data) as [|p0 l0] eqn:El; [discriminate|].
  injection E as <-.
  apply contains_iff. cbn [cx cy chw chh].
  set (mx := Qred (fst (sum_pts (p0 :: l0)) / Qn N)). set (my := Qred (snd (sum_pts (p0 :: l0)) / Qn N)).
  set (hwq := qmax (max_list fst (p0 :: l0) (fst p0) - mx) (mx - min_list fst (p0 :: l0) (fst p0))).
  set (hhq := qmax (max_list snd (p0 :: l0) (snd p0) - my) (my - min_list snd (p0 :: l0) (snd p0))).
  pose proof (Qred_correct (hwq + slack)) as R1. pose proof (Qred_correct (hhq + slack)) as R2.
  pose proof (max_list_ge fst (p0 :: l0) (fst p0) p Hin) as X1.
  pose proof (min_list_le fst (p0 :: l0) (fst p0) p Hin) as X2.
  pose proof (max_list_ge snd (p0 :: l0) (snd p0) p Hin) as Y1.
  pose proof (min_list_le snd (p0 :: l0) (snd p0) p Hin) as Y2.
  pose proof (qmax_ge_l (max_list fst (p0 :: l0) (fst p0) - mx) (mx - min_list fst (p0 :: l0) (fst p0))) as A1.
  pose proof (qmax_ge_r (max_list fst (p0 :: l0) (fst p0) - mx) (mx - min_list fst (p0 :: l0) (fst p0))) as A2.
  pose proof (qmax_ge_l (max_list snd (p0 :: l0) (snd p0) - my) (my - min_list snd (p0 :: l0) (snd p0))) as B1.
  pose proof (qmax_ge_r (max_list snd (p0 :: l0) (snd p0) - my) (my - min_list snd (p0 :: l0) (snd p0))) as B2.
  fold hwq in A1, A2. fold hhq in B1, B2.
  repeat split; lra.
Qed.
