(* Spe_Proof_Index.v — index bookkeeping of spe_embedding: clamp, shuffle oracle, global and
   local strategy of the CURRENT code (all iterations, all streams), refutation of the OLD code *)
Require Import List Arith Lia Bool ZArith QArith Qround Permutation.
From TK Require Import Spe_Model Spe_Spec Spe_Proof_Lists.
Import ListNotations.
Local Open Scope nat_scope.

(* ---------------- clamp ---------------- *)
Lemma clamp_loop_min fuel nupd N : clamp_loop (S (S fuel)) nupd N = Some (Nat.min nupd (N / 2)).
Proof.
  cbn [clamp_loop]. destruct (N / 2 <? nupd) eqn:E.
  - apply Nat.ltb_lt in E. rewrite Nat.ltb_irrefl. f_equal. lia.
  - apply Nat.ltb_ge in E. f_equal. lia.
Qed.

Lemma clamp_two_halves nupd N : Nat.min nupd (N / 2) + Nat.min nupd (N / 2) <= N.
Proof.
  pose proof (Nat.div_mod N 2 ltac:(lia)). pose proof (Nat.le_min_r nupd (N / 2)). lia.
Qed.

(* ---------------- the shuffle oracle ---------------- *)
Lemma apply_from_perm (from l : list nat) :
  is_perm (length l) from ->
  apply_from from l = Ok (map (fun f => nth f l 0) from) /\
  Permutation (map (fun f => nth f l 0) from) l.
Proof.
  intros HP. split.
  - unfold apply_from. apply mapM_ok_map. intros f Hf. apply get_ok.
    apply (Permutation_in f HP) in Hf. apply in_seq in Hf. lia.
  - eapply Permutation_trans; [apply Permutation_map; exact HP|].
    rewrite map_nth_seq. apply Permutation_refl.
Qed.

Lemma is_perm_length N l : is_perm N l -> length l = N.
Proof. intros H. rewrite (Permutation_length H). apply seq_length. Qed.

Lemma is_perm_NoDup N l : is_perm N l -> NoDup l.
Proof. intros H. apply (Permutation_NoDup (Permutation_sym H)). apply seq_NoDup. Qed.

Lemma is_perm_lt N l x : is_perm N l -> In x l -> x < N.
Proof. intros H Hx. apply (Permutation_in x H) in Hx. apply in_seq in Hx. lia. Qed.

(* ---------------- the pairs of one iteration ---------------- *)
Lemma pairs_of_ok nu idx :
  nu + nu <= length idx ->
  pairs_of nu idx = Ok (combine (firstn nu idx) (firstn nu (skipn nu idx))).
Proof.
  intros H. rewrite combine_firstn_skipn_nth by exact H. unfold pairs_of.
  apply mapM_ok_map. intros j Hj. apply in_seq in Hj.
  rewrite get_ok by lia. cbn [bind]. rewrite get_ok by lia. reflexivity.
Qed.

Lemma global_pairs_ok N nu perm :
  is_perm N perm -> nu + nu <= N ->
  global_iter_ok N nu perm (combine (firstn nu perm) (firstn nu (skipn nu perm))).
Proof.
  intros HP Hnu. pose proof (is_perm_length _ _ HP) as HL.
  assert (L1 : length (firstn nu perm) = nu) by (rewrite firstn_length; lia).
  assert (L2 : length (firstn nu (skipn nu perm)) = nu)
    by (rewrite firstn_length, skipn_length; lia).
  repeat split.
  - exact HP.
  - rewrite combine_length. lia.
  - unfold pairs_disjoint. rewrite map_fst_combine, map_snd_combine by lia.
    apply NoDup_two_halves. apply (is_perm_NoDup _ _ HP).
Qed.

(* ---------------- global strategy, every iteration ---------------- *)
Definition global_out_ok (N nu : nat) (o : iter_out) : Prop :=
  global_iter_ok N nu (o_perm o) (o_pairs o) /\ o_idx o = o_perm o.

Lemma iter_global_step (old : bool) nbrs k nu N s i :
  nu + nu <= N -> is_perm N s -> is_perm N (it_from i) ->
  let s' := map (fun f => nth f s 0) (it_from i) in
  (if old then iter_old else iter_new) true nbrs k nu s i =
    Ok (s', {| o_perm := s'; o_idx := s';
               o_pairs := combine (firstn nu s') (firstn nu (skipn nu s')) |}) /\
  is_perm N s'.
Proof.
  intros Hnu Hs Hi s'. pose proof (is_perm_length _ _ Hs) as HL.
  destruct (apply_from_perm (it_from i) s) as [Ea Pa]; [rewrite HL; exact Hi|]. fold s' in Ea, Pa.
  assert (Hs' : is_perm N s') by (unfold is_perm in *; eapply Permutation_trans; eassumption).
  pose proof (is_perm_length _ _ Hs') as HL'.
  split; [|exact Hs'].
  destruct old; unfold iter_old, iter_new; rewrite Ea; cbn [bind];
    rewrite pairs_of_ok by lia; reflexivity.
Qed.

Lemma run_iters_global (old : bool) nbrs k nu N its : forall s,
  nu + nu <= N -> is_perm N s ->
  Forall (fun i => is_perm N (it_from i)) its ->
  exists outs,
    run_iters ((if old then iter_old else iter_new) true nbrs k nu) s its = Ok outs /\
    length outs = length its /\ Forall (global_out_ok N nu) outs.
Proof.
  induction its as [|i its IH]; intros s Hnu Hs Hf.
  - exists []. repeat split; constructor.
  - inversion Hf as [|? ? Hi Hrest]; subst.
    destruct (iter_global_step old nbrs k nu N s i Hnu Hs Hi) as [Es Hs'].
    set (s' := map (fun f => nth f s 0) (it_from i)) in *.
    destruct (IH s' Hnu Hs' Hrest) as [outs [Er [Hlen Hall]]].
    exists ({| o_perm := s'; o_idx := s'; o_pairs := combine (firstn nu s') (firstn nu (skipn nu s')) |} :: outs).
    split; [|split].
    + cbn [run_iters]. rewrite Es. cbn [bind fst snd]. rewrite Er. reflexivity.
    + cbn [length]. lia.
    + constructor; [|exact Hall]. split; [|reflexivity]. cbn [o_perm o_pairs].
      apply global_pairs_ok; assumption.
Qed.

(* `global_indices_perm`: for every N, every requested nupdates, every number of iterations and every
   answer of the shuffle oracle, the global strategy (old and current code alike) never leaves its
   buffers, and in every iteration the shuffled array is a permutation of 0..N-1 and the
   min(nupdates, N/2) updated pairs are pairwise disjoint (hence i <> j). *)
Theorem global_indices_perm_proof old nbrs nupd N its :
  Forall (fun i => is_perm N (it_from i)) its ->
  exists outs,
    spe_indices old true nbrs nupd N its = Ok outs /\ length outs = length its /\
    Forall (global_out_ok N (Nat.min nupd (N / 2))) outs.
Proof.
  intros Hf. unfold spe_indices. cbn [bind]. rewrite clamp_loop_min.
  apply run_iters_global.
  - apply clamp_two_halves.
  - unfold is_perm. apply Permutation_refl.
  - exact Hf.
Qed.

Lemma pairs_disjoint_neq ps a b : pairs_disjoint ps -> In (a, b) ps -> a <> b.
Proof.
  unfold pairs_disjoint. induction ps as [|[x y] ps IH]; intros Hd Hin; [destruct Hin|].
  cbn [map fst snd app] in Hd. destruct Hin as [E|Hin].
  - inversion E; subst. inversion Hd as [|? ? Hx _]; subst. intro; subst.
    apply Hx. apply in_or_app. right. left. reflexivity.
  - apply IH; [|exact Hin]. inversion Hd as [|? ? _ Hn]; subst.
    apply NoDup_remove_1 in Hn. exact Hn.
Qed.

(* ---------------- the uniform draw ---------------- *)
Local Open Scope Q_scope.

Lemma draw_range k u : (0 < k)%nat -> 0 <= u -> u < 1 -> (0 <= draw k u < Z.of_nat k)%Z.
Proof.
  intros Hk H0 H1. unfold draw. set (K := inject_Z (Z.of_nat k)).
  assert (HK : 0 < K) by (unfold K; rewrite <- (Zlt_Qlt 0); lia).
  split.
  - rewrite <- (Qfloor_Z 0). apply Qfloor_resp_le. change (inject_Z 0) with 0.
    apply Qmult_le_0_compat; [exact H0|apply Qlt_le_weak; exact HK].
  - rewrite Zlt_Qlt. eapply Qle_lt_trans; [apply Qfloor_le|].
    fold K. rewrite <- (Qmult_1_l K) at 2. apply Qmult_lt_compat_r; assumption.
Qed.

(* every neighbour position m < k is hit by some u in [0, 1) *)
Lemma draw_onto k m : (m < k)%nat -> exists u, 0 <= u /\ u < 1 /\ draw k u = Z.of_nat m.
Proof.
  intros Hm. exists (Z.of_nat m # Pos.of_nat k).
  assert (Hk : (Z.pos (Pos.of_nat k) = Z.of_nat k)%Z).
  { destruct k as [|k]; [lia|]. rewrite <- Pos.of_nat_succ. lia. }
  split; [|split].
  - unfold Qle. cbn [Qnum Qden]. lia.
  - unfold Qlt. cbn [Qnum Qden]. lia.
  - unfold draw. transitivity (Qfloor (inject_Z (Z.of_nat m))); [|apply Qfloor_Z].
    apply Qfloor_comp.
    unfold Qeq, Qmult, inject_Z. cbn [Qnum Qden]. rewrite Pos.mul_1_r, Hk. ring.
Qed.

(* the OLD expression floor(u * (k-1)) never reaches the last neighbour position k-1 *)
Lemma draw_old_never_last k u : (2 <= k)%nat -> 0 <= u -> u < 1 -> (draw_old k u < Z.of_nat k - 1)%Z.
Proof.
  intros Hk H0 H1. unfold draw_old. set (K := inject_Z (Z.of_nat k - 1)).
  assert (HK : 0 < K) by (unfold K; rewrite <- (Zlt_Qlt 0); lia).
  rewrite Zlt_Qlt. eapply Qle_lt_trans; [apply Qfloor_le|].
  fold K. rewrite <- (Qmult_1_l K) at 2. apply Qmult_lt_compat_r; assumption.
Qed.

Local Close Scope Q_scope.

(* ---------------- local strategy, one iteration ---------------- *)
(* neighbours as the library hands them to spe_embedding: one list per sample, each of length >= k *)
Definition nbrs_ok (N k : nat) (nbrs : list (list nat)) : Prop :=
  length nbrs = N /\ Forall (fun nb => k <= length nb) nbrs.

Definition us_ok (nu : nat) (us : list Q) : Prop :=
  (nu <= length us) /\ Forall (fun u => (0 <= u)%Q /\ (u < 1)%Q) us.

Definition block (nbrs : list (list nat)) (k : nat) (idx : list nat) (j : nat) : list nat :=
  firstn k (nth (nth j idx 0) nbrs []).

Lemma gather_ok N k nu nbrs idx :
  nbrs_ok N k nbrs -> nu <= length idx -> (forall x, In x idx -> x < N) ->
  gather nbrs k nu idx = Ok (concat (map (block nbrs k idx) (seq 0 nu))).
Proof.
  intros [HN Hall] Hnu Hlt. unfold gather.
  rewrite (mapM_ok_map _ (block nbrs k idx)); [reflexivity|].
  intros j Hj. apply in_seq in Hj. rewrite get_ok by lia. cbn [bind].
  assert (Hx : nth j idx 0 < N) by (apply Hlt; apply nth_In; lia).
  rewrite (nth_error_nth_lt nbrs (nth j idx 0) [] ltac:(lia)).
  set (nb := nth (nth j idx 0) nbrs []).
  assert (Hnb : k <= length nb).
  { rewrite Forall_forall in Hall. apply Hall. apply nth_In. lia. }
  rewrite (mapM_ok_map _ (fun kk => nth kk nb 0)).
  - f_equal. unfold block. fold nb.
    apply (nth_ext _ _ 0 0).
    + rewrite map_length, seq_length, firstn_length. lia.
    + intros t Ht. rewrite map_length, seq_length in Ht.
      rewrite nth_map_seq by lia. rewrite nth_firstn_lt by lia. reflexivity.
  - intros kk Hkk. apply in_seq in Hkk. apply get_ok. lia.
Qed.

Lemma block_length N k nbrs idx j :
  nbrs_ok N k nbrs -> nth j idx 0 < N -> length (block nbrs k idx j) = k.
Proof.
  intros [HN Hall] Hx. unfold block. rewrite firstn_length.
  rewrite Forall_forall in Hall. specialize (Hall (nth (nth j idx 0) nbrs [])).
  rewrite Nat.min_l; [reflexivity|]. apply Hall. apply nth_In. lia.
Qed.

(* the selection loop from position a on: writes idx[nu + a + t] for t < m, touches nothing else *)
Lemma select_loop_ok k nu g : forall m a us idx,
  0 < k ->
  m <= length us -> Forall (fun u => (0 <= u)%Q /\ (u < 1)%Q) us ->
  k * (a + m) <= length g -> nu + a + m <= length idx ->
  exists idx',
    select_loop (draw k) k nu g (seq a m) us idx = Ok idx' /\ length idx' = length idx /\
    (forall p, p < nu + a -> nth p idx' 0 = nth p idx 0) /\
    (forall t, t < m ->
       nth (nu + a + t) idx' 0 = nth (k * (a + t) + Z.to_nat (draw k (nth t us 0%Q))) g 0).
Proof.
  induction m as [|m IH]; intros a us idx Hk Hus Hu Hg Hidx.
  - exists idx. cbn [seq select_loop]. repeat split. intros t Ht. lia.
  - destruct us as [|u us]; cbn [length] in Hus; [lia|].
    inversion Hu as [|? ? [Hu0 Hu1] Hu']; subst.
    pose proof (draw_range k u Hk Hu0 Hu1) as Hd.
    cbn [seq select_loop].
    destruct ((draw k u + Z.of_nat (k * a) <? 0)%Z) eqn:En; [apply Z.ltb_lt in En; lia|].
    assert (Er : Z.to_nat (draw k u + Z.of_nat (k * a)) = k * a + Z.to_nat (draw k u)) by lia.
    rewrite Er. rewrite get_ok by nia. cbn [bind].
    destruct (set_nth_ok idx (nu + a) (nth (k * a + Z.to_nat (draw k u)) g 0) ltac:(lia))
      as [idx1 [E1 [L1 [V1 O1]]]].
    rewrite E1.
    destruct (IH (S a) us idx1 Hk ltac:(lia) Hu' ltac:(replace (S a + m) with (a + S m) by lia; exact Hg)
                 ltac:(lia)) as [idx' [E' [L' [P' T']]]].
    exists idx'. split; [exact E'|]. split; [lia|]. split.
    + intros p Hp. rewrite P' by lia. apply O1. lia.
    + intros [|t] Ht.
      * rewrite !Nat.add_0_r. cbn [nth]. rewrite P' by lia. exact V1.
      * cbn [nth]. replace (nu + a + S t) with (nu + S a + t) by lia.
        rewrite T' by lia. f_equal. f_equal. lia.
Qed.

(* closed form of the pairs of one local iteration: first member perm[j], second member the
   neighbour of perm[j] at position floor(u_j * k) *)
Definition local_pairs (nbrs : list (list nat)) (k nu : nat) (us : list Q) (perm : list nat)
  : list (nat * nat) :=
  map (fun j => (nth j perm 0,
                 nth (Z.to_nat (draw k (nth j us 0%Q))) (nth (nth j perm 0) nbrs []) 0)) (seq 0 nu).

Lemma local_iter_closed N k nu nbrs us perm :
  0 < k -> nu + nu <= N -> nbrs_ok N k nbrs -> us_ok nu us -> is_perm N perm ->
  exists idx,
    local_overwrite (draw k) nbrs k nu us perm = Ok idx /\ length idx = N /\
    firstn nu idx = firstn nu perm /\
    pairs_of nu idx = Ok (local_pairs nbrs k nu us perm).
Proof.
  intros Hk Hnu Hnb [Hul Hur] HP. pose proof (is_perm_length _ _ HP) as HL.
  unfold local_overwrite.
  rewrite (gather_ok N k nu nbrs perm Hnb ltac:(lia) (fun x Hx => is_perm_lt _ _ _ HP Hx)).
  cbn [bind].
  set (g := concat (map (block nbrs k perm) (seq 0 nu))).
  assert (Hblocks : Forall (fun b => length b = k) (map (block nbrs k perm) (seq 0 nu))).
  { apply Forall_forall. intros b Hb. apply in_map_iff in Hb. destruct Hb as [j [<- Hj]].
    apply in_seq in Hj. apply (block_length N); [exact Hnb|].
    apply (is_perm_lt _ _ _ HP). apply nth_In. lia. }
  assert (Hg : length g = k * nu).
  { unfold g. rewrite (length_concat_blocks _ k Hblocks), map_length, seq_length. reflexivity. }
  destruct (select_loop_ok k nu g nu 0 us perm Hk Hul Hur ltac:(cbn; lia) ltac:(lia))
    as [idx [E [L [P T]]]].
  exists idx. split; [exact E|]. split; [lia|]. split.
  - apply (nth_ext _ _ 0 0).
    + rewrite !firstn_length. lia.
    + intros p Hp. rewrite firstn_length in Hp.
      rewrite !nth_firstn_lt by lia. apply P. lia.
  - unfold pairs_of, local_pairs. apply mapM_ok_map. intros j Hj. apply in_seq in Hj.
    rewrite get_ok by lia. cbn [bind]. rewrite get_ok by lia. cbn [bind].
    rewrite P by lia. f_equal. f_equal.
    replace (nu + j) with (nu + 0 + j) by lia. rewrite T by lia. cbn [Nat.add].
    assert (Hu : (0 <= nth j us 0%Q)%Q /\ (nth j us 0%Q < 1)%Q).
    { rewrite Forall_forall in Hur. apply Hur. apply nth_In. lia. }
    pose proof (draw_range k _ Hk (proj1 Hu) (proj2 Hu)) as Hd.
    unfold g. rewrite (nth_concat_blocks _ k j _ 0 Hblocks);
      [|rewrite map_length, seq_length; lia|lia].
    rewrite (nth_map_seq (block nbrs k perm)) by lia.
    unfold block. apply nth_firstn_lt. lia.
Qed.

Lemma local_pairs_ok N k nu nbrs us perm :
  0 < k -> nu + nu <= N -> nbrs_ok N k nbrs -> us_ok nu us -> is_perm N perm ->
  local_iter_ok N nu k nbrs perm (local_pairs nbrs k nu us perm).
Proof.
  intros Hk Hnu [HN Hall] [Hul Hur] HP. pose proof (is_perm_length _ _ HP) as HL.
  assert (Hfst : map fst (local_pairs nbrs k nu us perm) = firstn nu perm).
  { unfold local_pairs. rewrite map_map. cbn [fst].
    apply (nth_ext _ _ 0 0).
    - rewrite map_length, seq_length, firstn_length. lia.
    - intros j Hj. rewrite map_length, seq_length in Hj.
      rewrite (nth_map_seq (fun j => nth j perm 0)) by lia. rewrite nth_firstn_lt by lia. reflexivity. }
  repeat split.
  - exact HP.
  - unfold local_pairs. rewrite map_length, seq_length. reflexivity.
  - exact Hfst.
  - rewrite Hfst. apply NoDup_firstn. apply (is_perm_NoDup _ _ HP).
  - apply Forall_forall. intros p Hp. unfold local_pairs in Hp. apply in_map_iff in Hp.
    destruct Hp as [j [<- Hj]]. apply in_seq in Hj. cbn [fst snd].
    set (nb := nth (nth j perm 0) nbrs []).
    assert (Hx : nth j perm 0 < N) by (apply (is_perm_lt _ _ _ HP); apply nth_In; lia).
    assert (Hnb : k <= length nb).
    { rewrite Forall_forall in Hall. apply Hall. apply nth_In. lia. }
    assert (Hu : (0 <= nth j us 0%Q)%Q /\ (nth j us 0%Q < 1)%Q).
    { rewrite Forall_forall in Hur. apply Hur. apply nth_In. lia. }
    pose proof (draw_range k _ Hk (proj1 Hu) (proj2 Hu)) as Hd.
    rewrite <- (nth_firstn_lt nb k) by lia. apply nth_In. rewrite firstn_length. lia.
Qed.

(* ---------------- local strategy, every iteration ---------------- *)
Definition local_out_ok (N nu k : nat) (nbrs : list (list nat)) (i : iter_in) (o : iter_out) : Prop :=
  local_iter_ok N nu k nbrs (o_perm o) (o_pairs o) /\
  o_pairs o = local_pairs nbrs k nu (it_us i) (o_perm o) /\
  length (o_idx o) = N /\ firstn nu (o_idx o) = firstn nu (o_perm o).

Lemma run_iters_local nbrs k nu N its : forall s,
  0 < k -> nu + nu <= N -> nbrs_ok N k nbrs -> is_perm N s ->
  Forall (fun i => is_perm N (it_from i) /\ us_ok nu (it_us i)) its ->
  exists outs,
    run_iters (iter_new false nbrs k nu) s its = Ok outs /\
    Forall2 (local_out_ok N nu k nbrs) its outs.
Proof.
  induction its as [|i its IH]; intros s Hk Hnu Hnb Hs Hf.
  - exists []. split; constructor.
  - inversion Hf as [|? ? [Hi Hu] Hrest]; subst.
    pose proof (is_perm_length _ _ Hs) as HL.
    destruct (apply_from_perm (it_from i) s) as [Ea Pa]; [rewrite HL; exact Hi|].
    set (s' := map (fun f => nth f s 0) (it_from i)) in *.
    assert (Hs' : is_perm N s') by (unfold is_perm in *; eapply Permutation_trans; eassumption).
    destruct (local_iter_closed N k nu nbrs (it_us i) s' Hk Hnu Hnb Hu Hs')
      as [idx [Eo [Li [Fi Ep]]]].
    destruct (IH s' Hk Hnu Hnb Hs' Hrest) as [outs [Er Hall]].
    exists ({| o_perm := s'; o_idx := idx; o_pairs := local_pairs nbrs k nu (it_us i) s' |} :: outs).
    split.
    + cbn [run_iters]. unfold iter_new at 1. rewrite Ea. cbn [bind]. rewrite Eo. cbn [bind].
      rewrite Ep. cbn [bind fst snd]. rewrite Er. reflexivity.
    + constructor; [|exact Hall]. unfold local_out_ok. cbn [o_perm o_idx o_pairs].
      split; [|split; [reflexivity|split; assumption]].
      apply local_pairs_ok; assumption.
Qed.

(* `local_indices_spec`: CURRENT code, local strategy, every N, k >= 1, nupdates, number of iterations,
   shuffle answers and uniform draws in [0,1): no access leaves its buffer; in every iteration the
   shuffled array is a permutation, the first members of the pairs are its first nu entries, and the
   second member of pair j is exactly the neighbour of the first at position floor(u_j * k). *)
Theorem local_indices_spec_proof nbrs nupd N its :
  let k := length (nth 0 nbrs []) in
  let nu := Nat.min nupd (N / 2) in
  0 < N -> 0 < k -> nbrs_ok N k nbrs ->
  Forall (fun i => is_perm N (it_from i) /\ us_ok nu (it_us i)) its ->
  exists outs,
    spe_indices false false nbrs nupd N its = Ok outs /\
    Forall2 (local_out_ok N nu k nbrs) its outs.
Proof.
  intros k nu HN Hk Hnb Hf. unfold spe_indices.
  destruct nbrs as [|nb0 nbrs'].
  - destruct Hnb as [Hl _]. cbn [length] in Hl. lia.
  - cbn [bind]. rewrite clamp_loop_min. cbn [nth] in k. fold k. fold nu.
    apply run_iters_local; try assumption.
    + apply clamp_two_halves.
    + unfold is_perm. apply Permutation_refl.
Qed.

(* every (point, neighbour position) combination is realisable as an updated pair: for the j-th selected point
   and every neighbour position m < k some admissible stream of draws makes pair j = (perm[j], nbrs[perm[j]][m]) *)
Lemma local_any_neighbour_pair nbrs k nu perm j m :
  j < nu -> m < k ->
  exists us, us_ok nu us /\
             nth j (local_pairs nbrs k nu us perm) (0, 0) =
             (nth j perm 0, nth m (nth (nth j perm 0) nbrs []) 0).
Proof.
  intros Hj Hm. destruct (draw_onto k m Hm) as [u [H0 [H1 Hd]]].
  exists (repeat u nu). split.
  - split; [rewrite repeat_length; lia|]. apply Forall_forall. intros x Hx.
    apply repeat_spec in Hx. subst x. split; assumption.
  - unfold local_pairs. rewrite nth_map_seq by exact Hj.
    assert (E : nth j (repeat u nu) 0%Q = u).
    { apply (repeat_spec nu u). apply nth_In. rewrite repeat_length. exact Hj. }
    rewrite E, Hd, Nat2Z.id. reflexivity.
Qed.
