(* Par_Weight_Model.v — property C15: the loop body of the weight-matrix regions (tangent_, linear_,
   hessian_weight_matrix) as a program of Par_Model.  NO proofs here. *)
From Coq Require Import ZArith List String.
Import ListNotations.
From TK Require Import Par_Model Par_Region_Model Par_Fill_Model.

(* the weight-matrix regions (KLLE, KLTSA, HLLE): an iteration initialises and uses its private scratch
   (columns cs), then appends its block of triplets T i inside the critical section *)
Definition weight_body (cs : list Z) (T : nat -> list triplet) (i : nat) : prog key Z (list triplet) :=
  wr_cols Z (list triplet) 0%Z cs (rd_cols Z (list triplet) cs (Crit (T i) Ret)).

Definition crit_accs (var : string) : list access := [ mkAcc var true true AAppend XAny XAny ].

