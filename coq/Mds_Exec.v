(* ====================================================================== *)
(*  Mds_Exec.v — the closed (Qc) instances of the C05 model and spec       *)
(*  functions that are EXTRACTED and run by checks/c05.py.  Definitions    *)
(*  only (no proofs); Properties_C05.v states what each of them computes.  *)
(* ====================================================================== *)
Require Import Arith List Bool ZArith QArith Qcanon.
From TK Require Import Mat_Sums Mat_Core Mat_Qc Mat_EigSelect EigSelect Mds_Model Mds_Spec.
Import ListNotations.

Definition c05_d2 (n : nat) (L : list (list Qc)) : list (list Qc) :=
  mtab n n (dist_sq_matrix (mof L)).
Definition c05_mds (n : nat) (L : list (list Qc)) : list (list Qc) := mds_matrix_exec n L.
Definition c05_kpca (n : nat) (L : list (list Qc)) : list (list Qc) := kpca_matrix_exec n L.
Definition c05_center (n : nat) (L : list (list Qc)) : list (list Qc) := center_exec n L.
Definition c05_isomap (n : nat) (L : list (list Qc)) : list (list Qc) := isomap_matrix_exec n L.
(* what each front-end sees of a (possibly asymmetric) matrix: triangle probes *)
Definition c05_seen_dense (n : nat) (L : list (list Qc)) : list (list Qc) :=
  mtab n n (seen_dense (mof L)).
Definition c05_seen_randomized (n : nat) (L : list (list Qc)) : list (list Qc) :=
  mtab n n (seen_randomized (mof L)).

(* site k of the generated table *)
Definition c05_site (k : nat) : option branch := nth_error eig_table k.
Definition c05_embed (k N d skip : nat) (V : list (list Qc)) (lam sall : list Qc)
  : option (list (list Qc)) :=
  match c05_site k with
  | Some b => embed_exec b N d skip V lam sall
  | None => None
  end.
Definition c05_vals (k N d skip : nat) (lam : list Qc) : option (list Qc) :=
  match c05_site k with
  | Some b => embed_vals_exec b N d skip lam
  | None => None
  end.
(* (offset, count) of the column view and of the value view of site k, None = out of range *)
Definition c05_views (k N d skip : nat) : option (option view * option view) :=
  match c05_site k with
  | Some b => let n := base_eval N d skip (b_base b) in
              Some (eval_ops d skip n (b_cols b), eval_ops d skip n (b_vals b))
  | None => None
  end.

(* the mathematical objects the matrices are compared with (symmetric input tables) *)
Definition c05_spec_mds (n : nat) (L : list (list Qc)) : list (list Qc) := spec_mds_exec n L.
Definition c05_spec_kpca (n : nat) (L : list (list Qc)) : list (list Qc) := spec_kpca_exec n L.

(* spec decision procedures *)
Definition c05_factor (n d : nat) (tol : Qc) (B Y : list (list Qc)) (lam : list Qc) : option bool :=
  factor_spec_tol_b n d tol B Y lam.
Definition c05_dist (n d : nat) (tol : Qc) (Y D2 : list (list Qc)) : option bool :=
  dist_reproduced_tol_b n d tol Y D2.
(* full oracle contract (orthonormal N x N, B V = V diag lam, ascending) up to tol *)
Definition ascending_b (n : nat) (lam : vec Qc) : bool :=
  forallb (fun a => qleb (lam a) (lam (S a))) (seq 0 (pred n)).
Definition c05_contract (n : nat) (tol : Qc) (B V : list (list Qc)) (lam : list Qc) : option bool :=
  if wf_matb n n B && wf_matb n n V && Nat.eqb (length lam) n then
    let Bm := mof B in let Vm := mof V in let l := vof lam in
    let BV := mtab n n (mmul n Bm Vm) in
    Some (within_b n n tol (mmul n (mtrans Vm) Vm) mI &&
          within_b n n tol (mof BV) (mmul n Vm (mdiag l)) &&
          ascending_b n l)
  else None.
