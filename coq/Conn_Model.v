(* Conn_Model.v — executable model of
     tapkee_internal::is_connected      (include/tapkee/neighbors/connected.hpp)
     tapkee_internal::find_neighbors    (include/tapkee/neighbors/neighbors.hpp,
                                         the check_connectivity / doubling recursion)
   both as shipped and as repaired by fixes/F03_strong_connectivity.patch.
   No proofs in this file.

   Indices are `nat` (IndexType is `int`; negative entries are outside the model, the
   harness never produces them).  `Neighbors` = std::vector<std::vector<IndexType>> is
   `list (list nat)`.  N = end - begin is a separate argument exactly as in the C++
   (the code never looks at neighbors.size()).

   Every operator[] of the C++ is an `nth_error`; a failed access gives `COOB site idx
   size` (the run would be undefined behaviour / a _GLIBCXX_ASSERTIONS abort), never a
   default value.  The while loop takes explicit fuel and gives `CFuel` when it runs out.

   The neighbour search itself (brute force / VP-tree / cover tree) is NOT modelled here
   (property C02): find_neighbors is a function of an abstract `knn : nat -> graph`. *)
From Coq Require Import List Arith Bool.
Import ListNotations.

Definition graph := list (list nat).

Inductive cres (A : Type) : Type :=
| COk (a : A)
| COOB (site : nat) (idx : nat) (size : nat)
| CFuel.
Arguments COk {A} a.
Arguments COOB {A} site idx size.
Arguments CFuel {A}.

(* access sites *)
Definition site_rows : nat := 0.     (* neighbors[current], neighbors[0], neighbors[i] *)
Definition site_row : nat := 1.      (* current_neighbors[j] *)
Definition site_visited : nat := 2.  (* visited[current], visited[neighbor] *)
Definition site_reversed : nat := 3. (* reversed[neighbor] (repaired code only) *)

Fixpoint set_nth {A : Type} (l : list A) (n : nat) (x : A) : list A :=
  match l, n with
  | [], _ => []
  | _ :: t, 0 => x :: t
  | h :: t, S n' => h :: set_nth t n' x
  end.

(* ------------------------------------------------------------------------------------
   The inner loop
       for (j = 0; j < k; ++j) { int neighbor = current_neighbors[j];
                                 if (!visited[neighbor]) stack.push(neighbor); }
   over the entries `cands` it reads, in the order it reads them.  The head of the
   model stack is the top of the std::stack. *)
Fixpoint push_unvisited (visited : list bool) (cands : list nat) (stack : list nat)
  : cres (list nat) :=
  match cands with
  | [] => COk stack
  | c :: cs =>
    match nth_error visited c with
    | None => COOB site_visited c (length visited)
    | Some true => push_unvisited visited cs stack
    | Some false => push_unvisited visited cs (c :: stack)
    end
  end.

(* Which entries of a row the inner loop reads.
   Shipped code: j = 0 .. k-1 with k = neighbors[0].size(), whatever the row's own size:
   a shorter row is read out of range at j = its size, a longer row is truncated.
   Repaired code: the row's own size. *)
Definition sel_first_k (k : nat) (row : list nat) : cres (list nat) :=
  if length row <? k then COOB site_row (length row) (length row)
  else COk (firstn k row).
Definition sel_all (row : list nat) : cres (list nat) := COk row.

(* ------------------------------------------------------------------------------------
   The while loop of the depth-first search.  One unit of fuel per iteration
   (= per stack.pop(), plus the final emptiness test). *)
Fixpoint dfs_loop (sel : list nat -> cres (list nat)) (N : nat) (adj : graph)
         (fuel : nat) (stack : list nat) (visited : list bool) (nvisited : nat)
  : cres bool :=
  match fuel with
  | 0 => CFuel
  | S fuel' =>
    match stack with
    | [] => COk (nvisited =? N)                               (* return nvisited == N *)
    | current :: stack' =>                                    (* top(); pop() *)
      match nth_error visited current with
      | None => COOB site_visited current (length visited)
      | Some true => dfs_loop sel N adj fuel' stack' visited nvisited   (* continue *)
      | Some false =>
        let visited' := set_nth visited current true in
        let nvisited' := S nvisited in
        if nvisited' =? N then COk (nvisited' =? N)           (* break; return *)
        else
          match nth_error adj current with
          | None => COOB site_rows current (length adj)
          | Some row =>
            match sel row with
            | COk cands =>
              match push_unvisited visited' cands stack' with
              | COk stack'' => dfs_loop sel N adj fuel' stack'' visited' nvisited'
              | COOB s i z => COOB s i z
              | CFuel => CFuel
              end
            | COOB s i z => COOB s i z
            | CFuel => CFuel
            end
          end
      end
    end
  end.

Definition total_len (g : graph) : nat := fold_right (fun r a => length r + a) 0 g.

(* ------------------------------------------------------------------------------------
   is_connected as shipped: k from row 0, one search from sample 0 along out-edges.
   Fuel N*(k+1)+1: at most 1 + N*k pushes, one more iteration to see the empty stack. *)
Definition is_connected (N : nat) (nb : graph) : cres bool :=
  match nth_error nb 0 with
  | None => COOB site_rows 0 (length nb)
  | Some row0 =>
    let k := length row0 in
    dfs_loop (sel_first_k k) N nb (N * (k + 1) + 1) [0] (repeat false N) 0
  end.

(* ------------------------------------------------------------------------------------
   Repaired code (fixes/F03_strong_connectivity.patch):

     static bool all_reachable_from_first(int N, const Neighbors& adjacency)   // the same DFS,
                                                                  // each row read to its own size
     is_connected:  if (!all_reachable_from_first(N, neighbors)) return false;
                    Neighbors reversed(N);
                    for (i = 0; i < N; ++i) for (neighbor : neighbors[i]) reversed[neighbor].push_back(i);
                    return all_reachable_from_first(N, reversed);                                   *)
Definition all_reachable_from_first (N : nat) (adj : graph) : cres bool :=
  dfs_loop sel_all N adj (total_len adj + 2) [0] (repeat false N) 0.

Fixpoint add_rev_edges (i : nat) (row : list nat) (rev : graph) : cres graph :=
  match row with
  | [] => COk rev
  | j :: t =>
    match nth_error rev j with
    | None => COOB site_reversed j (length rev)
    | Some r => add_rev_edges i t (set_nth rev j (r ++ [i]))       (* push_back(i) *)
    end
  end.

Fixpoint rev_loop (nb : graph) (cnt i : nat) (rev : graph) : cres graph :=
  match cnt with
  | 0 => COk rev
  | S cnt' =>
    match nth_error nb i with
    | None => COOB site_rows i (length nb)
    | Some row =>
      match add_rev_edges i row rev with
      | COk rev' => rev_loop nb cnt' (S i) rev'
      | COOB s a z => COOB s a z
      | CFuel => CFuel
      end
    end
  end.

Definition reverse_lists (N : nat) (nb : graph) : cres graph :=
  rev_loop nb N 0 (repeat [] N).

Definition is_connected_fixed (N : nat) (nb : graph) : cres bool :=
  match all_reachable_from_first N nb with
  | COk true =>
    match reverse_lists N nb with
    | COk rev => all_reachable_from_first N rev
    | COOB s i z => COOB s i z
    | CFuel => CFuel
    end
  | r => r
  end.

(* ------------------------------------------------------------------------------------
   The stack-depth obligation.  The search of connected.hpp is ITERATIVE: one while loop
   around an explicit std::stack<int> that lives on the heap; no function of connected.hpp
   calls itself, so the call stack has constant depth whatever N is.  The model mirrors
   that: dfs_loop only ever calls itself in tail position (every recursive call is the
   whole result of its branch) and threads the explicit stack as an argument.

   dfs_loop_hw is dfs_loop with one more accumulator and nothing else changed: `hw` is the
   high-water mark of the explicit stack, sampled at the head of every iteration (every
   push is followed by another loop head, so no stack length escapes the sampling).
   Conn_Proof_Stack.v proves  fst (dfs_loop_hw ...) = dfs_loop ...  (erasure) and
   hw <= total_len adj + 1  (= N*k + 1 <= N*(k+1)+1 for N lists of k entries): the memory
   the search needs beyond `visited` is that many ints of HEAP, never call-stack frames.
   A rewrite of the C++ search as plain recursion (call depth = DFS depth, up to N) leaves
   every decision unchanged and breaks exactly this obligation; it is observed by the
   check on path/cycle graphs with 10^6 samples under an 8 MiB stack limit and by a scan
   of connected.hpp for functions that call themselves (checks/c03.py). *)
Fixpoint dfs_loop_hw (sel : list nat -> cres (list nat)) (N : nat) (adj : graph)
         (fuel : nat) (stack : list nat) (visited : list bool) (nvisited : nat) (hw : nat)
  : cres bool * nat :=
  match fuel with
  | 0 => (CFuel, hw)
  | S fuel' =>
    let hw1 := Nat.max hw (length stack) in
    match stack with
    | [] => (COk (nvisited =? N), hw1)
    | current :: stack' =>
      match nth_error visited current with
      | None => (COOB site_visited current (length visited), hw1)
      | Some true => dfs_loop_hw sel N adj fuel' stack' visited nvisited hw1
      | Some false =>
        let visited' := set_nth visited current true in
        let nvisited' := S nvisited in
        if nvisited' =? N then (COk (nvisited' =? N), hw1)
        else
          match nth_error adj current with
          | None => (COOB site_rows current (length adj), hw1)
          | Some row =>
            match sel row with
            | COk cands =>
              match push_unvisited visited' cands stack' with
              | COk stack'' => dfs_loop_hw sel N adj fuel' stack'' visited' nvisited' hw1
              | COOB s i z => (COOB s i z, hw1)
              | CFuel => (CFuel, hw1)
              end
            | COOB s i z => (COOB s i z, hw1)
            | CFuel => (CFuel, hw1)
            end
          end
      end
    end
  end.

Definition all_reachable_from_first_hw (N : nat) (adj : graph) : cres bool * nat :=
  dfs_loop_hw sel_all N adj (total_len adj + 2) [0] (repeat false N) 0 0.

(* both searches of is_connected; the second component is the larger of the two high-water marks *)
Definition is_connected_fixed_hw (N : nat) (nb : graph) : cres bool * nat :=
  match all_reachable_from_first_hw N nb with
  | (COk true, h1) =>
    match reverse_lists N nb with
    | COk rev => let (r, h2) := all_reachable_from_first_hw N rev in (r, Nat.max h1 h2)
    | COOB s i z => (COOB s i z, h1)
    | CFuel => (CFuel, h1)
    end
  | (r, h1) => (r, h1)
  end.

(* ------------------------------------------------------------------------------------
   find_neighbors(method, begin, end, callback, k, check_connectivity):
     if (k > N-1) k = N-1;  neighbors = <search>(k);
     if (check_connectivity && !is_connected(neighbors)) return find_neighbors(..., 2*k, ...);
     return neighbors;
   `check` is the connectivity test (shipped or repaired), `knn k` the result of the
   neighbour search with k neighbours.  Returns the k finally used and the lists.
   N - 1 is truncated subtraction: the model is only meaningful for N >= 1 (the library
   throws no_data_error before getting here when N = 0). *)
Fixpoint find_neighbors (check : nat -> graph -> cres bool) (knn : nat -> graph)
         (N : nat) (fuel : nat) (k : nat) (check_connectivity : bool)
  : cres (nat * graph) :=
  match fuel with
  | 0 => CFuel
  | S fuel' =>
    let k1 := if N - 1 <? k then N - 1 else k in
    let nbs := knn k1 in
    if check_connectivity then
      match check N nbs with
      | COk true => COk (k1, nbs)
      | COk false => find_neighbors check knn N fuel' (2 * k1) check_connectivity
      | COOB s i z => COOB s i z
      | CFuel => CFuel
      end
    else COk (k1, nbs)
  end.
