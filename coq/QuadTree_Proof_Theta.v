(* QuadTree_Proof_Theta.v — what holds for EVERY theta >= 0, in particular on (1/sqrt 8, 2] where no small numeric
   error bound is proved (and none of the form eps(theta) < 1 can be: see forces_large_theta_relative_error).

   (1) summary_ok is monotone in theta: a cell accepted as a summary at theta1 is accepted at every theta2 >= theta1.
   (2) Refinement: the traversal at the smaller theta IS the traversal at the larger theta followed by a further
       descent inside each cell the larger theta summarised:
         forces_subtrees theta1 t = flat_map (forces_subtrees theta1) (forces_subtrees theta2 t)
       so the set of summarised cells only moves towards the root as theta grows, and the two results differ only
       inside the cells summarised at theta2 (forces_at_refines).
   (3) theta = 1/2 (the t-SNE default; 8 theta^2 = 2 > 1): a witness without coincident points in which the root
       cell, which contains the query point itself, is summarised; the tree's sum_Q is less than 1/100 of the exact
       all-pairs sum.  The inequality chain of forces_error_bound needs 8 theta^2 <= 1 exactly because for
       2 sqrt 2 theta >= 1 a summarised box can contain the query point (distance to a member no longer bounded
       below by (1 - 2 sqrt 2 theta) dist(p, com)). *)
From Coq Require Import List Arith Bool ZArith QArith Lia Lqa.
From TK Require Import QuadTree_Model QuadTree_Spec QuadTree_SpecExec QuadTree_SpecExec2 QuadTree_Proof_Base QuadTree_Proof_Bound
                       QuadTree_Proof_Final.
Import ListNotations.
Local Open Scope Q_scope.

Lemma summary_ok_monotone : forall c theta1 theta2 D,
  0 <= theta1 -> theta1 <= theta2 ->
  summary_ok c theta1 D = true -> summary_ok c theta2 D = true.
Proof.
  intros c th1 th2 D H0 H12 H. apply summary_ok_true in H. destruct H as [H1 H2].
  unfold summary_ok. apply andb_true_iff. split; apply Qltb_true; [|exact H2].
  assert (th1 * th1 <= th2 * th2) by nra.
  assert (th1 * th1 * D <= th2 * th2 * D) by nra.
  lra.
Qed.

(* it is the list forces_cells prints, without the preorder numbers *)
Lemma forces_subtrees_cells : forall p i theta t n,
  map (fun s => (qcum s, qcom s)) (forces_subtrees p i theta t) =
  map (fun x => (snd (fst x), snd x)) (forces_cells p i theta n t).
Proof.
  intros p i theta t.
  induction t as [c st cum com | c cum com nw IH1 ne IH2 sw IH3 se IH4]; intros n.
  - cbn [forces_subtrees forces_cells]. destruct (cum =? 0)%nat; [reflexivity|].
    destruct (self_leaf st i); reflexivity.
  - cbn [forces_subtrees forces_cells]. destruct (cum =? 0)%nat; [reflexivity|].
    destruct (summary_ok c theta (sqdist p com)); [reflexivity|].
    rewrite !map_app.
    rewrite (IH1 (S n)), (IH2 (S n + ncells nw)%nat), (IH3 (S n + ncells nw + ncells ne)%nat),
            (IH4 (S n + ncells nw + ncells ne + ncells sw)%nat).
    reflexivity.
Qed.

Lemma forces_at_subtrees : forall p i theta t a,
  forces_at p i theta t a =
  fold_left (fun a s => add_summary p (qcum s) (qcom s) a) (forces_subtrees p i theta t) a.
Proof.
  intros p i theta t.
  induction t as [c st cum com | c cum com nw IH1 ne IH2 sw IH3 se IH4]; intros a.
  - cbn [forces_at forces_subtrees]. destruct (cum =? 0)%nat; [reflexivity|].
    unfold self_leaf. destruct st as [[j cnt]|].
    + destruct (j =? i)%nat; reflexivity.
    + reflexivity.
  - cbn [forces_at forces_subtrees]. destruct (cum =? 0)%nat; [reflexivity|].
    destruct (summary_ok c theta (sqdist p com)); [reflexivity|].
    rewrite !fold_left_app. rewrite <- IH1, <- IH2, <- IH3, <- IH4. reflexivity.
Qed.

(* (2) refinement in theta *)
Theorem forces_subtrees_refine : forall p i theta1 theta2 t,
  0 <= theta1 -> theta1 <= theta2 ->
  forces_subtrees p i theta1 t = flat_map (forces_subtrees p i theta1) (forces_subtrees p i theta2 t).
Proof.
  intros p i th1 th2 t H0 H12.
  induction t as [c st cum com | c cum com nw IH1 ne IH2 sw IH3 se IH4].
  - cbn [forces_subtrees]. destruct (cum =? 0)%nat eqn:Ec; [reflexivity|].
    destruct (self_leaf st i) eqn:Es; [reflexivity|].
    cbn [flat_map forces_subtrees]. rewrite Ec, Es. reflexivity.
  - cbn [forces_subtrees]. destruct (cum =? 0)%nat eqn:Ec; [reflexivity|].
    destruct (summary_ok c th2 (sqdist p com)) eqn:E2.
    + cbn [flat_map]. rewrite app_nil_r. cbn [forces_subtrees]. rewrite Ec. reflexivity.
    + destruct (summary_ok c th1 (sqdist p com)) eqn:E1.
      * apply (summary_ok_monotone c th1 th2 _ H0 H12) in E1. congruence.
      * rewrite !flat_map_app. rewrite <- IH1, <- IH2, <- IH3, <- IH4. reflexivity.
Qed.

(* every cell summarised at the smaller theta lies inside (is a subtree of) a cell summarised at the larger one *)
Fixpoint subtree (s t : qt) : Prop :=
  s = t \/ match t with
           | Leaf _ _ _ _ => False
           | Node _ _ _ nw ne sw se => subtree s nw \/ subtree s ne \/ subtree s sw \/ subtree s se
           end.

Lemma subtree_refl : forall t, subtree t t.
Proof. destruct t; left; reflexivity. Qed.

Lemma forces_subtrees_sub : forall p i theta t s, In s (forces_subtrees p i theta t) -> subtree s t.
Proof.
  intros p i theta t.
  induction t as [c st cum com | c cum com nw IH1 ne IH2 sw IH3 se IH4]; intros s H.
  - cbn [forces_subtrees] in H. destruct (cum =? 0)%nat; [contradiction|].
    destruct (self_leaf st i); [contradiction|]. destruct H as [H|[]]. subst s. apply subtree_refl.
  - cbn [forces_subtrees] in H. destruct (cum =? 0)%nat; [contradiction|].
    destruct (summary_ok c theta (sqdist p com)).
    + destruct H as [H|[]]. subst s. apply subtree_refl.
    + right. rewrite !in_app_iff in H. destruct H as [H|[H|[H|H]]]; auto.
Qed.

Theorem summarised_cells_monotone : forall p i theta1 theta2 t s,
  0 <= theta1 -> theta1 <= theta2 ->
  In s (forces_subtrees p i theta1 t) ->
  exists s2, In s2 (forces_subtrees p i theta2 t) /\ subtree s s2.
Proof.
  intros p i th1 th2 t s H0 H12 H.
  rewrite (forces_subtrees_refine p i th1 th2 t H0 H12) in H.
  apply in_flat_map in H. destruct H as [s2 [H2 Hs]].
  exists s2. split; [exact H2|]. eapply forces_subtrees_sub; exact Hs.
Qed.

(* the result at theta1 is the result at theta2 with each summarised cell replaced by its own traversal at theta1 *)
Theorem forces_at_refines : forall p i theta1 theta2 t a,
  0 <= theta1 -> theta1 <= theta2 ->
  forces_at p i theta1 t a =
  fold_left (fun a s => forces_at p i theta1 s a) (forces_subtrees p i theta2 t) a.
Proof.
  intros p i th1 th2 t a H0 H12.
  rewrite forces_at_subtrees. rewrite (forces_subtrees_refine p i th1 th2 t H0 H12).
  generalize (forces_subtrees p i th2 t). intros l. revert a.
  induction l as [|s l IH]; intros a; [reflexivity|].
  cbn [flat_map fold_left]. rewrite fold_left_app. rewrite <- forces_at_subtrees. apply IH.
Qed.

(* in particular theta2 = anything and theta1 = 0: the Barnes-Hut result differs from the exact (theta = 0) traversal
   only inside the summarised cells *)
Corollary forces_at_exact_inside_summaries : forall p i theta t a,
  0 <= theta ->
  forces_at p i 0 t a = fold_left (fun a s => forces_at p i 0 s a) (forces_subtrees p i theta t) a.
Proof. intros. apply forces_at_refines; [lra|assumption]. Qed.

(* ---------- (3) theta = 1/2: a summarised cell that contains the query point ---------- *)

(* query 0 in the corner (-64,-64) of the root box [-64,64]^2, a neighbour at distance 1/8, five points near the
   opposite corner: the centre of mass of all seven lies beyond twice the half-size from the query, so at theta = 1/2
   the ROOT passes max(hw,hh)/dist < theta and the whole map - the query included - is one summary *)
Definition th_data : list pt :=
  [(-(64#1), -(64#1)); (-(511#8), -(64#1)); (64#1, 64#1); (64#1, 63#1); (63#1, 64#1); (63#1, 63#1); (64#1, 62#1)].
Definition th_order : list nat := [0; 1; 2; 3; 4; 5; 6]%nat.
Definition th_root : cell := mkCell 0 0 (64#1) (64#1).

Lemma th_in_root : in_root th_data th_root th_order.
Proof.
  intros i [<-|[<-|[<-|[<-|[<-|[<-|[<-|[]]]]]]]]; eexists; (split; [reflexivity | vm_compute; reflexivity]).
Qed.

Lemma th_noco : NoCo th_data th_order.
Proof.
  split.
  - repeat constructor; cbn; intuition lia.
  - intros a b Ha Hb C. cbn in Ha, Hb.
    destruct Ha as [<-|[<-|[<-|[<-|[<-|[<-|[<-|[]]]]]]]]; destruct Hb as [<-|[<-|[<-|[<-|[<-|[<-|[<-|[]]]]]]]];
      try reflexivity; exfalso; revert C; apply coinc_dec_false; vm_compute; reflexivity.
Qed.

Definition th_tree : qt :=
  Eval vm_compute in
    match fill_order true 20 th_data th_order (init th_root) with Done _ t => t | _ => init th_root end.
Definition th_result : facc :=
  Eval vm_compute in
    match forces th_data 0 (1#2) th_tree (0, 0, 0) with FDone r => r | _ => (0, 0, 0) end.

Theorem forces_large_theta_relative_error :
  exists data order root t p r,
    in_root data root order /\ NoCo data order /\
    fill_order true 20 data order (init root) = Done true t /\
    nth_error data 0 = Some p /\
    1 < 8 * ((1#2) * (1#2)) /\
    contains (qcell t) p = true /\ forces_subtrees p 0 (1#2) t = [t] /\
    forces data 0 (1#2) t (0, 0, 0) = FDone r /\
    1000 * snd r < snd (exact_sums data p 0 order).
Proof.
  exists th_data, th_order, th_root, th_tree, (-(64#1), -(64#1)), th_result.
  split; [exact th_in_root|]. split; [exact th_noco|].
  split; [vm_compute; reflexivity|]. split; [reflexivity|]. split; [reflexivity|].
  split; [vm_compute; reflexivity|]. split; [vm_compute; reflexivity|].
  split; [vm_compute; reflexivity|]. vm_compute. reflexivity.
Qed.
