(* CoverTree_Model.v — executable model of the cover-tree batch k-NN query of
   include/tapkee/neighbors/covertree.hpp (CoverTreeWrapper::k_nearest_neighbor,
   batch_nearest_neighbor, internal_batch_nearest_neighbor, descend, brute_nearest,
   copy_zero_set, copy_cover_sets, shell, update, setter).  No proofs in this file.

   Tree.     `CN p maxd pard scale children` is a `node<P>`: p = the sample index of node.p,
             maxd = max_dist, pard = parent_dist, children in vector order.  A leaf has no
             children (num_children == 0).  The tree the query runs on is the REAL tree, dumped
             by the harness; its invariants are decided by ct_inv_b below and checked on every
             dumped tree.  (batch_create / batch_insert are modelled in CoverTree_Build_Model.v and
             proved to establish ct_inv_b in CoverTree_Build_Proof.v.)
   Numbers.  Distances are integers (Knn_Spec.v).  std::numeric_limits<double>::max() in the
             upper-bound vector is `None` (+infinity): the harness inputs are far below DBL_MAX,
             so DBL_MAX + x == DBL_MAX, x <= DBL_MAX and x < DBL_MAX hold for every distance x.
   distance  covertree_point.hpp distance(): 0 when both points are the same sample, else the
             callback: `dd`.
   upper_bound  the k-vector kept in DEcreasing order by update(): [0] is the k-th best.
   cover_sets   the C++ has 101 slots (physically 189, v_array growth) indexed by node scale; the
             model keeps ONE list of (slot, distance, node) in push order, so `cover_sets[s]` is
             the sub-list with slot s in the same order.  Pushing into a slot that is not greater
             than the current scale (possible only on a tree violating ct_inv) loses the node
             exactly as in the C++: the slot is never visited again (and `resize(.., 0)` after
             descend drops what was pushed into the current slot).
   halfsort  is called on a by-value copy of the v_array whose elements live in a std::vector:
             it sorts the copy; no effect (not modelled).
   spare_*   recycled arrays: new_zero_set is resized to 0 by copy_zero_set; new_cover_sets comes
             back from a finished recursive call with every visited slot resized to 0, and stale
             entries can only sit in slots below the current scale, which are never read: the
             model starts each copy from the empty list.
   control   internal_batch_nearest_neighbor has data-dependent recursion: explicit fuel, None =
             out of fuel.  brute_nearest recurses on the query tree (nested fixpoint).
   audit     every function also returns a boolean that is the conjunction of `au q ub` over all
             places where upper_bound[0] is READ to prune; it does not influence the results.
             With au = valid_b it records whether the bound was, at each of those moments, at
             least the distance to the k-th nearest sample (see CoverTree_Proof.v).
   variants  `oc = true` is the code before fix F46 (copy_zero_set / copy_cover_sets prune with ONE
             query_chi->max_dist), kept for the regression theorem; `oc = false` is the repaired code. *)
From Coq Require Import List ZArith Bool.
From TK Require Import Knn_Spec.
Import ListNotations.
Local Open Scope Z_scope.

Inductive ctree : Type := CN (p : Z) (maxd pard : Z) (scale : nat) (ch : list ctree).

Definition c_p (t : ctree) : Z := match t with CN p _ _ _ _ => p end.
Definition c_maxd (t : ctree) : Z := match t with CN _ m _ _ _ => m end.
Definition c_pard (t : ctree) : Z := match t with CN _ _ pd _ _ => pd end.
Definition c_scale (t : ctree) : nat := match t with CN _ _ _ s _ => s end.
Definition c_ch (t : ctree) : list ctree := match t with CN _ _ _ _ ch => ch end.
Definition is_leaf (t : ctree) : bool := match c_ch t with [] => true | _ => false end.

(* the samples stored below a node (its leaves, left to right) *)
Fixpoint leaf_points (t : ctree) : list Z :=
  match t with
  | CN p _ _ _ [] => [p]
  | CN _ _ _ _ ch => flat_map leaf_points ch
  end.

Definition dd (d : dist) (a b : Z) : Z := if a =? b then 0 else d a b.

(* ---------- extended numbers ---------- *)
Definition ext := option Z.                       (* None = DBL_MAX *)
Definition eadd (e : ext) (z : Z) : ext := match e with None => None | Some v => Some (v + z) end.
Definition le_e (z : Z) (e : ext) : bool := match e with None => true | Some v => z <=? v end.
Definition lt_e (z : Z) (e : ext) : bool := match e with None => true | Some v => z <? v end.
Definition ub0 (ub : list ext) : ext := hd None ub.               (* upper_bound[0] *)

(* update(k_upper_bound, d) *)
Fixpoint ub_update (l : list ext) (d : Z) : list ext :=
  match l with
  | [] => []
  | x :: r => match r with
              | [] => [Some d]
              | y :: _ => if lt_e d y then y :: ub_update r d else Some d :: r
              end
  end.

Definition setter (K : nat) (v : ext) : list ext := repeat v K.

(* shell(parent_query_dist, child_parent_dist, upper_bound) *)
Definition shell (pqd cpd : Z) (ub : ext) : bool := le_e (pqd - cpd) ub.

(* the query-side slack of the copy tests: `query_chi->max_dist + query_chi->max_dist` (F46), formerly one *)
Definition qmd (oc : bool) (qc : ctree) : Z := if oc then c_maxd qc else c_maxd qc + c_maxd qc.

Definition dnode := (Z * ctree)%type.                 (* d_node: dist, node *)
Definition centry := (nat * dnode)%type.              (* slot, d_node *)

Definition slot_of (e : centry) : nat := fst e.
Definition in_slot (s : nat) (e : centry) : bool := Nat.eqb (slot_of e) s.

Section Query.
Variable oc : bool.                                   (* true = the copy radius as shipped before fix F46 (ONE query
                                                         max_dist in copy_zero_set / copy_cover_sets); false = the
                                                         repaired code: two, as in descend *)
Variable d : dist.
Variable K : nat.                                     (* internal_k *)
Variable au : bool -> ctree -> list ext -> bool.      (* audit of one read of upper_bound[0]:
                                                         true = in copy_*, false = in descend / final filter *)

(* ---------- copy_zero_set ---------- *)
Fixpoint copy_zero_set (qc : ctree) (ub : list ext) (zero : list dnode) (ok : bool)
  : list ext * list dnode * bool :=
  match zero with
  | [] => (ub, [], ok)
  | (edist, en) :: rest =>
      let ok1 := ok && au true qc ub in
      let upper_dist := eadd (ub0 ub) (qmd oc qc) in
      if shell edist (c_pard qc) upper_dist then
        let dq := dd d (c_p qc) (c_p en) in
        if le_e dq upper_dist then
          let ub1 := if lt_e dq (ub0 ub) then ub_update ub dq else ub in
          let '(ub2, out, ok2) := copy_zero_set qc ub1 rest ok1 in
          (ub2, (dq, en) :: out, ok2)
        else copy_zero_set qc ub rest ok1
      else copy_zero_set qc ub rest ok1
  end.

(* ---------- copy_cover_sets: slots current_scale .. max_scale in increasing order,
   inside a slot in push order ---------- *)
Fixpoint copy_slot (qc : ctree) (ub : list ext) (s : nat) (cover : list centry) (ok : bool)
  : list ext * list centry * bool :=
  match cover with
  | [] => (ub, [], ok)
  | (es, (edist, en)) :: rest =>
      if Nat.eqb es s then
        let ok1 := ok && au true qc ub in
        let upper_dist := eadd (eadd (ub0 ub) (qmd oc qc)) (c_maxd en) in
        if shell edist (c_pard qc) upper_dist then
          let dq := dd d (c_p qc) (c_p en) in
          if le_e dq upper_dist then
            let ub1 := if lt_e dq (ub0 ub) then ub_update ub dq else ub in
            let '(ub2, out, ok2) := copy_slot qc ub1 s rest ok1 in
            (ub2, (s, (dq, en)) :: out, ok2)
          else copy_slot qc ub s rest ok1
        else copy_slot qc ub s rest ok1
      else copy_slot qc ub s rest ok
  end.

(* n slots starting at slot s *)
Fixpoint copy_cover_sets (qc : ctree) (ub : list ext) (s : nat) (n : nat) (cover : list centry)
                         (ok : bool) : list ext * list centry * bool :=
  match n with
  | O => (ub, [], ok)
  | S n' =>
      let '(ub1, out1, ok1) := copy_slot qc ub s cover ok in
      let '(ub2, out2, ok2) := copy_cover_sets qc ub1 (S s) n' cover ok1 in
      (ub2, out1 ++ out2, ok2)
  end.

(* ---------- descend ---------- *)
Record dstate : Type := DS { ds_ub : list ext; ds_ms : nat; ds_cover : list centry;
                             ds_zero : list dnode; ds_ok : bool }.

(* one iteration of the loop over the children after the first one *)
Definition descend_child (q : ctree) (pdist : Z) (chi : ctree) (st : dstate) : dstate :=
  let ub := ds_ub st in
  let ok1 := ds_ok st && au false q ub in
  let upper_chi := eadd (eadd (eadd (ub0 ub) (c_maxd chi)) (c_maxd q)) (c_maxd q) in
  if shell pdist (c_pard chi) upper_chi then
    let dq := dd d (c_p q) (c_p chi) in
    if le_e dq upper_chi then
      let ub1 := if lt_e dq (ub0 ub) then ub_update ub dq else ub in
      if negb (is_leaf chi) then
        DS ub1 (Nat.max (ds_ms st) (c_scale chi))
           (ds_cover st ++ [(c_scale chi, (dq, chi))]) (ds_zero st) ok1
      else if le_e dq (eadd upper_chi (- c_maxd chi)) then
        DS ub1 (ds_ms st) (ds_cover st) (ds_zero st ++ [(dq, chi)]) ok1
      else DS ub1 (ds_ms st) (ds_cover st) (ds_zero st) ok1
    else DS ub (ds_ms st) (ds_cover st) (ds_zero st) ok1
  else DS ub (ds_ms st) (ds_cover st) (ds_zero st) ok1.

Fixpoint descend_children (q : ctree) (pdist : Z) (chs : list ctree) (st : dstate) : dstate :=
  match chs with
  | [] => st
  | chi :: rest => descend_children q pdist rest (descend_child q pdist chi st)
  end.

(* the first child: same point as the parent, no distance evaluation *)
Definition descend_first (q : ctree) (pdist : Z) (upper_dist : ext) (chi : ctree) (st : dstate) (ok1 : bool)
  : dstate :=
  let ub := ds_ub st in
  if le_e pdist (eadd upper_dist (c_maxd chi)) then
    if negb (is_leaf chi) then
      DS ub (Nat.max (ds_ms st) (c_scale chi))
         (ds_cover st ++ [(c_scale chi, (pdist, chi))]) (ds_zero st) ok1
    else if le_e pdist upper_dist then
      DS ub (ds_ms st) (ds_cover st) (ds_zero st ++ [(pdist, chi)]) ok1
    else DS ub (ds_ms st) (ds_cover st) (ds_zero st) ok1
  else DS ub (ds_ms st) (ds_cover st) (ds_zero st) ok1.

Definition descend_parent (q : ctree) (pdist : Z) (par : ctree) (st : dstate) : dstate :=
  let ub := ds_ub st in
  let ok1 := ds_ok st && au false q ub in
  let upper_dist := eadd (eadd (ub0 ub) (c_maxd q)) (c_maxd q) in
  if le_e pdist (eadd upper_dist (c_maxd par)) then
    match c_ch par with
    | [] => DS ub (ds_ms st) (ds_cover st) (ds_zero st) false
            (* C++ dereferences children.begin() of an empty vector: excluded by the cover-set
               invariant (only nodes with children are put into cover sets) *)
    | chi :: rest => descend_children q pdist rest (descend_first q pdist upper_dist chi st ok1)
    end
  else DS ub (ds_ms st) (ds_cover st) (ds_zero st) ok1.

(* the loop over cover_sets[current_scale] as it was when descend was entered *)
Fixpoint descend_loop (q : ctree) (parents : list centry) (st : dstate) : dstate :=
  match parents with
  | [] => st
  | (_, (pdist, par)) :: rest => descend_loop q rest (descend_parent q pdist par st)
  end.

Definition descend (q : ctree) (cs : nat) (st : dstate) : dstate :=
  let st1 := descend_loop q (filter (in_slot cs) (ds_cover st)) st in
  (* resize(cover_sets[current_scale], 0) *)
  DS (ds_ub st1) (ds_ms st1) (filter (fun e => negb (in_slot cs e)) (ds_cover st1)) (ds_zero st1)
     (ds_ok st1).

(* ---------- brute_nearest ---------- *)
Definition row := (Z * list Z)%type.                  (* query sample, res[i][1..] *)

Definition final_row (q : ctree) (zero : list dnode) (ub : list ext) : row :=
  (c_p q, map (fun e => c_p (snd e)) (filter (fun e => le_e (fst e) (ub0 ub)) zero)).

(* the loop over the query children after the first one; `bn` is brute_nearest itself *)
Definition bn_others (bn : ctree -> list dnode -> list ext -> bool -> list row * bool)
                     (ub : list ext) (zero : list dnode)
  : list ctree -> list row -> bool -> list row * bool :=
  fix go (l : list ctree) (acc : list row) (okk : bool) : list row * bool :=
  match l with
  | [] => (acc, okk)
  | chi :: l' =>
      let nub := setter K (eadd (ub0 ub) (c_pard chi)) in
      let '(nub1, nzero, ok1) := copy_zero_set chi nub zero okk in
      let '(rows1, ok2) := bn chi nzero nub1 ok1 in
      go l' (acc ++ rows1) ok2
  end.

Fixpoint brute_nearest (q : ctree) (zero : list dnode) (ub : list ext) (ok : bool)
  : list row * bool :=
  match q with
  | CN p _ _ _ [] => ([final_row q zero ub], ok && au false q ub)
  | CN _ _ _ _ (c0 :: rest) =>
      let '(rows0, ok0) := brute_nearest c0 zero ub ok in
      bn_others (fun c z u o => brute_nearest c z u o) ub zero rest rows0 ok0
  end.

(* ---------- internal_batch_nearest_neighbor ---------- *)
(* the loop over the query children after the first one; `rec` is the recursive call *)
Definition ib_loop (rec : ctree -> list centry -> list dnode -> nat -> nat -> list ext -> bool ->
                          option (list row * bool))
                   (ub : list ext) (cover : list centry) (zero : list dnode) (cs ms : nat)
  : list ctree -> list row -> bool -> option (list row * bool) :=
  fix go (l : list ctree) (acc : list row) (okk : bool) : option (list row * bool) :=
  match l with
  | [] => Some (acc, okk)
  | chi :: l' =>
      let nub := setter K (eadd (ub0 ub) (c_pard chi)) in
      let '(nub1, nzero, ok1) := copy_zero_set chi nub zero okk in
      let '(nub2, ncover, ok2) := copy_cover_sets chi nub1 cs (S ms - cs) cover ok1 in
      match rec chi ncover nzero cs ms nub2 ok2 with
      | None => None
      | Some (rows1, ok3) => go l' (acc ++ rows1) ok3
      end
  end.

Fixpoint internal_batch (fuel : nat) (q : ctree) (cover : list centry) (zero : list dnode)
                        (cs ms : nat) (ub : list ext) (ok : bool) : option (list row * bool) :=
  match fuel with
  | O => None
  | S f =>
      if Nat.ltb ms cs then Some (brute_nearest q zero ub ok)
      else if Nat.leb (c_scale q) cs && negb (Nat.eqb (c_scale q) 100) then
        match c_ch q with
        | [] => None     (* C++ dereferences children.begin() of a leaf: leaves have scale 100 *)
        | c0 :: rest =>
            match ib_loop (internal_batch f) ub cover zero cs ms rest [] ok with
            | None => None
            | Some (rows, ok1) =>
                match internal_batch f c0 cover zero cs ms ub ok1 with
                | None => None
                | Some (rows0, ok2) => Some (rows ++ rows0, ok2)
                end
            end
        end
      else
        let st := descend q cs (DS ub ms cover zero ok) in
        internal_batch f q (ds_cover st) (ds_zero st) (S cs) (ds_ms st) (ds_ub st) (ds_ok st)
  end.

(* batch_nearest_neighbor(top_node, query = top_node) after k_nearest_neighbor set internal_k *)
Definition ct_query (fuel : nat) (top : ctree) : option (list row * bool) :=
  let ub := ub_update (setter K None) (dd d (c_p top) (c_p top)) in
  internal_batch fuel top [(O, (dd d (c_p top) (c_p top), top))] [] 0 0 ub true.

End Query.

(* ---------- audit: is upper_bound[0] at least the distance to the K-th nearest sample? ------- *)
Definition count_within (d : dist) (pts : list Z) (q v : Z) : nat :=
  length (filter (fun y => dd d q y <=? v) pts).

(* At every read of upper_bound[0] (descend, final filter, copy_zero_set, copy_cover_sets) the audited fact is the
   same: at least K samples lie within v = upper_bound[0] of the query node's point.  (Before fix F46 the copy sites
   needed a strictly stronger fact, which is false on real trees - and so was the completeness of the rows: see
   CoverTree_Refuted.v.)  The flag `copy` only records the kind of site. *)
Definition valid_b (d : dist) (pts : list Z) (K : nat) (copy : bool) (q : ctree) (ub : list ext) : bool :=
  match ub0 ub with
  | None => true
  | Some v => Nat.leb K (count_within d pts (c_p q) v)
  end.

Definition no_audit (copy : bool) (q : ctree) (ub : list ext) : bool := true.

(* ---------- invariants of a built tree, boolean checker for dumped real trees ---------- *)
Fixpoint size (t : ctree) : nat :=
  match t with CN _ _ _ _ ch => S (fold_right (fun c a => (size c + a)%nat) O ch) end.

Fixpoint ct_inv_b (d : dist) (t : ctree) : bool :=
  match t with
  | CN p maxd pard sc ch =>
      forallb (fun x => dd d p x <=? maxd) (leaf_points t) &&
      match ch with
      | [] => true
      | c0 :: _ =>
          (c_p c0 =? p) &&
          forallb (fun c => (dd d p (c_p c) <=? c_pard c) &&
                            (is_leaf c || Nat.ltb sc (c_scale c))) ch &&
          (fix all (l : list ctree) : bool :=
             match l with [] => true | c :: l' => ct_inv_b d c && all l' end) ch
      end
  end.

(* the tree holds exactly the samples 0..N-1, each as one leaf *)
Definition ct_holds_b (N : nat) (t : ctree) : bool :=
  nodup_b (leaf_points t) && Nat.eqb (length (leaf_points t)) N &&
  forallb (fun x => (0 <=? x) && (x <? Z.of_nat N)) (leaf_points t).

(* the largest scale found in a tree *)
Fixpoint maxscale (t : ctree) : nat :=
  match t with CN _ _ _ sc ch => fold_right (fun c a => Nat.max (maxscale c) a) sc ch end.

(* every leaf carries the scale 100 (new_leaf) -- the query relies on it to stop splitting *)
Fixpoint leaf100_b (t : ctree) : bool :=
  match t with
  | CN _ _ _ sc [] => Nat.eqb sc 100
  | CN _ _ _ _ ch => forallb leaf100_b ch
  end.

(* enough fuel: every call either moves the query one level down or advances the scale *)
Definition ct_fuel (t : ctree) : nat := (size t + maxscale t + 3)%nat.
