(* ====================================================================== *)
(*  Pencil_Proof_Tie.v — property C10: the column selector of the model    *)
(*  (Pencil_Model.gen_dense_cols) IS the selector that translate/t_eig.py  *)
(*  reads out of routines/generalized_eigendecomposition.hpp (smallest-    *)
(*  eigenvalue arm of generalized_eigendecomposition_impl_dense) into the  *)
(*  generated table gen/EigSelect.v.  When the source changes that         *)
(*  expression the regenerated table makes this file fail to compile.      *)
(*  (The literal skip = 0 of the <DenseMatrix, DenseMatrix> dispatch is    *)
(*  not in the table; the check's G stream observes the selected columns.) *)
(* ====================================================================== *)
Require Import Arith List Bool String.
From TK Require Import Mat_EigSelect EigSelect Pencil_Model.
Import ListNotations.
Open Scope string_scope.

Definition is_gen_dense_smallest (b : branch) : bool :=
  String.eqb (b_file b) "generalized_eigendecomposition.hpp" &&
  String.eqb (b_fn b) "generalized_eigendecomposition_impl_dense" &&
  negb (b_largest b).

Definition blockop_eqb (x y : blockop) : bool :=
  match x, y with
  | BRight a, BRight b => lin_eqb (ilin a) (ilin b)
  | BLeft a, BLeft b => lin_eqb (ilin a) (ilin b)
  | BSegment a c, BSegment b d => lin_eqb (ilin a) (ilin b) && lin_eqb (ilin c) (ilin d)
  | _, _ => false
  end.

Fixpoint ops_eqb (x y : list blockop) : bool :=
  match x, y with
  | [], [] => true
  | a :: r, b :: s => blockop_eqb a b && ops_eqb r s
  | _, _ => false
  end.

(* exactly one such site, with the base object of size N and the model's selector (up to
   the linear normal form of the integer expressions, e.g. d + skip = skip + d) *)
Theorem model_selector_is_generated :
  match filter is_gen_dense_smallest eig_table with
  | [b] => match b_base b with BaseN => ops_eqb (b_cols b) gen_dense_cols | _ => false end
  | _ => false
  end = true.
Proof. vm_compute. reflexivity. Qed.
