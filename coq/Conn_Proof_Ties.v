(* Conn_Proof_Ties.v — exactly when are exact k-NN lists unique as sets, and order independence
   under that weaker hypothesis.

   boundary_free dist N k : no sample has a tie AT THE BOUNDARY of its k-NN list, i.e. for every
   other sample a of sample i, with c = #{x : d(i,x) < d(i,a)} and e = #{x : d(i,x) <= d(i,a)}
   (x ranging over the other samples), either e <= k (a and everything tied with it is inside
   every exact list) or k <= c (all of them are outside).  In terms of the sorted distances
   ds of sample i this is ds[k-1] <> ds[k] — the test checks/c03.py applies (boundary_tie).

   boundary_free -> the exact k-NN list of every sample is unique as a set (rows_unique);
   rows_unique for every k the recursion goes through -> same number of neighbours and same
   neighbour sets for any two exact searches and any order of the samples.  tie_free is the
   special case where all distances from a sample are distinct. *)
From Coq Require Import List Arith Bool ZArith Lia Permutation.
From TK Require Import Conn_Model Conn_Spec Conn_Proof_Graph Conn_Proof_Dfs
     Conn_Proof_Strong Conn_Proof_Warshall Conn_Proof Conn_Proof_Main Conn_Proof_Order.
Import ListNotations.

Lemma others_In : forall N i x, In x (others N i) <-> x < N /\ x <> i.
Proof.
  intros N i x. unfold others. rewrite filter_In, in_seq, negb_true_iff, Nat.eqb_neq. lia.
Qed.

Lemma others_NoDup : forall N i, NoDup (others N i).
Proof. intros. unfold others. apply NoDup_filter. apply seq_NoDup. Qed.

Lemma boundary_free_rows_unique : forall dist N k,
  boundary_free_b dist N k = true -> rows_unique dist N k.
Proof.
  intros dist N k Hb i r1 r2 Hi [L1 [ND1 [R1 M1]]] [L2 [ND2 [R2 M2]]] j Hj.
  destruct (in_dec Nat.eq_dec j r2) as [Hin|Hnin]; auto. exfalso.
  destruct (R1 j Hj) as [HjN Hji].
  (* the boolean at (i, j) *)
  unfold boundary_free_b in Hb. rewrite forallb_forall in Hb.
  assert (Hiseq : In i (seq 0 N)) by (apply in_seq; lia).
  specialize (Hb i Hiseq). rewrite forallb_forall in Hb.
  assert (Hjo : In j (others N i)) by (apply others_In; auto).
  specialize (Hb j Hjo). apply orb_true_iff in Hb.
  (* everything strictly closer than j, and j itself, is in r1 : cnt_lt + 1 <= k *)
  assert (A : S (cnt_lt dist N i j) <= k).
  { unfold cnt_lt. rewrite <- L1.
    set (S_lt := filter (fun x => (dist i x <? dist i j)%Z) (others N i)).
    change (length (j :: S_lt) <= length r1).
    apply NoDup_incl_length.
    - constructor.
      + unfold S_lt. rewrite filter_In. intros [_ H]. apply Z.ltb_lt in H. lia.
      + unfold S_lt. apply NoDup_filter. apply others_NoDup.
    - intros x [<-|Hx]; auto.
      unfold S_lt in Hx. apply filter_In in Hx. destruct Hx as [Hxo Hlt].
      apply Z.ltb_lt in Hlt. apply others_In in Hxo. destruct Hxo as [HxN Hxi].
      destruct (in_dec Nat.eq_dec x r1) as [Hxin|Hxnin]; auto. exfalso.
      assert ((dist i j <= dist i x)%Z) by (apply M1; auto). lia. }
  (* r2 and j all lie within distance d(i,j) : k + 1 <= cnt_le *)
  assert (B : S k <= cnt_le dist N i j).
  { unfold cnt_le. rewrite <- L2.
    change (length (j :: r2) <= length (filter (fun x => (dist i x <=? dist i j)%Z) (others N i))).
    apply NoDup_incl_length.
    - constructor; auto.
    - intros x [<-|Hx].
      + apply filter_In. split; auto. apply Z.leb_le. lia.
      + destruct (R2 x Hx) as [HxN Hxi]. apply filter_In. split; [apply others_In; auto|].
        apply Z.leb_le. apply M2; auto. }
  destruct Hb as [Hb|Hb].
  - apply Nat.leb_le in Hb. lia.
  - apply Nat.leb_le in Hb. lia.
Qed.

Lemma tie_free_rows_unique : forall dist N k, tie_free dist N -> rows_unique dist N k.
Proof.
  intros dist N k Htf i r1 r2 Hi H1 H2. eapply knn_row_unique; eauto.
Qed.

(* ------------------------------------------------------------ order independence from
   uniqueness of the rows (the proof of Conn_Proof_Order.v with knn_row_unique abstracted) *)
Section OrderU.
Variable dist : nat -> nat -> Z.
Variable N : nat.
Variable p : list nat.
Hypothesis Hp : is_perm N p.
Hypothesis HN : 1 <= N.
Let gp (v : nat) : nat := nth v p 0.
Let dist' (v u : nat) : Z := dist (gp v) (gp u).

Variables g1 g2 : graph.
Variable k : nat.
Hypothesis Hu : rows_unique dist N k.
Hypothesis H1 : is_knn_graph dist N k g1.
Hypothesis H2 : is_knn_graph dist' N k g2.

Lemma ordu_edges : forall v u, v < N -> u < N -> (edge g2 v u <-> edge g1 (gp v) (gp u)).
Proof.
  intros v u Hv Hu'. unfold edge.
  destruct H1 as [_ R1]. destruct H2 as [_ R2].
  assert (Hgv : gp v < N) by (apply (rl_g_lt N p Hp); auto).
  pose proof (map_gp_knn_row dist N p Hp k v _ Hv (R2 v Hv)) as A.
  pose proof (R1 (gp v) Hgv) as B.
  split; intros H.
  - apply (Hu (gp v) _ _ Hgv A B). apply in_map. exact H.
  - apply (Hu (gp v) _ _ Hgv B A) in H.
    apply in_map_iff in H. destruct H as [y [Ey Hy]].
    assert (HyN : y < N) by (destruct (R2 v Hv) as [_ [_ [R _]]]; apply R; auto).
    apply (ord_gp_inj N p Hp) in Ey; auto. subst; auto.
Qed.

Lemma ordu_strong : strongly_connected N g2 <-> strongly_connected N g1.
Proof.
  apply (tr_strong N p Hp g1 g2).
  - eapply knn_graph_wf; eauto.
  - eapply knn_graph_wf; eauto.
  - exact ordu_edges.
Qed.
End OrderU.

Lemma main_cc_order_independent_unique : forall dist N knn1 knn2 p,
  is_perm N p -> 1 <= N ->
  (forall k, k <= N - 1 -> is_knn_graph dist N k (knn1 k)) ->
  (forall k, k <= N - 1 ->
     is_knn_graph (fun v u => dist (nth v p 0) (nth u p 0)) N k (knn2 k)) ->
  forall k, 1 <= k ->
  (forall j, rows_unique dist N (kseq N k j)) ->
  exists k' g1 g2,
    find_neighbors is_connected_fixed knn1 N N k true = COk (k', g1) /\
    find_neighbors is_connected_fixed knn2 N N k true = COk (k', g2) /\
    forall v u, v < N -> u < N ->
      (In u (nth v g2 []) <-> In (nth u p 0) (nth (nth v p 0) g1 [])).
Proof.
  intros dist N knn1 knn2 p Hp HN K1 K2 k Hk Hun.
  destruct (main_cc_minimal dist knn1 N K1 HN k Hk) as [j1 [E1 [S1 M1]]].
  destruct (main_cc_minimal _ knn2 N K2 HN k Hk) as [j2 [E2 [S2 M2]]].
  assert (Heq : forall j, strongly_connected N (knn2 (kseq N k j)) <->
                          strongly_connected N (knn1 (kseq N k j))).
  { intros j. apply (ordu_strong dist N p Hp _ _ (kseq N k j) (Hun j)).
    - apply K1. apply kseq_le.
    - apply K2. apply kseq_le. }
  assert (Ej : j1 = j2).
  { destruct (Nat.lt_trichotomy j1 j2) as [Hlt|[He|Hgt]]; auto; exfalso.
    - apply (M2 j1 Hlt). apply Heq. exact S1.
    - apply (M1 j2 Hgt). apply Heq. exact S2. }
  subst j2.
  exists (kseq N k j1), (knn1 (kseq N k j1)), (knn2 (kseq N k j1)).
  split; auto. split; auto.
  intros v u Hv Hu.
  apply (ordu_edges dist N p Hp _ _ (kseq N k j1) (Hun j1)); auto.
  - apply K1. apply kseq_le.
  - apply K2. apply kseq_le.
Qed.

(* only the k_j up to the first strongly connected graph matter: a sharper form for the
   number of neighbours alone.  If the two runs end with different numbers of neighbours then
   some k_j not above the smaller result has non-unique rows. *)
Lemma main_cc_different_k_needs_tie : forall dist N knn1 knn2 p,
  is_perm N p -> 1 <= N ->
  (forall k, k <= N - 1 -> is_knn_graph dist N k (knn1 k)) ->
  (forall k, k <= N - 1 ->
     is_knn_graph (fun v u => dist (nth v p 0) (nth u p 0)) N k (knn2 k)) ->
  forall k k1 k2 g1 g2, 1 <= k ->
  find_neighbors is_connected_fixed knn1 N N k true = COk (k1, g1) ->
  find_neighbors is_connected_fixed knn2 N N k true = COk (k2, g2) ->
  k1 <> k2 ->
  exists j, kseq N k j <= Nat.min k1 k2 /\ ~ rows_unique dist N (kseq N k j).
Proof.
  intros dist N knn1 knn2 p Hp HN K1 K2 k k1 k2 g1 g2 Hk F1 F2 Hne.
  destruct (main_cc_minimal dist knn1 N K1 HN k Hk) as [j1 [E1 [S1 M1]]].
  destruct (main_cc_minimal _ knn2 N K2 HN k Hk) as [j2 [E2 [S2 M2]]].
  rewrite E1 in F1. rewrite E2 in F2. inversion F1; subst. inversion F2; subst. clear F1 F2.
  assert (Hmono : forall a b, a <= b -> kseq N k a <= kseq N k b).
  { intros a b Hab. unfold kseq. apply Nat.min_le_compat_r. apply Nat.mul_le_mono_l.
    apply Nat.pow_le_mono_r; lia. }
  destruct (Nat.lt_trichotomy j1 j2) as [Hlt|[He|Hgt]].
  - (* knn1 strongly connected at j1, knn2 not *)
    exists j1. split.
    + apply Nat.min_glb; [lia|apply Hmono; lia].
    + intros Hun. apply (M2 j1 Hlt).
      apply (proj2 (ordu_strong dist N p Hp (knn1 (kseq N k j1)) (knn2 (kseq N k j1)) (kseq N k j1) Hun
                      (K1 _ (kseq_le N k j1)) (K2 _ (kseq_le N k j1)))).
      exact S1.
  - subst. contradiction.
  - exists j2. split.
    + apply Nat.min_glb; [apply Hmono; lia|lia].
    + intros Hun. apply (M1 j2 Hgt).
      apply (proj1 (ordu_strong dist N p Hp (knn1 (kseq N k j2)) (knn2 (kseq N k j2)) (kseq N k j2) Hun
                      (K1 _ (kseq_le N k j2)) (K2 _ (kseq_le N k j2)))).
      exact S2.
Qed.

(* non-vacuity: the tied set 0,1,2,3,6 is boundary free for k = 1 (though not tie free), and
   not for k = 3 *)
Lemma nv_ties :
  tie_free_b (pdist tied5_pts) 5 = false /\
  boundary_free_b (pdist tied5_pts) 5 4 = true /\
  boundary_free_b (pdist tied5_pts) 5 3 = false /\
  (forall j, rows_unique (pdist tied5_pts) 5 (kseq 5 4 j)).
Proof.
  split; [vm_compute; reflexivity|]. split; [vm_compute; reflexivity|].
  split; [vm_compute; reflexivity|].
  intros j. apply boundary_free_rows_unique.
  assert (E : kseq 5 4 j = 4).
  { unfold kseq. apply Nat.min_r. change (5 - 1) with 4.
    assert (1 <= 2 ^ j) by (apply Nat.neq_0_lt_0; apply Nat.pow_nonzero; lia). nia. }
  rewrite E. vm_compute. reflexivity.
Qed.
