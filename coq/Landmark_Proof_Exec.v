(* ====================================================================== *)
(*  Landmark_Proof_Exec.v — the memoised list versions that are extracted  *)
(*  compute exactly the function-level model the theorems are about, and   *)
(*  the boolean decision procedures decide what their names say.           *)
(* ====================================================================== *)
Require Import Field Ring Arith Lia List Bool ZArith QArith Qcanon.
From TK Require Import Mat_Sums Mat_Core Mat_Qc Landmark_Model Landmark_Spec.
Import ListNotations.
Local Open Scope nat_scope.

Section Exec.
  Context {F : Type} {Fo : FieldOps F} {Ff : IsField F}.
  Add Field LandmarkExecField : (@Fth F Fo Ff).
  Local Open Scope F_scope.

  Lemma lm_colmean_meq n m A B j :
    meq n m A B -> j < m -> colmean n A j = colmean n B j.
  Proof.
    intros H Hj. unfold colmean, colsum. f_equal. apply sumn_ext. intros i Hi. apply H; assumption.
  Qed.

  Lemma lm_rowmean_meq n m A B i :
    meq n m A B -> i < n -> rowmean m A i = rowmean m B i.
  Proof.
    intros H Hi. unfold rowmean, rowsum. f_equal. apply sumn_ext. intros j Hj. apply H; assumption.
  Qed.

  Lemma lm_grandmean_meq n m A B : meq n m A B -> grandmean n m A = grandmean n m B.
  Proof.
    intros H. unfold grandmean, totsum. f_equal. apply sumn_ext. intros i Hi.
    apply sumn_ext. intros j Hj. apply H; assumption.
  Qed.

  Lemma center_stage_ok n M : center_stage n M = mtab n n (center_matrix n (mof M)).
  Proof.
    unfold center_stage. apply mtab_ext. intros i j Hi Hj. unfold center_matrix.
    rewrite !vof_vtab by assumption. reflexivity.
  Qed.

  (* the (D2, mu, B) triple printed by the model driver is the function-level model's *)
  Theorem lmds_stages_exec_ok lm Ldist :
    let L := length lm in
    lmds_stages_exec lm Ldist =
      (mtab L L (landmark_dist_sq lm (mof Ldist)),
       vtab L (landmark_mu L (landmark_dist_sq lm (mof Ldist))),
       mtab L L (lmds_matrix lm (mof Ldist))).
  Proof.
    intros L. unfold lmds_stages_exec. fold L.
    set (D2 := landmark_dist_sq lm (mof Ldist)).
    assert (HD : meq L L (mof (mtab L L D2)) D2) by apply mof_mtab_meq.
    f_equal; [f_equal|].
    - apply vtab_ext. intros t Ht. unfold landmark_mu. apply (lm_colmean_meq L L); assumption.
    - rewrite center_stage_ok. apply mtab_ext. intros i j Hi Hj.
      rewrite mof_mtab by assumption. unfold lmds_matrix. fold L. fold D2. f_equal.
      unfold center_matrix.
      rewrite (HD i j Hi Hj), (lm_grandmean_meq L L _ _ HD),
              (lm_colmean_meq L L _ _ j HD Hj), (lm_colmean_meq L L _ _ i HD Hi). reflexivity.
  Qed.

  Theorem lisomap_matrix_exec_ok L N LG :
    lisomap_matrix_exec L N LG = mtab L N (lisomap_matrix L N (mof LG)).
  Proof.
    unfold lisomap_matrix_exec. apply mtab_ext. intros i j Hi Hj. unfold lisomap_matrix.
    set (D2 := fun a b => mof LG a b * mof LG a b).
    assert (HD : meq L N (mof (mtab L N D2)) D2) by apply mof_mtab_meq.
    rewrite !vof_vtab by assumption.
    rewrite (HD i j Hi Hj), (lm_grandmean_meq L N _ _ HD),
            (lm_rowmean_meq L N _ _ i HD Hi), (lm_colmean_meq L N _ _ j HD Hj). reflexivity.
  Qed.

  (* the embedding the driver prints for stream I is lisomap_embed's, for the dense answer whose
     selected columns are the table U *)
  Theorem lisomap_embed_exec_ok N L d LG (W : mat F) (w q : vec F) Y :
    lisomap_embed N L d (mof LG) W w q = LOk Y ->
    lisomap_embed_exec N L d LG (mtab L d (fun r c => W r (L - d + c)%nat)) (vtab d q) = mtab N d Y.
  Proof.
    unfold lisomap_embed, select_largest. intros H.
    destruct (Nat.leb d L) eqn:E; [|discriminate]. inversion H; subst Y. clear H.
    unfold lisomap_embed_exec. apply mtab_ext. intros j c Hj Hc.
    rewrite vof_vtab by assumption. f_equal. apply sumn_ext. intros k Hk.
    rewrite lisomap_matrix_exec_ok, !mof_mtab by assumption. reflexivity.
  Qed.
End Exec.

(* ---------------- decision procedures ---------------- *)
Lemma lm_qleb_ok x y : lm_qleb x y = true <-> (x <= y)%Qc.
Proof.
  unfold lm_qleb, Qcle, Qccompare. rewrite Qle_alt.
  destruct (this x ?= this y)%Q; split; intros H; try reflexivity; try discriminate.
  exfalso. apply H. reflexivity.
Qed.

Lemma lm_within_b_ok n m tol A B :
  lm_within_b n m tol A B = true <->
  forall i j, i < n -> j < m -> (lm_qabs (A i j - B i j) <= tol)%Qc.
Proof.
  unfold lm_within_b. rewrite forallb_forall. split.
  - intros H i j Hi Hj. apply lm_qleb_ok.
    assert (Hin : In i (seq 0 n)) by (apply in_seq; lia).
    specialize (H i Hin). rewrite forallb_forall in H. apply H. apply in_seq. lia.
  - intros H i Hi. apply in_seq in Hi. rewrite forallb_forall. intros j Hj.
    apply in_seq in Hj. apply lm_qleb_ok. apply H; lia.
Qed.

(* accepted by the extracted procedure  ==>  every pairwise squared distance of the rows of Y is
   within tol of the squared callback value (tol = 0: lm_dist_reproduced exactly) *)
Theorem lm_dist_reproduced_b_sound N d tol Y Ldist :
  lm_dist_reproduced_b N d tol Y Ldist = Some true ->
  forall a b, a < N -> b < N ->
    (lm_qabs (lm_sqdist d (mof Y) a b - mof Ldist a b * mof Ldist a b) <= tol)%Qc.
Proof.
  unfold lm_dist_reproduced_b. destruct (wf_matb N d Y && wf_matb N N Ldist); [|discriminate].
  intros H. inversion H as [H1]. apply lm_within_b_ok. exact H1.
Qed.

Lemma forallb_seq_ok n (P : nat -> bool) :
  forallb P (seq 0 n) = true <-> forall i, i < n -> P i = true.
Proof.
  rewrite forallb_forall. split.
  - intros H i Hi. apply H. apply in_seq. lia.
  - intros H i Hi. apply in_seq in Hi. apply H. lia.
Qed.

Theorem lm_same_upto_sign_b_sound N d tol Y Z :
  lm_same_upto_sign_b N d tol Y Z = Some true ->
  forall c, c < d ->
    (forall a, a < N -> (lm_qabs (mof Y a c - mof Z a c) <= tol)%Qc) \/
    (forall a, a < N -> (lm_qabs (mof Y a c + mof Z a c) <= tol)%Qc).
Proof.
  unfold lm_same_upto_sign_b. destruct (wf_matb N d Y && wf_matb N d Z); [|discriminate].
  intros H. inversion H as [H1]. clear H. intros c Hc.
  pose proof (proj1 (forallb_seq_ok d _) H1 c Hc) as H2. cbv beta in H2.
  apply orb_true_iff in H2. destruct H2 as [H2|H2]; [left|right];
    intros a Ha; apply lm_qleb_ok; exact (proj1 (forallb_seq_ok N _) H2 a Ha).
Qed.
