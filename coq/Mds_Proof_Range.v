(* ====================================================================== *)
(*  Mds_Proof_Range.v — C05, wave 4: the squared-distance matrix depends   *)
(*  on the container only through the sequence of samples the range        *)
(*  denotes; the contiguity-assuming variant and the non-strict identity   *)
(*  fast path are refuted, their repaired forms proved.                    *)
(* ====================================================================== *)
Require Import Arith Lia List Bool QArith Qcanon.
From TK Require Import Mat_Sums Mat_Core Mat_Qc Mds_Model Mds_Model_Range.
Import ListNotations.
Local Open Scope nat_scope.

(* any two containers / memories denoting the same samples give the same matrix: decoys, strides, blocks are invisible *)
Theorem cdm_range_denoted : forall (F : Type) (Fo : FieldOps F) (n : nat) (mem mem' addr addr' : nat -> nat) (cb : mat F),
    (forall p, p < n -> mem (addr p) = mem' (addr' p)) ->
    meq n n (cdm_range mem addr cb) (cdm_range mem' addr' cb).
Proof.
  intros F Fo n mem mem' addr addr' cb H i j Hi Hj.
  unfold cdm_range, dist_sq_matrix, range_table.
  rewrite (H i Hi), (H j Hj). reflexivity.
Qed.

(* it is the squared-distance matrix of the table of the callback's answers on the denoted sequence *)
Theorem cdm_range_is_table : forall (F : Type) (Fo : FieldOps F) (n : nat) (mem addr ids : nat -> nat) (cb : mat F),
    (forall p, p < n -> mem (addr p) = ids p) ->
    meq n n (cdm_range mem addr cb) (dist_sq_matrix (fun p q => cb (ids p) (ids q))).
Proof.
  intros F Fo n mem addr ids cb H i j Hi Hj.
  unfold cdm_range, dist_sq_matrix, range_table.
  rewrite (H i Hi), (H j Hj). reflexivity.
Qed.

(* samples = &*begin is right exactly under contiguity ... *)
Theorem cdm_contig_contiguous_ok : forall (F : Type) (Fo : FieldOps F) (n : nat) (mem addr : nat -> nat) (cb : mat F),
    (forall p, p < n -> addr p = addr 0 + p) ->
    meq n n (cdm_contig mem addr cb) (cdm_range mem addr cb).
Proof.
  intros F Fo n mem addr cb H i j Hi Hj.
  unfold cdm_contig, cdm_range, dist_sq_matrix, range_table.
  rewrite <- (H i Hi), <- (H j Hj). reflexivity.
Qed.

(* ... and wrong on a strided range: memory 9 7 8 7 9 ..., the range denotes every second entry *)
Definition rg_mem : nat -> nat := fun a => match a with 0 => 0 | 1 => 2 | 2 => 1 | _ => 2 end.
Definition rg_addr : nat -> nat := fun p => 2 * p.
Definition rg_cb : mat Qc := fun a b => if Nat.eqb a b then 0%Qc else if Nat.eqb (a + b) 1 then 1%Qc else qz 3.

Theorem cdm_contig_refuted :
  exists (n : nat) (mem addr : nat -> nat) (cb : mat Qc),
    ~ meq n n (cdm_contig mem addr cb) (cdm_range mem addr cb).
Proof.
  exists 2, rg_mem, rg_addr, rg_cb.
  intro H. specialize (H 0 1 ltac:(lia) ltac:(lia)).
  vm_compute in H. discriminate H.
Qed.

(* ---- the identity fast path ---- *)
Lemma sorted_strict_step : forall ids n, sorted_strict_b ids (S (S n)) = true ->
    sorted_strict_b ids (S n) = true /\ ids n < ids (S n).
Proof.
  intros ids n H. cbn [sorted_strict_b] in H. apply andb_true_iff in H. destruct H as [H1 H2].
  split; [exact H1|]. apply Nat.ltb_lt in H2. replace (S n - 1) with n in H2 by lia. exact H2.
Qed.

Lemma sorted_strict_lower : forall ids n, sorted_strict_b ids n = true ->
    forall p, p < n -> ids 0 + p <= ids p.
Proof.
  intros ids n. induction n as [|n IH]; intros H p Hp; [lia|].
  destruct n as [|n].
  - assert (p = 0) by lia. subst. lia.
  - apply sorted_strict_step in H. destruct H as [H1 H2].
    destruct (Nat.eq_dec p (S n)) as [->|Hne].
    + specialize (IH H1 n ltac:(lia)). lia.
    + apply IH; [exact H1|lia].
Qed.

Lemma sorted_strict_upper : forall ids n, sorted_strict_b ids n = true ->
    forall p, p < n -> ids p + (n - 1 - p) <= ids (n - 1).
Proof.
  intros ids n. induction n as [|n IH]; intros H p Hp; [lia|].
  destruct n as [|n].
  - assert (p = 0) by lia. subst. cbn. lia.
  - apply sorted_strict_step in H. destruct H as [H1 H2].
    replace (S (S n) - 1) with (S n) by lia.
    destruct (Nat.eq_dec p (S n)) as [->|Hne].
    + lia.
    + specialize (IH H1 p ltac:(lia)). replace (S n - 1) with n in IH by lia. lia.
Qed.

(* strictly increasing, first id 0, last id n-1  =>  the ids ARE 0..n-1 *)
Theorem strict_guard_identity : forall ids n, identity_guard sorted_strict_b ids n = true ->
    forall p, p < n -> ids p = p.
Proof.
  intros ids n H p Hp. unfold identity_guard in H.
  apply andb_true_iff in H. destruct H as [H H3]. apply andb_true_iff in H. destruct H as [H1 H2].
  apply Nat.eqb_eq in H2. apply Nat.eqb_eq in H3.
  pose proof (sorted_strict_lower ids n H1 p Hp). pose proof (sorted_strict_upper ids n H1 p Hp). lia.
Qed.

(* with the strict guard the fast path is the generic path *)
Theorem cdm_fastpath_strict_ok : forall (F : Type) (Fo : FieldOps F) (n : nat) (ids : nat -> nat) (cb : mat F),
    meq n n (cdm_fastpath sorted_strict_b n ids cb) (dist_sq_matrix (fun p q => cb (ids p) (ids q))).
Proof.
  intros F Fo n ids cb i j Hi Hj. unfold cdm_fastpath.
  destruct (identity_guard sorted_strict_b ids n) eqn:G; [|reflexivity].
  unfold dist_sq_matrix.
  rewrite (strict_guard_identity ids n G i Hi), (strict_guard_identity ids n G j Hj). reflexivity.
Qed.

(* with std::is_sorted (non-strict) the guard accepts 0 1 1 3 and the fast path embeds samples 0 1 2 3 *)
Definition fp_ids : nat -> nat := fun p => match p with 0 => 0 | 1 => 1 | 2 => 1 | _ => 3 end.
Definition fp_cb : mat Qc := fun a b => qz (Z.of_nat (a + b)).

Theorem cdm_fastpath_nonstrict_refuted :
  exists (n : nat) (ids : nat -> nat) (cb : mat Qc),
    identity_guard sorted_nonstrict_b ids n = true /\
    ~ meq n n (cdm_fastpath sorted_nonstrict_b n ids cb) (dist_sq_matrix (fun p q => cb (ids p) (ids q))).
Proof.
  exists 4, fp_ids, fp_cb. split; [vm_compute; reflexivity|].
  intro H. specialize (H 0 2 ltac:(lia) ltac:(lia)).
  vm_compute in H. discriminate H.
Qed.
