(* FibHeap_Proof_Drain.v — the priority-queue use Dijkstra makes of the heap (property C16).

   Whatever history precedes it, a run of consecutive extract_min calls returns keys in
   nondecreasing order, every returned (index,key) was stored when the run began, and no index is
   returned twice.  This is the "settled in order of distance" fact Dijkstra's correctness rests on,
   derived here from the finite-map refinement (fh_refines_map), i.e. for every capacity, every A[]
   size and every preceding history, not for sampled ones. *)
From Coq Require Import List ZArith Arith Bool Lia Sorted.
From TK Require Import FibHeap_Model FibHeap_SpecExec FibHeap_Proof_Basics FibHeap_Proof_Main.
Import ListNotations.
Local Open Scope Z_scope.

(* the (index,key) pairs returned by the extract_min calls of an output list *)
Fixpoint drain_pairs (xs : list out) : list (Z * Z) :=
  match xs with
  | [] => []
  | x :: xs' => match o_ext x with
                | Some (Some p) => p :: drain_pairs xs'
                | _ => drain_pairs xs'
                end
  end.
Definition drain_keys (xs : list out) : list Z := map snd (drain_pairs xs).

Lemma a_get_in : forall i k m, a_get i m = Some k -> In (i, k) m.
Proof.
  intros i k m; induction m as [|[j kj] m IH]; cbn [a_get]; intros H; [discriminate|].
  destruct (Z.eqb i j) eqn:E.
  - apply Z.eqb_eq in E; inversion H; subst; left; reflexivity.
  - right; apply IH; exact H.
Qed.

Lemma a_remove_incl : forall i p m, In p (a_remove i m) -> In p m.
Proof.
  intros i p m; induction m as [|[j kj] m IH]; cbn [a_remove]; intros H; [exact H|].
  destruct (Z.eqb i j); [right; apply IH; exact H|].
  destruct H as [H|H]; [left; exact H | right; apply IH; exact H].
Qed.

Lemma a_remove_not_in : forall i k m, ~ In (i, k) (a_remove i m).
Proof.
  intros i k m; induction m as [|[j kj] m IH]; cbn [a_remove]; [intros []|].
  destruct (Z.eqb i j) eqn:E; [exact IH|].
  intros [H|H]; [inversion H; subst; rewrite Z.eqb_refl in E; discriminate | exact (IH H)].
Qed.

Lemma spec_run_b_length : forall cap ops m xs n, spec_run_b cap m ops xs n = None -> length xs = length ops.
Proof.
  intros cap ops; induction ops as [|o ops IH]; intros m xs n H; destruct xs as [|x xs]; cbn in H |- *;
    try discriminate; [reflexivity|].
  destruct (spec_step_b cap m o x) as [m1|]; [|discriminate].
  f_equal; exact (IH _ _ _ H).
Qed.

Lemma spec_run_b_app : forall cap ops ex m xs n, spec_run_b cap m (ops ++ ex) xs n = None ->
  exists m1 xs1 xs2, xs = xs1 ++ xs2 /\ length xs1 = length ops /\
                     spec_run_b cap m1 ex xs2 (n + length ops) = None.
Proof.
  intros cap ops ex; induction ops as [|o ops IH]; intros m xs n H.
  - exists m, [], xs; cbn [length app]; rewrite Nat.add_0_r; auto.
  - destruct xs as [|x xs]; cbn [app spec_run_b] in H; [discriminate|].
    destruct (spec_step_b cap m o x) as [m1|]; [|discriminate].
    destruct (IH _ _ _ H) as (m2 & xs1 & xs2 & E & L & R).
    exists m2, (x :: xs1), xs2; cbn [app length]; subst xs; repeat split; [f_equal; exact L|].
    replace (n + S (length ops))%nat with (S n + length ops)%nat by lia; exact R.
Qed.

(* a run of extract_min calls accepted by the specification from map m *)
Lemma spec_drain : forall cap xs m n, spec_run_b cap m (repeat ExtractMin (length xs)) xs n = None ->
  Sorted Z.le (drain_keys xs) /\ NoDup (drain_pairs xs) /\ (forall p, In p (drain_pairs xs) -> In p m).
Proof.
  intros cap xs; induction xs as [|x xs IH]; intros m n H.
  - cbn; repeat split; [constructor | constructor | intros p []].
  - cbn [length repeat spec_run_b] in H.
    destruct (spec_step_b cap m ExtractMin x) as [m1|] eqn:E; [|discriminate].
    destruct (IH _ _ H) as (S1 & N1 & I1); clear IH H.
    unfold spec_step_b in E.
    destruct (o_ext x) as [r|] eqn:Er; [|discriminate].
    destruct (spec_extract_b m r) as [m1'|] eqn:Ex; [|discriminate].
    destruct (_ && _); [|discriminate]. inversion E; subst m1'; clear E.
    unfold drain_keys in *; cbn [drain_pairs]; rewrite Er.
    destruct r as [[i k]|]; cbn [spec_extract_b] in Ex.
    + destruct (a_get i m) as [k'|] eqn:G; [|discriminate].
      destruct (Z.eqb k' k) eqn:Ek; cbn [andb] in Ex; [|discriminate].
      destruct (forallb _ m) eqn:F; [|discriminate]. inversion Ex; subst m1; clear Ex.
      apply Z.eqb_eq in Ek; subst k'.
      assert (Hall : forall p, In p (a_remove i m) -> k <= snd p).
      { intros p Hp; apply a_remove_incl in Hp. rewrite forallb_forall in F.
        apply Z.leb_le; exact (F p Hp). }
      repeat split.
      * cbn [map snd]; constructor; [exact S1|].
        destruct (drain_pairs xs) as [|p l] eqn:D; cbn [map]; constructor.
        apply Hall, I1; left; reflexivity.
      * constructor; [|exact N1]. intros Hin; exact (a_remove_not_in i k m (I1 _ Hin)).
      * intros p [Hp|Hp]; [subst p; apply a_get_in; exact G | exact (a_remove_incl _ _ _ (I1 _ Hp))].
    + destruct m; inversion Ex; subst m1.
      repeat split; [exact S1 | exact N1 | intros p Hp; exact (I1 p Hp)].
Qed.

(* specification level: ANY output list the finite-map specification accepts for a history that ends in n
   extract_min calls — in particular the outputs of the REAL heap, on which the C16 check runs spec_run_b — has
   its last n answers in nondecreasing key order with pairwise distinct indices *)
Theorem accepted_drain_sorted : forall cap ops n xs,
  spec_run_b cap [] (ops ++ repeat ExtractMin n) xs 0 = None ->
  Sorted Z.le (drain_keys (skipn (length ops) xs)) /\
  NoDup (map fst (drain_pairs (skipn (length ops) xs))).
Proof.
  intros cap ops n xs Hs.
  destruct (spec_run_b_app _ _ _ _ _ _ Hs) as (m1 & xs1 & xs2 & E & L & R).
  subst xs; rewrite <- L, skipn_app, Nat.sub_diag, skipn_all; cbn [skipn app].
  pose proof (spec_run_b_length _ _ _ _ _ R) as L2; rewrite repeat_length in L2; subst n.
  destruct (spec_drain _ _ _ _ R) as (S1 & N1 & I1); split; [exact S1|].
  (* distinct indices: distinct pairs all stored in a map are removed one at a time *)
  clear - R.
  revert m1 R; generalize (0 + length ops)%nat as n.
  induction xs2 as [|x xs IH]; intros n m R; [constructor|].
  cbn [length repeat spec_run_b] in R.
  destruct (spec_step_b cap m ExtractMin x) as [m1|] eqn:E; [|discriminate].
  specialize (IH _ _ R). destruct (spec_drain _ _ _ _ R) as (_ & _ & I1).
  unfold spec_step_b in E.
  destruct (o_ext x) as [r|] eqn:Er; [|discriminate].
  destruct (spec_extract_b m r) as [m1'|] eqn:Ex; [|discriminate].
  destruct (_ && _); [|discriminate]. inversion E; subst m1'; clear E.
  cbn [drain_pairs]; rewrite Er. destruct r as [[i k]|]; [|exact IH].
  cbn [spec_extract_b] in Ex.
  destruct (a_get i m) as [k'|]; [|discriminate].
  destruct (_ && _); [|discriminate]. inversion Ex; subst m1; clear Ex.
  cbn [map fst]; constructor; [|exact IH].
  intros Hin; apply in_map_iff in Hin; destruct Hin as ([i2 k2] & Ei & Hin); cbn [fst] in Ei; subst i2.
  exact (a_remove_not_in i k2 m (I1 _ Hin)).
Qed.

(* heap level: after ANY completed history, n further extract_min calls of the model heap return keys in
   nondecreasing order and never the same index twice *)
Theorem fh_drain_sorted : forall cap dn ops n h' xs, 0 <= cap ->
  run (empty_heap cap dn) (ops ++ repeat ExtractMin n) = Ok (h', xs) ->
  Sorted Z.le (drain_keys (skipn (length ops) xs)) /\
  NoDup (map fst (drain_pairs (skipn (length ops) xs))).
Proof.
  intros cap dn ops n h' xs Hc Hr.
  destruct (fh_refines_map cap dn _ _ _ Hc Hr) as [_ Hs].
  exact (accepted_drain_sorted _ _ _ _ Hs).
Qed.
