(* Properties_C14.v — property C14: "Invalid requests raise the documented exception before any
   computation".  Statements only; proofs are in Validate_Proof*.v.

   gen_tables (coq/gen/Validate.v) is REGENERATED from the C++ working tree by translate/t_val.py on
   every run of the check; doc_tables / spec_decide / violated (Validate_Spec.v) are the documented
   table and the documented order of the tests, written by hand.  `decide gen_tables r` runs the
   executable model of tapkee::embed (Validate_Model.v) on request r. *)

From Coq Require Import ZArith QArith List Bool Permutation.
Import ListNotations.
From TK Require Import Validate_Model Validate_Spec Validate_Proof Validate_Proof_Steps
  Validate_Proof_Main Validate_Proof_Gen Validate_Proof_Order Validate_Proof_Bodies Validate_Proof_Routes Validate_Float Validate_Float_Points Validate.

(* ---- predicate objects of predicates.hpp, over all of Q *)
Theorem in_range_semantics : forall n ty l u x,
  pred_holds n ty (in_range l u) x = true <-> (bound n ty l <= x /\ x < bound n ty u)%Q.
Proof. exact in_range_spec. Qed.
Print Assumptions in_range_semantics.

Theorem in_closed_range_semantics : forall n ty l u x,
  pred_holds n ty (in_closed_range l u) x = true <-> (bound n ty l <= x /\ x <= bound n ty u)%Q.
Proof. exact in_closed_range_spec. Qed.
Print Assumptions in_closed_range_semantics.

Theorem positive_semantics : forall n ty x, pred_holds n ty positive x = true <-> (0 < x)%Q.
Proof. exact positive_spec. Qed.
Print Assumptions positive_semantics.

Theorem non_negative_semantics : forall n ty x, pred_holds n ty non_negative x = true <-> (0 <= x)%Q.
Proof. exact non_negative_spec. Qed.
Print Assumptions non_negative_semantics.

(* ---- wave 2: the BODIES of operator()(T v) as the translator reads them from predicates.hpp
        (gen_pred_* in coq/gen/Validate.v: comparison operator and operand of every conjunct), over all
        of Q and for every instantiation type *)
Theorem generated_positivity_semantics : forall ty x,
  body_holds ty [] (pb_conj gen_pred_Positivity) x = true <-> (0 < x)%Q.
Proof. exact gen_positivity_body. Qed.
Print Assumptions generated_positivity_semantics.

Theorem generated_non_negativity_semantics : forall ty x,
  body_holds ty [] (pb_conj gen_pred_NonNegativity) x = true <-> (0 <= x)%Q.
Proof. exact gen_non_negativity_body. Qed.
Print Assumptions generated_non_negativity_semantics.

Theorem generated_in_range_semantics : forall ty l u x,
  body_holds ty [l; u] (pb_conj gen_pred_InRange) x = true <-> (l <= x /\ x < u)%Q.
Proof. exact gen_in_range_body. Qed.
Print Assumptions generated_in_range_semantics.

Theorem generated_in_closed_range_semantics : forall ty l u x,
  body_holds ty [l; u] (pb_conj gen_pred_InClosedRange) x = true <-> (l <= x /\ x <= u)%Q.
Proof. exact gen_in_closed_range_body. Qed.
Print Assumptions generated_in_closed_range_semantics.

(* the walker's predicate object (one optional bound per side) built from a body IS that body *)
Theorem predicate_object_is_its_body : forall n ty args conj p x,
  instantiate ty args conj no_pred = Some p ->
  pred_holds n ty p x = body_holds ty (map (bound n ty) args) conj x.
Proof. exact predicate_object_body. Qed.
Print Assumptions predicate_object_is_its_body.

Example predicate_object_nonvacuous :
  instantiate TIndex [BInt 1; BN] (pb_conj gen_pred_InRange) no_pred = Some (in_range (BInt 1) BN).
Proof. reflexivity. Qed.

(* every check of the generated tables is the use at that place of the source instantiated at the
   generated body (finite), hence means exactly what the statement says *)
Theorem generated_checks_cover : length gen_pred_uses = length (checks_of gen_tables).
Proof. exact gen_uses_cover. Qed.
Print Assumptions generated_checks_cover.

Theorem generated_checks_meaning : forall u c,
  In (u, c) (combine gen_pred_uses (checks_of gen_tables)) ->
  forall n x, pred_holds n (c_ty c) (c_pred c) x = true <-> use_meaning n u x.
Proof. exact gen_checks_meaning. Qed.
Print Assumptions generated_checks_meaning.

Example generated_checks_nonvacuous :
  exists u c, In (u, c) (combine gen_pred_uses (checks_of gen_tables)) /\ pu_pred u = 3%nat.
Proof. do 2 eexists. split; [vm_compute; right; right; left; reflexivity | reflexivity]. Qed.

(* ---- wave 2: the members of stichwort::ParametersSet / Parameter as the translator reads them from
        parameter.hpp (gen_container), interpreted by Validate_Model.run_cstmt, compute exactly the
        functions the walker uses: for EVERY set, parameter, reference set and name *)
Theorem container_add : forall s p, run_add gen_container s p = CNormal (ps_add s p).
Proof. exact gen_add. Qed.
Print Assumptions container_add.

Theorem container_check : forall s,
  run_check gen_container s = match ps_dups s with [] => CNormal s | _ :: _ => CThrown SwMultiple end.
Proof. exact gen_check. Qed.
Print Assumptions container_check.

Theorem container_check_types : forall s d,
  run_check_types gen_container s d =
  if existsb (wrong_type_vs d) (ps_map s) then CThrown SwWrongType else CNormal s.
Proof. exact gen_check_types. Qed.
Print Assumptions container_check_types.

Theorem container_merge : forall s d,
  run_merge gen_container s d = CNormal {| ps_map := pm_merge (ps_map s) d; ps_dups := ps_dups s |}.
Proof. exact gen_merge. Qed.
Print Assumptions container_merge.

Theorem container_index : forall s k,
  run_index gen_container s k =
  match pm_lookup k (ps_map s) with Some v => CReturned s (Some v) | None => CThrown SwMissed end.
Proof. exact gen_index. Qed.
Print Assumptions container_index.

(* (a), (a, b), ((a, b), c), ...: Parameter::operator ParametersSet, Parameter::operator, and
   ParametersSet::operator, chained for EVERY arity build the set add() by add(), left to right *)
Theorem comma_expression_every_arity : forall kws,
  comma_expression gen_container kws = Some (ps_build kws).
Proof. exact gen_comma_expression. Qed.
Print Assumptions comma_expression_every_arity.

Theorem merge_never_overwrites : forall s d s' k v,
  run_merge gen_container s d = CNormal s' -> pm_lookup k (ps_map s) = Some v ->
  pm_lookup k (ps_map s') = Some v.
Proof. exact gen_merge_never_overwrites. Qed.
Print Assumptions merge_never_overwrites.

Example merge_never_overwrites_nonvacuous :
  run_merge gen_container (ps_build [(kw_num_neighbors, VIndex 7)]) doc_defaults =
    CNormal {| ps_map := pm_merge [(kw_num_neighbors, VIndex 7)] doc_defaults; ps_dups := [] |} /\
  pm_lookup kw_num_neighbors (ps_map (ps_build [(kw_num_neighbors, VIndex 7)])) = Some (VIndex 7).
Proof. split; reflexivity. Qed.

Theorem duplicates_found_anywhere : forall kws s,
  comma_expression gen_container kws = Some s ->
  (run_check gen_container s = CThrown SwMultiple <-> nodupb (map fst kws) = false).
Proof. exact gen_duplicates_found. Qed.
Print Assumptions duplicates_found_anywhere.

Example duplicates_found_nonvacuous :
  exists s, comma_expression gen_container
              [(kw_num_neighbors, VIndex 4); (kw_num_neighbors, VIndex 5); (kw_method, VMethod Isomap)] = Some s /\
            run_check gen_container s = CThrown SwMultiple.
Proof. eexists. split; reflexivity. Qed.

(* ---- the generated table is the documented one (finite; by evaluation) and is well formed *)
Theorem doc_table_matches : summarise gen_tables = doc_tables.
Proof. exact gen_summary. Qed.
Print Assumptions doc_table_matches.

Theorem generated_table_well_formed : wf gen_tables.
Proof. exact gen_wf. Qed.
Print Assumptions generated_table_well_formed.

(* ---- keywords.hpp declares every keyword with the type of its documented default (finite) *)
Theorem declared_keyword_types : forall k, (k < 22)%nat -> kw_assoc k gen_kwtypes = kw_assoc k doc_kwtypes.
Proof. exact gen_kwtypes_agree. Qed.
Print Assumptions declared_keyword_types.

Example declared_keyword_types_nonvacuous : kw_assoc 4%nat gen_kwtypes = Some TIndex.
Proof. reflexivity. Qed.

(* ---- for EVERY request: the outcome is the documented exception of the first violated clause in
        the documented order, and otherwise the request proceeds with supplied-then-default values *)
Theorem decide_documented : forall r,
  decide gen_tables r =
  match spec_decide r with
  | Some c => RThrow (exc_of c)
  | None => RDone (pm_merge (rq_kws r) doc_defaults)
  end.
Proof. exact gen_decide. Qed.
Print Assumptions decide_documented.

(* ---- a throw is produced before the first kernel / distance evaluation of the trace *)
Theorem before_any_evaluation : forall r e,
  decide gen_tables r = RThrow e -> evaluates gen_tables r = false.
Proof. exact gen_before_any_evaluation. Qed.
Print Assumptions before_any_evaluation.

Example before_any_evaluation_nonvacuous :
  exists r e, decide gen_tables r = RThrow e.
Proof. exists witness_late, WrongType. vm_compute. reflexivity. Qed.

(* ---- explicitly set values are never replaced by defaults; unset keywords take the defaults *)
Theorem explicit_wins : forall r pm k v,
  decide gen_tables r = RDone pm -> explicit r k = Some v -> pm_lookup k pm = Some v.
Proof. exact gen_explicit_wins. Qed.
Print Assumptions explicit_wins.

Theorem defaults_fill : forall r pm k,
  decide gen_tables r = RDone pm -> explicit r k = None -> pm_lookup k pm = pm_lookup k doc_defaults.
Proof. exact gen_defaults_fill. Qed.
Print Assumptions defaults_fill.

Definition isomap_at_lower_bounds : request :=
  all_callbacks [(kw_num_neighbors, VIndex 3); (kw_method, VMethod Isomap); (kw_target_dimension, VIndex 1)] 4.

Example explicit_wins_nonvacuous :
  exists pm, decide gen_tables isomap_at_lower_bounds = RDone pm /\
             explicit isomap_at_lower_bounds kw_num_neighbors = Some (VIndex 3) /\
             explicit isomap_at_lower_bounds kw_landmark_ratio = None.
Proof. eexists. vm_compute. repeat split; reflexivity. Qed.

(* ---- values on the valid side of every clause are accepted; a violated clause always throws *)
Theorem accept_inside : forall r,
  (forall c, In c (documented_order r) -> violated r c = false) ->
  decide gen_tables r = RDone (pm_merge (rq_kws r) doc_defaults).
Proof. exact gen_accept_inside. Qed.
Print Assumptions accept_inside.

Example accept_inside_nonvacuous :
  forall c, In c (documented_order isomap_at_lower_bounds) -> violated isomap_at_lower_bounds c = false.
Proof. apply find_none_iff. vm_compute. reflexivity. Qed.

Theorem reject_outside : forall r c,
  In c (documented_order r) -> violated r c = true ->
  exists c', In c' (documented_order r) /\ violated r c' = true /\
             decide gen_tables r = RThrow (exc_of c') /\ evaluates gen_tables r = false.
Proof. exact gen_reject_outside. Qed.
Print Assumptions reject_outside.

Example reject_outside_nonvacuous :
  In (CRange [] cell_num_neighbors) (documented_order (all_callbacks [(kw_method, VMethod Isomap)] 5)) /\
  violated (all_callbacks [(kw_method, VMethod Isomap)] 5) (CRange [] cell_num_neighbors) = true.
Proof. split; [vm_compute; tauto | vm_compute; reflexivity]. Qed.

(* ---- every order and multiplicity of the keywords in the comma expression *)
Theorem duplicate_throws : forall r,
  nodupb (map fst (rq_kws r)) = false ->
  decide gen_tables r = RThrow Multiple /\ evaluates gen_tables r = false.
Proof. exact gen_duplicate_throws. Qed.
Print Assumptions duplicate_throws.

Example duplicate_throws_nonvacuous :
  nodupb (map fst (rq_kws (all_callbacks [(kw_num_neighbors, VIndex 4); (kw_method, VMethod Isomap);
                                          (kw_num_neighbors, VIndex 4)] 8))) = false.
Proof. reflexivity. Qed.

Theorem order_irrelevant : forall r1 r2,
  Permutation (rq_kws r1) (rq_kws r2) ->
  rq_n r1 = rq_n r2 -> rq_dim r1 = rq_dim r2 -> rq_kernel r1 = rq_kernel r2 ->
  rq_distance r1 = rq_distance r2 -> rq_features r1 = rq_features r2 ->
  outcome_of (decide gen_tables r1) = outcome_of (decide gen_tables r2).
Proof. exact gen_order_irrelevant. Qed.
Print Assumptions order_irrelevant.

Example order_irrelevant_nonvacuous :
  Permutation [(kw_num_neighbors, VIndex 4); (kw_method, VMethod Isomap)]
              [(kw_method, VMethod Isomap); (kw_num_neighbors, VIndex 4)].
Proof. apply perm_swap. Qed.

(* ---- the cells of the statement, read as plain inequalities over Z / Q *)
Theorem target_dimension_in_1_N : forall r z,
  effective r kw_target_dimension = Some (VIndex z) ->
  (violated r (CRange [] cell_target_dimension) = false <-> (1 <= z < rq_n r)%Z).
Proof. exact target_dimension_cell. Qed.
Print Assumptions target_dimension_in_1_N.

Theorem num_neighbors_in_3_N : forall r gs z,
  effective r kw_num_neighbors = Some (VIndex z) -> forallb (spec_guard r) gs = true ->
  (violated r (CRange gs cell_num_neighbors) = false <-> (3 <= z < rq_n r)%Z).
Proof. exact num_neighbors_cell. Qed.
Print Assumptions num_neighbors_in_3_N.

Theorem landmark_ratio_in_3overN_1 : forall r q,
  effective r kw_landmark_ratio = Some (VScalar q) ->
  (violated r (CRange [] cell_landmark_ratio) = false <-> (3 / inject_Z (rq_n r) <= q /\ q <= 1)%Q).
Proof. exact landmark_ratio_cell. Qed.
Print Assumptions landmark_ratio_in_3overN_1.

Theorem perplexity_in_0_Nminus1over3 : forall r q,
  effective r kw_sne_perplexity = Some (VScalar q) ->
  (violated r (CRange [] cell_perplexity) = false <-> (0 <= q /\ q <= (inject_Z (rq_n r) - 1) / 3)%Q).
Proof. exact perplexity_cell. Qed.
Print Assumptions perplexity_in_0_Nminus1over3.

Theorem squishing_rate_in_0_1 : forall r q,
  effective r kw_squishing_rate = Some (VScalar q) ->
  (violated r (CRange [] cell_squishing) = false <-> (0 <= q /\ q < 1)%Q).
Proof. exact squishing_cell. Qed.
Print Assumptions squishing_rate_in_0_1.

(* ranges added by repairs F21 (target_dimension against the feature dimension, the number of
   neighbours, the number of landmarks) and F12 (Barnes-Hut t-SNE needs a two-dimensional map) *)
Theorem target_dimension_le_feature_dimension : forall r z,
  effective r kw_target_dimension = Some (VIndex z) ->
  (violated r (CRange [] cell_td_features) = false <-> (1 <= z <= cur_dim r)%Z).
Proof. exact td_features_cell. Qed.
Print Assumptions target_dimension_le_feature_dimension.

Theorem target_dimension_le_num_neighbors : forall r z k,
  effective r kw_target_dimension = Some (VIndex z) ->
  effective r kw_num_neighbors = Some (VIndex k) ->
  (violated r (CRange [] cell_td_neighbors) = false <-> (1 <= z <= k)%Z).
Proof. exact td_neighbors_cell. Qed.
Print Assumptions target_dimension_le_num_neighbors.

Theorem target_dimension_le_num_landmarks : forall r z q,
  effective r kw_target_dimension = Some (VIndex z) ->
  effective r kw_landmark_ratio = Some (VScalar q) ->
  (violated r (CRange [] cell_td_landmarks) = false <->
   (1 <= z <= Qtrunc (inject_Z (rq_n r) * q))%Z).
Proof. exact td_landmarks_cell. Qed.
Print Assumptions target_dimension_le_num_landmarks.

Theorem barnes_hut_needs_two_dimensions : forall r z th,
  effective r kw_target_dimension = Some (VIndex z) ->
  effective r kw_sne_theta = Some (VScalar th) ->
  (violated r (CRange [theta_positive] cell_td_two) = false <-> ((0 < th)%Q -> z = 2%Z)).
Proof. exact td_two_cell. Qed.
Print Assumptions barnes_hut_needs_two_dimensions.

Theorem positive_cells : forall r c v x,
  c_pred c = positive -> effective r (c_kw c) = Some v -> value_Q v = Some x ->
  (violated r (CRange [] c) = false <-> (0 < x)%Q).
Proof. exact positive_cell. Qed.
Print Assumptions positive_cells.

Theorem non_negative_cells : forall r c v x,
  c_pred c = non_negative -> effective r (c_kw c) = Some v -> value_Q v = Some x ->
  (violated r (CRange [] c) = false <-> (0 <= x)%Q).
Proof. exact non_negative_cell. Qed.
Print Assumptions non_negative_cells.

Example cells_nonvacuous :
  effective isomap_at_lower_bounds kw_target_dimension = Some (VIndex 1) /\
  effective isomap_at_lower_bounds kw_num_neighbors = Some (VIndex 3) /\
  effective isomap_at_lower_bounds kw_landmark_ratio = Some (VScalar (1 # 2)) /\
  effective isomap_at_lower_bounds kw_sne_perplexity = Some (VScalar 30) /\
  effective isomap_at_lower_bounds kw_squishing_rate = Some (VScalar dbl_0_99) /\
  effective isomap_at_lower_bounds kw_sne_theta = Some (VScalar (1 # 2)) /\
  c_pred cell_width = positive /\ c_pred cell_theta = non_negative.
Proof. vm_compute. repeat split; reflexivity. Qed.

(* ---- the two bounds the C++ computes in double arithmetic: 3.0 / N and (N - 1) / 3.0.
        For every N up to 65536 the binary64 quotient (Coq primitive floats) is within one unit in
        the last place of the exact rational bound of the model, and equal to it when the exact
        bound is a double. *)
Theorem computed_bounds_binary64 : forall n, (1 <= n <= 65536)%Z ->
  float_bound_ok (BDiv (BReal 3) BN) n = true /\
  float_bound_ok (BDiv (BSub BN (BInt 1)) (BReal 3)) n = true.
Proof. exact float_bounds_ok_65536. Qed.
Print Assumptions computed_bounds_binary64.

Example computed_bounds_nonvacuous : (1 <= 7 <= 65536)%Z.
Proof. split; discriminate. Qed.

(* ---- int(N * landmark_ratio) of repair F21: the binary64 product, truncated, equals the exact count
        of the model for every N <= 256 and every ratio k/256 (the harness generates multiples of 1/64) *)
Theorem landmark_count_binary64 : forall n k, (0 <= n <= 256)%Z -> (0 <= k <= 256)%Z ->
  landmarks_ok n k = true.
Proof. exact landmarks_ok_256. Qed.
Print Assumptions landmark_count_binary64.

Example landmark_count_nonvacuous : (0 <= 10 <= 256)%Z /\ (0 <= 19 <= 256)%Z.
Proof. repeat split; discriminate. Qed.

(* ---- wave 3: the two computed bounds on the doubles that decide them.  f = the bound as the C++ computes it
        (fbound: Coq primitive floats), next_down f, next_up f.  For every N up to 65536: the exact bound of the model
        lies strictly between next_down f and next_up f, and the binary64 check classifies (next_down f, f, next_up f) as
        the exact check classifies (next_down f, exact bound, next_up f).  The expressions swept are the bounds of the
        documented cells (computed_bound_cells).  checks/c14.py prints float_table on every run and generates, for every
        N of the tier, the requests at the three points with these verdicts as the expected outcome. *)
Theorem computed_bound_cells :
  c_pred cell_landmark_ratio = in_closed_range ratio_bound (BReal 1) /\
  c_pred cell_perplexity = in_closed_range (BReal 0) perp_bound.
Proof. split; reflexivity. Qed.
Print Assumptions computed_bound_cells.

Theorem computed_bound_points_binary64 : forall n, (1 <= n <= 65536)%Z ->
  neighbours_ok ratio_bound n = true /\ neighbours_ok perp_bound n = true /\
  ratio_class_ok n = true /\ perp_class_ok n = true.
Proof. exact points_ok_65536. Qed.
Print Assumptions computed_bound_points_binary64.

Example computed_bound_points_nonvacuous : (1 <= 47 <= 65536)%Z.
Proof. split; discriminate. Qed.

(* the verdicts themselves: one ulp below 3.0/N rejected, 3.0/N and one ulp above accepted; one ulp below (N-1)/3.0 and
   (N-1)/3.0 accepted, one ulp above rejected *)
Theorem computed_bound_verdicts_binary64 : forall n, (4 <= n <= 65536)%Z ->
  ratio_verdicts n = (false, true, true) /\ perp_verdicts n = (true, true, false).
Proof. exact verdicts_65536. Qed.
Print Assumptions computed_bound_verdicts_binary64.

Example computed_bound_verdicts_nonvacuous : (4 <= 13 <= 65536)%Z.
Proof. split; discriminate. Qed.

(* regression (seeded change C14_3): checking the derived landmark count static_cast<IndexType>(N * ratio) in [3, N]
   instead of ratio >= 3.0/N is a different check: complete lists of the N <= 300 where it rejects the valid bound and
   where it accepts the invalid double just below the bound *)
Theorem count_formulation_rejects_valid_bound_refuted :
  filter count_rejects_the_bound (zrange 3 298) = [47; 94; 147; 173; 188; 294]%Z.
Proof. exact count_formulation_rejects_valid_bound. Qed.
Print Assumptions count_formulation_rejects_valid_bound_refuted.

Theorem count_formulation_accepts_invalid_ratio_refuted :
  filter count_accepts_below_the_bound (zrange 3 298) =
  [13; 26; 52; 59; 104; 109; 111; 118; 195; 205; 208; 217; 218; 222; 225; 231; 236]%Z.
Proof. exact count_formulation_accepts_invalid_ratio. Qed.
Print Assumptions count_formulation_accepts_invalid_ratio_refuted.

(* the shipped check accepts 3.0/N; the number of landmarks then selected is 2 or 3 (2 for N = 47, 94, ...) *)
Theorem landmark_count_at_bound_binary64 : forall n, (3 <= n <= 65536)%Z ->
  count_of n (fbound ratio_bound n) = 2%Z \/ count_of n (fbound ratio_bound n) = 3%Z.
Proof. exact count_at_bound_65536. Qed.
Print Assumptions landmark_count_at_bound_binary64.

Example landmark_count_at_bound_nonvacuous : (3 <= 47 <= 65536)%Z /\ count_of 47 (fbound ratio_bound 47) = 2%Z.
Proof. split; [split; discriminate | vm_compute; reflexivity]. Qed.

(* ---- wave 4: the state of a ParametersSet is map + duplicate record; gen_copying is what the translator reads from
   the copy constructor and operator= of stichwort::ParametersSet.  Every C++ route from the comma expression to
   embed() (copy construction, copy assignment into a fresh / previously used set, self-assignment, kwargs[], the
   chain interface, the receiver of merge()) delivers the duplicate record the expression built. *)
Theorem copy_construction_copies_both_members : forall o, copy_construct gen_copying o = o.
Proof. exact gen_copy_construct. Qed.
Print Assumptions copy_construction_copies_both_members.

Theorem assignment_copies_both_members : forall t o, assign gen_copying t o = o.
Proof. exact gen_assign. Qed.
Print Assumptions assignment_copies_both_members.

Theorem every_route_reports_duplicates : forall rt kws s,
  comma_expression gen_container kws = Some s ->
  exists q, arrives gen_container gen_copying rt s = Some q /\
            (run_check gen_container q = CThrown SwMultiple <-> nodupb (map fst kws) = false).
Proof. exact gen_route_reports_duplicates. Qed.
Print Assumptions every_route_reports_duplicates.

Example every_route_reports_duplicates_nonvacuous :
  exists s, comma_expression gen_container
              [(kw_num_neighbors, VIndex 4); (kw_num_neighbors, VIndex 5); (kw_method, VMethod Isomap)] = Some s.
Proof. eexists. reflexivity. Qed.

Theorem every_route_keeps_explicit_values : forall rt kws s k v,
  comma_expression gen_container kws = Some s -> pm_lookup k (ps_map s) = Some v ->
  exists q, arrives gen_container gen_copying rt s = Some q /\ pm_lookup k (ps_map q) = Some v.
Proof. exact gen_route_keeps_values. Qed.
Print Assumptions every_route_keeps_explicit_values.

Example every_route_keeps_explicit_values_nonvacuous :
  exists s, comma_expression gen_container [(kw_num_neighbors, VIndex 7)] = Some s /\
            pm_lookup kw_num_neighbors (ps_map s) = Some (VIndex 7).
Proof. eexists. split; reflexivity. Qed.

(* embed() on the set that arrives by a route without merge() is embed() on the expression: trace and outcome *)
Theorem every_merge_free_route_same_outcome : forall rt r,
  merge_free rt = true -> exec_via gen_container gen_copying rt gen_tables r = Some (exec gen_tables r).
Proof. exact gen_exec_via. Qed.
Print Assumptions every_merge_free_route_same_outcome.

Example every_merge_free_route_nonvacuous :
  merge_free (RtSelfAssign (RtAssign (ps_build used_with_duplicate) (RtChain (RtKwargs (RtCopy RtDirect))))) = true.
Proof. reflexivity. Qed.

(* the routes harness/c14.cpp drives (route_of_id: same numbering) are merge-free, except number 8 (merge receiver) *)
Theorem harness_routes_merge_free : forall id self rt,
  route_of_id id self = Some rt -> id <> 8%nat -> merge_free rt = true.
Proof. exact gen_harness_routes_merge_free. Qed.
Print Assumptions harness_routes_merge_free.

Example harness_routes_nonvacuous : route_of_id 4 [] = Some (RtAssign (ps_build used_with_duplicate) RtDirect) /\ 4%nat <> 8%nat.
Proof. split; [reflexivity | discriminate]. Qed.

(* regression (seeded change C14_4): operator= as copy-and-swap that exchanges only the map *)
Theorem assignment_forgetting_duplicates_refuted :
  nodupb (map fst dup_expr) = false /\
  exists q, arrives gen_container swap_map_only (RtAssign ps_empty RtDirect) (ps_build dup_expr) = Some q /\
            run_check gen_container q = CNormal q.
Proof. exact swap_map_only_loses_duplicates. Qed.
Print Assumptions assignment_forgetting_duplicates_refuted.

Theorem assignment_keeping_stale_duplicates_refuted :
  nodupb (map fst valid_expr) = true /\
  exists q, arrives gen_container swap_map_only (RtAssign (ps_build used_with_duplicate) RtDirect)
                    (ps_build valid_expr) = Some q /\
            run_check gen_container q = CThrown SwMultiple.
Proof. exact swap_map_only_keeps_stale_duplicates. Qed.
Print Assumptions assignment_keeping_stale_duplicates_refuted.

(* ---- regression: the stage order of the tree before repair F27 (no checkTypes) *)
Theorem old_code_documented_when_well_typed : forall r, well_typed r ->
  exec (old_of gen_tables) r = exec gen_tables r.
Proof. exact gen_old_same_when_well_typed. Qed.
Print Assumptions old_code_documented_when_well_typed.

Example old_code_well_typed_nonvacuous : well_typed isomap_at_lower_bounds.
Proof. vm_compute. reflexivity. Qed.

Theorem old_code_wrong_type_late_refuted :
  spec_outcome witness_late = Some WrongType /\
  decide (old_of gen_tables) witness_late = RThrow WrongType /\
  evaluates (old_of gen_tables) witness_late = true.
Proof. exact old_wrong_type_late_refuted. Qed.
Print Assumptions old_code_wrong_type_late_refuted.

Theorem old_code_wrong_type_never_refuted :
  spec_outcome witness_never = Some WrongType /\
  outcome_of (decide (old_of gen_tables) witness_never) = None.
Proof. exact old_wrong_type_never_refuted. Qed.
Print Assumptions old_code_wrong_type_never_refuted.

Theorem repaired_code_on_the_witnesses :
  decide gen_tables witness_late = RThrow WrongType /\ evaluates gen_tables witness_late = false /\
  decide gen_tables witness_never = RThrow WrongType.
Proof. exact repaired_on_witnesses. Qed.
Print Assumptions repaired_code_on_the_witnesses.
