(* CoverTree_Refuted.v — regression theorem for defect F25 (fixed in /repo 5328e38): before the fix
   batch_insert gave a node of coincident samples the fixed scale 100 even below a parent of scale
   101 or more.  On the tree the OLD code built for the 1-D samples 0, 1, 1, 2^38 (dumped from the
   reverted source) the model of the batch query reproduces the wrong answer of the real query
   exactly: the coincident samples 1 and 2 are candidates of no query.  ct_inv_b rejects that tree
   (child scale not above the parent's), and accepts the tree the repaired code builds, on which the
   query is complete. *)
From Coq Require Import List ZArith Bool.
From TK Require Import Knn_Spec Knn_CoverSel_Model CoverTree_Model.
Import ListNotations.
Local Open Scope Z_scope.

Definition f25_pos (i : Z) : Z := if i =? 0 then 0 else if i =? 3 then 274877906944 else 1.
Definition f25_d : dist := fun i j => Z.abs (f25_pos i - f25_pos j).

Definition f25_old_tree : ctree :=
  CN 0 274877906944 0 0
     [CN 0 1 0 101 [CN 0 0 0 100 []; CN 2 0 1 100 [CN 2 0 0 100 []; CN 1 0 0 100 []]];
      CN 3 0 274877906944 100 []].

Definition f25_new_tree : ctree :=
  CN 0 274877906944 0 0
     [CN 0 1 0 101 [CN 0 0 0 100 []; CN 2 0 1 102 [CN 2 0 0 100 []; CN 1 0 0 100 []]];
      CN 3 0 274877906944 100 []].

Lemma ct_scale100_refuted_lemma :
  metric_b f25_d 4 = true /\
  ct_holds_b 4 f25_old_tree = true /\ ct_inv_b f25_d f25_old_tree = false /\
  ct_query true f25_d 2 no_audit (ct_fuel f25_old_tree) f25_old_tree
    = Some ([(3, [3]); (2, [0]); (1, [0]); (0, [0])], true) /\
  ct_inv_b f25_d f25_new_tree = true /\
  ct_query false f25_d 2 (valid_b f25_d (leaf_points f25_new_tree) 2) (ct_fuel f25_new_tree) f25_new_tree
    = Some ([(3, [3; 2; 1]); (1, [2; 1]); (2, [2; 1]); (0, [0; 2; 1])], true).
Proof. vm_compute. repeat split; reflexivity. Qed.

(* Regression theorem for defect F46 (found by agent c02b with a structured hunt; upstream bug of the batch query):
   copy_zero_set / copy_cover_sets pruned with upper_bound[0] + ONE query_chi->max_dist where descend uses two.
   Eleven points in the plane under the L1 metric (an exact integer metric); f46_tree is the tree the real
   batch_create builds for them (dumped by harness/c02.cpp; it satisfies every checked invariant).  On it the
   model of the OLD query (oc = true), called with internal_k = 3, returns for sample 4 = (37,21) the candidate list
   [6;2;0;10;4] - exactly what the real k_nearest_neighbor returned - which misses sample 7 = (38,41), the second
   nearest other sample (distance 21; sample 0 at distance 22 is returned instead): the list is not complete and
   the selected row is not a k-nearest set, although the bound was valid at every read (audit flag true).  The
   repaired query (oc = false) returns complete lists for every sample of the same tree. *)
Definition f46_xs : list Z := [44; 98; 49; 96; 37; 69; 58; 38; 33; 6; 43].
Definition f46_ys : list Z := [6; 12; 31; 8; 21; 45; 22; 41; 42; 32; 21].
Definition f46_d : dist := fun i j =>
  Z.abs (nth (Z.to_nat i) f46_xs 0 - nth (Z.to_nat j) f46_xs 0) +
  Z.abs (nth (Z.to_nat i) f46_ys 0 - nth (Z.to_nat j) f46_ys 0).
Definition f46_tree : ctree :=
  CN 0 64 0 0 [
    CN 0 64 0 1 [
      CN 0 30 0 3 [
        CN 0 22 0 5 [CN 0 0 0 100 []; CN 10 6 16 9 [CN 10 0 0 100 []; CN 4 0 6 100 []]];
        CN 6 18 30 4 [CN 6 0 0 100 []; CN 2 0 18 100 []]];
      CN 8 39 47 2 [CN 8 6 0 9 [CN 8 0 0 100 []; CN 7 0 6 100 []]; CN 9 0 37 100 []; CN 5 0 39 100 []]];
    CN 3 6 54 9 [CN 3 0 0 100 []; CN 1 0 6 100 []]].

Definition all_rows_complete (d : dist) (N k : nat) (res : option (list row * bool)) : bool :=
  match res with
  | Some (rows, true) => forallb (fun r => cand_complete_b d N (fst r) k (snd r)) rows
  | _ => false
  end.

Lemma ct_copy_radius_refuted_lemma :
  metric_b f46_d 11 = true /\ ct_inv_b f46_d f46_tree = true /\ ct_holds_b 11 f46_tree = true /\
  leaf100_b f46_tree = true /\
  (exists rows, ct_query true f46_d 3 (valid_b f46_d (leaf_points f46_tree) 3) (ct_fuel f46_tree) f46_tree
                = Some (rows, true) /\ In (4, [6; 2; 0; 10; 4]) rows) /\
  cand_complete_b f46_d 11 4 2 [6; 2; 0; 10; 4] = false /\
  ct_select_fixed f46_d (4 :: [6; 2; 0; 10; 4]) 2 = Some [10; 0] /\
  is_knn_b f46_d 11 4 2 [10; 0] = false /\ is_knn_b f46_d 11 4 2 [10; 7] = true /\
  all_rows_complete f46_d 11 2
    (ct_query false f46_d 3 (valid_b f46_d (leaf_points f46_tree) 3) (ct_fuel f46_tree) f46_tree) = true.
Proof.
  split; [vm_compute; reflexivity|]. split; [vm_compute; reflexivity|]. split; [vm_compute; reflexivity|].
  split; [vm_compute; reflexivity|]. split.
  - eexists. split; [vm_compute; reflexivity|]. cbn [In]. tauto.
  - repeat split; vm_compute; reflexivity.
Qed.
