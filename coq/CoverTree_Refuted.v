(* CoverTree_Refuted.v — regression theorem for defect F25 (fixed in /repo 5328e38): before the fix
   batch_insert gave a node of coincident samples the fixed scale 100 even below a parent of scale
   101 or more.  On the tree the OLD code built for the 1-D samples 0, 1, 1, 2^38 (dumped from the
   reverted source) the model of the batch query reproduces the wrong answer of the real query
   exactly: the coincident samples 1 and 2 are candidates of no query.  ct_inv_b rejects that tree
   (child scale not above the parent's), and accepts the tree the repaired code builds, on which the
   query is complete. *)
From Coq Require Import List ZArith Bool.
From TK Require Import Knn_Spec CoverTree_Model.
Import ListNotations.
Local Open Scope Z_scope.

Definition f25_pos (i : Z) : Z := if i =? 0 then 0 else if i =? 3 then 274877906944 else 1.
Definition f25_d : dist := fun i j => Z.abs (f25_pos i - f25_pos j).

Definition f25_old_tree : ctree :=
  CN 0 274877906944 0 0
     [CN 0 1 0 101 [CN 0 0 0 100 []; CN 2 0 1 100 [CN 2 0 0 100 []; CN 1 0 0 100 []]];
      CN 3 0 274877906944 100 []].

Definition f25_new_tree : ctree :=
  CN 0 274877906944 0 0
     [CN 0 1 0 101 [CN 0 0 0 100 []; CN 2 0 1 102 [CN 2 0 0 100 []; CN 1 0 0 100 []]];
      CN 3 0 274877906944 100 []].

Lemma ct_scale100_refuted_lemma :
  metric_b f25_d 4 = true /\
  ct_holds_b 4 f25_old_tree = true /\ ct_inv_b f25_d f25_old_tree = false /\
  ct_query f25_d 2 no_audit (ct_fuel f25_old_tree) f25_old_tree
    = Some ([(3, [3]); (2, [0]); (1, [0]); (0, [0])], true) /\
  ct_inv_b f25_d f25_new_tree = true /\
  ct_query f25_d 2 (valid_b f25_d (leaf_points f25_new_tree) 2) (ct_fuel f25_new_tree) f25_new_tree
    = Some ([(3, [3; 2; 1]); (1, [2; 1]); (2, [2; 1]); (0, [0; 2; 1])], true).
Proof. vm_compute. repeat split; reflexivity. Qed.
