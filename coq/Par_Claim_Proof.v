(* Par_Claim_Proof.v — property C15, wave 4: when is "claim under the lock, fill in place after it" safe?
   - claim_fill_reserved: if the capacity covers every claim that will ever be made (b * number of claims <= cap),
     then under EVERY order of claims and fills no claim reallocates: no iteration is ever in flight during a
     reallocation, no fill goes through a dangling handle, every filled block is live;
   - claim_fill_capped_refuted: if the capacity is capped below the final size (cap < b * n), then in the schedule
     "iteration 0 claims and is slow, the others complete, iteration 0 fills" — two threads are enough — iteration 0
     is in flight during a reallocation (the race), fills through a handle of a dead generation (use after free) and
     its block never reaches the live container (lost elements); for EVERY b >= 1, n >= 2, b <= cap < b * n.
   - claim_serial_ok: the single-threaded order never shows anything, whatever the capacity. *)
From Coq Require Import Arith List Bool Lia.
Import ListNotations.
From TK Require Import Par_Claim_Model.

(* ------------------------------------------------------------------ the container alone *)
Lemma claim_size : forall b v, v_size (fst (claim b v)) = v_size v + b.
Proof. intros b v. unfold claim. destruct (v_size v + b <=? v_cap v); reflexivity. Qed.

Lemma claim_gen_le : forall b v, v_gen v <= v_gen (fst (claim b v)).
Proof. intros b v. unfold claim. destruct (v_size v + b <=? v_cap v); cbn; lia. Qed.

Lemma claim_fits : forall b v, v_size (fst (claim b v)) <= v_cap (fst (claim b v)).
Proof.
  intros b v. unfold claim. destruct (v_size v + b <=? v_cap v) eqn:E; cbn.
  - apply Nat.leb_le in E. exact E.
  - lia.
Qed.

Lemma claim_same_gen : forall b v, v_gen (fst (claim b v)) = v_gen v ->
  v_cap (fst (claim b v)) = v_cap v /\ reallocates b v = false.
Proof.
  intros b v. unfold claim, reallocates. destruct (v_size v + b <=? v_cap v); cbn; intros H.
  - split; reflexivity.
  - lia.
Qed.

Lemma claim_handle : forall b v, reallocates b v = false -> snd (claim b v) = (v_gen v, v_size v).
Proof.
  intros b v. unfold claim, reallocates. destruct (v_size v + b <=? v_cap v); cbn; intros H; [reflexivity|discriminate].
Qed.

Lemma claims_size : forall b k v, v_size (claims b k v) = v_size v + b * k.
Proof.
  intros b k. induction k as [|k IH]; intros v; cbn [claims].
  - lia.
  - rewrite IH, claim_size. lia.
Qed.

Lemma claims_gen_le : forall b k v, v_gen v <= v_gen (claims b k v).
Proof.
  intros b k. induction k as [|k IH]; intros v; cbn [claims].
  - lia.
  - specialize (IH (fst (claim b v))). pose proof (claim_gen_le b v). lia.
Qed.

Lemma claims_fits : forall b k v, v_size v <= v_cap v -> v_size (claims b k v) <= v_cap (claims b k v).
Proof.
  intros b k. induction k as [|k IH]; intros v Hv; cbn [claims].
  - exact Hv.
  - apply IH. apply claim_fits.
Qed.

Lemma claims_same_gen_cap : forall b k v, v_gen (claims b k v) = v_gen v -> v_cap (claims b k v) = v_cap v.
Proof.
  intros b k. induction k as [|k IH]; intros v H; cbn [claims] in *.
  - reflexivity.
  - pose proof (claims_gen_le b k (fst (claim b v))) as H1. pose proof (claim_gen_le b v) as H2.
    assert (Hg : v_gen (fst (claim b v)) = v_gen v) by lia.
    destruct (claim_same_gen b v Hg) as [Hc _]. rewrite <- Hc. apply IH. lia.
Qed.

(* a capacity below the final size forces a reallocation, whatever the order *)
Lemma claims_capped_realloc : forall b k v, v_size v <= v_cap v -> v_cap v < v_size v + b * k ->
  v_gen v < v_gen (claims b k v).
Proof.
  intros b k v Hv Hc. pose proof (claims_gen_le b k v) as Hle.
  destruct (Nat.eq_dec (v_gen (claims b k v)) (v_gen v)) as [E|E]; [|lia].
  pose proof (claims_same_gen_cap b k v E) as Hcap. pose proof (claims_fits b k v Hv) as Hf.
  rewrite claims_size, Hcap in Hf. lia.
Qed.

(* ------------------------------------------------------------------ the reserved case: every order is fine *)
Fixpoint count_claims (es : list event) : nat :=
  match es with [] => 0 | EClaim _ :: t => S (count_claims t) | EFill _ :: t => count_claims t end.

Definition handles_gen0 (h : list (nat * (nat * nat))) : Prop := forall i g o, lookup i h = Some (g, o) -> g = 0.

Lemma crun_reserved_inv : forall b cap es s,
  v_gen (c_vec s) = 0 -> v_cap (c_vec s) = cap -> v_size (c_vec s) + b * count_claims es <= cap ->
  c_raced s = [] -> c_dangling s = [] -> handles_gen0 (c_handles s) ->
  let s' := crun b es s in
  v_gen (c_vec s') = 0 /\ c_raced s' = [] /\ c_dangling s' = [] /\ handles_gen0 (c_handles s').
Proof.
  intros b cap es. induction es as [|e es IH]; intros s Hg Hc Hsz Hr Hd Hh; cbn [crun fold_left].
  - auto.
  - destruct e as [i|i]; cbn [count_claims] in Hsz.
    + assert (Hfit : reallocates b (c_vec s) = false).
      { unfold reallocates. apply negb_false_iff. apply Nat.leb_le. lia. }
      pose proof (claim_handle b (c_vec s) Hfit) as Hhd.
      assert (Hv' : fst (claim b (c_vec s)) = mkVec (v_gen (c_vec s)) (v_cap (c_vec s)) (v_size (c_vec s) + b)).
      { unfold claim. unfold reallocates in Hfit. apply negb_false_iff in Hfit. rewrite Hfit. reflexivity. }
      apply IH; cbn [cstep]; destruct (claim b (c_vec s)) as [v' h] eqn:Ecl; cbn [fst snd] in *; subst v' h; cbn.
      * exact Hg.
      * exact Hc.
      * lia.
      * rewrite Hfit. exact Hr.
      * exact Hd.
      * intros j g o. cbn [lookup]. destruct (Nat.eqb j i).
        -- intros E. inversion E. exact Hg.
        -- apply Hh.
    + apply IH; cbn [cstep]; destruct (lookup i (c_handles s)) as [[g o]|] eqn:El; auto.
      all: try (pose proof (Hh i g o El) as G0; subst g; rewrite Hg; cbn; auto).
Qed.

Theorem claim_fill_reserved : forall b cap es, b * count_claims es <= cap ->
  let s := crun b es (cinit cap) in
  v_gen (c_vec s) = 0 /\ c_raced s = [] /\ c_dangling s = [].
Proof.
  intros b cap es H.
  destruct (crun_reserved_inv b cap es (cinit cap)) as (A & B & C & _); cbn; auto.
  intros i g o E. cbn in E. discriminate.
Qed.

(* ------------------------------------------------------------------ the capped case: two threads are enough *)
Lemma remove_nat_keeps : forall i j l, i <> j -> In j l -> In j (remove_nat i l).
Proof.
  intros i j l Hne Hin. unfold remove_nat. apply filter_In. split; [exact Hin|].
  apply negb_true_iff. apply Nat.eqb_neq. exact Hne.
Qed.

Lemma crun_app : forall b es1 es2 s, crun b (es1 ++ es2) s = crun b es2 (crun b es1 s).
Proof. intros. unfold crun. apply fold_left_app. Qed.

(* the other thread runs the iterations of l to completion while iteration z stays in flight *)
Lemma others_complete : forall b z g0 o0 l s,
  ~ In z l -> lookup z (c_handles s) = Some (g0, o0) -> In z (c_inflight s) ->
  let s' := crun b (flat_map (fun i => [EClaim i; EFill i]) l) s in
  c_vec s' = claims b (length l) (c_vec s) /\
  lookup z (c_handles s') = Some (g0, o0) /\ In z (c_inflight s') /\
  (In z (c_live s') -> In z (c_live s)) /\
  (In z (c_raced s) \/ v_gen (c_vec s) < v_gen (c_vec s') -> In z (c_raced s')).
Proof.
  intros b z g0 o0 l. induction l as [|i l IH]; intros s Hnz Hl Hin.
  - cbn. repeat split; auto. intros [H|H]; [exact H|lia].
  - assert (Hiz : i <> z) by (intros E; apply Hnz; left; exact E).
    assert (Hnz' : ~ In z l) by (intros E; apply Hnz; right; exact E).
    (* the state after EClaim i; EFill i *)
    set (s1 := cstep b (EClaim i) s).
    set (s2 := cstep b (EFill i) s1).
    assert (Hv1 : c_vec s1 = fst (claim b (c_vec s))).
    { unfold s1. cbn [cstep]. destruct (claim b (c_vec s)); reflexivity. }
    assert (Hh1 : c_handles s1 = (i, snd (claim b (c_vec s))) :: c_handles s).
    { unfold s1. cbn [cstep]. destruct (claim b (c_vec s)); reflexivity. }
    assert (Hi1 : c_inflight s1 = i :: c_inflight s).
    { unfold s1. cbn [cstep]. destruct (claim b (c_vec s)); reflexivity. }
    assert (Hr1 : c_raced s1 = if reallocates b (c_vec s) then c_inflight s ++ c_raced s else c_raced s).
    { unfold s1. cbn [cstep]. destruct (claim b (c_vec s)); reflexivity. }
    assert (Hl1 : c_live s1 = c_live s).
    { unfold s1. cbn [cstep]. destruct (claim b (c_vec s)); reflexivity. }
    assert (Hlk : lookup i (c_handles s1) = Some (snd (claim b (c_vec s)))).
    { rewrite Hh1. cbn [lookup]. rewrite Nat.eqb_refl. reflexivity. }
    assert (H2 : c_vec s2 = c_vec s1 /\ c_handles s2 = c_handles s1 /\ c_inflight s2 = remove_nat i (c_inflight s1) /\
                 c_raced s2 = c_raced s1 /\ (In z (c_live s2) -> In z (c_live s1))).
    { unfold s2. cbn [cstep]. rewrite Hlk. destruct (snd (claim b (c_vec s))) as [g o].
      destruct (Nat.eqb g (v_gen (c_vec s1))); cbn; repeat split; auto.
      intros [E|E]; [exfalso; exact (Hiz E)|exact E]. }
    destruct H2 as (Hv2 & Hh2 & Hi2 & Hr2 & Hl2).
    assert (Hlz2 : lookup z (c_handles s2) = Some (g0, o0)).
    { rewrite Hh2, Hh1. cbn [lookup]. destruct (Nat.eqb z i) eqn:E; [apply Nat.eqb_eq in E; exfalso; apply Hiz; auto|exact Hl]. }
    assert (Hin2 : In z (c_inflight s2)).
    { rewrite Hi2, Hi1. apply remove_nat_keeps; [exact Hiz|right; exact Hin]. }
    specialize (IH s2 Hnz' Hlz2 Hin2). cbn zeta in IH.
    cbn zeta. cbn [flat_map length claims].
    change ([EClaim i; EFill i] ++ flat_map (fun i0 => [EClaim i0; EFill i0]) l)
      with ([EClaim i; EFill i] ++ flat_map (fun i0 => [EClaim i0; EFill i0]) l).
    rewrite crun_app.
    replace (crun b [EClaim i; EFill i] s) with s2 by reflexivity.
    destruct IH as (A & B & C & D & E).
    repeat split.
    + rewrite A, Hv2, Hv1. reflexivity.
    + exact B.
    + exact C.
    + intros H. apply D in H. apply Hl2 in H. rewrite Hl1 in H. exact H.
    + intros H. apply E.
      destruct (reallocates b (c_vec s)) eqn:Er.
      * left. rewrite Hr2, Hr1, ?Er. apply in_or_app. left. exact Hin.
      * destruct H as [H|H].
        -- left. rewrite Hr2, Hr1, ?Er. exact H.
        -- right. rewrite Hv2, Hv1.
           assert (Hsame : v_gen (fst (claim b (c_vec s))) = v_gen (c_vec s)).
           { unfold claim. unfold reallocates in Er. apply negb_false_iff in Er. rewrite Er. reflexivity. }
           rewrite Hsame. exact H.
Qed.

Theorem claim_fill_capped_refuted : forall b n cap, 1 <= b -> 2 <= n -> b <= cap -> cap < b * n ->
  let s := crun b (slow_first n) (cinit cap) in
  In 0 (c_raced s) /\ In 0 (c_dangling s) /\ ~ In 0 (c_live s).
Proof.
  intros b n cap Hb Hn Hfit Hcap. unfold slow_first.
  change (EClaim 0 :: flat_map (fun i => [EClaim i; EFill i]) (seq 1 (n - 1)) ++ [EFill 0])
    with ([EClaim 0] ++ (flat_map (fun i => [EClaim i; EFill i]) (seq 1 (n - 1)) ++ [EFill 0])).
  cbn zeta. rewrite crun_app, crun_app.
  set (s1 := crun b [EClaim 0] (cinit cap)).
  assert (Hs1 : s1 = mkC (mkVec 0 cap b) [(0, (0, 0))] [0] [] [] []).
  { unfold s1, crun, cinit. cbn [fold_left cstep c_vec]. unfold claim, reallocates. cbn [v_size v_cap v_gen].
    assert (E : 0 + b <=? cap = true) by (apply Nat.leb_le; lia). rewrite E. cbn. reflexivity. }
  assert (Hnz : ~ In 0 (seq 1 (n - 1))) by (intros H; apply in_seq in H; lia).
  assert (Hl : lookup 0 (c_handles s1) = Some (0, 0)) by (rewrite Hs1; reflexivity).
  assert (Hin : In 0 (c_inflight s1)) by (rewrite Hs1; left; reflexivity).
  pose proof (others_complete b 0 0 0 (seq 1 (n - 1)) s1 Hnz Hl Hin) as H. cbn zeta in H.
  set (s2 := crun b (flat_map (fun i => [EClaim i; EFill i]) (seq 1 (n - 1))) s1) in *.
  destruct H as (A & B & C & D & E).
  assert (Hgen : 0 < v_gen (c_vec s2)).
  { rewrite A, seq_length. replace (c_vec s1) with (mkVec 0 cap b) by (rewrite Hs1; reflexivity).
    pose proof (claims_capped_realloc b (n - 1) (mkVec 0 cap b)) as G. cbn [v_size v_cap v_gen] in G.
    apply G; [lia|]. replace (b + b * (n - 1)) with (b * n) by nia. exact Hcap. }
  assert (Hraced : In 0 (c_raced s2)).
  { apply E. right. replace (v_gen (c_vec s1)) with 0 by (rewrite Hs1; reflexivity). exact Hgen. }
  assert (Hnl : ~ In 0 (c_live s2)).
  { intros H. apply D in H. rewrite Hs1 in H. exact H. }
  assert (Hlast : crun b [EFill 0] s2 =
                  mkC (c_vec s2) (c_handles s2) (remove_nat 0 (c_inflight s2)) (c_raced s2) (0 :: c_dangling s2) (c_live s2)).
  { unfold crun. cbn [fold_left cstep]. rewrite B.
    destruct (Nat.eqb 0 (v_gen (c_vec s2))) eqn:Eg; [apply Nat.eqb_eq in Eg; lia|reflexivity]. }
  rewrite Hlast. cbn [c_raced c_dangling c_live]. split; [exact Hraced|]. split; [left; reflexivity|exact Hnl].
Qed.

(* ------------------------------------------------------------------ the single-threaded order shows nothing *)
Lemma serial_inv : forall b l s, c_inflight s = [] -> c_raced s = [] -> c_dangling s = [] ->
  let s' := crun b (flat_map (fun i => [EClaim i; EFill i]) l) s in
  c_inflight s' = [] /\ c_raced s' = [] /\ c_dangling s' = [].
Proof.
  intros b l. induction l as [|i l IH]; intros s Hi Hr Hd; cbn [flat_map crun fold_left app].
  - auto.
  - apply IH; cbn [cstep]; destruct (claim b (c_vec s)) as [v' [g o]] eqn:Ecl; cbn [c_handles lookup c_vec];
      rewrite Nat.eqb_refl;
      assert (Hg : g = v_gen v') by
        (unfold claim in Ecl; destruct (v_size (c_vec s) + b <=? v_cap (c_vec s)); inversion Ecl; reflexivity);
      subst g; rewrite Nat.eqb_refl; cbn; rewrite ?Hi, ?Hr, ?Hd; cbn; rewrite ?Nat.eqb_refl; cbn;
      try reflexivity; destruct (reallocates b (c_vec s)); reflexivity.
Qed.

Theorem claim_serial_ok : forall b n cap,
  let s := crun b (serial n) (cinit cap) in c_raced s = [] /\ c_dangling s = [].
Proof.
  intros b n cap. destruct (serial_inv b (seq 0 n) (cinit cap)) as (_ & A & B); auto.
Qed.

(* concrete instances (vm_compute): the numbers of the seeded change scaled down — blocks of 2, capacity 4, 3 iterations *)
Example claim_capped_example :
  let s := crun 2 (slow_first 3) (cinit 4) in
  c_raced s = [0] /\ c_dangling s = [0] /\ c_live s = [2; 1] /\ v_gen (c_vec s) = 1.
Proof. vm_compute. repeat split. Qed.

Example claim_reserved_example :
  let s := crun 2 (slow_first 3) (cinit 6) in
  c_raced s = [] /\ c_dangling s = [] /\ c_live s = [0; 2; 1] /\ v_gen (c_vec s) = 0.
Proof. vm_compute. repeat split. Qed.
