(* ====================================================================== *)
(*  Equiv_Proof_Spectral.v — C12: from the matrix handed to the eigen      *)
(*  oracle to the returned embedding.  The oracle is NOT assumed to be     *)
(*  equivariant: each theorem transports a valid ANSWER of the original    *)
(*  problem to a valid answer of the transformed problem and relates the   *)
(*  two embeddings.                                                        *)
(* ====================================================================== *)
Require Import Field Ring Arith Lia List Bool.
From TK Require Import Mat_Sums Mat_Core Equiv_Model Equiv_Spec Equiv_Proof_Perm Equiv_Proof_Rigid.
Import ListNotations.

Section Spectral.
  Context {F : Type} {Fo : FieldOps F} {Ff : IsField F}.
  Add Field EquivSpectralField : (@Fth F Fo Ff).
  Local Open Scope F_scope.

  Lemma fdiv_def (x y : F) : x / y = x * / y.
  Proof. apply (Fdiv_def Fth). Qed.

  (* ================================================================== *)
  (* the answer set only depends on the box                              *)
  (* ================================================================== *)
  Lemma eig_answer_meq n d G G' V lam :
    meq n n G' G -> eig_answer n d G V lam -> eig_answer n d G' V lam.
  Proof.
    intros HG (Hev & Hon). split; [|exact Hon].
    intros i c Hi Hc. rewrite <- (Hev i c Hi Hc). apply mmul_ext_l.
    intros t Ht. apply HG; assumption.
  Qed.

  (* ================================================================== *)
  (* scale: G' = k G  has the answer (V, k lam)                          *)
  (* ================================================================== *)
  Theorem eig_answer_scale n d k G G' V lam :
    meq n n G' (mscale k G) ->
    eig_answer n d G V lam -> eig_answer n d G' V (fun c => k * lam c).
  Proof.
    intros HG (Hev & Hon). split; [|exact Hon].
    intros i c Hi Hc.
    rewrite (mmul_ext_l n G' (mscale k G) V i c) by (intros t Ht; apply HG; assumption).
    rewrite mmul_mscale_l. rewrite (Hev i c Hi Hc). ring.
  Qed.

  (* MDS / Isomap / linear KPCA:  the matrix scales by c^2, the embedding
     V * sqrt(lam) by c.  `s` and `s'` are the sqrt oracle's answers. *)
  Theorem spectral_embedding_scale n d c G G' V lam s :
    meq n n G' (mscale (c * c) G) ->
    eig_answer n d G V lam -> (forall k, k < d -> s k * s k = lam k) ->
    let lam' := fun k => c * c * lam k in
    let s' := fun k => c * s k in
    eig_answer n d G' V lam' /\
    (forall k, k < d -> s' k * s' k = lam' k) /\
    scaled_by n d c (scale_cols V s) (scale_cols V s').
  Proof.
    intros HG Ha Hs lam' s'. split; [|split].
    - eapply eig_answer_scale; eauto.
    - intros k Hk. unfold s', lam'. rewrite <- (Hs k Hk). ring.
    - intros i k Hi Hk. unfold scale_cols, s'. ring.
  Qed.

  (* if the embedding scales by c, all embedding distances scale by c (squared: c^2) *)
  Lemma scaled_by_distances n d c Y Y' i j :
    scaled_by n d c Y Y' -> i < n -> j < n ->
    emb_sq_dist d Y' i j = c * c * emb_sq_dist d Y i j.
  Proof.
    intros H Hi Hj. unfold emb_sq_dist. rewrite <- sumn_mul_l. apply sumn_ext. intros k Hk.
    rewrite !(H _ k) by assumption. ring.
  Qed.

  (* ================================================================== *)
  (* PCA under an orthogonal map                                         *)
  (* ================================================================== *)
  Theorem mean_vec_rotate n D R X a :
    mean_vec n (rotate D R X) a = rot_vec D R (mean_vec n X) a.
  Proof.
    unfold mean_vec, rotate, rot_vec. rewrite sumn_swap, fdiv_def, <- sumn_mul_r.
    apply sumn_ext. intros b _. rewrite fdiv_def, sumn_mul_l. ring.
  Qed.

  (* R C R^T, entry by entry *)
  Definition conj_R (D : nat) (R C : mat F) : mat F :=
    fun a a' => sumn D (fun b => sumn D (fun c => R a b * R a' c * C b c)).

  Lemma sum_prod_rotate n D R X a a' :
    sumn n (fun i => rotate D R X i a * rotate D R X i a') =
    conj_R D R (fun b c => sumn n (fun i => X i b * X i c)) a a'.
  Proof.
    unfold rotate, conj_R.
    rewrite (sumn_ext n _ (fun i => sumn D (fun b => sumn D (fun c =>
               (R a b * X i b) * (R a' c * X i c)))))
      by (intros i _; apply sumn_mul_sumn).
    rewrite sumn_swap. apply sumn_ext. intros b _.
    rewrite sumn_swap. apply sumn_ext. intros c _.
    rewrite <- sumn_mul_l. apply sumn_ext. intros i _. ring.
  Qed.

  Lemma conj_R_sub D R C C' a a' :
    conj_R D R (fun b c => C b c - C' b c) a a' = conj_R D R C a a' - conj_R D R C' a a'.
  Proof.
    unfold conj_R. rewrite <- sumn_sub. apply sumn_ext. intros b _.
    rewrite <- sumn_sub. apply sumn_ext. intros c _. ring.
  Qed.

  Lemma conj_R_div D R C k a a' :
    conj_R D R (fun b c => C b c / k) a a' = conj_R D R C a a' / k.
  Proof.
    unfold conj_R. rewrite fdiv_def, <- sumn_mul_r. apply sumn_ext. intros b _.
    rewrite <- sumn_mul_r. apply sumn_ext. intros c _. rewrite fdiv_def. ring.
  Qed.

  Lemma conj_R_outer D R u a a' :
    conj_R D R (fun b c => u b * u c) a a' = rot_vec D R u a * rot_vec D R u a'.
  Proof.
    unfold conj_R, rot_vec. rewrite sumn_mul_sumn. apply sumn_ext. intros b _.
    apply sumn_ext. intros c _. ring.
  Qed.

  (* cov(R X) = R cov(X) R^T *)
  Theorem cov_full_rotate n D R X a a' :
    cov_full n (rotate D R X) a a' = conj_R D R (cov_full n X) a a'.
  Proof.
    unfold cov_full. rewrite !mean_vec_rotate, sum_prod_rotate.
    rewrite conj_R_sub, conj_R_div, conj_R_outer. reflexivity.
  Qed.

  Lemma conj_R_mmul D R C a a' :
    conj_R D R C a a' = mmul D R (mmul D C (mtrans R)) a a'.
  Proof.
    unfold conj_R, mmul, mtrans. apply sumn_ext. intros b _.
    rewrite <- sumn_mul_l. apply sumn_ext. intros c _. ring.
  Qed.

  Lemma orthogonal_cancel D R M u k :
    orthogonal D R -> u < D -> mmul D (mtrans R) (mmul D R M) u k = M u k.
  Proof.
    intros Ho Hu. rewrite <- mmul_assoc.
    rewrite (mmul_ext_l D _ mI M u k) by (intros t Ht; apply Ho; assumption).
    apply mmul_I_l. exact Hu.
  Qed.

  (* answers of C are carried to answers of R C R^T by P -> R P *)
  Theorem eig_answer_rotate D d R C C' P lam :
    orthogonal D R -> meq D D C' (conj_R D R C) ->
    eig_answer D d C P lam -> eig_answer D d C' (mmul D R P) lam.
  Proof.
    intros Ho HC (Hev & Hon). split.
    - intros a k Ha Hk.
      rewrite (mmul_ext_l D C' (mmul D R (mmul D C (mtrans R))) _ a k)
        by (intros t Ht; rewrite (HC a t Ha Ht); apply conj_R_mmul).
      rewrite mmul_assoc.
      rewrite (mmul_ext_r D R _ (fun t k0 => P t k0 * lam k0) a k).
      + unfold mmul. rewrite <- sumn_mul_r. apply sumn_ext. intros t _. ring.
      + intros t Ht. rewrite mmul_assoc.
        rewrite (mmul_ext_r D C _ P t k)
          by (intros u Hu; apply orthogonal_cancel; assumption).
        apply Hev; assumption.
    - intros c c' Hc Hc'. rewrite <- (Hon c c' Hc Hc').
      unfold mmul at 1. unfold mtrans at 1.
      change (dot D (rot_vec D R (fun b => P b c)) (rot_vec D R (fun b => P b c'))
              = mmul D (mtrans P) P c c').
      rewrite dot_rot_vec by assumption. reflexivity.
  Qed.

  (* project() with the transported answer returns the SAME numbers *)
  Theorem project_rotate D R P m X i k :
    orthogonal D R ->
    project D (mmul D R P) (rot_vec D R m) (rotate D R X) i k = project D P m X i k.
  Proof.
    intros Ho. unfold project.
    change (sumn D (fun t => P t k * (X i t - m t)))
      with (dot D (fun t => P t k) (fun t => X i t - m t)).
    rewrite <- (dot_rot_vec D R _ _ Ho). unfold dot. apply sumn_ext. intros a _.
    rewrite rot_vec_sub. reflexivity.
  Qed.

  (* the whole PCA pipeline (on the repaired covariance, see F8 for the shipped one) *)
  Theorem pca_embedding_orthogonal n D d R X P lam :
    orthogonal D R -> eig_answer D d (cov_full n X) P lam ->
    eig_answer D d (cov_full n (rotate D R X)) (mmul D R P) lam /\
    forall i k, project D (mmul D R P) (mean_vec n (rotate D R X)) (rotate D R X) i k
                = project D P (mean_vec n X) X i k.
  Proof.
    intros Ho Ha. split.
    - eapply eig_answer_rotate; eauto. intros a a' _ _. apply cov_full_rotate.
    - intros i k.
      rewrite <- (project_rotate D R P (mean_vec n X) X i k Ho).
      unfold project. apply sumn_ext. intros t _. rewrite mean_vec_rotate. reflexivity.
  Qed.

  (* what the solver is given: the repaired matrix IS the covariance; the shipped
     one has its off-diagonal entries halved (F8) *)
  Lemma cov_upper_is_cov_full n X a b :
    of_nat n <> 0 -> a <= b -> cov_upper n X a b = cov_full n X a b.
  Proof.
    intros Hn Hab. rewrite cov_upper_entry. apply Nat.leb_le in Hab. rewrite Hab.
    unfold cov_full.
    rewrite (sumn_ext n (fun i => 1 * (X i a * X i b)) (fun i => X i a * X i b)) by (intros; ring).
    field. exact Hn.
  Qed.

  Lemma cov_full_sym n X a b : cov_full n X a b = cov_full n X b a.
  Proof.
    unfold cov_full. rewrite (sumn_ext n (fun i => X i a * X i b) (fun i => X i b * X i a))
      by (intros; ring). ring.
  Qed.

  Lemma read_upper_cov_upper n X a b :
    of_nat n <> 0 -> read_upper (cov_upper n X) a b = cov_full n X a b.
  Proof.
    intros Hn. destruct (Nat.le_gt_cases a b) as [Hab|Hab].
    - rewrite read_upper_le by assumption. apply cov_upper_is_cov_full; assumption.
    - rewrite read_upper_gt by assumption. rewrite (cov_full_sym n X a b).
      apply cov_upper_is_cov_full; [assumption|lia].
  Qed.

  Theorem pca_matrix_fixed_is_cov_full n X a b :
    of_nat n <> 0 -> two <> 0 -> pca_matrix_fixed n X a b = cov_full n X a b.
  Proof.
    intros Hn H2. unfold pca_matrix_fixed, sym_avg, sym_from_upper.
    rewrite !read_upper_cov_upper by assumption. rewrite (cov_full_sym n X b a).
    unfold two in *. field. exact H2.
  Qed.

  Theorem pca_matrix_shipped_entry n X a b :
    of_nat n <> 0 -> two <> 0 ->
    pca_matrix_shipped n X a b =
      if Nat.eqb a b then cov_full n X a b else cov_full n X a b / two.
  Proof.
    intros Hn H2. unfold pca_matrix_shipped, sym_avg.
    destruct (Nat.eqb a b) eqn:E.
    - apply Nat.eqb_eq in E. subst b. rewrite cov_upper_is_cov_full by (assumption || lia).
      unfold two in *. field. exact H2.
    - apply Nat.eqb_neq in E. destruct (Nat.lt_ge_cases a b) as [Hlt|Hge].
      + rewrite (cov_upper_is_cov_full n X a b) by (assumption || lia).
        rewrite (cov_upper_entry n X b a).
        replace (Nat.leb b a) with false by (symmetry; apply Nat.leb_gt; lia).
        unfold two in *. field. split; assumption.
      + rewrite (cov_upper_is_cov_full n X b a) by (assumption || lia).
        rewrite (cov_upper_entry n X a b).
        replace (Nat.leb a b) with false by (symmetry; apply Nat.leb_gt; lia).
        rewrite (cov_full_sym n X b a). unfold two in *. field. split; assumption.
  Qed.

  (* ================================================================== *)
  (* feature-space pencils under an orthogonal map                       *)
  (* ================================================================== *)
  Lemma pencil_lhs_rotate n D R W X a a' :
    pencil_lhs n W (rotate D R X) a a' = conj_R D R (pencil_lhs n W X) a a'.
  Proof.
    unfold pencil_lhs, conj_R, rotate.
    rewrite (sumn_ext n _ (fun r => sumn D (fun b => sumn D (fun c =>
        sumn n (fun c0 => R a b * R a' c * (W r c0 * (X r b * X c0 c + X c0 b * X r c))))))).
    2:{ intros r _.
        rewrite (sumn_ext n _ (fun c0 => sumn D (fun b => sumn D (fun c =>
           R a b * R a' c * (W r c0 * (X r b * X c0 c + X c0 b * X r c)))))).
        - rewrite sumn_swap. apply sumn_ext. intros b _. apply sumn_swap.
        - intros c0 _.
          rewrite !sumn_mul_sumn. rewrite <- sumn_add, <- sumn_mul_l. apply sumn_ext. intros b _.
          rewrite <- sumn_add, <- sumn_mul_l. apply sumn_ext. intros c _. ring. }
    rewrite sumn_swap. apply sumn_ext. intros b _.
    rewrite sumn_swap. apply sumn_ext. intros c _.
    rewrite <- sumn_mul_l. apply sumn_ext. intros r _.
    rewrite <- sumn_mul_l. reflexivity.
  Qed.

  Lemma npe_rhs_rotate n D R X a a' :
    npe_rhs n (rotate D R X) a a' = conj_R D R (npe_rhs n X) a a'.
  Proof. unfold npe_rhs. apply sum_prod_rotate. Qed.

  Lemma lpp_rhs_rotate n D R Dg X a a' :
    lpp_rhs n Dg (rotate D R X) a a' = conj_R D R (lpp_rhs n Dg X) a a'.
  Proof.
    unfold lpp_rhs, conj_R, rotate.
    rewrite (sumn_ext n _ (fun i => sumn D (fun b => sumn D (fun c =>
               R a b * R a' c * (Dg i * (X i b * X i c)))))).
    2:{ intros i _. rewrite sumn_mul_sumn, <- sumn_mul_l. apply sumn_ext. intros b _.
        rewrite <- sumn_mul_l. apply sumn_ext. intros c _. ring. }
    rewrite sumn_swap. apply sumn_ext. intros b _.
    rewrite sumn_swap. apply sumn_ext. intros c _.
    rewrite <- sumn_mul_l. reflexivity.
  Qed.

  Lemma lltsa_rhs_rotate n D R X a a' :
    lltsa_rhs n (rotate D R X) a a' = conj_R D R (lltsa_rhs n X) a a'.
  Proof.
    unfold lltsa_rhs. rewrite npe_rhs_rotate.
    assert (Hs : forall b, feat_sum n (rotate D R X) b = rot_vec D R (feat_sum n X) b).
    { intros b. unfold feat_sum, rotate, rot_vec. rewrite sumn_swap. apply sumn_ext. intros c _.
      rewrite sumn_mul_l. reflexivity. }
    rewrite !Hs.
    rewrite (conj_R_sub D R (npe_rhs n X) (fun b c => feat_sum n X b * feat_sum n X c / of_nat n)).
    f_equal. rewrite conj_R_div, conj_R_outer. reflexivity.
  Qed.

  (* generalised answers of (A,B) are carried to answers of (R A R^T, R B R^T) *)
  Theorem geig_answer_rotate D d R A B A' B' P lam :
    orthogonal D R -> meq D D A' (conj_R D R A) -> meq D D B' (conj_R D R B) ->
    geig_answer D d A B P lam -> geig_answer D d A' B' (mmul D R P) lam.
  Proof.
    intros Ho HA HB (Hev & Hon).
    assert (Hmul : forall M M', meq D D M' (conj_R D R M) ->
              forall a k, a < D -> mmul D M' (mmul D R P) a k = mmul D R (mmul D M P) a k).
    { intros M M' HM a k Ha.
      rewrite (mmul_ext_l D M' (mmul D R (mmul D M (mtrans R))) _ a k)
        by (intros t Ht; rewrite (HM a t Ha Ht); apply conj_R_mmul).
      rewrite mmul_assoc. apply mmul_ext_r. intros t Ht. rewrite mmul_assoc.
      apply mmul_ext_r. intros u Hu. apply orthogonal_cancel; assumption. }
    split.
    - intros a k Ha Hk. rewrite (Hmul A A' HA a k Ha), (Hmul B B' HB a k Ha).
      rewrite (mmul_ext_r D R _ (fun t k0 => mmul D B P t k0 * lam k0) a k)
        by (intros t Ht; apply Hev; assumption).
      unfold mmul at 1 3. rewrite <- sumn_mul_r. apply sumn_ext. intros t _. ring.
    - intros c c' Hc Hc'. rewrite <- (Hon c c' Hc Hc').
      rewrite (mmul_ext_r D (mtrans (mmul D R P)) _ (mmul D R (mmul D B P)) c c')
        by (intros t Ht; apply (Hmul B B' HB); assumption).
      unfold mmul at 1. unfold mtrans at 1.
      change (dot D (rot_vec D R (fun b => P b c)) (rot_vec D R (fun b => mmul D B P b c'))
              = mmul D (mtrans P) (mmul D B P) c c').
      rewrite dot_rot_vec by assumption. reflexivity.
  Qed.

  (* ... and sample permutations leave pencils, hence their answers, in place; the
     projected samples are permuted (project_perm) *)

End Spectral.
