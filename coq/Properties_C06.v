(* ====================================================================== *)
(*  Properties_C06.v — PCA projects onto the leading principal subspace of *)
(*  the sample covariance.  Statements only; proofs live in Pca_Proof.v,   *)
(*  Pca_Proof_Qc.v, Pca_Proof_Opt.v, Spectral_KyFan.v, Mat_EigSelect_Tie.v.*)
(*  Generic theorems quantify over EVERY field (ordered field for the      *)
(*  optimality clauses); `_Qc` = closed instance about the functions that  *)
(*  are extracted and run by checks/c06.py.                                *)
(*  The eigen solver is an oracle: theorems 6-10 take its answer under the *)
(*  contract of DESIGN 1.3 (validated on every observed call by the check).*)
(*  `_partial`: uniqueness of the eigenvectors up to sign for simple       *)
(*  eigenvalues (last clause of the property) is cited, not proved.        *)
(* ====================================================================== *)
Require Import String.
Require Import Arith Lia List Bool ZArith QArith Qcanon.
From TK Require Import Mat_Sums Mat_Core Mat_Qc Mat_EigSelect EigSelect Mat_EigSelect_Tie
                       Proj_Model Proj_Spec Proj_Proof
                       Pca_Model Pca_Spec Pca_Proof Pca_Proof_Qc Spectral_KyFan Pca_Proof_Opt Pca_Proof_Select.
Import ListNotations.
Local Open Scope nat_scope.

(* 1. compute_covariance_matrix (current code) returns the sample covariance in EVERY entry:
      1/N sum_k (x_k - m)(x_k - m)^T, for every D and every N <> 0 *)
Theorem C06_cov_is_covariance :
  forall (F : Type) (Fo : FieldOps F) (Ff : IsField F) (N : nat) (X : mat F),
    of_nat N <> 0%F -> forall i j, pca_matrix N X i j = cov_spec N X i j.
Proof. exact @cov_is_covariance. Qed.
Print Assumptions C06_cov_is_covariance.

Theorem C06_cov_is_covariance_Qc :
  forall (N : nat) (X : mat Qc), N <> 0 -> forall i j, pca_matrix N X i j = cov_spec N X i j.
Proof. exact cov_is_covariance_Qc. Qed.
Print Assumptions C06_cov_is_covariance_Qc.

Example C06_cov_nonvacuous : @of_nat Qc _ 4 <> 0%F.
Proof. apply Qc_of_nat_neq0. lia. Qed.

(* 2. both solver front-ends SEE the covariance: the dense one reads the lower triangle of
      (M + M^T)/2, the randomized one the upper triangle of M *)
Theorem C06_cov_seen_by_solvers :
  forall (F : Type) (Fo : FieldOps F) (Ff : IsField F) (N : nat) (X : mat F),
    two <> 0%F -> of_nat N <> 0%F ->
    (forall i j, seen_dense (pca_matrix N X) i j = cov_spec N X i j) /\
    (forall i j, seen_randomized (pca_matrix N X) i j = cov_spec N X i j).
Proof. exact @cov_seen_by_solvers. Qed.
Print Assumptions C06_cov_seen_by_solvers.

Example C06_cov_seen_nonvacuous : @two Qc _ <> 0%F /\ @of_nat Qc _ 2 <> 0%F.
Proof. split; [apply Qc_two_neq0|apply Qc_of_nat_neq0; lia]. Qed.

(* 3. the loops over lists (what is extracted and compared with the C++) compute exactly the
      function-level matrices of theorems 1, 2 and 4 *)
Theorem C06_exec_models_ok :
  forall (F : Type) (Fo : FieldOps F) (Ff : IsField F) (N D : nat) (Xs : list (list F)),
    wf_mat N D Xs ->
    pca_matrix_exec D Xs = POk (mtab D D (pca_matrix N (mof Xs))) /\
    pca_matrix_old_exec D Xs = POk (mtab D D (pca_matrix_old N (mof Xs))).
Proof. exact @pca_matrix_exec_ok. Qed.
Print Assumptions C06_exec_models_ok.

Example C06_exec_models_nonvacuous : wf_mat 2 2 f8_X.
Proof. split; [reflexivity|repeat constructor]. Qed.

(* 4. REGRESSION (defect F8, fixed by 403c552): the code as shipped before returned the
      accumulated upper triangle; the dense front-end then saw every off-diagonal covariance
      HALVED (all inputs), concretely refuting the property on two samples ... *)
Theorem C06_cov_old_seen_dense_halved :
  forall (F : Type) (Fo : FieldOps F) (Ff : IsField F) (N : nat) (X : mat F),
    two <> 0%F -> of_nat N <> 0%F -> forall i j,
      seen_dense (pca_matrix_old N X) i j =
        if Nat.eqb i j then cov_spec N X i j else (cov_spec N X i j / two)%F.
Proof. exact @cov_old_seen_dense. Qed.
Print Assumptions C06_cov_old_seen_dense_halved.

Theorem C06_cov_seen_dense_refuted :
  exists (N D : nat) (Xs : list (list Qc)), wf_mat N D Xs /\ N <> 0 /\
    exists U, pca_matrix_old_exec D Xs = POk U /\
      seen_dense_exec D U <> mtab D D (cov_spec N (mof Xs)) /\
      seen_dense_exec D U = [[qz 1; qfrac 1 2]; [qfrac 1 2; qz 1]] /\
      mtab D D (cov_spec N (mof Xs)) = [[qz 1; qz 1]; [qz 1; qz 1]] /\
      exists C, pca_matrix_exec D Xs = POk C /\
        seen_dense_exec D C = mtab D D (cov_spec N (mof Xs)).
Proof. exact cov_seen_dense_refuted. Qed.
Print Assumptions C06_cov_seen_dense_refuted.

(* ... while the randomized front-end saw the covariance even then *)
Theorem C06_cov_old_seen_randomized_ok :
  forall (F : Type) (Fo : FieldOps F) (Ff : IsField F) (N : nat) (X : mat F),
    of_nat N <> 0%F -> forall i j, seen_randomized (pca_matrix_old N X) i j = cov_spec N X i j.
Proof. exact @cov_old_seen_randomized. Qed.
Print Assumptions C06_cov_old_seen_randomized_ok.

(* 5. selection (T-eig, generated table): every `largest` site of the solver front-ends returns
      the LAST d eigenpairs of the object it slices, inside that object *)
Theorem C06_select_largest :
  forall b, In b eig_table -> b_largest b = true ->
  forall N d, d <= N ->
    let n := base_eval N d 0 (b_base b) in
    eval_ops d 0 n (b_cols b) = Some (n - d, d) /\
    eval_ops d 0 n (b_vals b) = Some (n - d, d) /\
    d <= n.
Proof. exact select_largest. Qed.
Print Assumptions C06_select_largest.

Example C06_select_largest_nonvacuous :
  exists b, In b eig_table /\ b_largest b = true /\ b_base b = BaseN /\
            b_fn b = "eigendecomposition_impl_dense"%string.
Proof. eexists. split; [left; reflexivity|]. repeat split. Qed.

(* 6. the embedding is the centred data times P, and its columns have zero mean *)
Theorem C06_pca_embedding :
  forall (F : Type) (Fo : FieldOps F) (Ff : IsField F) (N D : nat) (X P : mat F),
    (forall k a, pca_embedding N D X P k a = mmul D (centred N X) P k a) /\
    (of_nat N <> 0%F -> forall a, sumn N (fun k => pca_embedding N D X P k a) = 0%F).
Proof. exact @pca_embedding_is_centred_times_P. Qed.
Print Assumptions C06_pca_embedding.

(* a correlated data set with non-zero mean and a rational eigenbasis: +-2 (3/5,4/5) and
   +-(-4/5,3/5) around (10,-3); covariance 2 u u^T + 1/2 w w^T *)
Definition ex6_X : list (list Qc) :=
  [[qfrac 56 5; qfrac (-7) 5]; [qfrac 44 5; qfrac (-23) 5];
   [qfrac 46 5; qfrac (-12) 5]; [qfrac 54 5; qfrac (-18) 5]].
Definition ex6_V : mat Qc := mof [[qfrac (-4) 5; qfrac 3 5]; [qfrac 3 5; qfrac 4 5]].
Definition ex6_Lam : vec Qc := vof [qfrac 1 2; qz 2].
Definition ex6_Q : mat Qc := mof [[qz 1]; [qz 0]].

Example ex6_full : full_contract 2 (cov_spec 4 (mof ex6_X)) ex6_V ex6_Lam.
Proof. repeat split; apply meq_by_compute; vm_compute; reflexivity. Qed.

Example ex6_ascending : ascending 2 ex6_Lam.
Proof.
  intros a b Hab Hb. destruct a as [|[|a]]; destruct b as [|[|b]]; try lia;
    unfold fle; cbn [QcOrdered]; unfold Qcle; vm_compute; discriminate.
Qed.

(* 7. from ANY solver answer meeting the contract for the covariance: uncorrelated columns
      whose variances are the returned eigenvalues *)
Theorem C06_pca_uncorrelated :
  forall (F : Type) (Fo : FieldOps F) (Ff : IsField F) (N D d : nat) (X P : mat F) (lam : vec F),
    of_nat N <> 0%F ->
    eig_contract D d (cov_spec N X) P lam ->
    uncorrelated N d (pca_embedding N D X P) lam.
Proof. exact @pca_uncorrelated. Qed.
Print Assumptions C06_pca_uncorrelated.

Example C06_pca_uncorrelated_nonvacuous :
  @of_nat Qc _ 4 <> 0%F /\
  eig_contract 2 1 (cov_spec 4 (mof ex6_X)) (select_cols ex6_V (1, 1)) (select_vals ex6_Lam (1, 1)).
Proof.
  split; [apply Qc_of_nat_neq0; lia|].
  apply (@select_contract Qc QcOps QcField 2 1 1); [lia|exact ex6_full].
Qed.

(* 8. the dense path end to end: a FULL decomposition of the covariance + the generated
      selection (last d columns / values) gives the contract of 7 for the d LARGEST values *)
Theorem C06_pca_from_full_decomposition :
  forall (F : Type) (Fo : FieldOps F) (Ff : IsField F) (N D d : nat) (X V : mat F) (Lam : vec F),
    of_nat N <> 0%F -> d <= D ->
    full_contract D (cov_spec N X) V Lam ->
    let P := select_cols V (D - d, d) in
    let lam := select_vals Lam (D - d, d) in
    eig_contract D d (cov_spec N X) P lam /\
    uncorrelated N d (pca_embedding N D X P) lam.
Proof. exact @pca_from_full_decomposition. Qed.
Print Assumptions C06_pca_from_full_decomposition.

Example C06_pca_from_full_nonvacuous :
  @of_nat Qc _ 4 <> 0%F /\ 1 <= 2 /\ full_contract 2 (cov_spec 4 (mof ex6_X)) ex6_V ex6_Lam.
Proof. split; [apply Qc_of_nat_neq0; lia|]. split; [lia|exact ex6_full]. Qed.

(* 9. VARIANCE OPTIMALITY (Ky Fan, proved in Spectral_KyFan.v for every ordered field): no
      D x d matrix Q with orthonormal columns retains more variance than PCA's P, and what P
      retains is the sum of the d largest eigenvalues; trace(Q^T C Q) is the variance of the
      projected data *)
Theorem C06_pca_variance_optimal :
  forall (F : Type) (Fo : FieldOps F) (Ff : IsField F) (Fle : OrderedField F)
         (N D d : nat) (X V Q : mat F) (Lam : vec F),
    d <= D ->
    full_contract D (cov_spec N X) V Lam ->
    ascending D Lam ->
    meq d d (mmul D (mtrans Q) Q) mI ->
    let P := select_cols V (D - d, d) in
    fle (retained D d (cov_spec N X) Q) (retained D d (cov_spec N X) P) /\
    retained D d (cov_spec N X) P = sumn d (fun c => Lam (D - d + c)).
Proof. exact @pca_variance_optimal. Qed.
Print Assumptions C06_pca_variance_optimal.

Theorem C06_retained_is_projected_variance :
  forall (F : Type) (Fo : FieldOps F) (Ff : IsField F) (N D d : nat) (X Q : mat F),
    of_nat N <> 0%F ->
    retained D d (cov_spec N X) Q =
    sumn d (fun c => (sumn N (fun k => (pca_embedding N D X Q k c * pca_embedding N D X Q k c)%F)
                      / of_nat N)%F).
Proof. exact @retained_is_projected_variance. Qed.
Print Assumptions C06_retained_is_projected_variance.

Example C06_pca_variance_optimal_nonvacuous :
  1 <= 2 /\ full_contract 2 (cov_spec 4 (mof ex6_X)) ex6_V ex6_Lam /\ ascending 2 ex6_Lam /\
  meq 1 1 (mmul 2 (mtrans ex6_Q) ex6_Q) mI /\
  (* the competitor e_1 retains 26/25 < 2 = what PCA's axis retains *)
  retained 2 1 (cov_spec 4 (mof ex6_X)) ex6_Q = qfrac 26 25 /\
  retained 2 1 (cov_spec 4 (mof ex6_X)) (select_cols ex6_V (1, 1)) = qz 2.
Proof.
  split; [lia|]. split; [exact ex6_full|]. split; [exact ex6_ascending|].
  split; [apply meq_by_compute; vm_compute; reflexivity|].
  split; apply Qc_is_canon; vm_compute; reflexivity.
Qed.

(* 9b. the dense path END TO END over the generated selection table: for every `largest` dense
       site of the tree being checked, covariance -> any full ascending orthonormal decomposition
       -> the site's own slice expressions -> contract, uncorrelated embedding, optimal and equal
       to the sum of the selected eigenvalues *)
Theorem C06_pca_dense_end_to_end :
  forall (F : Type) (Fo : FieldOps F) (Ff : IsField F) (Fle : OrderedField F) b,
    In b eig_table -> b_largest b = true -> b_base b = BaseN ->
    forall (N D d : nat) (X V : mat F) (Lam : vec F),
      of_nat N <> 0%F -> d <= D ->
      full_contract D (cov_spec N X) V Lam ->
      ascending D Lam ->
      exists vc vv,
        eval_ops d 0 D (b_cols b) = Some vc /\ eval_ops d 0 D (b_vals b) = Some vv /\
        let P := select_cols V vc in
        let lam := select_vals Lam vv in
        eig_contract D d (cov_spec N X) P lam /\
        uncorrelated N d (pca_embedding N D X P) lam /\
        (forall Q, meq d d (mmul D (mtrans Q) Q) mI ->
           fle (retained D d (cov_spec N X) Q) (retained D d (cov_spec N X) P)) /\
        retained D d (cov_spec N X) P = sumn d lam.
Proof. exact @pca_dense_end_to_end. Qed.
Print Assumptions C06_pca_dense_end_to_end.

Example C06_pca_dense_end_to_end_nonvacuous :
  (exists b, In b eig_table /\ b_largest b = true /\ b_base b = BaseN) /\
  @of_nat Qc _ 4 <> 0%F /\ 1 <= 2 /\
  full_contract 2 (cov_spec 4 (mof ex6_X)) ex6_V ex6_Lam /\ ascending 2 ex6_Lam.
Proof.
  split; [eexists; split; [left; reflexivity|split; reflexivity]|].
  split; [apply Qc_of_nat_neq0; lia|]. split; [lia|]. split; [exact ex6_full|exact ex6_ascending].
Qed.

(* Ky Fan itself, both directions and attainment, every n, d, every ordered field *)
Theorem C06_ky_fan :
  forall (F : Type) (Fo : FieldOps F) (Ff : IsField F) (Fle : OrderedField F)
         (n d : nat) (M V Q : mat F) (lam : vec F),
    d <= n ->
    meq n n (mmul n (mtrans V) V) mI ->
    meq n n (mmul n V (mtrans V)) mI ->
    meq n n (mmul n M V) (mmul n V (mdiag lam)) ->
    ascending n lam ->
    meq d d (mmul n (mtrans Q) Q) mI ->
    fle (sumn d lam) (quad n d M Q) /\
    fle (quad n d M Q) (sumn d (fun c => lam (n - d + c))) /\
    quad n d M (fun i c => V i (n - d + c)) = sumn d (fun c => lam (n - d + c)).
Proof. exact @ky_fan. Qed.
Print Assumptions C06_ky_fan.

Example C06_ky_fan_nonvacuous :
  1 <= 2 /\ meq 2 2 (mmul 2 (mtrans ex6_V) ex6_V) mI /\ meq 2 2 (mmul 2 ex6_V (mtrans ex6_V)) mI /\
  ascending 2 ex6_Lam /\ meq 1 1 (mmul 2 (mtrans ex6_Q) ex6_Q) mI.
Proof.
  split; [lia|]. destruct ex6_full as [A [B _]]. split; [exact A|]. split; [exact B|].
  split; [exact ex6_ascending|]. apply meq_by_compute; vm_compute; reflexivity.
Qed.

(* 10. PCA vs Kernel PCA (linear kernel) vs MDS (Euclidean distances): PCA's embedding Y
       satisfies, for the centred Gram matrix G = X_c X_c^T, exactly the characterisation
       Properties_C05 proves for the other two (G Y = Y diag(N lam), Y^T Y = diag(N lam)).
       _partial: that this characterisation determines each column up to sign when the d leading
       eigenvalues are simple is classical and only TESTED by the check. *)
Theorem C06_pca_kpca_mds_gram_partial :
  forall (F : Type) (Fo : FieldOps F) (Ff : IsField F) (N D d : nat) (X P : mat F) (lam : vec F),
    of_nat N <> 0%F ->
    eig_contract D d (cov_spec N X) P lam ->
    let Y := pca_embedding N D X P in
    (forall i c, c < d -> mmul N (centred_gram N D X) Y i c = (of_nat N * lam c * Y i c)%F) /\
    (forall a b, a < d -> b < d ->
       sumn N (fun k => (Y k a * Y k b)%F) = if Nat.eqb a b then (of_nat N * lam a)%F else 0%F).
Proof. exact @pca_gram_factor. Qed.
Print Assumptions C06_pca_kpca_mds_gram_partial.

(* 11. the decision procedures the check runs on the implementation's outputs are sound in
       exact mode, and the model's own covariance passes them *)
Theorem C06_decisions_sound :
  (forall N D (Xs C : list (list Qc)),
     cov_seen_dense_b N D (Q2Qc 0) Xs C = Some true ->
     meq D D (seen_dense (mof C)) (cov_spec N (mof Xs))) /\
  (forall N D (Xs C : list (list Qc)),
     cov_seen_randomized_b N D (Q2Qc 0) Xs C = Some true ->
     meq D D (seen_randomized (mof C)) (cov_spec N (mof Xs))) /\
  (forall D d (C P : list (list Qc)) (lam : list Qc),
     eig_contract_tol_b D d (Q2Qc 0) C P lam = Some true ->
     eig_contract D d (mof C) (mof P) (vof lam)) /\
  (forall N d (Y : list (list Qc)) (lam : list Qc),
     uncorrelated_tol_b N d (Q2Qc 0) Y lam = Some true -> uncorrelated N d (mof Y) (vof lam)) /\
  (forall N D (Xs C : list (list Qc)), N <> 0 -> wf_mat N D Xs -> pca_matrix_exec D Xs = POk C ->
     cov_seen_dense_b N D (Q2Qc 0) Xs C = Some true /\
     cov_seen_randomized_b N D (Q2Qc 0) Xs C = Some true).
Proof. exact decisions_sound. Qed.
Print Assumptions C06_decisions_sound.

Example C06_decisions_nonvacuous :
  exists C, pca_matrix_exec 2 ex6_X = POk C /\ cov_seen_dense_b 4 2 (Q2Qc 0) ex6_X C = Some true.
Proof.
  assert (W : wf_mat 4 2 ex6_X) by (split; [reflexivity|repeat constructor]).
  destruct (@pca_matrix_exec_ok Qc QcOps QcField 4 2 ex6_X W) as [E _].
  eexists. split; [exact E|]. apply (model_cov_passes 4 2 ex6_X _ ltac:(lia) W E).
Qed.
