(* ====================================================================== *)
(*  Properties_C06.v — PCA projects onto the leading principal subspace of *)
(*  the sample covariance.  Statements only; proofs live in Pca_Proof.v,   *)
(*  Pca_Proof_Qc.v, Pca_Proof_Opt.v, Spectral_KyFan.v, Mat_EigSelect_Tie.v.*)
(*  Generic theorems quantify over EVERY field (ordered field for the      *)
(*  optimality clauses); `_Qc` = closed instance about the functions that  *)
(*  are extracted and run by checks/c06.py.                                *)
(*  The eigen solver is an oracle: theorems 6-10 take its answer under the *)
(*  contract of DESIGN 1.3 (validated on every observed call by the check).*)
(*  Nothing is `_partial` any more: Ky Fan (9), the ordering of the two    *)
(*  spectra (10c) and sign-uniqueness (10b, 10d) are proved here.          *)
(* ====================================================================== *)
Require Import String.
Require Import Arith Lia List Bool ZArith QArith Qcanon.
From TK Require Import Mat_Sums Mat_Core Mat_Qc Mat_EigSelect EigSelect Mat_EigSelect_Tie
                       Proj_Model Proj_Spec Proj_Proof
                       Pca_Model Pca_Spec Pca_Proof Pca_Proof_Qc Spectral_KyFan Pca_Proof_Opt Spectral_Randomized Pca_Proof_Select Pca_Proof_Sign Pca_Proof_Recon
                       Spectral_GramDual Pca_Proof_Spectrum Proj_Proof_Range Pca_Proof_Scale Spectral_Randomized_Scale
                       Proj_Proof_Offset Pca_Proof_Offset
                       PcaEmbed Pca_Tie.
Import ListNotations.
Local Open Scope nat_scope.

(* 1. compute_covariance_matrix (current code = after fix F49: centred vectors accumulated; theorem 14 below
      treats the expanded form shipped before) returns the sample covariance in EVERY entry:
      1/N sum_k (x_k - m)(x_k - m)^T, for every D and every N <> 0 *)
Theorem C06_cov_is_covariance :
  forall (F : Type) (Fo : FieldOps F) (Ff : IsField F) (N : nat) (X : mat F),
    of_nat N <> 0%F -> forall i j, pca_matrix N X i j = cov_spec N X i j.
Proof. exact @cov_is_covariance. Qed.
Print Assumptions C06_cov_is_covariance.

Theorem C06_cov_is_covariance_Qc :
  forall (N : nat) (X : mat Qc), N <> 0 -> forall i j, pca_matrix N X i j = cov_spec N X i j.
Proof. exact cov_is_covariance_Qc. Qed.
Print Assumptions C06_cov_is_covariance_Qc.

Example C06_cov_nonvacuous : @of_nat Qc _ 4 <> 0%F.
Proof. apply Qc_of_nat_neq0. lia. Qed.

(* 2. both solver front-ends SEE the covariance: the dense one reads the lower triangle of
      (M + M^T)/2, the randomized one the upper triangle of M *)
Theorem C06_cov_seen_by_solvers :
  forall (F : Type) (Fo : FieldOps F) (Ff : IsField F) (N : nat) (X : mat F),
    two <> 0%F -> of_nat N <> 0%F ->
    (forall i j, seen_dense (pca_matrix N X) i j = cov_spec N X i j) /\
    (forall i j, seen_randomized (pca_matrix N X) i j = cov_spec N X i j).
Proof. exact @cov_seen_by_solvers. Qed.
Print Assumptions C06_cov_seen_by_solvers.

Example C06_cov_seen_nonvacuous : @two Qc _ <> 0%F /\ @of_nat Qc _ 2 <> 0%F.
Proof. split; [apply Qc_two_neq0|apply Qc_of_nat_neq0; lia]. Qed.

(* 3. the loops over lists (what is extracted and compared with the C++) compute exactly the
      function-level matrices of theorems 1, 2 and 4 *)
Theorem C06_exec_models_ok :
  forall (F : Type) (Fo : FieldOps F) (Ff : IsField F) (N D : nat) (Xs : list (list F)),
    wf_mat N D Xs ->
    pca_matrix_exec D Xs = POk (mtab D D (pca_matrix N (mof Xs))) /\
    pca_matrix_old_exec D Xs = POk (mtab D D (pca_matrix_old N (mof Xs))).
Proof. exact @pca_matrix_exec_ok. Qed.
Print Assumptions C06_exec_models_ok.

Example C06_exec_models_nonvacuous : wf_mat 2 2 f8_X.
Proof. split; [reflexivity|repeat constructor]. Qed.

(* 4. REGRESSION (defect F8, fixed by 403c552): the code as shipped before returned the
      accumulated upper triangle; the dense front-end then saw every off-diagonal covariance
      HALVED (all inputs), concretely refuting the property on two samples ... *)
Theorem C06_cov_old_seen_dense_halved :
  forall (F : Type) (Fo : FieldOps F) (Ff : IsField F) (N : nat) (X : mat F),
    two <> 0%F -> of_nat N <> 0%F -> forall i j,
      seen_dense (pca_matrix_old N X) i j =
        if Nat.eqb i j then cov_spec N X i j else (cov_spec N X i j / two)%F.
Proof. exact @cov_old_seen_dense. Qed.
Print Assumptions C06_cov_old_seen_dense_halved.

Theorem C06_cov_seen_dense_refuted :
  exists (N D : nat) (Xs : list (list Qc)), wf_mat N D Xs /\ N <> 0 /\
    exists U, pca_matrix_old_exec D Xs = POk U /\
      seen_dense_exec D U <> mtab D D (cov_spec N (mof Xs)) /\
      seen_dense_exec D U = [[qz 1; qfrac 1 2]; [qfrac 1 2; qz 1]] /\
      mtab D D (cov_spec N (mof Xs)) = [[qz 1; qz 1]; [qz 1; qz 1]] /\
      exists C, pca_matrix_exec D Xs = POk C /\
        seen_dense_exec D C = mtab D D (cov_spec N (mof Xs)).
Proof. exact cov_seen_dense_refuted. Qed.
Print Assumptions C06_cov_seen_dense_refuted.

(* ... while the randomized front-end saw the covariance even then *)
Theorem C06_cov_old_seen_randomized_ok :
  forall (F : Type) (Fo : FieldOps F) (Ff : IsField F) (N : nat) (X : mat F),
    of_nat N <> 0%F -> forall i j, seen_randomized (pca_matrix_old N X) i j = cov_spec N X i j.
Proof. exact @cov_old_seen_randomized. Qed.
Print Assumptions C06_cov_old_seen_randomized_ok.

(* 5. selection (T-eig, generated table): every `largest` site of the solver front-ends returns
      the LAST d eigenpairs of the object it slices, inside that object *)
Theorem C06_select_largest :
  forall b, In b eig_table -> b_largest b = true ->
  forall N d, d <= N ->
    let n := base_eval N d 0 (b_base b) in
    eval_ops d 0 n (b_cols b) = Some (n - d, d) /\
    eval_ops d 0 n (b_vals b) = Some (n - d, d) /\
    d <= n.
Proof. exact select_largest. Qed.
Print Assumptions C06_select_largest.

Example C06_select_largest_nonvacuous :
  exists b, In b eig_table /\ b_largest b = true /\ b_base b = BaseN /\
            b_fn b = "eigendecomposition_impl_dense"%string.
Proof. eexists. split; [left; reflexivity|]. repeat split. Qed.

(* 5b. T-pca: the statement chain of PrincipalComponentAnalysisImplementation::embed() in the tree
       being checked (locals alpha-renamed) is mean -> covariance(mean) ->
       eigendecomposition_via(LargestEigenvalues, covariance, target_dimension) ->
       (project(P, mean), MatrixProjectionImplementation(P, mean)), eigendecomposition_via forwarding
       strategy and matrix unchanged; and the model's pca_embed is that composition *)
Theorem C06_embed_chain :
  pca_embed_stmts = pca_chain_expected /\ eigendecomposition_via_returns = via_expected.
Proof. exact pca_embed_chain. Qed.
Print Assumptions C06_embed_chain.

Theorem C06_pca_embed_is_composition :
  forall (F : Type) (Fo : FieldOps F) (N D : nat) (X V : mat F) (v : view),
    pca_embed N D X V v =
      (pca_embedding N D X (select_cols V v), (select_cols V v, mean_vec N X), pca_matrix N X).
Proof. exact @pca_embed_is_composition. Qed.
Print Assumptions C06_pca_embed_is_composition.

(* 6. the embedding is the centred data times P, and its columns have zero mean *)
Theorem C06_pca_embedding :
  forall (F : Type) (Fo : FieldOps F) (Ff : IsField F) (N D : nat) (X P : mat F),
    (forall k a, pca_embedding N D X P k a = mmul D (centred N X) P k a) /\
    (of_nat N <> 0%F -> forall a, sumn N (fun k => pca_embedding N D X P k a) = 0%F).
Proof. exact @pca_embedding_is_centred_times_P. Qed.
Print Assumptions C06_pca_embedding.

(* a correlated data set with non-zero mean and a rational eigenbasis: +-2 (3/5,4/5) and
   +-(-4/5,3/5) around (10,-3); covariance 2 u u^T + 1/2 w w^T *)
Definition ex6_X : list (list Qc) :=
  [[qfrac 56 5; qfrac (-7) 5]; [qfrac 44 5; qfrac (-23) 5];
   [qfrac 46 5; qfrac (-12) 5]; [qfrac 54 5; qfrac (-18) 5]].
Definition ex6_V : mat Qc := mof [[qfrac (-4) 5; qfrac 3 5]; [qfrac 3 5; qfrac 4 5]].
Definition ex6_Lam : vec Qc := vof [qfrac 1 2; qz 2].
Definition ex6_Q : mat Qc := mof [[qz 1]; [qz 0]].

Example ex6_full : full_contract 2 (cov_spec 4 (mof ex6_X)) ex6_V ex6_Lam.
Proof. repeat split; apply meq_by_compute; vm_compute; reflexivity. Qed.

Example ex6_ascending : ascending 2 ex6_Lam.
Proof.
  intros a b Hab Hb. destruct a as [|[|a]]; destruct b as [|[|b]]; try lia;
    unfold fle; cbn [QcOrdered]; unfold Qcle; vm_compute; discriminate.
Qed.

(* 7. from ANY solver answer meeting the contract for the covariance: uncorrelated columns
      whose variances are the returned eigenvalues *)
Theorem C06_pca_uncorrelated :
  forall (F : Type) (Fo : FieldOps F) (Ff : IsField F) (N D d : nat) (X P : mat F) (lam : vec F),
    of_nat N <> 0%F ->
    eig_contract D d (cov_spec N X) P lam ->
    uncorrelated N d (pca_embedding N D X P) lam.
Proof. exact @pca_uncorrelated. Qed.
Print Assumptions C06_pca_uncorrelated.

Example C06_pca_uncorrelated_nonvacuous :
  @of_nat Qc _ 4 <> 0%F /\
  eig_contract 2 1 (cov_spec 4 (mof ex6_X)) (select_cols ex6_V (1, 1)) (select_vals ex6_Lam (1, 1)).
Proof.
  split; [apply Qc_of_nat_neq0; lia|].
  apply (@select_contract Qc QcOps QcField 2 1 1); [lia|exact ex6_full].
Qed.

(* 8. the dense path end to end: a FULL decomposition of the covariance + the generated
      selection (last d columns / values) gives the contract of 7 for the d LARGEST values *)
Theorem C06_pca_from_full_decomposition :
  forall (F : Type) (Fo : FieldOps F) (Ff : IsField F) (N D d : nat) (X V : mat F) (Lam : vec F),
    of_nat N <> 0%F -> d <= D ->
    full_contract D (cov_spec N X) V Lam ->
    let P := select_cols V (D - d, d) in
    let lam := select_vals Lam (D - d, d) in
    eig_contract D d (cov_spec N X) P lam /\
    uncorrelated N d (pca_embedding N D X P) lam.
Proof. exact @pca_from_full_decomposition. Qed.
Print Assumptions C06_pca_from_full_decomposition.

Example C06_pca_from_full_nonvacuous :
  @of_nat Qc _ 4 <> 0%F /\ 1 <= 2 /\ full_contract 2 (cov_spec 4 (mof ex6_X)) ex6_V ex6_Lam.
Proof. split; [apply Qc_of_nat_neq0; lia|]. split; [lia|exact ex6_full]. Qed.

(* 9. VARIANCE OPTIMALITY (Ky Fan, proved in Spectral_KyFan.v for every ordered field): no
      D x d matrix Q with orthonormal columns retains more variance than PCA's P, and what P
      retains is the sum of the d largest eigenvalues; trace(Q^T C Q) is the variance of the
      projected data *)
Theorem C06_pca_variance_optimal :
  forall (F : Type) (Fo : FieldOps F) (Ff : IsField F) (Fle : OrderedField F)
         (N D d : nat) (X V Q : mat F) (Lam : vec F),
    d <= D ->
    full_contract D (cov_spec N X) V Lam ->
    ascending D Lam ->
    meq d d (mmul D (mtrans Q) Q) mI ->
    let P := select_cols V (D - d, d) in
    fle (retained D d (cov_spec N X) Q) (retained D d (cov_spec N X) P) /\
    retained D d (cov_spec N X) P = sumn d (fun c => Lam (D - d + c)).
Proof. exact @pca_variance_optimal. Qed.
Print Assumptions C06_pca_variance_optimal.

Theorem C06_retained_is_projected_variance :
  forall (F : Type) (Fo : FieldOps F) (Ff : IsField F) (N D d : nat) (X Q : mat F),
    of_nat N <> 0%F ->
    retained D d (cov_spec N X) Q =
    sumn d (fun c => (sumn N (fun k => (pca_embedding N D X Q k c * pca_embedding N D X Q k c)%F)
                      / of_nat N)%F).
Proof. exact @retained_is_projected_variance. Qed.
Print Assumptions C06_retained_is_projected_variance.

Example C06_pca_variance_optimal_nonvacuous :
  1 <= 2 /\ full_contract 2 (cov_spec 4 (mof ex6_X)) ex6_V ex6_Lam /\ ascending 2 ex6_Lam /\
  meq 1 1 (mmul 2 (mtrans ex6_Q) ex6_Q) mI /\
  (* the competitor e_1 retains 26/25 < 2 = what PCA's axis retains *)
  retained 2 1 (cov_spec 4 (mof ex6_X)) ex6_Q = qfrac 26 25 /\
  retained 2 1 (cov_spec 4 (mof ex6_X)) (select_cols ex6_V (1, 1)) = qz 2.
Proof.
  split; [lia|]. split; [exact ex6_full|]. split; [exact ex6_ascending|].
  split; [apply meq_by_compute; vm_compute; reflexivity|].
  split; apply Qc_is_canon; vm_compute; reflexivity.
Qed.

(* 9a. what "retains variance" means for reconstruction: for ANY orthonormal d-frame Q the mean
       squared reconstruction error of the centred samples is trace(C) - trace(Q^T C Q); hence PCA's
       projection has the smallest reconstruction error among all orthogonal projections of rank d *)
Theorem C06_recon_error_identity :
  forall (F : Type) (Fo : FieldOps F) (Ff : IsField F) (N D d : nat) (X Q : mat F),
    of_nat N <> 0%F ->
    meq d d (mmul D (mtrans Q) Q) mI ->
    recon_error N D d X Q = (mtrace D (cov_spec N X) - retained D d (cov_spec N X) Q)%F.
Proof. exact @recon_error_identity. Qed.
Print Assumptions C06_recon_error_identity.

Theorem C06_pca_reconstruction_optimal :
  forall (F : Type) (Fo : FieldOps F) (Ff : IsField F) (Fle : OrderedField F)
         (N D d : nat) (X V Q : mat F) (Lam : vec F),
    of_nat N <> 0%F -> d <= D ->
    full_contract D (cov_spec N X) V Lam ->
    ascending D Lam ->
    meq d d (mmul D (mtrans Q) Q) mI ->
    let P := select_cols V (D - d, d) in
    fle (recon_error N D d X P) (recon_error N D d X Q).
Proof. exact @pca_reconstruction_optimal. Qed.
Print Assumptions C06_pca_reconstruction_optimal.

Example C06_reconstruction_nonvacuous :
  @of_nat Qc _ 4 <> 0%F /\ 1 <= 2 /\
  full_contract 2 (cov_spec 4 (mof ex6_X)) ex6_V ex6_Lam /\ ascending 2 ex6_Lam /\
  meq 1 1 (mmul 2 (mtrans ex6_Q) ex6_Q) mI /\
  (* errors: PCA's axis leaves 1/2, the competitor e_1 leaves 5/2 - 26/25 = 73/50 *)
  recon_error 4 2 1 (mof ex6_X) (select_cols ex6_V (1, 1)) = qfrac 1 2 /\
  recon_error 4 2 1 (mof ex6_X) ex6_Q = qfrac 73 50.
Proof.
  split; [apply Qc_of_nat_neq0; lia|]. split; [lia|]. split; [exact ex6_full|].
  split; [exact ex6_ascending|]. split; [apply meq_by_compute; vm_compute; reflexivity|].
  split; apply Qc_is_canon; vm_compute; reflexivity.
Qed.

(* 9b. the dense path END TO END over the generated selection table: for every `largest` dense
       site of the tree being checked, covariance -> any full ascending orthonormal decomposition
       -> the site's own slice expressions -> contract, uncorrelated embedding, optimal and equal
       to the sum of the selected eigenvalues *)
Theorem C06_pca_dense_end_to_end :
  forall (F : Type) (Fo : FieldOps F) (Ff : IsField F) (Fle : OrderedField F) b,
    In b eig_table -> b_largest b = true -> b_base b = BaseN ->
    forall (N D d : nat) (X V : mat F) (Lam : vec F),
      of_nat N <> 0%F -> d <= D ->
      full_contract D (cov_spec N X) V Lam ->
      ascending D Lam ->
      exists vc vv,
        eval_ops d 0 D (b_cols b) = Some vc /\ eval_ops d 0 D (b_vals b) = Some vv /\
        let P := select_cols V vc in
        let lam := select_vals Lam vv in
        eig_contract D d (cov_spec N X) P lam /\
        uncorrelated N d (pca_embedding N D X P) lam /\
        (forall Q, meq d d (mmul D (mtrans Q) Q) mI ->
           fle (retained D d (cov_spec N X) Q) (retained D d (cov_spec N X) P)) /\
        retained D d (cov_spec N X) P = sumn d lam.
Proof. exact @pca_dense_end_to_end. Qed.
Print Assumptions C06_pca_dense_end_to_end.

Example C06_pca_dense_end_to_end_nonvacuous :
  (exists b, In b eig_table /\ b_largest b = true /\ b_base b = BaseN) /\
  @of_nat Qc _ 4 <> 0%F /\ 1 <= 2 /\
  full_contract 2 (cov_spec 4 (mof ex6_X)) ex6_V ex6_Lam /\ ascending 2 ex6_Lam.
Proof.
  split; [eexists; split; [left; reflexivity|split; reflexivity]|].
  split; [apply Qc_of_nat_neq0; lia|]. split; [lia|]. split; [exact ex6_full|exact ex6_ascending].
Qed.

(* 9c. the RANDOMIZED path on exact-rank data: the Gram-Schmidt loop of
       eigendecomposition_impl_randomized leaves orthonormal columns (norms = sqrt oracle values),
       and if the range of the matrix was captured (Y Y^T A = A: rank A <= d and a generic Gaussian
       O) then from B = Y^T A Y (least squares with orthonormal Y) and ANY eigen answer for the small
       B, the returned P = Y W meets the same contract as the dense path *)
Theorem C06_gram_schmidt_orthonormal :
  forall (F : Type) (Fo : FieldOps F) (Ff : IsField F) (n : nat) (Y : mat F) (k : nat) (s : nat -> F),
    (forall i, i < k ->
       s i <> 0%F /\
       (s i * s i)%F = (let Yi := gram_schmidt n Y i s in
                        let col := gs_subtract n Yi i i (fun t => Yi t i) in dot n col col)) ->
    cols_orthonormal_upto n k (gram_schmidt n Y k s).
Proof. exact @gram_schmidt_orthonormal. Qed.
Print Assumptions C06_gram_schmidt_orthonormal.

Theorem C06_randomized_contract :
  forall (F : Type) (Fo : FieldOps F) (Ff : IsField F) (n k : nat) (A Y B W : mat F) (lam : vec F),
    orthonormal_cols n k Y ->
    meq n n (mmul k Y (mmul n (mtrans Y) A)) A ->
    meq k k B (mmul n (mtrans Y) (mmul n A Y)) ->
    eig_pairs k k B W lam ->
    eig_pairs n k A (mmul k Y W) lam.
Proof. exact @randomized_contract. Qed.
Print Assumptions C06_randomized_contract.

Theorem C06_pca_randomized_path :
  forall (F : Type) (Fo : FieldOps F) (Ff : IsField F) (N D d : nat) (X O B W : mat F)
         (lam : vec F) (s : nat -> F),
    of_nat N <> 0%F ->
    let A := cov_spec N X in
    let Y := gram_schmidt D (mmul D A O) d s in
    (forall i, i < d ->
       s i <> 0%F /\
       (s i * s i)%F = (let Yi := gram_schmidt D (mmul D A O) i s in
                        let col := gs_subtract D Yi i i (fun t => Yi t i) in dot D col col)) ->
    meq D D (mmul d Y (mmul D (mtrans Y) A)) A ->
    meq d d B (mmul D (mtrans Y) (mmul D A Y)) ->
    eig_pairs d d B W lam ->
    let P := mmul d Y W in
    eig_contract D d A P lam /\ uncorrelated N d (pca_embedding N D X P) lam.
Proof. exact @pca_randomized_path. Qed.
Print Assumptions C06_pca_randomized_path.

(* rank-one data: (4,5) and (-2,-3), covariance (3,4)(3,4)^T, O = e_1, norm oracle 15 *)
Definition ex6r_X : mat Qc := mof [[qz 4; qz 5]; [qz (-2); qz (-3)]].
Definition ex6r_O : mat Qc := mof [[qz 1]; [qz 0]].
Definition ex6r_s : nat -> Qc := fun _ => qz 15.
Definition ex6r_B : mat Qc := mof [[qz 25]].
Definition ex6r_W : mat Qc := mof [[qz 1]].
Definition ex6r_lam : vec Qc := vof [qz 25].

Example C06_pca_randomized_nonvacuous :
  @of_nat Qc _ 2 <> 0%F /\
  let A := cov_spec 2 ex6r_X in
  let Y := gram_schmidt 2 (mmul 2 A ex6r_O) 1 ex6r_s in
  (forall i, i < 1 ->
     ex6r_s i <> 0%F /\
     (ex6r_s i * ex6r_s i)%F = (let Yi := gram_schmidt 2 (mmul 2 A ex6r_O) i ex6r_s in
                                let col := gs_subtract 2 Yi i i (fun t => Yi t i) in dot 2 col col)) /\
  meq 2 2 (mmul 1 Y (mmul 2 (mtrans Y) A)) A /\
  meq 1 1 ex6r_B (mmul 2 (mtrans Y) (mmul 2 A Y)) /\
  eig_pairs 1 1 ex6r_B ex6r_W ex6r_lam /\
  mtab 2 1 (mmul 1 Y ex6r_W) = [[qfrac 3 5]; [qfrac 4 5]].
Proof.
  split; [apply Qc_of_nat_neq0; lia|]. cbv zeta. split; [|split; [|split; [|split]]].
  - intros i Hi. assert (i = 0) by lia. subst i. split.
    + intros H. apply (f_equal this) in H. vm_compute in H. discriminate.
    + apply Qc_is_canon. vm_compute. reflexivity.
  - apply meq_by_compute. vm_compute. reflexivity.
  - apply meq_by_compute. vm_compute. reflexivity.
  - split; apply meq_by_compute; vm_compute; reflexivity.
  - apply mlist_eqb_ok. vm_compute. reflexivity.
Qed.

(* 9d. the loop WITH its `norm < 1e-4` branch, as written, coincides with the plain Gram-Schmidt
       loop of 9c whenever the branch is never taken; and the Householder least-squares solve,
       taken by its normal equations, returns Y^T B1 for orthonormal Y (the hypothesis
       B = Y^T A Y of 9c) *)
Theorem C06_gram_schmidt_threshold_branch :
  forall (F : Type) (Fo : FieldOps F) (below : F -> bool) (n : nat) (Y : mat F) (k : nat) (s : nat -> F),
    (forall i, i < k -> below (s i) = false) ->
    forall t c, gram_schmidt_thr below n Y k s t c = gram_schmidt n Y k s t c.
Proof. exact @gram_schmidt_thr_no_branch. Qed.
Print Assumptions C06_gram_schmidt_threshold_branch.

Example C06_gram_schmidt_threshold_nonvacuous :
  forall i, i < 1 -> (fun x : Qc => pq_leb x (qfrac 1 10000) && negb (qeqb x (qfrac 1 10000))) (ex6r_s i) = false.
Proof. intros i Hi. vm_compute. reflexivity. Qed.

Theorem C06_ls_solution_orthonormal :
  forall (F : Type) (Fo : FieldOps F) (Ff : IsField F) (n k : nat) (Y B B1 : mat F),
    orthonormal_cols n k Y ->
    meq k k (mmul k (mmul n (mtrans Y) Y) B) (mmul n (mtrans Y) B1) ->
    meq k k B (mmul n (mtrans Y) B1).
Proof. exact @ls_solution_orthonormal. Qed.
Print Assumptions C06_ls_solution_orthonormal.

(* Ky Fan itself, both directions and attainment, every n, d, every ordered field *)
Theorem C06_ky_fan :
  forall (F : Type) (Fo : FieldOps F) (Ff : IsField F) (Fle : OrderedField F)
         (n d : nat) (M V Q : mat F) (lam : vec F),
    d <= n ->
    meq n n (mmul n (mtrans V) V) mI ->
    meq n n (mmul n V (mtrans V)) mI ->
    meq n n (mmul n M V) (mmul n V (mdiag lam)) ->
    ascending n lam ->
    meq d d (mmul n (mtrans Q) Q) mI ->
    fle (sumn d lam) (quad n d M Q) /\
    fle (quad n d M Q) (sumn d (fun c => lam (n - d + c))) /\
    quad n d M (fun i c => V i (n - d + c)) = sumn d (fun c => lam (n - d + c)).
Proof. exact @ky_fan. Qed.
Print Assumptions C06_ky_fan.

Example C06_ky_fan_nonvacuous :
  1 <= 2 /\ meq 2 2 (mmul 2 (mtrans ex6_V) ex6_V) mI /\ meq 2 2 (mmul 2 ex6_V (mtrans ex6_V)) mI /\
  ascending 2 ex6_Lam /\ meq 1 1 (mmul 2 (mtrans ex6_Q) ex6_Q) mI.
Proof.
  split; [lia|]. destruct ex6_full as [A [B _]]. split; [exact A|]. split; [exact B|].
  split; [exact ex6_ascending|]. apply meq_by_compute; vm_compute; reflexivity.
Qed.

(* 10. PCA vs Kernel PCA (linear kernel) vs MDS (Euclidean distances): PCA's embedding Y
       satisfies, for the centred Gram matrix G = X_c X_c^T, exactly the characterisation
       Properties_C05 proves for the other two (G Y = Y diag(N lam), Y^T Y = diag(N lam)).
       That this characterisation determines each column up to sign is 10b-10d. *)
Theorem C06_pca_gram_factor :
  forall (F : Type) (Fo : FieldOps F) (Ff : IsField F) (N D d : nat) (X P : mat F) (lam : vec F),
    of_nat N <> 0%F ->
    eig_contract D d (cov_spec N X) P lam ->
    let Y := pca_embedding N D X P in
    (forall i c, c < d -> mmul N (centred_gram N D X) Y i c = (of_nat N * lam c * Y i c)%F) /\
    (forall a b, a < d -> b < d ->
       sumn N (fun k => (Y k a * Y k b)%F) = if Nat.eqb a b then (of_nat N * lam a)%F else 0%F).
Proof. exact @pca_gram_factor. Qed.
Print Assumptions C06_pca_gram_factor.

(* 10b. ... and that characterisation fixes each column up to sign when its eigenvalue is simple
        and non-zero: column c of PCA's embedding equals +- column c of ANY embedding whose column is
        a Gram-factor column (G z = mu z, <z,z> = mu) for mu = N lam_c — which is what Properties_C05
        proves of Kernel PCA and MDS.  That all three methods select the same mu's is 10c. *)
Theorem C06_pca_column_unique_up_to_sign :
  forall (F : Type) (Fo : FieldOps F) (Ff : IsField F)
         (eq_dec : forall a b : F, {a = b} + {a <> b})
         (N D d : nat) (X P : mat F) (lam : vec F) (c : nat) (u z : vec F),
    of_nat N <> 0%F -> c < d ->
    eig_contract D d (cov_spec N X) P lam ->
    let mu := (of_nat N * lam c)%F in
    mu <> 0%F ->
    simple_eigenvalue N (centred_gram N D X) mu u ->
    gram_factor_col N (centred_gram N D X) mu z ->
    let y := fun k => pca_embedding N D X P k c in
    veq N z y \/ veq N z (vscale (- (1))%F y).
Proof. exact @pca_column_unique_up_to_sign. Qed.
Print Assumptions C06_pca_column_unique_up_to_sign.

Definition ex6s_X : mat Qc := mof [[qz 1]; [qz (-1)]].
Definition ex6s_P : mat Qc := mof [[qz 1]].
Definition ex6s_lam : vec Qc := vof [qz 1].
Definition ex6s_u : vec Qc := vof [qz 1; qz (-1)].

Example C06_sign_nonvacuous :
  2 <> 0 /\ 0 < 1 /\
  eig_contract 1 1 (cov_spec 2 ex6s_X) ex6s_P ex6s_lam /\
  (of_nat 2 * ex6s_lam O)%F <> 0%F /\
  simple_eigenvalue 2 (centred_gram 2 1 ex6s_X) (of_nat 2 * ex6s_lam O)%F ex6s_u /\
  gram_factor_col 2 (centred_gram 2 1 ex6s_X) (of_nat 2 * ex6s_lam O)%F ex6s_u.
Proof.
  split; [lia|]. split; [lia|]. split.
  { split; apply meq_by_compute; vm_compute; reflexivity. }
  split.
  { intros H. apply (f_equal this) in H. vm_compute in H. discriminate. }
  assert (G00 : centred_gram 2 1 ex6s_X 0 0 = qz 1) by (apply Qc_is_canon; vm_compute; reflexivity).
  assert (G01 : centred_gram 2 1 ex6s_X 0 1 = qz (-1)) by (apply Qc_is_canon; vm_compute; reflexivity).
  assert (MU : (of_nat 2 * ex6s_lam O)%F = qz 2) by (apply Qc_is_canon; vm_compute; reflexivity).
  split.
  - intros v Hv. exists (v 0%nat). intros i Hi.
    specialize (Hv 0%nat ltac:(lia)). unfold mv in Hv. cbn [sumn] in Hv. rewrite G00, G01, MU in Hv.
    cbn [fadd fmul fzero QcOps] in Hv.
    set (a := v 0%nat) in *. set (b := v 1%nat) in *.
    assert (E : b = (- a)%Qc).
    { transitivity ((- a) - ((Q2Qc 0 + qz 1 * a + qz (-1) * b) - qz 2 * a))%Qc.
      - change (qz 1) with 1%Qc. change (qz (-1)) with (-(1))%Qc. change (qz 2) with (1+1)%Qc.
        change (Q2Qc 0) with 0%Qc. ring.
      - rewrite Hv. change (qz 1) with 1%Qc. change (qz 2) with (1+1)%Qc. ring. }
    destruct i as [|[|i]]; try lia; unfold vscale, ex6s_u, vof; cbn [nth]; cbn [fmul QcOps].
    + fold a. change (qz 1) with 1%Qc. ring.
    + fold b. rewrite E. change (qz (-1)) with (-(1))%Qc. ring.
  - split.
    + intros i Hi. destruct i as [|[|i]]; try lia; apply Qc_is_canon; vm_compute; reflexivity.
    + apply Qc_is_canon. vm_compute. reflexivity.
Qed.

(* 10c. the two spectra agree WITH their ordering: the (k+1)-th largest eigenvalue of the centred
        Gram matrix X_c X_c^T is N times the (k+1)-th largest covariance eigenvalue (Gram duality
        A A^T / A^T A through Ky Fan in both directions, Spectral_GramDual.v), given full ascending
        orthonormal decompositions of both (oracle contracts) and non-zero square roots of the
        eigenvalues involved (they are positive) *)
Theorem C06_pca_gram_kth_eigenvalue :
  forall (F : Type) (Fo : FieldOps F) (Ff : IsField F) (Fle : OrderedField F)
         (N D k : nat) (X V U : mat F) (Lam Mu s r : vec F),
    of_nat N <> 0%F -> S k <= D -> S k <= N ->
    full_contract D (cov_spec N X) V Lam -> ascending D Lam ->
    full_asc N (centred_gram N D X) U Mu ->
    roots_of_top D (S k) (fun t => (of_nat N * Lam t)%F) s ->
    roots_of_top N (S k) Mu r ->
    Mu (N - S k) = fmul (of_nat N) (Lam (D - S k)).
Proof. exact @pca_gram_kth_eigenvalue. Qed.
Print Assumptions C06_pca_gram_kth_eigenvalue.

(* 10d. LAST CLAUSE OF THE PROPERTY: PCA's embedding agrees, column by column and up to sign, with
        any embedding Z that is a factor of the centred Gram matrix for its d largest eigenvalues
        (Z^T Z = diag mu, G Z = Z diag mu: exactly what Properties_C05.Mds_sqrt_scaling /
        Mds_factor_partial prove of Kernel PCA with the linear kernel and of MDS with Euclidean
        distances, whose matrices are that Gram matrix by Mds_kpca_linear_gram / Mds_identity),
        wherever those eigenvalues are simple *)
Theorem C06_pca_agrees_with_kpca_mds :
  forall (F : Type) (Fo : FieldOps F) (Ff : IsField F) (Fle : OrderedField F)
         (eq_dec : forall a b : F, {a = b} + {a <> b})
         (N D d : nat) (X V U Z : mat F) (Lam Mu s r : vec F) (u : nat -> vec F),
    of_nat N <> 0%F -> d <= D -> d <= N ->
    full_contract D (cov_spec N X) V Lam -> ascending D Lam ->
    full_asc N (centred_gram N D X) U Mu ->
    roots_of_top D d (fun t => (of_nat N * Lam t)%F) s ->
    roots_of_top N d Mu r ->
    (forall c, c < d -> simple_eigenvalue N (centred_gram N D X) (Mu (N - d + c)) (u c)) ->
    meq d d (mmul N (mtrans Z) Z) (mdiag (fun c => Mu (N - d + c))) ->
    meq N d (mmul N (centred_gram N D X) Z) (mmul d Z (mdiag (fun c => Mu (N - d + c)))) ->
    let Y := pca_embedding N D X (select_cols V (D - d, d)) in
    forall c, c < d ->
      veq N (fun k => Z k c) (fun k => Y k c) \/
      veq N (fun k => Z k c) (vscale (- (1))%F (fun k => Y k c)).
Proof. exact @pca_agrees_with_kpca_mds. Qed.
Print Assumptions C06_pca_agrees_with_kpca_mds.

(* four samples +1, -1, +1, -1 on a line: covariance [[1]], centred Gram h h^T with
   h = (1,-1,1,-1), eigenvalue 4 = N * 1, rational (Hadamard) eigenbasis *)
Definition ex6g_X : mat Qc := mof [[qz 1]; [qz (-1)]; [qz 1]; [qz (-1)]].
Definition ex6g_V : mat Qc := mof [[qz 1]].
Definition ex6g_Lam : vec Qc := vof [qz 1].
Definition hq : Qc := qfrac 1 2.
Definition ex6g_U : mat Qc :=
  mof [[hq; hq; hq; hq]; [hq; hq; (-hq)%Qc; (-hq)%Qc]; [hq; (-hq)%Qc; (-hq)%Qc; hq]; [hq; (-hq)%Qc; hq; (-hq)%Qc]].
Definition ex6g_Mu : vec Qc := vof [qz 0; qz 0; qz 0; qz 4].
Definition ex6g_s : vec Qc := vof [qz 2].
Definition ex6g_h : vec Qc := vof [qz 1; qz (-1); qz 1; qz (-1)].
Definition ex6g_Z : mat Qc := mof [[qz 1]; [qz (-1)]; [qz 1]; [qz (-1)]].

Example C06_gram_spectrum_nonvacuous :
  @of_nat Qc _ 4 <> 0%F /\ 1 <= 1 /\ 1 <= 4 /\
  full_contract 1 (cov_spec 4 ex6g_X) ex6g_V ex6g_Lam /\ ascending 1 ex6g_Lam /\
  full_asc 4 (centred_gram 4 1 ex6g_X) (mtrans ex6g_U) ex6g_Mu /\
  roots_of_top 1 1 (fun t => (of_nat 4 * ex6g_Lam t)%F) ex6g_s /\
  roots_of_top 4 1 ex6g_Mu ex6g_s /\
  (forall c, c < 1 ->
     simple_eigenvalue 4 (centred_gram 4 1 ex6g_X) (ex6g_Mu (4 - 1 + c)) ex6g_h /\
     gram_factor_col 4 (centred_gram 4 1 ex6g_X) (ex6g_Mu (4 - 1 + c)) (fun k => ex6g_Z k c)).
Proof.
  split; [apply Qc_of_nat_neq0; lia|]. split; [lia|]. split; [lia|].
  split; [repeat split; apply meq_by_compute; vm_compute; reflexivity|].
  split.
  { intros a b Hab Hb. assert (a = 0) by lia. assert (b = 0) by lia. subst. apply fle_refl. }
  split.
  { split; [apply meq_by_compute; vm_compute; reflexivity|].
    split; [apply meq_by_compute; vm_compute; reflexivity|].
    split; [apply meq_by_compute; vm_compute; reflexivity|].
    intros a b Hab Hb.
    destruct a as [|[|[|[|a]]]]; destruct b as [|[|[|[|b]]]]; try lia;
      unfold fle; cbn [QcOrdered]; unfold Qcle; vm_compute; discriminate. }
  split.
  { intros c Hc. assert (c = 0) by lia. subst c. split.
    - apply Qc_is_canon. vm_compute. reflexivity.
    - intros H. apply (f_equal this) in H. vm_compute in H. discriminate. }
  split.
  { intros c Hc. assert (c = 0) by lia. subst c. split.
    - apply Qc_is_canon. vm_compute. reflexivity.
    - intros H. apply (f_equal this) in H. vm_compute in H. discriminate. }
  intros c Hc. assert (c = 0) by lia. subst c.
  assert (HG : meq 4 4 (centred_gram 4 1 ex6g_X) (fun i j => (ex6g_h i * ex6g_h j)%F))
    by (apply meq_by_compute; vm_compute; reflexivity).
  assert (MU : ex6g_Mu (4 - 1 + 0) = qz 4) by reflexivity.
  rewrite MU. split.
  - intros v Hv.
    exists ((sumn 4 (fun j => (ex6g_h j * v j)%F)) / qz 4)%Qc.
    intros i Hi. specialize (Hv i Hi). unfold mv in Hv.
    rewrite (sumn_ext 4 _ (fun t => (ex6g_h i * (ex6g_h t * v t))%F)) in Hv.
    2:{ intros t Ht. rewrite (HG i t Hi Ht). cbn [fmul QcOps]. ring. }
    rewrite sumn_mul_l in Hv. unfold vscale. cbn [fmul QcOps] in *.
    set (S := sumn 4 (fun j => (ex6g_h j * v j)%Qc)) in *.
    (* 4 v_i = h_i S *)
    transitivity ((qz 4 * v i) / qz 4)%Qc.
    + field. intros H. apply (f_equal this) in H. vm_compute in H. discriminate.
    + rewrite <- Hv. field. intros H. apply (f_equal this) in H. vm_compute in H. discriminate.
  - split.
    + intros i Hi. destruct i as [|[|[|[|i]]]]; try lia; apply Qc_is_canon; vm_compute; reflexivity.
    + apply Qc_is_canon. vm_compute. reflexivity.
Qed.

(* 11. the decision procedures the check runs on the implementation's outputs are sound in
       exact mode, and the model's own covariance passes them *)
Theorem C06_decisions_sound :
  (forall N D (Xs C : list (list Qc)),
     cov_seen_dense_b N D (Q2Qc 0) Xs C = Some true ->
     meq D D (seen_dense (mof C)) (cov_spec N (mof Xs))) /\
  (forall N D (Xs C : list (list Qc)),
     cov_seen_randomized_b N D (Q2Qc 0) Xs C = Some true ->
     meq D D (seen_randomized (mof C)) (cov_spec N (mof Xs))) /\
  (forall D d (C P : list (list Qc)) (lam : list Qc),
     eig_contract_tol_b D d (Q2Qc 0) C P lam = Some true ->
     eig_contract D d (mof C) (mof P) (vof lam)) /\
  (forall N d (Y : list (list Qc)) (lam : list Qc),
     uncorrelated_tol_b N d (Q2Qc 0) Y lam = Some true -> uncorrelated N d (mof Y) (vof lam)) /\
  (forall N D (Xs C : list (list Qc)), N <> 0 -> wf_mat N D Xs -> pca_matrix_exec D Xs = POk C ->
     cov_seen_dense_b N D (Q2Qc 0) Xs C = Some true /\
     cov_seen_randomized_b N D (Q2Qc 0) Xs C = Some true).
Proof. exact decisions_sound. Qed.
Print Assumptions C06_decisions_sound.

Example C06_decisions_nonvacuous :
  exists C, pca_matrix_exec 2 ex6_X = POk C /\ cov_seen_dense_b 4 2 (Q2Qc 0) ex6_X C = Some true.
Proof.
  assert (W : wf_mat 4 2 ex6_X) by (split; [reflexivity|repeat constructor]).
  destruct (@pca_matrix_exec_ok Qc QcOps QcField 4 2 ex6_X W) as [E _].
  eexists. split; [exact E|]. apply (model_cov_passes 4 2 ex6_X _ ltac:(lia) W E).
Qed.

(* 12. (wave 2) scale equivariance of the whole pipeline: for ANY s, the mean of s X is s * mean, the
       covariance — the specification AND what compute_mean + compute_covariance_matrix return — is
       s^2 * covariance, the same P meets the eigen contract with the eigenvalues scaled by s^2 (and
       conversely when s <> 0), and the embedding is scaled by s.  No absolute magnitude may enter
       anywhere between the data and the embedding; the check evaluates runs on 2^k X (k in [-60, 60])
       after undoing the (exact) scaling. *)
Theorem C06_scale_equivariant :
  forall (F : Type) (Fo : FieldOps F) (Ff : IsField F) (N D d : nat) (s : F) (X P : mat F) (lam : vec F),
    (forall t, mean_vec N (mscaleX s X) t = (s * mean_vec N X t)%F) /\
    (forall i j, cov_spec N (mscaleX s X) i j = (s * s * cov_spec N X i j)%F) /\
    (of_nat N <> 0%F -> forall i j, pca_matrix N (mscaleX s X) i j = (s * s * pca_matrix N X i j)%F) /\
    (eig_contract D d (cov_spec N X) P lam ->
     eig_contract D d (cov_spec N (mscaleX s X)) P (fun a => (s * s * lam a)%F)) /\
    (s <> 0%F -> eig_contract D d (cov_spec N (mscaleX s X)) P (fun a => (s * s * lam a)%F) ->
     eig_contract D d (cov_spec N X) P lam) /\
    (forall k a, pca_embedding N D (mscaleX s X) P k a = (s * pca_embedding N D X P k a)%F).
Proof. exact @pca_scale_equivariant_all. Qed.
Print Assumptions C06_scale_equivariant.

Example C06_scale_nonvacuous :
  exists (P : mat Qc) (lam : vec Qc), eig_contract 1 1 (cov_spec 2 (mof [[qz 1]; [qz 3]])) P lam /\ qz 2 <> 0%F.
Proof.
  exists (fun _ _ => qz 1), (fun _ => qz 1). split.
  - split; intros i j Hi Hj; assert (i = 0) by lia; assert (j = 0) by lia; subst;
      apply Qc_is_canon; vm_compute; reflexivity.
  - intros H. apply (f_equal this) in H. vm_compute in H. discriminate.
Qed.

(* uncorrelatedness and retained variance transform the same way *)
Theorem C06_scale_uncorrelated_retained :
  forall (F : Type) (Fo : FieldOps F) (Ff : IsField F) (N D d : nat) (s c : F) (Y C Q : mat F) (lam : vec F),
    (uncorrelated N d Y lam -> uncorrelated N d (fun k a => (s * Y k a)%F) (fun a => (s * s * lam a)%F)) /\
    retained D d (fun i j => (c * C i j)%F) Q = (c * retained D d C Q)%F.
Proof. exact @scale_uncorrelated_retained_all. Qed.
Print Assumptions C06_scale_uncorrelated_retained.

(* 13. (wave 2) the orthonormalisation loop of the randomized front-end and scale.  The plain modified
       Gram-Schmidt loop (9c) is scale INVARIANT: on c*Y with norms c*s_i it yields the same finished columns
       (and c times the untouched ones), any c <> 0, non-vanishing norms ... *)
Theorem C06_gram_schmidt_scale_invariant :
  forall (F : Type) (Fo : FieldOps F) (Ff : IsField F) (n : nat) (Y : mat F) (k : nat) (s : nat -> F) (c : F),
    c <> 0%F -> (forall i, i < k -> s i <> 0%F) ->
    (forall t b, b < k ->
       gram_schmidt n (fun t b => (c * Y t b)%F) k (fun i => (c * s i)%F) t b = gram_schmidt n Y k s t b) /\
    (forall t b, k <= b ->
       gram_schmidt n (fun t b => (c * Y t b)%F) k (fun i => (c * s i)%F) t b = (c * gram_schmidt n Y k s t b)%F).
Proof. exact @gram_schmidt_scale_invariant. Qed.
Print Assumptions C06_gram_schmidt_scale_invariant.

Example C06_gram_schmidt_scale_nonvacuous : exrs_c <> 0%F /\ (forall i, i < 2 -> exrs_s i <> 0%F).
Proof. split; [exact (proj1 gram_schmidt_cutoff_not_scale_invariant)|exact (proj1 (proj2 gram_schmidt_cutoff_not_scale_invariant))]. Qed.

(* ... whereas the loop AS SHIPPED, with its ABSOLUTE cut-off `norm < 1e-4`, is not (regression theorem for the
   scale side of known finding F36): the full-rank orthonormal 2x2 input is returned unchanged, the same input
   scaled by 1e-5 (norms scaled accordingly) has every column zeroed, and the plain loop still returns the
   orthonormal columns.  The check therefore exercises the randomized solver at scales >= 1 only. *)
Theorem C06_randomized_cutoff_scale_refuted :
  exrs_c <> Q2Qc 0 /\ (forall i, i < 2 -> exrs_s i <> Q2Qc 0) /\
  (forall t b, t < 2 -> b < 2 -> gram_schmidt_thr below_1e4 2 exrs_Y 2 exrs_s t b = exrs_Y t b) /\
  (forall t b, t < 2 -> b < 2 ->
     gram_schmidt_thr below_1e4 2 (fun t b => (exrs_c * exrs_Y t b)%Qc) 2 (fun i => (exrs_c * exrs_s i)%Qc) t b = Q2Qc 0) /\
  (forall t b, t < 2 -> b < 2 ->
     gram_schmidt 2 (fun t b => (exrs_c * exrs_Y t b)%Qc) 2 (fun i => (exrs_c * exrs_s i)%Qc) t b = exrs_Y t b).
Proof. exact gram_schmidt_cutoff_not_scale_invariant. Qed.
Print Assumptions C06_randomized_cutoff_scale_refuted.

(* ---------------------------------------------------------------------------------------------- *)
(* Wave 3: data with a large common OFFSET; the centred (current, fix F49) and the expanded         *)
(* (F8 .. F49) form of compute_covariance_matrix.                                                   *)
(* 14. Both forms return the sample covariance in every entry — the centred loop for EVERY N, the    *)
(*     expanded form E[x x^T] - m m^T for N <> 0 — hence they are EQUAL over every exact field (the   *)
(*     exact model cannot distinguish them), and the list-level loop of the expanded form computes    *)
(*     its function-level model.  In binary64 the expanded form loses (offset / spread)^2 * eps of      *)
(*     relative accuracy (catastrophic cancellation), the centred form does not: that difference is    *)
(*     judged by the check with a tolerance relative to the SPREAD of the data, never to |x|.          *)
Theorem C06_cov_centred_and_expanded :
  forall (F : Type) (Fo : FieldOps F) (Ff : IsField F) (N D : nat) (X : mat F) (Xs : list (list F)),
    (forall i j, pca_matrix N X i j = cov_spec N X i j) /\
    (of_nat N <> 0%F -> forall i j, pca_matrix_expanded N X i j = cov_spec N X i j) /\
    (of_nat N <> 0%F -> forall i j, pca_matrix N X i j = pca_matrix_expanded N X i j) /\
    (wf_mat N D Xs -> pca_matrix_expanded_exec D Xs = POk (mtab D D (pca_matrix_expanded N (mof Xs)))).
Proof. exact @centred_and_expanded_all. Qed.
Print Assumptions C06_cov_centred_and_expanded.

Example C06_cov_centred_and_expanded_nonvacuous : @of_nat Qc _ 4 <> 0%F /\ wf_mat 2 2 f8_X.
Proof. split; [apply Qc_of_nat_neq0; lia|split; [reflexivity|repeat constructor]]. Qed.

(* ... and why the vector handed in as `mean` matters for the centred loop only through the spread: for ANY
   vector m the two accumulated triangles differ by 2 m m^T - m mean^T - mean m^T (zero iff ... m = mean) *)
Theorem C06_cov_centred_vs_expanded_any_m :
  forall (F : Type) (Fo : FieldOps F) (Ff : IsField F) (N : nat) (X : mat F) (m : vec F) (i j : nat),
    of_nat N <> 0%F ->
    (read_upper (cov_accumulated_centred N X m) i j - read_upper (cov_accumulated N X m) i j =
     two * m i * m j - m i * mean_vec N X j - mean_vec N X i * m j)%F.
Proof. exact @cov_centred_vs_expanded_any_m. Qed.
Print Assumptions C06_cov_centred_vs_expanded_any_m.

(* 15. offset invariance: moving every sample by the same vector o moves the mean by o and changes NEITHER
       the covariance (specification, current code, expanded form) NOR the eigen contract NOR the embedding
       for the same P: every output of PCA is a function of the spread about the mean only *)
Theorem C06_offset_invariant :
  forall (F : Type) (Fo : FieldOps F) (Ff : IsField F) (N D d : nat) (o : vec F) (X P : mat F) (lam : vec F),
    of_nat N <> 0%F ->
    (forall t, mean_vec N (mtransX o X) t = (mean_vec N X t + o t)%F) /\
    (forall i j, cov_spec N (mtransX o X) i j = cov_spec N X i j) /\
    (forall i j, pca_matrix N (mtransX o X) i j = pca_matrix N X i j) /\
    (forall i j, pca_matrix_expanded N (mtransX o X) i j = pca_matrix_expanded N X i j) /\
    (eig_contract D d (pca_matrix N X) P lam -> eig_contract D d (pca_matrix N (mtransX o X)) P lam) /\
    (forall k a, pca_embedding N D (mtransX o X) P k a = pca_embedding N D X P k a).
Proof. exact @offset_invariant_all. Qed.
Print Assumptions C06_offset_invariant.

Example C06_offset_invariant_nonvacuous : @of_nat Qc _ 7 <> 0%F.
Proof. apply Qc_of_nat_neq0. lia. Qed.
