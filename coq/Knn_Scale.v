(* Knn_Scale.v — the neighbour searches only compare distances, and the kernel flavour only compares the
   quantities -2 k(p,a) + k(a,a): both are invariant under a positive rescaling of the callback values.  This is what
   the `kernel_scaled` stream of the check exercises (PSD integer kernel tables served as G * 2^s, s in [-60, 60]):
   the rows must be the same k-nearest sets at every scale. *)
From Coq Require Import List ZArith Lia.
From TK Require Import Knn_Spec.
Local Open Scope Z_scope.

(* the VP-tree's kernel comparator is scale-equivariant *)
Lemma kernel_comparator_scale_lemma : forall c kpa kaa kpb kbb : Z, 0 < c ->
  (-2 * (c * kpa) + c * kaa < -2 * (c * kpb) + c * kbb <-> -2 * kpa + kaa < -2 * kpb + kbb).
Proof. intros c kpa kaa kpb kbb Hc. split; intros H; nia. Qed.

(* ... and so is the specification: a row is a k-nearest set for c * d iff it is one for d *)
Lemma is_knn_scale_lemma : forall (c : Z) (d : dist) N q k l, 0 < c ->
  (is_knn (fun i j => c * d i j) N q k l <-> is_knn d N q k l).
Proof.
  intros c d N q k l Hc. unfold is_knn. split; intros [H1 [H2 [H3 [H4 H5]]]];
    (split; [assumption|]; split; [assumption|]; split; [assumption|]; split; [assumption|]);
    intros i j Hi Hj Hjq Hjr; specialize (H5 i j Hi Hj Hjq Hjr); nia.
Qed.

(* a rescaled metric is a metric *)
Lemma metric_scale_lemma : forall (c : Z) dom (d : dist), 0 < c ->
  metric_on dom d -> metric_on dom (fun i j => c * d i j).
Proof.
  intros c dom d Hc [Hs Ht]. split.
  - intros x y Hx Hy. now rewrite (Hs x y Hx Hy).
  - intros x y z Hx Hy Hz. specialize (Ht x y z Hx Hy Hz). nia.
Qed.
