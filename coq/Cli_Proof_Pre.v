(* ====================================================================== *)
(*  Cli_Proof_Pre.v — --precompute changes nothing but speed:              *)
(*  the table built by matrix_from_callback (util.hpp) holds, at (a,b),    *)
(*  exactly cb(min a b, max a b); for a symmetric callback (norm(x_a-x_b), *)
(*  dot(x_a,x_b)) that is the value the direct callback returns.           *)
(*  Also: iterations of the `omp parallel for` over i write disjoint cells.*)
(* ====================================================================== *)
From Coq Require Import List Arith Bool Lia ZArith.
From TK Require Import Cli_Model.
Import ListNotations.

Section Pre.
  Variable S : Type.
  Variable cb : nat -> nat -> S.

  Lemma fold_upd_cell : forall (ws : list ((nat * nat) * S)) (t : table S) a b v,
    (forall w, In w ws -> fst w = (a, b) -> snd w = v) ->
    fold_left (upd S) ws t a b = Some v \/
    (fold_left (upd S) ws t a b = t a b /\ forall w, In w ws -> fst w <> (a, b)).
  Proof.
    induction ws as [|w ws IH]; intros t a b v Hall.
    - right. split; [reflexivity|]. intros w [].
    - cbn [fold_left].
      destruct (IH (upd S t w) a b v) as [H|[H Hno]].
      + intros w' Hin. apply Hall. right. exact Hin.
      + left. exact H.
      + assert (Hu : upd S t w a b = if Nat.eqb a (fst (fst w)) && Nat.eqb b (snd (fst w))
                                      then Some (snd w) else t a b) by reflexivity.
        rewrite Hu in H. clear Hu.
        destruct (Nat.eqb a (fst (fst w)) && Nat.eqb b (snd (fst w))) eqn:E.
        * left. rewrite H. f_equal. apply Hall; [left; reflexivity|].
          apply andb_true_iff in E. destruct E as [E1 E2].
          apply Nat.eqb_eq in E1. apply Nat.eqb_eq in E2.
          destruct w as [[x y] s]. cbn in *. congruence.
        * right. split; [exact H|].
          intros w' [<-|Hin]; [|apply Hno; exact Hin].
          intro Heq. destruct w as [[x y] s]. cbn in *. injection Heq as -> ->.
          rewrite !Nat.eqb_refl in E. discriminate E.
  Qed.

  Lemma in_writes : forall N w,
    In w (writes S cb N) <->
    exists i j, i <= j /\ j < N /\ (w = ((i, j), cb i j) \/ w = ((j, i), cb i j)).
  Proof.
    intros N w. unfold writes. rewrite in_flat_map. split.
    - intros [i [Hi Hw]]. apply in_seq in Hi. apply in_flat_map in Hw.
      destruct Hw as [j [Hj Hw]]. apply in_seq in Hj.
      exists i, j. split; [lia|]. split; [lia|].
      destruct Hw as [<-|[<-|[]]]; auto.
    - intros [i [j [Hij [HjN Hw]]]]. exists i. split; [apply in_seq; lia|].
      apply in_flat_map. exists j. split; [apply in_seq; lia|].
      destruct Hw as [->| ->]; cbn; auto.
  Qed.

  Theorem table_value : forall N a b, a < N -> b < N ->
    matrix_from_callback S cb N a b = Some (cb (Nat.min a b) (Nat.max a b)).
  Proof.
    intros N a b Ha Hb. unfold matrix_from_callback.
    destruct (fold_upd_cell (writes S cb N) (fun _ _ => None) a b (cb (Nat.min a b) (Nat.max a b)))
      as [H|[_ Hno]].
    - intros w Hin Hfst. apply in_writes in Hin.
      destruct Hin as [i [j [Hij [HjN [-> | ->]]]]]; cbn in *; injection Hfst as <- <-.
      + rewrite Nat.min_l, Nat.max_r by lia. reflexivity.
      + rewrite Nat.min_r, Nat.max_l by lia. reflexivity.
    - exact H.
    - exfalso.
      destruct (Nat.le_ge_cases a b) as [Hab|Hab].
      + apply (Hno ((a, b), cb a b)); [|reflexivity].
        apply in_writes. exists a, b. auto.
      + apply (Hno ((a, b), cb b a)); [|reflexivity].
        apply in_writes. exists b, a. auto.
  Qed.

  Theorem table_outside : forall N a b, N <= a \/ N <= b -> matrix_from_callback S cb N a b = None.
  Proof.
    intros N a b Hout. unfold matrix_from_callback.
    assert (Hnone : forall w, In w (writes S cb N) -> fst w <> (a, b)).
    { intros w Hin Hfst. apply in_writes in Hin.
      destruct Hin as [i [j [Hij [HjN [-> | ->]]]]]; cbn in Hfst; injection Hfst as <- <-; lia. }
    assert (Hgen : forall ws t, (forall w, In w ws -> fst w <> (a, b)) ->
                                fold_left (upd S) ws t a b = t a b).
    { induction ws as [|w ws IH]; intros t Hn; [reflexivity|].
      cbn [fold_left]. rewrite IH by (intros w' Hw'; apply Hn; right; exact Hw').
      unfold upd. destruct (Nat.eqb a (fst (fst w)) && Nat.eqb b (snd (fst w))) eqn:E; [|reflexivity].
      exfalso. apply (Hn w); [left; reflexivity|].
      apply andb_true_iff in E. destruct E as [E1 E2].
      apply Nat.eqb_eq in E1. apply Nat.eqb_eq in E2. destruct w as [[x y] s]. cbn in *. congruence. }
    apply Hgen. exact Hnone.
  Qed.

  (* the precomputed callback returns what the direct callback returns *)
  Theorem precompute_same : (forall a b, cb a b = cb b a) ->
    forall N a b, a < N -> b < N -> precomputed S cb true N a b = Some (cb a b).
  Proof.
    intros Hsym N a b Ha Hb. unfold precomputed. rewrite table_value by assumption.
    f_equal. destruct (Nat.le_ge_cases a b) as [Hab|Hab].
    - rewrite Nat.min_l, Nat.max_r by lia. reflexivity.
    - rewrite Nat.min_r, Nat.max_l by lia. apply Hsym.
  Qed.

  (* cells written by iteration i of the parallel loop *)
  Definition cells_of_iter (N i : nat) : list (nat * nat) :=
    flat_map (fun j => [(i, j); (j, i)]) (seq i (N - i)).

  Theorem iterations_disjoint : forall N i i' c,
    i <> i' -> In c (cells_of_iter N i) -> In c (cells_of_iter N i') -> False.
  Proof.
    unfold cells_of_iter. intros N i i' c Hne H1 H2.
    apply in_flat_map in H1. destruct H1 as [j [Hj H1]]. apply in_seq in Hj.
    apply in_flat_map in H2. destruct H2 as [j' [Hj' H2]]. apply in_seq in Hj'.
    destruct H1 as [<-|[<-|[]]]; destruct H2 as [E|[E|[]]]; injection E as E1 E2; lia.
  Qed.
End Pre.

(* ---------------------------------------------------------------------- *)
(*  the two direct callbacks of eigen_callbacks.hpp are symmetric:         *)
(*  kernel(a,b) = x_a . x_b ,  distance(a,b) = sqrt((x_a - x_b).(x_a - x_b))*)
(*  (coordinates as integers = dyadic doubles scaled; sqrt is a value      *)
(*  oracle applied to the symmetric squared distance.  In binary64 the two *)
(*  symmetries hold bit for bit as well: x*y = y*x and (x-y)^2 = (y-x)^2   *)
(*  are exact identities of IEEE arithmetic and the summation order is the *)
(*  same.)                                                                 *)
(* ---------------------------------------------------------------------- *)
Local Open Scope Z_scope.

Fixpoint dotZ (u v : list Z) : Z :=
  match u, v with
  | x :: u', y :: v' => x * y + dotZ u' v'
  | _, _ => 0
  end.

Fixpoint sqdistZ (u v : list Z) : Z :=
  match u, v with
  | x :: u', y :: v' => (x - y) * (x - y) + sqdistZ u' v'
  | _, _ => 0
  end.

Lemma dotZ_comm : forall u v, dotZ u v = dotZ v u.
Proof.
  induction u as [|x u IH]; destruct v as [|y v]; cbn; try reflexivity.
  rewrite IH. ring.
Qed.

Lemma sqdistZ_comm : forall u v, sqdistZ u v = sqdistZ v u.
Proof.
  induction u as [|x u IH]; destruct v as [|y v]; cbn; try reflexivity.
  rewrite IH. ring.
Qed.

Theorem precompute_kernel_same : forall (X : nat -> list Z) (N a b : nat),
  (a < N)%nat -> (b < N)%nat ->
  precomputed Z (fun a b => dotZ (X a) (X b)) true N a b = Some (dotZ (X a) (X b)).
Proof.
  intros X N a b Ha Hb.
  apply (precompute_same Z (fun a b => dotZ (X a) (X b))); [|exact Ha|exact Hb].
  intros x y. apply dotZ_comm.
Qed.

Theorem precompute_distance_same : forall (S : Type) (sqrt_oracle : Z -> S) (X : nat -> list Z) (N a b : nat),
  (a < N)%nat -> (b < N)%nat ->
  precomputed S (fun a b => sqrt_oracle (sqdistZ (X a) (X b))) true N a b
  = Some (sqrt_oracle (sqdistZ (X a) (X b))).
Proof.
  intros S sqrt_oracle X N a b Ha Hb.
  apply (precompute_same S (fun a b => sqrt_oracle (sqdistZ (X a) (X b)))); [|exact Ha|exact Hb].
  intros x y. f_equal. apply sqdistZ_comm.
Qed.
