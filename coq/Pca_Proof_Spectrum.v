(* ====================================================================== *)
(*  Pca_Proof_Spectrum.v — the last clause of C06 in full:                 *)
(*  the k-th largest eigenvalue of the centred Gram matrix X_c X_c^T (what *)
(*  Kernel PCA with the linear kernel and MDS with Euclidean distances     *)
(*  decompose) is N times the k-th largest eigenvalue of the covariance    *)
(*  (Spectral_GramDual), hence all three methods select the same           *)
(*  eigenvalues, and for simple ones their columns agree up to sign        *)
(*  (Pca_Proof_Sign).  Every ordered field with decidable equality.        *)
(* ====================================================================== *)
Require Import Field Ring Arith Lia List Bool.
From TK Require Import Mat_Sums Mat_Core Proj_Model Proj_Spec Proj_Proof Pca_Model Pca_Spec Pca_Proof
                       Spectral_KyFan Spectral_GramDual Pca_Proof_Sign.

Section PcaSpectrum.
  Context {F : Type} {Fo : FieldOps F} {Ff : IsField F} {Fle : OrderedField F}.
  Add Field PcaSpectrumField : (@Fth F Fo Ff).
  Local Open Scope nat_scope.
  Local Open Scope F_scope.

  Lemma fle_zero_one : fle 0 1.
  Proof. replace 1 with (1 * 1) by ring. apply fle_sq. Qed.

  Lemma of_nat_nonneg n : fle 0 (of_nat n).
  Proof.
    induction n as [|n IH]; cbn [of_nat]; [apply fle_refl|].
    apply fle_add_nonneg; [exact IH|exact fle_zero_one].
  Qed.

  Lemma fle_mul_l c a b : fle 0 c -> fle a b -> fle (c * a) (c * b).
  Proof.
    intros Hc Hab. apply fle_of_sub_nonneg. replace (c * b - c * a) with (c * (b - a)) by ring.
    apply fle_mul_nonneg; [exact Hc|]. apply fle_sub_nonneg. exact Hab.
  Qed.

  (* X_c^T X_c = N * covariance: a full ascending decomposition of the covariance is one of the
     right Gram matrix of the centred data, with eigenvalues N * Lam *)
  Lemma right_gram_decomposition N D (X V : mat F) (Lam : vec F) :
    of_nat N <> 0 ->
    full_contract D (cov_spec N X) V Lam -> ascending D Lam ->
    full_asc D (gram N (mtrans (centred N X))) V (fun t => of_nat N * Lam t).
  Proof.
    intros HN [H1 [H2 H3]] Hasc. split; [exact H1|]. split; [exact H2|]. split.
    - intros i j Hi Hj. rewrite mmul_diag_r by assumption.
      unfold mmul.
      rewrite (sumn_ext D _ (fun t => of_nat N * (cov_spec N X i t * V t j))).
      2:{ intros t _. unfold gram, mtrans. rewrite (centred_moment N X i t HN). ring. }
      rewrite sumn_mul_l. pose proof (H3 i j Hi Hj) as E. unfold mmul at 1 in E. rewrite E.
      rewrite mmul_diag_r by assumption. ring.
    - intros a b Hab Hb. apply fle_mul_l; [apply of_nat_nonneg|]. apply Hasc; assumption.
  Qed.

  (* THEOREM: the (k+1)-th largest eigenvalue of the centred Gram matrix is N times the
     (k+1)-th largest eigenvalue of the covariance *)
  Theorem pca_gram_kth_eigenvalue N D k (X V U : mat F) (Lam Mu s r : vec F) :
    of_nat N <> 0 -> S k <= D -> S k <= N ->
    full_contract D (cov_spec N X) V Lam -> ascending D Lam ->
    full_asc N (centred_gram N D X) U Mu ->
    roots_of_top D (S k) (fun t => of_nat N * Lam t) s ->
    roots_of_top N (S k) Mu r ->
    Mu (N - S k)%nat = of_nat N * Lam (D - S k)%nat.
  Proof.
    intros HN HkD HkN Hfull Hasc HG Hs Hr.
    pose proof (right_gram_decomposition N D X V Lam HN Hfull Hasc) as HR.
    symmetry.
    exact (kth_largest_eq N D k (centred N X) V U (fun t => of_nat N * Lam t) Mu s r
             HkD HkN HR HG Hs Hr).
  Qed.

  Lemma roots_of_top_drop n k j (Lam s : vec F) :
    k + j <= n -> roots_of_top n (k + j) Lam s -> roots_of_top n k Lam (fun c => s (j + c)%nat).
  Proof.
    intros Hk H c Hc. destruct (H (j + c)%nat ltac:(lia)) as [E Nz]. split; [|exact Nz].
    rewrite E. f_equal. lia.
  Qed.

  (* THEOREM (last clause of C06): PCA's embedding agrees, column by column and up to sign, with
     ANY N x d matrix Z whose columns are Gram-factor columns for the d largest eigenvalues of
     the centred Gram matrix — which is what Properties_C05 proves Kernel PCA (linear kernel) and
     MDS (Euclidean distances) return — wherever those eigenvalues are simple. *)
  Theorem pca_agrees_with_gram_factorisation
          (eq_dec : forall a b : F, {a = b} + {a <> b})
          N D d (X V U Z : mat F) (Lam Mu s r : vec F) (u : nat -> vec F) :
    of_nat N <> 0 -> d <= D -> d <= N ->
    full_contract D (cov_spec N X) V Lam -> ascending D Lam ->
    full_asc N (centred_gram N D X) U Mu ->
    roots_of_top D d (fun t => of_nat N * Lam t) s ->
    roots_of_top N d Mu r ->
    (forall c, c < d ->
       simple_eigenvalue N (centred_gram N D X) (Mu (N - d + c)%nat) (u c) /\
       gram_factor_col N (centred_gram N D X) (Mu (N - d + c)%nat) (fun k => Z k c)) ->
    let Y := pca_embedding N D X (select_cols V ((D - d)%nat, d)) in
    forall c, c < d ->
      veq N (fun k => Z k c) (fun k => Y k c) \/
      veq N (fun k => Z k c) (vscale (- (1)) (fun k => Y k c)).
  Proof.
    intros HN HdD HdN Hfull Hasc HG Hs Hr HZ Y c Hc.
    destruct (HZ c Hc) as [Hsimple Hcol].
    (* the eigenvalue PCA attaches to column c equals the one the Gram side attaches to it *)
    set (k := (d - S c)%nat).
    assert (Ek : (S k + c = d)%nat) by (unfold k; lia).
    assert (Hs' : roots_of_top D (S k) (fun t => of_nat N * Lam t) (fun a => s (c + a)%nat)).
    { apply roots_of_top_drop; [lia|]. replace (S k + c)%nat with d by lia. exact Hs. }
    assert (Hr' : roots_of_top N (S k) Mu (fun a => r (c + a)%nat)).
    { apply roots_of_top_drop; [lia|]. replace (S k + c)%nat with d by lia. exact Hr. }
    pose proof (pca_gram_kth_eigenvalue N D k X V U Lam Mu _ _ HN ltac:(lia) ltac:(lia)
                  Hfull Hasc HG Hs' Hr') as E.
    replace (N - S k)%nat with (N - d + c)%nat in E by lia.
    replace (D - S k)%nat with (D - d + c)%nat in E by lia.
    (* non-zero *)
    assert (Hnz : of_nat N * Lam (D - d + c)%nat <> 0).
    { destruct (Hs c Hc) as [Es Ns]. rewrite <- Es. intros H0. apply Ns.
      exact (mul_zero_r_inv (s c) (s c) H0 Ns). }
    assert (Hcon : eig_contract D d (cov_spec N X) (select_cols V ((D - d)%nat, d))
                                (select_vals Lam ((D - d)%nat, d)))
      by (apply (select_contract D d (D - d)); [lia|exact Hfull]).
    rewrite E in Hsimple, Hcol.
    exact (pca_column_unique_up_to_sign eq_dec N D d X _ _ c (u c) (fun k0 => Z k0 c)
             HN Hc Hcon Hnz Hsimple Hcol).
  Qed.
  (* the characterisation Properties_C05 proves of Kernel PCA / MDS (Mds_Spec.factor_spec, here
     unfolded: Z^T Z = diag mu, G Z = Z diag mu) gives Gram-factor columns *)
  Lemma factor_spec_gives_cols N d (G Z : mat F) (mu : vec F) :
    meq d d (mmul N (mtrans Z) Z) (mdiag mu) ->
    meq N d (mmul N G Z) (mmul d Z (mdiag mu)) ->
    forall c, c < d -> gram_factor_col N G (mu c) (fun k => Z k c).
  Proof.
    intros H1 H2 c Hc. split.
    - intros i Hi. unfold mv. pose proof (H2 i c Hi Hc) as E. unfold mmul at 1 in E. rewrite E.
      rewrite mmul_diag_r by assumption. ring.
    - pose proof (H1 c c Hc Hc) as E. unfold mmul, mtrans, mdiag in E. rewrite Nat.eqb_refl in E.
      unfold dot. exact E.
  Qed.

  (* the same theorem with the other method's embedding given in factor_spec form *)
  Theorem pca_agrees_with_kpca_mds
          (eq_dec : forall a b : F, {a = b} + {a <> b})
          N D d (X V U Z : mat F) (Lam Mu s r : vec F) (u : nat -> vec F) :
    of_nat N <> 0 -> d <= D -> d <= N ->
    full_contract D (cov_spec N X) V Lam -> ascending D Lam ->
    full_asc N (centred_gram N D X) U Mu ->
    roots_of_top D d (fun t => of_nat N * Lam t) s ->
    roots_of_top N d Mu r ->
    (forall c, c < d -> simple_eigenvalue N (centred_gram N D X) (Mu (N - d + c)%nat) (u c)) ->
    meq d d (mmul N (mtrans Z) Z) (mdiag (fun c => Mu (N - d + c)%nat)) ->
    meq N d (mmul N (centred_gram N D X) Z) (mmul d Z (mdiag (fun c => Mu (N - d + c)%nat))) ->
    let Y := pca_embedding N D X (select_cols V ((D - d)%nat, d)) in
    forall c, c < d ->
      veq N (fun k => Z k c) (fun k => Y k c) \/
      veq N (fun k => Z k c) (vscale (- (1)) (fun k => Y k c)).
  Proof.
    intros HN HdD HdN Hfull Hasc HG Hs Hr Hsim HZ1 HZ2.
    apply (pca_agrees_with_gram_factorisation eq_dec N D d X V U Z Lam Mu s r u); try assumption.
    intros c Hc. split; [apply Hsim; assumption|].
    exact (factor_spec_gives_cols N d (centred_gram N D X) Z (fun a => Mu (N - d + a)%nat) HZ1 HZ2 c Hc).
  Qed.
End PcaSpectrum.
