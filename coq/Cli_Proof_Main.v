(* ====================================================================== *)
(*  Cli_Proof_Main.v — main() end to end over the documented tables:       *)
(*  what reaches the library and what is written, for every command line,  *)
(*  file and library result; unequal rows / library exception -> exit 1.   *)
(* ====================================================================== *)
From Coq Require Import String Ascii List ZArith QArith Bool Arith Lia.
From TK Require Import Cli_Model Cli_Spec Cli_Proof_Decide.
Import ListNotations.
Local Close Scope Q_scope.
Local Open Scope string_scope.

Definition delim_char (s : string) : ascii :=
  match s with EmptyString => zero | String c _ => c end.

Section MainThm.
  Variable V : Type.
  Variable parse : string -> option V.
  Variable print : V -> string.
  Variable lib : list (string * value) -> bool -> nat -> list (list V)
                 -> option (list (list V) * option (list (list V) * list V)).

  Lemma io_char_first : forall io k s, assoc k io = Some (first_char s) -> io_char io k = Some (delim_char s).
  Proof. intros io k [|c s] H; unfold io_char; rewrite H; reflexivity. Qed.

  Lemma io_bool_some : forall io k b, assoc k io = Some (VBool b) -> io_bool io k = Some b.
  Proof. intros io k b H. unfold io_bool. rewrite H. reflexivity. Qed.

  (* the whole of main() for a command line that passes the option checks *)
  Theorem cli_main_run : forall a content ps io,
    cli_decide doc_tables a = Run ps io ->
    let g := view_of a in
    exists ds, str_of g ["d"; "delimiter"] "," = Some ds /\
    cli_main V parse print lib doc_tables LoopGetline CheckEveryRow a content =
    match read_data_fixed V parse (delim_char ds) content with
    | RWrong _ => Fail 1%Z
    | RMat file =>
      match lib ps (flag g ["precompute"])
                (if negb (flag g ["transpose-input"]) then length file else width V file)
                (if negb (flag g ["transpose-input"]) then transpose V file else file) with
      | None => Fail 1%Z
      | Some (E, proj) =>
        let out := write_matrix V print (delim_char ds)
                                (if flag g ["transpose-output"] then transpose V E else E) in
        match (if flag g ["opmat"; "output-projection-matrix-file"]
                  && flag g ["opmean"; "output-projection-mean-file"] then proj else None) with
        | Some (pm, mean) =>
          Done 0%Z {| f_embedding := out;
                        f_matrix := Some (write_matrix V print (delim_char ds) pm);
                        f_mean := Some (write_vector V print mean) |}
        | None => Done 0%Z {| f_embedding := out; f_matrix := None; f_mean := None |}
        end
      end
    end.
  Proof.
    intros a content ps io H g.
    pose proof H as Hspec. rewrite cli_decide_spec in Hspec. unfold spec_decide in Hspec.
    apply spec_run_inv in Hspec.
    pose proof (rf_delim _ _ _ _ Hspec) as [ds [Hds [Hr [Hw Hp]]]].
    pose proof (rf_tin _ _ _ _ Hspec) as rf_tin0. pose proof (rf_tout _ _ _ _ Hspec) as rf_tout0.
    pose proof (rf_pre _ _ _ _ Hspec) as rf_pre0. pose proof (rf_proj _ _ _ _ Hspec) as rf_proj0.
    exists ds. split; [exact Hds|].
    unfold cli_main. rewrite H.
    rewrite (io_char_first _ _ _ Hr), (io_char_first _ _ _ Hw), (io_char_first _ _ _ Hp).
    rewrite (io_bool_some _ _ _ rf_tin0), (io_bool_some _ _ _ rf_tout0),
            (io_bool_some _ _ _ rf_pre0), (io_bool_some _ _ _ rf_proj0).
    cbn [read_with lines_with to_matrix_with].
    change (to_matrix V (parse_rows V parse (delim_char ds) (lines_fixed content)))
      with (read_data_fixed V parse (delim_char ds) content). fold g.
    destruct (read_data_fixed V parse (delim_char ds) content); reflexivity.
  Qed.

  (* rows of unequal length: exit status 1 whatever the options *)
  Theorem cli_main_unequal_rows : forall a content,
    (forall d, exists i, read_data_fixed V parse d content = RWrong i) ->
    exists c, cli_main V parse print lib doc_tables LoopGetline CheckEveryRow a content = Fail c /\ c <> 0%Z.
  Proof.
    intros a content Hbad.
    destruct (cli_decide doc_tables a) as [c|ps io|] eqn:E.
    - exists c. unfold cli_main. rewrite E. split; [reflexivity|].
      rewrite cli_decide_spec in E. unfold spec_decide in E.
      destruct (spec_total (args_ok doc_options a) (view_of a)) as [E1|[ps [io E1]]];
        rewrite E1 in E; [injection E as <-; discriminate|discriminate E].
    - destruct (cli_main_run a content ps io E) as [ds [_ Hm]].
      destruct (Hbad (delim_char ds)) as [i Hi]. rewrite Hi in Hm.
      exists 1%Z. split; [exact Hm|discriminate].
    - exfalso. rewrite cli_decide_spec in E. exact (spec_never_stuck _ _ E).
  Qed.

  (* main() never returns 0 without having written the embedding the library returned *)
  Theorem cli_main_cases : forall a content,
    (exists c, cli_main V parse print lib doc_tables LoopGetline CheckEveryRow a content = Fail c /\ c <> 0%Z) \/
    (exists out, cli_main V parse print lib doc_tables LoopGetline CheckEveryRow a content = Done 0%Z out).
  Proof.
    intros a content.
    destruct (cli_decide doc_tables a) as [c|ps io|] eqn:E.
    - left. exists c. unfold cli_main. rewrite E. split; [reflexivity|].
      rewrite cli_decide_spec in E. unfold spec_decide in E.
      destruct (spec_total (args_ok doc_options a) (view_of a)) as [E1|[ps [io E1]]];
        rewrite E1 in E; [injection E as <-; discriminate|discriminate E].
    - destruct (cli_main_run a content ps io E) as [ds [_ Hm]]. rewrite Hm.
      destruct (read_data_fixed V parse (delim_char ds) content) as [file|i].
      + destruct (lib ps _ _ _) as [[Em [[pm mean]|]]|].
        * destruct (flag _ _ && flag _ _); right; eexists; reflexivity.
        * destruct (flag _ _ && flag _ _); right; eexists; reflexivity.
        * left. exists 1%Z. split; [reflexivity|discriminate].
      + left. exists 1%Z. split; [reflexivity|discriminate].
    - exfalso. rewrite cli_decide_spec in E. exact (spec_never_stuck _ _ E).
  Qed.
End MainThm.
