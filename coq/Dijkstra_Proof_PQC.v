(* Dijkstra_Proof_PQC.v — the priority-queue configuration over the concrete binary heap of libstdc++
   (Dijkstra_PQC_Model.v) returns the shortest-path rows whenever it returns a row.

   Method.  Every heap operation of the model is a composition of swaps, hence a permutation
   (bh_push x c ~ x :: c;  bh_pop (top :: rest) ~ rest).  The invariant of the abstract proof
   (Dijkstra_Proof_PQ.inv_pq) mentions the queue only through membership, so it is stable under
   permutation of the queue.  One iteration of the concrete loop on a state st is then one iteration of the
   ABSTRACT loop with a queue discipline `pick` made for this very state (it returns the first cell of st's
   queue and behaves like pick_first_min elsewhere; it is admissible because step_pqc has just checked that
   the first cell has a minimal key), followed by a permutation of the queue: step_pq_ok transfers.
   The theorems of THIS file are partial (a returned row / matrix IS the specification's; the only other possible
   answer is a DOOB, never OutOfFuel); Dijkstra_Proof_PQC_Heap.v proves the heap-order invariant of libstdc++'s
   push_heap / pop_heap, hence that the check `is_min` of step_pqc never fires, and the total theorems. *)
From Coq Require Import List ZArith Bool Arith Lia Permutation.
From TK Require Import Dijkstra_Model Dijkstra_Spec Dijkstra_Proof_Base Dijkstra_Proof_Core Dijkstra_Proof_PQ
     Dijkstra_Proof_Spec Dijkstra_Proof Dijkstra_PQC_Model.
Import ListNotations.
Local Open Scope Z_scope.

(* ---------- swaps are permutations ---------- *)
Lemma upd_self : forall (c : list entry) i a, nth_error c i = Some a -> upd c i a = c.
Proof.
  induction c as [|h t IH]; intros i a H; destruct i; cbn in *; try discriminate.
  - inversion H; reflexivity.
  - f_equal. apply IH. assumption.
Qed.

Lemma upd_one_perm : forall (t : list entry) j b h,
    nth_error t j = Some b -> Permutation (b :: upd t j h) (h :: t).
Proof.
  induction t as [|x t IH]; intros j b h H; destruct j; cbn in *; try discriminate.
  - inversion H; subst. apply perm_swap.
  - eapply perm_trans; [apply perm_swap|].
    eapply perm_trans; [apply perm_skip; apply (IH j b h H)|]. apply perm_swap.
Qed.

Lemma upd_upd_perm : forall (c : list entry) i j a b,
    nth_error c i = Some a -> nth_error c j = Some b -> Permutation (upd (upd c i b) j a) c.
Proof.
  induction c as [|h t IH]; intros i j a b Hi Hj; destruct i, j; cbn in *; try discriminate.
  - inversion Hi; inversion Hj; subst. apply Permutation_refl.
  - inversion Hi; subst. apply upd_one_perm. assumption.
  - inversion Hj; subst. apply upd_one_perm. assumption.
  - apply perm_skip. apply IH; assumption.
Qed.

Lemma swap_perm : forall c i j, Permutation (swap c i j) c.
Proof.
  intros c i j. unfold swap.
  destruct (nth_error c i) as [a|] eqn:Ei; [|apply Permutation_refl].
  destruct (nth_error c j) as [b|] eqn:Ej; [|apply Permutation_refl].
  apply upd_upd_perm; assumption.
Qed.

Lemma sift_up_perm : forall fuel c hole, Permutation (sift_up fuel c hole) c.
Proof.
  induction fuel as [|f IH]; intros c hole; cbn [sift_up]; [apply Permutation_refl|].
  destruct (Nat.ltb 0 hole); [|apply Permutation_refl].
  destruct (nth_error c ((hole - 1) / 2)) as [p|]; [|apply Permutation_refl].
  destruct (nth_error c hole) as [v|]; [|apply Permutation_refl].
  destruct (comp p v); [|apply Permutation_refl].
  eapply perm_trans; [apply IH | apply swap_perm].
Qed.

Lemma sift_down_perm : forall fuel c L hole, Permutation (fst (sift_down fuel c L hole)) c.
Proof.
  induction fuel as [|f IH]; intros c L hole; cbn [sift_down]; [apply Permutation_refl|].
  destruct (Nat.ltb hole ((L - 1) / 2)).
  - destruct (nth_error c (2 * (hole + 1))) as [a|]; [|apply Permutation_refl].
    destruct (nth_error c (2 * (hole + 1) - 1)) as [b|]; [|apply Permutation_refl].
    eapply perm_trans; [apply IH | apply swap_perm].
  - destruct (Nat.even L && Nat.eqb hole ((L - 2) / 2) && Nat.leb 2 L); cbn [fst];
      [apply swap_perm | apply Permutation_refl].
Qed.

Lemma bh_push_perm : forall x c, Permutation (bh_push x c) (x :: c).
Proof.
  intros x c. unfold bh_push. eapply perm_trans; [apply sift_up_perm|].
  apply Permutation_sym. apply Permutation_cons_append.
Qed.

Lemma bh_pop_perm : forall top rest, Permutation (bh_pop (top :: rest)) rest.
Proof.
  intros top rest. unfold bh_pop. destruct rest as [|r rest']; [apply Permutation_refl|].
  set (l := r :: rest').
  eapply perm_trans; [apply sift_up_perm|].
  eapply perm_trans; [apply sift_down_perm|].
  assert (Hne : l <> []) by (unfold l; discriminate).
  rewrite (app_removelast_last top Hne) at 3.
  apply Permutation_cons_append.
Qed.

Global Opaque bh_pop bh_push.

(* ---------- states that differ by a permutation of the queue ---------- *)
Definition sim (a b : dstate) : Prop :=
  d_dist a = d_dist b /\ d_s a = d_s b /\ d_f a = d_f b /\ Permutation (d_heap a) (d_heap b).

Lemma inv_pq_perm : forall nbrs w N k a b, sim a b -> inv_pq nbrs w N k a -> inv_pq nbrs w N k b.
Proof.
  intros nbrs w N k [da sa fa ha] [db sb fb hb] (E1 & E2 & E3 & HP) [HI HH].
  cbn [d_dist d_s d_f d_heap] in *. subst db sb fb.
  split.
  - destruct HI as [I1 I2 I3 I4 I5 I6 I7 I8]. constructor; try assumption.
    + intros v d Hv Hs Hd. eapply Permutation_in; [exact HP|]. apply (I7 v d Hv Hs Hd).
    + intros x dx y d Hs Hd Hin. apply (I8 x dx y d Hs Hd).
      eapply Permutation_in; [apply Permutation_sym; exact HP | exact Hin].
  - intros v d Hin. apply (HH v d). eapply Permutation_in; [apply Permutation_sym; exact HP | exact Hin].
Qed.

Lemma relax_sim : forall w u ws a b, sim a b ->
    match relax_pq w u ws a with
    | DOk a' => exists b', relax_pqc w u ws b = DOk b' /\ sim a' b'
    | DOOB x y => relax_pqc w u ws b = DOOB x y
    | DOutOfFuel => relax_pqc w u ws b = DOutOfFuel
    end.
Proof.
  intros w u ws. induction ws as [|v ws IH]; intros a b Hs.
  - cbn. exists b. split; [reflexivity | assumption].
  - destruct Hs as (E1 & E2 & E3 & HP).
    cbn [relax_pq relax_pqc]. rewrite <- E1, <- E2.
    destruct (nth_error (d_s a) v) as [[|]|]; [| |reflexivity].
    + apply IH. repeat split; assumption.
    + destruct (nth_error (d_dist a) u) as [[du|]|]; [| |reflexivity].
      * destruct (nth_error (d_dist a) v) as [dv|]; [|reflexivity].
        destruct (lt_inf (du + w u v) dv).
        -- apply IH. unfold sim; cbn [d_dist d_s d_f d_heap]. rewrite <- E3.
           repeat split; try reflexivity; try assumption.
           eapply perm_trans; [apply perm_skip; exact HP|].
           apply Permutation_sym. apply bh_push_perm.
        -- apply IH. repeat split; assumption.
      * destruct (nth_error (d_dist a) v) as [dv|]; [|reflexivity].
        apply IH. repeat split; assumption.
Qed.

(* the queue discipline made for one state: the first cell of THIS queue, pick_first_min elsewhere *)
Definition entry_eq_dec : forall x y : entry, {x = y} + {x <> y}.
Proof. decide equality; [apply Z.eq_dec | apply Nat.eq_dec]. Defined.

Definition pick_for (c : list entry) (top : entry) (h : list entry) : option entry :=
  if list_eq_dec entry_eq_dec h c then Some top else pick_first_min h.

Lemma pick_for_ok : forall u d rest,
    is_min (u, d) ((u, d) :: rest) = true -> pick_ok (pick_for ((u, d) :: rest) (u, d)).
Proof.
  intros u d rest Hmin h Hne. unfold pick_for.
  destruct (list_eq_dec entry_eq_dec h ((u, d) :: rest)) as [->|_].
  - exists u, d. split; [reflexivity|]. split; [left; reflexivity|].
    intros y e Hin. unfold is_min in Hmin. rewrite forallb_forall in Hmin.
    specialize (Hmin (y, e) Hin). cbn [snd] in Hmin. apply Z.leb_le. exact Hmin.
  - apply pick_first_min_ok. assumption.
Qed.

Section StepC.
  Variable nbrs : list (list nat).
  Variable w : nat -> nat -> Z.
  Variables N K k : nat.
  Hypothesis Hwf : wf_graph nbrs N K.
  Hypothesis Hnn : nonneg_w nbrs w.
  Hypothesis Hk : (k < N)%nat.

  Lemma step_pq_pick_for : forall st u d rest, d_heap st = (u, d) :: rest ->
      step_pq nbrs w (pick_for ((u, d) :: rest) (u, d)) K st =
      Some match nth_error (d_dist st) u with
           | None => DOOB site_min_item u
           | Some du =>
             if gt_inf d du then DOk (mkD (d_dist st) (d_s st) (d_f st) rest)
             else expand nbrs K (relax_pq w) u (d_dist st) (d_s st) (d_f st) rest
           end.
  Proof.
    intros st u d rest Eh. unfold step_pq. rewrite Eh. unfold pick_for.
    destruct (list_eq_dec entry_eq_dec ((u, d) :: rest) ((u, d) :: rest)) as [_|Hne]; [|congruence].
    cbn [remove_one].
    assert (E : entry_eqb (u, d) (u, d) = true) by (apply entry_eqb_eq; reflexivity).
    rewrite E. reflexivity.
  Qed.

  Lemma step_pqc_inv : forall st st',
      inv_pq nbrs w N k st -> step_pqc nbrs w K st = Some (DOk st') ->
      inv_pq nbrs w N k st' /\ (measure_pq N K st' < measure_pq N K st)%nat.
  Proof.
    intros st st' Hinv Hstep. unfold step_pqc in Hstep.
    destruct (d_heap st) as [|[u d] rest] eqn:Eh; [discriminate Hstep|].
    cbv beta iota in Hstep.
    match type of Hstep with context [is_min ?a ?b] => destruct (is_min a b) eqn:Emin end;
      [|discriminate Hstep].
    pose proof (step_pq_ok nbrs w (pick_for ((u, d) :: rest) (u, d)) N K k Hwf Hnn
                           (pick_for_ok u d rest Emin) Hk st Hinv) as Habs.
    rewrite (step_pq_pick_for st u d rest Eh) in Habs.
    assert (HP : Permutation rest (bh_pop ((u, d) :: rest)))
      by (apply Permutation_sym; apply bh_pop_perm).
    destruct (nth_error (d_dist st) u) as [du|] eqn:Edu.
    2:{ discriminate Hstep. }
    destruct (gt_inf d du).
    - (* stale entry *)
      destruct Habs as (sa & Ea & Hia & Hma). injection Ea as <-. injection Hstep as <-.
      assert (Hs : sim (mkD (d_dist st) (d_s st) (d_f st) rest)
                       (mkD (d_dist st) (d_s st) (d_f st) (bh_pop ((u, d) :: rest))))
        by (repeat split; try reflexivity; exact HP).
      split; [eapply inv_pq_perm; eassumption|].
      unfold measure_pq in Hma |- *. cbn [d_heap d_s] in Hma |- *.
      pose proof (Permutation_length HP) as HL. unfold entry in *. rewrite <- HL. exact Hma.
    - unfold expand in *. destruct (nbr_row nbrs K u) as [ws| |] eqn:Erow.
      + destruct Habs as (sa & Ea & Hia & Hma).
        pose proof (relax_sim w u ws
                      (mkD (d_dist st) (upd (d_s st) u true) (upd (d_f st) u false) rest)
                      (mkD (d_dist st) (upd (d_s st) u true) (upd (d_f st) u false) (bh_pop ((u, d) :: rest)))
                      ltac:(repeat split; try reflexivity; exact HP)) as Hr.
        rewrite Ea in Hr. destruct Hr as (b' & Eb & Hs).
        unfold entry in *. rewrite Eb in Hstep. injection Hstep as <-.
        split; [eapply inv_pq_perm; eassumption|].
        destruct Hs as (_ & E2 & _ & HP').
        unfold measure_pq in Hma |- *. pose proof (Permutation_length HP') as HL. unfold entry in *.
        rewrite <- E2, <- HL. exact Hma.
      + destruct Habs as (sa & Ea & _). discriminate Ea.
      + destruct Habs as (sa & Ea & _). discriminate Ea.
  Qed.

  Lemma loop_partial : forall fuel st st',
      inv_pq nbrs w N k st -> loop (step_pqc nbrs w K) fuel st = DOk st' ->
      inv_pq nbrs w N k st' /\ step_pqc nbrs w K st' = None.
  Proof.
    induction fuel as [|f IH]; intros st st' Hinv HL; cbn [loop] in HL; [discriminate|].
    destruct (step_pqc nbrs w K st) as [[s1| |]|] eqn:Es; try discriminate.
    - apply (IH s1 st'); [|exact HL]. apply (step_pqc_inv st s1 Hinv Es).
    - inversion HL; subst st'. split; assumption.
  Qed.

  (* the loop cannot run out of fuel either: what can go wrong is only the check of the first cell *)
  Lemma loop_no_fuel : forall fuel st,
      inv_pq nbrs w N k st -> (measure_pq N K st < fuel)%nat ->
      loop (step_pqc nbrs w K) fuel st <> DOutOfFuel \/
      exists a b, loop (step_pqc nbrs w K) fuel st = DOOB a b.
  Proof.
    induction fuel as [|f IH]; intros st Hinv Hm; [lia|]. cbn [loop].
    destruct (step_pqc nbrs w K st) as [[s1|a b|]|] eqn:Es.
    - destruct (step_pqc_inv st s1 Hinv Es) as [Hi Hlt]. apply IH; [assumption|lia].
    - right. exists a, b. reflexivity.
    - exfalso. unfold step_pqc in Es. destruct (d_heap st) as [|[u d] rest]; [discriminate Es|].
      cbv beta iota in Es.
      match type of Es with context [is_min ?a ?b] => destruct (is_min a b) end; [|discriminate Es].
      destruct (nth_error (d_dist st) u) as [du|]; [|discriminate Es].
      destruct (gt_inf d du); [discriminate Es|].
      unfold expand in Es. destruct (nbr_row nbrs K u) as [ws| |] eqn:Erow; try (discriminate Es).
      2:{ unfold nbr_row in Erow. destruct (nth_error nbrs u) as [row|]; [|discriminate Erow].
          destruct (Nat.ltb (length row) K); discriminate Erow. }
      (* relax_pqc never answers DOutOfFuel *)
      assert (Hno : forall ws0 s0, relax_pqc w u ws0 s0 <> DOutOfFuel).
      { induction ws0 as [|v ws0 IHw]; intros s0; cbn [relax_pqc]; [discriminate|].
        destruct (nth_error (d_s s0) v) as [[|]|]; [apply IHw| |discriminate].
        destruct (nth_error (d_dist s0) u) as [[du0|]|]; [| |discriminate].
        - destruct (nth_error (d_dist s0) v) as [dv|]; [|discriminate].
          destruct (lt_inf (du0 + w u v) dv); apply IHw.
        - destruct (nth_error (d_dist s0) v) as [dv|]; [apply IHw|discriminate]. }
      inversion Es as [E]. exact (Hno _ _ E).
    - left. discriminate.
  Qed.

  Theorem row_pqc_partial : forall fidx row, (fidx < N)%nat ->
      row_pqc nbrs w N K k fidx = DOk row -> row = sp_row nbrs w N k.
  Proof.
    intros fidx row Hf HR. unfold row_pqc, row_of, init_state in HR.
    apply Nat.ltb_lt in Hk as Hk'. apply Nat.ltb_lt in Hf as Hf'. rewrite Hk', Hf' in HR.
    set (st0 := mkD (upd (repeat None N) k (Some 0)) (repeat false N)
                    (upd (repeat false N) fidx true) [(k, 0)]) in HR.
    destruct (loop (step_pqc nbrs w K) (fuel_of N K) st0) as [st'| |] eqn:EL; try discriminate.
    inversion HR; subst row.
    destruct (loop_partial (fuel_of N K) st0 st' (init_pq nbrs w N k Hk _) EL) as [[HI HH] Hend].
    assert (Hh : d_heap st' = []).
    { unfold step_pqc in Hend. destruct (d_heap st') as [|[u d] r]; [reflexivity|discriminate]. }
    apply (rows_equal _ _ N).
    - apply (ic_len_d _ _ _ _ _ _ HI).
    - eapply sp_row_length; eassumption.
    - intros v Hv. destruct (final_core nbrs w N K k Hwf Hnn Hk st' HI Hh v Hv) as [Hsp _].
      eapply is_sp_fun; [exact Hsp|]. apply (sp_char nbrs w N K k Hwf Hnn Hk v Hv).
  Qed.

  (* ... and the only other possible answer is the failed check (never OutOfFuel, no other DOOB site) *)
  Theorem row_pqc_total_or_check : forall fidx, (fidx < N)%nat ->
      row_pqc nbrs w N K k fidx = DOk (sp_row nbrs w N k) \/
      exists a b, row_pqc nbrs w N K k fidx = DOOB a b.
  Proof.
    intros fidx Hf.
    destruct (row_pqc nbrs w N K k fidx) as [row|a b|] eqn:ER.
    - left. f_equal. apply (row_pqc_partial fidx row Hf ER).
    - right. exists a, b. reflexivity.
    - exfalso. unfold row_pqc, row_of, init_state in ER.
      apply Nat.ltb_lt in Hk as Hk'. apply Nat.ltb_lt in Hf as Hf'. rewrite Hk', Hf' in ER.
      set (st0 := mkD (upd (repeat None N) k (Some 0)) (repeat false N)
                      (upd (repeat false N) fidx true) [(k, 0)]) in ER.
      destruct (loop_no_fuel (fuel_of N K) st0 (init_pq nbrs w N k Hk _)) as [Hn|(a & b & E)].
      + unfold measure_pq, fuel_of, st0; cbn [d_heap d_s length]. rewrite count_true_repeat_false. nia.
      + destruct (loop (step_pqc nbrs w K) (fuel_of N K) st0); try discriminate. apply Hn. reflexivity.
      + rewrite E in ER. discriminate.
  Qed.
End StepC.

(* the instrumented copy (which also lists the calls of the distance callback) computes the same row *)
Lemma loop_pqc_tr_erase : forall nbrs w K fuel st,
    fst (loop_pqc_tr nbrs w K fuel st) = loop (step_pqc nbrs w K) fuel st.
Proof.
  intros nbrs w K fuel. induction fuel as [|f IH]; intros st; cbn [loop_pqc_tr loop]; [reflexivity|].
  destruct (step_pqc nbrs w K st) as [[s1|a b|]|]; cbn [fst]; try reflexivity. apply IH.
Qed.

Theorem row_pqc_tr_erase : forall nbrs w N K src fidx,
    fst (row_pqc_tr nbrs w N K src fidx) = row_pqc nbrs w N K src fidx.
Proof.
  intros nbrs w N K src fidx. unfold row_pqc_tr, row_pqc, row_of.
  destruct (init_state N src fidx) as [st0|a b|]; cbn [fst]; try reflexivity.
  rewrite loop_pqc_tr_erase. reflexivity.
Qed.

Lemma sequence_map_inv : forall (A B : Type) (f : A -> dres B) (g : A -> B) l m,
    (forall a r, In a l -> f a = DOk r -> r = g a) ->
    sequence (map f l) = DOk m -> m = map g l.
Proof.
  intros A B f g l. induction l as [|a l IH]; intros m H HS; cbn in *.
  - inversion HS; reflexivity.
  - destruct (f a) as [r| |] eqn:E; try discriminate.
    destruct (sequence (map f l)) as [rs| |] eqn:ES; try discriminate.
    inversion HS; subst m. f_equal.
    + apply (H a r); [left; reflexivity | assumption].
    + apply IH; [|reflexivity]. intros a' r' Hin. apply H. right. assumption.
Qed.

Theorem full_matrix_pqc_partial : forall nbrs w N K m,
    wf_graph nbrs N K -> nonneg_w nbrs w -> (0 < N)%nat ->
    full_matrix_pqc nbrs w N = DOk m -> m = sp_matrix nbrs w N.
Proof.
  intros nbrs w N K m Hwf Hnn HN HM.
  destruct (wf_first_row nbrs w N K Hwf Hnn HN) as (r0 & rest & E & HK).
  unfold full_matrix_pqc in HM. rewrite E, HK, <- E in HM. unfold sp_matrix.
  apply (sequence_map_inv _ _ _ (sp_row nbrs w N) _ _) in HM; [exact HM|].
  intros k r Hin Hr. apply in_seq in Hin.
  apply (row_pqc_partial nbrs w N K k Hwf Hnn ltac:(lia) k r ltac:(lia) Hr).
Qed.

Theorem landmark_matrix_pqc_partial : forall nbrs w N K lm m,
    wf_graph nbrs N K -> nonneg_w nbrs w -> (0 < N)%nat -> Forall (fun v => (v < N)%nat) lm ->
    landmark_matrix_pqc nbrs w N lm = DOk m -> m = sp_landmarks nbrs w N lm.
Proof.
  intros nbrs w N K lm m Hwf Hnn HN Hlm HM.
  destruct (wf_first_row nbrs w N K Hwf Hnn HN) as (r0 & rest & E & HK).
  unfold landmark_matrix_pqc in HM. rewrite E, HK, <- E in HM. unfold sp_landmarks.
  apply (sequence_map_inv _ _ _ (sp_row nbrs w N) _ _) in HM; [exact HM|].
  intros src r Hin Hr. rewrite Forall_forall in Hlm. specialize (Hlm src Hin).
  apply (row_pqc_partial nbrs w N K src Hwf Hnn Hlm src r Hlm Hr).
Qed.

(* non-vacuity: on the F4 witness graph the concrete-heap model does return a matrix (computed) *)
Example pqc_example :
    full_matrix_pqc f4_nbrs f4_w 3 = DOk (sp_matrix f4_nbrs f4_w 3) /\
    landmark_matrix_pqc f4_nbrs f4_w 3 f4_lm = DOk (sp_landmarks f4_nbrs f4_w 3 f4_lm).
Proof. split; vm_compute; reflexivity. Qed.
