(* Dijkstra_Proof_Sched.v — every OpenMP schedule gives the same matrix.
   (1) `refill` on an array of length N is `repeat`: what the previous row (or `new`) left in
       s[], f[] and in the matrix row is irrelevant;
   (2) the loop keeps the lengths of s[] and f[], so the next row starts from length-N arrays;
   (3) hence every iteration of a thread equals the fresh single-row function `row_of`, for
       which Dijkstra_Proof.v has the shortest-path theorems;
   (4) assembling the rows of any schedule that hands out every row index gives sp_matrix /
       sp_landmarks: independent of team size, of static/dynamic assignment, of order. *)
From Coq Require Import List ZArith Bool Arith Lia Permutation.
From TK Require Import Dijkstra_Model Dijkstra_Spec Dijkstra_Sched_Model
     Dijkstra_Proof_Base Dijkstra_Proof.
Import ListNotations.
Local Open Scope Z_scope.

(* ---------- (1) refill ---------- *)
Lemma fold_upd_length : forall (A : Type) (x : A) l old,
    length (fold_left (fun a j => upd a j x) l old) = length old.
Proof.
  intros A x l; induction l as [|j l IH]; intros old; cbn; [reflexivity|].
  rewrite IH. apply upd_length.
Qed.

Lemma fold_upd_nth : forall (A : Type) (x d : A) l old i,
    nth i (fold_left (fun a j => upd a j x) l old) d =
    if existsb (Nat.eqb i) l then (if Nat.ltb i (length old) then x else d) else nth i old d.
Proof.
  intros A x d l; induction l as [|j l IH]; intros old i; cbn [fold_left existsb]; [reflexivity|].
  rewrite IH, upd_length.
  destruct (existsb (Nat.eqb i) l) eqn:E.
  - rewrite orb_true_r. reflexivity.
  - rewrite orb_false_r. destruct (Nat.eqb i j) eqn:Eij.
    + apply Nat.eqb_eq in Eij. subst j.
      destruct (Nat.ltb i (length old)) eqn:El.
      * apply Nat.ltb_lt in El. apply nth_upd_eq. assumption.
      * apply Nat.ltb_ge in El. apply nth_overflow. rewrite upd_length. assumption.
    + apply Nat.eqb_neq in Eij. apply nth_upd_neq. congruence.
Qed.

Lemma refill_repeat : forall (A : Type) (x : A) old N,
    length old = N -> refill x old N = repeat x N.
Proof.
  intros A x old N HL. unfold refill.
  apply (nth_ext _ _ x x).
  - rewrite fold_upd_length, repeat_length. assumption.
  - intros i Hi. rewrite fold_upd_length, HL in Hi.
    rewrite fold_upd_nth, nth_repeat_any, HL.
    assert (E : existsb (Nat.eqb i) (seq 0 N) = true).
    { apply existsb_exists. exists i. split; [apply in_seq; lia | apply Nat.eqb_refl]. }
    rewrite E. apply Nat.ltb_lt in Hi. rewrite Hi. reflexivity.
Qed.

(* ---------- (2) the loop keeps array lengths ---------- *)
Definition lens (st : dstate) : nat * nat := (length (d_s st), length (d_f st)).

Lemma relax_pq_lens : forall w u ws st st', relax_pq w u ws st = DOk st' -> lens st' = lens st.
Proof.
  intros w u ws; induction ws as [|v ws IH]; intros st st' H; cbn [relax_pq] in H.
  - inversion H; reflexivity.
  - destruct (nth_error (d_s st) v) as [[|]|]; [apply IH; assumption | | discriminate].
    destruct (nth_error (d_dist st) u) as [[du|]|]; [| |discriminate].
    + destruct (nth_error (d_dist st) v) as [dv|]; [|discriminate].
      destruct (lt_inf (du + w u v) dv).
      * apply IH in H. rewrite H. unfold lens; cbn [d_s d_f]. rewrite upd_length. reflexivity.
      * apply IH; assumption.
    + destruct (nth_error (d_dist st) v); [apply IH; assumption | discriminate].
Qed.

Lemma relax_fib_lens : forall w u ws st st', relax_fib w u ws st = DOk st' -> lens st' = lens st.
Proof.
  intros w u ws; induction ws as [|v ws IH]; intros st st' H; cbn [relax_fib] in H.
  - inversion H; reflexivity.
  - destruct (nth_error (d_s st) v) as [[|]|]; [apply IH; assumption | | discriminate].
    destruct (nth_error (d_dist st) u) as [[du|]|]; [| |discriminate].
    + destruct (nth_error (d_dist st) v) as [dv|]; [|discriminate].
      destruct (nth_error (d_f st) v) as [fv|]; [|discriminate].
      destruct (lt_inf (du + w u v) dv).
      * destruct fv; apply IH in H; rewrite H; unfold lens; cbn [d_s d_f];
          [reflexivity | rewrite upd_length; reflexivity].
      * apply IH; assumption.
    + destruct (nth_error (d_dist st) v); [|discriminate].
      destruct (nth_error (d_f st) v); [apply IH; assumption | discriminate].
Qed.

Lemma expand_lens : forall nbrs K relax u dist s f heap st',
    (forall u ws st st', relax u ws st = DOk st' -> lens st' = lens st) ->
    expand nbrs K relax u dist s f heap = DOk st' ->
    lens st' = (length s, length f).
Proof.
  intros nbrs K relax u dist s f heap st' Hr H. unfold expand in H.
  destruct (nbr_row nbrs K u); try discriminate.
  apply Hr in H. rewrite H. unfold lens; cbn [d_s d_f]. rewrite !upd_length. reflexivity.
Qed.

Lemma step_fl_lens : forall fl nbrs w pick K st st',
    step_fl fl nbrs w pick K st = Some (DOk st') -> lens st' = lens st.
Proof.
  intros fl nbrs w pick K st st' H. destruct fl; cbn [step_fl] in H.
  - unfold step_pq in H. destruct (d_heap st); [discriminate|].
    destruct (pick _) as [[u d]|]; [|discriminate].
    destruct (nth_error (d_dist st) u) as [du|]; [|discriminate].
    destruct (gt_inf d du).
    + inversion H; reflexivity.
    + inversion H as [H']. eapply expand_lens in H'; [exact H'|]. intros; eapply relax_pq_lens; eauto.
  - unfold step_fib in H. destruct (d_heap st); [discriminate|].
    destruct (pick _) as [[u d]|]; [|discriminate].
    destruct (nth_error (d_s st) u); [|discriminate].
    inversion H as [H']. eapply expand_lens in H'; [exact H'|]. intros; eapply relax_fib_lens; eauto.
Qed.

Lemma loop_lens : forall step, (forall st st', step st = Some (DOk st') -> lens st' = lens st) ->
    forall fuel st st', loop step fuel st = DOk st' -> lens st' = lens st.
Proof.
  intros step Hs fuel; induction fuel as [|fuel IH]; intros st st' H; cbn [loop] in H; [discriminate|].
  destruct (step st) as [[st1| |]|] eqn:E; try discriminate.
  - apply IH in H. rewrite H. apply Hs. assumption.
  - inversion H; reflexivity.
Qed.

(* ---------- (3) an iteration on reused arrays = the fresh single-row function ---------- *)
Definition tstate_ok (N : nat) (ts : tstate) : Prop :=
  length (t_s ts) = N /\ length (t_f ts) = N /\ t_heap ts = [].

Lemma row_reuse_fresh : forall fl nbrs w pick N K src_of k old ts,
    length old = N -> tstate_ok N ts ->
    match src_of k with
    | DOk (src, fidx) =>
      match row_fl fl nbrs w pick N K src fidx with
      | DOk row => exists ts', row_reuse (step_fl fl nbrs w pick K) N K src_of k old ts = DOk (row, ts')
                               /\ tstate_ok N ts'
      | DOOB a b => row_reuse (step_fl fl nbrs w pick K) N K src_of k old ts = DOOB a b
      | DOutOfFuel => row_reuse (step_fl fl nbrs w pick K) N K src_of k old ts = DOutOfFuel
      end
    | DOOB a b => row_reuse (step_fl fl nbrs w pick K) N K src_of k old ts = DOOB a b
    | DOutOfFuel => row_reuse (step_fl fl nbrs w pick K) N K src_of k old ts = DOutOfFuel
    end.
Proof.
  intros fl nbrs w pick N K src_of k old ts Hold (Hs & Hf & Hh).
  unfold row_reuse. destruct (src_of k) as [[src fidx]| |]; [|reflexivity|reflexivity].
  rewrite !refill_repeat by assumption. rewrite Hh.
  assert (E : row_fl fl nbrs w pick N K src fidx =
              row_of N K (step_fl fl nbrs w pick K) src fidx) by (destruct fl; reflexivity).
  rewrite E. unfold row_of, init_state.
  destruct (Nat.ltb src N); [|reflexivity].
  destruct (Nat.ltb fidx N); [|reflexivity].
  destruct (loop _ _ _) as [st| |] eqn:EL; [|reflexivity|reflexivity].
  eexists. split; [reflexivity|].
  apply loop_lens in EL; [|intros; eapply step_fl_lens; eauto].
  unfold lens in EL; cbn [d_s d_f] in EL. rewrite upd_length, !repeat_length in EL.
  inversion EL. unfold tstate_ok; cbn [t_s t_f t_heap]. auto.
Qed.

Section Team.
  Variable fl : flavour.
  Variable nbrs : list (list nat).
  Variable w : nat -> nat -> Z.
  Variable pick : list entry -> option entry.
  Variables N K R : nat.
  Variable src_of : nat -> dres (nat * nat).
  Variable garbage : nat -> list (option Z).
  Variable want : nat -> list (option Z).     (* the row the specification assigns to index k *)
  Hypothesis Hgarbage : forall k, length (garbage k) = N.
  (* every valid row index has a source, and the fresh single-row function is right for it *)
  Hypothesis Hrow : forall k, (k < R)%nat ->
      exists src fidx, src_of k = DOk (src, fidx) /\
                       row_fl fl nbrs w pick N K src fidx = DOk (want k).

  Notation stepf := (step_fl fl nbrs w pick K).

  Lemma thread_run_ok : forall ks ts, Forall (fun k => (k < R)%nat) ks -> tstate_ok N ts ->
      thread_run stepf N K src_of garbage ks ts = DOk (map (fun k => (k, want k)) ks).
  Proof.
    induction ks as [|k ks IH]; intros ts Hks Hts; cbn [thread_run map]; [reflexivity|].
    inversion Hks as [|? ? Hk Hks']; subst.
    destruct (Hrow k Hk) as (src & fidx & Es & Er).
    pose proof (row_reuse_fresh fl nbrs w pick N K src_of k (garbage k) ts (Hgarbage k) Hts) as H.
    rewrite Es, Er in H. destruct H as (ts' & E & Hts').
    rewrite E, (IH ts' Hks' Hts'). reflexivity.
  Qed.

  Lemma team_run_ok : forall sched inits,
      length inits = length sched ->
      Forall (tstate_ok N) inits ->
      Forall (fun k => (k < R)%nat) (concat sched) ->
      team_run stepf N K src_of garbage sched inits = DOk (map (fun k => (k, want k)) (concat sched)).
  Proof.
    induction sched as [|ks sched IH]; intros inits HL Hin Hks; cbn [team_run concat map]; [reflexivity|].
    destruct inits as [|ts inits]; [cbn in HL; lia|].
    cbn [concat] in Hks. apply Forall_app in Hks. destruct Hks as [Hks1 Hks2].
    inversion Hin as [|? ? Hts Hin']; subst.
    rewrite (thread_run_ok ks ts Hks1 Hts).
    rewrite (IH inits) by (cbn in HL; auto; lia).
    rewrite map_app. reflexivity.
  Qed.

  Lemma find_row_map : forall k ks, In k ks ->
      find_row k (map (fun k => (k, want k)) ks) = Some (want k).
  Proof.
    intros k ks; induction ks as [|a ks IH]; intros Hin; cbn [map find_row]; [contradiction|].
    destruct (Nat.eqb k a) eqn:E.
    - apply Nat.eqb_eq in E. subst a. reflexivity.
    - apply Nat.eqb_neq in E. destruct Hin as [->|Hin]; [congruence|]. apply IH. assumption.
  Qed.

  (* any schedule that hands out exactly the valid row indices (each at least once) *)
  Theorem sched_matrix_ok : forall sched inits,
      length inits = length sched -> Forall (tstate_ok N) inits ->
      (forall k, In k (concat sched) <-> (k < R)%nat) ->
      sched_matrix stepf N K src_of R garbage sched inits = DOk (map want (seq 0 R)).
  Proof.
    intros sched inits HL Hin Hcover. unfold sched_matrix.
    rewrite team_run_ok; [|assumption|assumption|].
    - f_equal. unfold assemble. apply map_ext_in. intros k Hk. apply in_seq in Hk.
      rewrite find_row_map; [reflexivity|]. apply Hcover. lia.
    - apply Forall_forall. intros k Hk. apply Hcover. assumption.
  Qed.
End Team.

(* a permutation of the row indices, cut into per-thread lists in any way, is such a schedule *)
Lemma permutation_covers : forall sched R,
    Permutation (concat sched) (seq 0 R) ->
    forall k, In k (concat sched) <-> (k < R)%nat.
Proof.
  intros sched R HP k. split.
  - intros H. apply (Permutation_in _ HP) in H. apply in_seq in H. lia.
  - intros H. apply (Permutation_in _ (Permutation_sym HP)).
    apply in_seq. lia.
Qed.

(* ---------- (4) both overloads, both flavours, every schedule ---------- *)
Theorem full_matrix_any_schedule : forall fl nbrs w N K pick garbage sched inits,
    wf_graph nbrs N K -> nonneg_w nbrs w -> pick_ok pick ->
    (forall k, length (garbage k) = N) ->
    length inits = length sched -> Forall (tstate_ok N) inits ->
    Permutation (concat sched) (seq 0 N) ->
    full_matrix_sched fl nbrs w pick N K garbage sched inits = DOk (sp_matrix nbrs w N).
Proof.
  intros fl nbrs w N K pick garbage sched inits Hwf Hnn Hp Hg HL Hin HP.
  unfold full_matrix_sched, sp_matrix.
  apply (sched_matrix_ok fl nbrs w pick N K N (fun k => DOk (k, k)) garbage (sp_row nbrs w N) Hg);
    [|assumption|assumption|apply permutation_covers; assumption].
  intros k Hk. exists k, k. split; [reflexivity|].
  destruct fl; cbn [row_fl]; [apply (row_pq_eq_sp nbrs w N K) | apply (row_fib_eq_sp nbrs w N K)];
    assumption.
Qed.

Theorem landmark_matrix_any_schedule : forall fl nbrs w N K pick lm garbage sched inits,
    wf_graph nbrs N K -> nonneg_w nbrs w -> pick_ok pick ->
    Forall (fun v => (v < N)%nat) lm ->
    (forall k, length (garbage k) = N) ->
    length inits = length sched -> Forall (tstate_ok N) inits ->
    Permutation (concat sched) (seq 0 (length lm)) ->
    landmark_matrix_sched fl nbrs w pick N K lm garbage sched inits = DOk (sp_landmarks nbrs w N lm).
Proof.
  intros fl nbrs w N K pick lm garbage sched inits Hwf Hnn Hp Hlm Hg HL Hin HP.
  unfold landmark_matrix_sched, sp_landmarks.
  replace (map (sp_row nbrs w N) lm)
    with (map (fun k => sp_row nbrs w N (nth k lm 0%nat)) (seq 0 (length lm))).
  2:{ rewrite <- (map_map (fun k => nth k lm 0%nat) (sp_row nbrs w N)). f_equal.
      clear. induction lm as [|a l IH]; [reflexivity|]. cbn [length seq map nth]. f_equal.
      rewrite <- seq_shift, map_map. exact IH. }
  apply (sched_matrix_ok fl nbrs w pick N K (length lm) _ garbage
                         (fun k => sp_row nbrs w N (nth k lm 0%nat)) Hg);
    [|assumption|assumption|apply permutation_covers; assumption].
  intros k Hk. exists (nth k lm 0%nat), (nth k lm 0%nat).
  rewrite (nth_error_nth' lm 0%nat Hk). split; [reflexivity|].
  assert (Hs : (nth k lm 0 < N)%nat).
  { rewrite Forall_forall in Hlm. apply Hlm. apply nth_In. assumption. }
  destruct fl; cbn [row_fl]; [apply (row_pq_eq_sp nbrs w N K) | apply (row_fib_eq_sp nbrs w N K)];
    assumption.
Qed.

(* non-vacuity: two threads, rows handed out of order, garbage everywhere *)
Example schedule_example :
    full_matrix_sched FIB f4_nbrs f4_w pick_first_min 3 1
                      (fun k => [Some 7; None; Some (-1)])
                      [[2; 0]; [1]]%nat
                      [mkT [true; true; false] [false; true; true] []; mkT [true; true; true] [true; true; true] []]
    = DOk (sp_matrix f4_nbrs f4_w 3).
Proof. vm_compute. reflexivity. Qed.
