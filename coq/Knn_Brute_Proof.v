(* Knn_Brute_Proof.v — proofs about Knn_Brute_Model.v *)
From Coq Require Import List ZArith Bool Lia Permutation Sorted.
From TK Require Import Knn_Spec Knn_Brute_Model.
Import ListNotations.
Local Open Scope Z_scope.

(* ---------- the usable form of the nth_element contract ---------- *)

Lemma nth_ok_split : forall n orig res,
  nth_ok n orig res ->
  forall x y, In x (firstn n res) -> In y (skipn n res) -> snd x <= snd y.
Proof.
  intros n orig res [_ H] x y Hx Hy. destruct (skipn n res) as [|p after]; [destruct Hy|].
  destruct H as [H1 H2]. specialize (H1 x Hx). destruct Hy as [<-|Hy]; [assumption|].
  specialize (H2 y Hy). lia.
Qed.

Lemma dist_records_fst : forall d q U, map fst (dist_records d q U) = U.
Proof.
  intros d q U. unfold dist_records. rewrite map_map. cbn [fst]. apply map_id.
Qed.

Lemma dist_records_In : forall d q U r, In r (dist_records d q U) <-> In (fst r) U /\ snd r = d q (fst r).
Proof.
  intros d q U [j dd]. unfold dist_records. rewrite in_map_iff. cbn [fst snd]. split.
  - intros [j' [E Hj']]. inversion E; subst. now split.
  - intros [Hj ->]. now exists j.
Qed.

Lemma NoDup_firstn : forall (l : list Z) n, NoDup l -> NoDup (firstn n l).
Proof.
  induction l as [|a r IH]; intros n H; [rewrite firstn_nil; constructor|].
  destruct n as [|n]; cbn [firstn]; [constructor|]. inversion H; subst. constructor; [|now apply IH].
  intros Hin. apply H2. rewrite <- (firstn_skipn n r). apply in_or_app. now left.
Qed.

Lemma NoDup_app_disjoint : forall (l1 l2 : list Z) x, NoDup (l1 ++ l2) -> In x l1 -> ~ In x l2.
Proof.
  induction l1 as [|a r IH]; intros l2 x Hnd Hx; [destruct Hx|].
  cbn [app] in Hnd. inversion Hnd as [|? ? Hna Hnd']; subst. destruct Hx as [->|Hx].
  - intros H. apply Hna. apply in_or_app. now right.
  - now apply IH.
Qed.

(* Selecting the first n records after nth_element(.., n, ..) gives n nearest members
   of the universe the records were built from. *)
Lemma nth_select_knn : forall d q U n sel,
  NoDup U -> (n <= length U)%nat ->
  nth_ok n (dist_records d q U) sel ->
  knn_of d q U n (map fst (firstn n sel)).
Proof.
  intros d q U n sel HU Hn Hok. pose proof (nth_ok_split _ _ _ Hok) as Hsplit.
  destruct Hok as [Hperm _].
  assert (HpermU : Permutation U (map fst sel)).
  { rewrite <- (dist_records_fst d q U). now apply Permutation_map. }
  assert (HndS : NoDup (map fst sel)) by (eapply Permutation_NoDup; eassumption).
  assert (Hlen : length sel = length U).
  { rewrite <- (Permutation_length Hperm). unfold dist_records. apply map_length. }
  rewrite <- firstn_map. repeat split.
  - now apply NoDup_firstn.
  - rewrite firstn_length, map_length. lia.
  - intros i Hi. apply (Permutation_in _ (Permutation_sym HpermU)).
    rewrite <- (firstn_skipn n (map fst sel)). apply in_or_app. now left.
  - intros i j Hi Hj Hnj.
    rewrite firstn_map in Hi. apply in_map_iff in Hi. destruct Hi as [x [Hxi Hx]].
    assert (Hxs : In x sel) by (rewrite <- (firstn_skipn n sel); apply in_or_app; now left).
    apply (Permutation_in _ (Permutation_sym Hperm)), dist_records_In in Hxs.
    destruct Hxs as [_ Hxd]. rewrite Hxi in Hxd.
    assert (Hy : In (j, d q j) sel).
    { apply (Permutation_in _ Hperm), dist_records_In. cbn [fst snd]. now split. }
    rewrite <- (firstn_skipn n sel) in Hy. apply in_app_or in Hy. destruct Hy as [Hy|Hy].
    + exfalso. apply Hnj. rewrite firstn_map. apply in_map_iff. now exists (j, d q j).
    + specialize (Hsplit x (j, d q j) Hx Hy). cbn [snd] in Hsplit. lia.
Qed.

Lemma map_fst_filter_neq : forall (l : list drec) q,
  map fst (filter (fun r => negb (fst r =? q)) l) = remove Z.eq_dec q (map fst l).
Proof.
  induction l as [|[a b] r IH]; intros q; cbn [filter map fst remove]; [reflexivity|].
  destruct (Z.eq_dec q a) as [->|Hne].
  - rewrite Z.eqb_refl. cbn [negb]. apply IH.
  - destruct (Z.eqb_spec a q) as [->|_]; [contradiction|]. cbn [negb map fst]. f_equal. apply IH.
Qed.

(* ---------- shipped code ---------- *)

(* Exact whenever the query is among the k+1 selected records, which is guaranteed when
   at most k OTHER samples are as close to the query as the query itself (no metric
   needed, any oracle answer meeting the contract).
   `_partial`: the side condition `Hdup` cannot be dropped for the shipped code (see
   brute_dup_refuted); it disappears for the repaired code (brute_exact). *)
Lemma brute_exact_partial_lemma : forall d N q k sel,
  0 <= q < Z.of_nat N -> (k + 1 <= N)%nat ->
  nth_ok (k + 1) (brute_dists d N q) sel ->
  (length (filter (fun j => (d q j <=? d q q)%Z) (others N q)) <= k)%nat ->
  exists l, brute_row sel q k = Some l /\ is_knn d N q k l.
Proof.
  intros d N q k sel Hq Hk Hok Hdup.
  assert (HlenU : length (samples N) = N) by apply zseq_length.
  assert (Hlen : length sel = N).
  { destruct Hok as [Hp _]. rewrite <- (Permutation_length Hp). unfold brute_dists, dist_records.
    now rewrite map_length. }
  unfold brute_row. rewrite Hlen. destruct (Nat.ltb_spec N (k + 1)) as [Hlt|_]; [lia|].
  eexists. split; [reflexivity|].
  rewrite map_fst_filter_neq. apply is_knn_knn_of. rewrite others_remove.
  assert (Hknn : knn_of d q (samples N) (S k) (map fst (firstn (k + 1) sel))).
  { replace (S k) with (k + 1)%nat by lia.
    apply nth_select_knn; [apply samples_NoDup | lia | assumption]. }
  apply knn_of_remove; [assumption|].
  eapply knn_of_self_in; eassumption.
Qed.

(* Three coincident samples, k = 1, query 2: `distances` is already partitioned (all
   keys equal, which is also what libstdc++'s nth_element leaves for a 3-element range),
   the first k+1 = 2 records are samples 0 and 1, the query is not among them and TWO
   neighbours come back. *)
Definition dup_d : dist := fun _ _ => 0.

Lemma brute_dup_refuted_lemma :
  exists (d : dist) (N : nat) (q : Z) (k : nat) (sel : list drec) (l : list Z),
    metric_on (fun _ => True) d /\ 0 <= q < Z.of_nat N /\ (k + 1 <= N)%nat /\
    nth_ok (k + 1) (brute_dists d N q) sel /\
    brute_row sel q k = Some l /\ length l = S k /\ ~ is_knn d N q k l.
Proof.
  exists dup_d, 3%nat, 2, 1%nat, (brute_dists dup_d 3 2), [0; 1].
  split; [|split; [|split; [|split; [|split; [|split]]]]].
  - split; intros; unfold dup_d; lia.
  - cbn. lia.
  - lia.
  - split; [apply Permutation_refl|]. cbn. split; intros x Hx; cbn in Hx.
    + destruct Hx as [<-|[<-|[]]]; cbn; unfold dup_d; lia.
    + destruct Hx.
  - reflexivity.
  - reflexivity.
  - intros (_ & Hlen & _). cbn in Hlen. discriminate.
Qed.

(* ---------- repaired code ---------- *)

Lemma others_length : forall N q, 0 <= q < Z.of_nat N -> S (length (others N q)) = N.
Proof.
  intros N q Hq. rewrite others_remove.
  rewrite (remove_length_NoDup (samples N) q (samples_NoDup N)); [apply zseq_length|].
  now apply samples_In.
Qed.

Lemma brute_exact_lemma : forall d N q k sel,
  0 <= q < Z.of_nat N -> (k < N)%nat ->
  nth_ok k (brute_dists_fixed d N q) sel ->
  exists l, brute_row_fixed sel k = Some l /\ is_knn d N q k l.
Proof.
  intros d N q k sel Hq Hk Hok.
  pose proof (others_length N q Hq) as HlenU.
  assert (Hlen : length sel = length (others N q)).
  { destruct Hok as [Hp _]. rewrite <- (Permutation_length Hp). unfold brute_dists_fixed, dist_records.
    now rewrite map_length. }
  unfold brute_row_fixed. rewrite Hlen.
  destruct (Nat.ltb_spec (length (others N q)) k) as [Hlt|_]; [lia|].
  eexists. split; [reflexivity|]. apply is_knn_knn_of.
  apply nth_select_knn; [apply others_NoDup | lia | assumption].
Qed.

(* ---------- the reference oracle meets the contract, and the checker is sound ------- *)

Lemma firstn_skipn_sorted_le : forall (l : list drec) n x y,
  StronglySorted (key_le snd) l -> In x (firstn n l) -> In y (skipn n l) -> snd x <= snd y.
Proof.
  induction l as [|a r IH]; intros n x y Hs Hx Hy.
  - rewrite firstn_nil in Hx. destruct Hx.
  - destruct n as [|n]; [destruct Hx|]. cbn [firstn skipn] in *.
    inversion Hs as [|? ? Hs' Hall]; subst. destruct Hx as [<-|Hx].
    + rewrite Forall_forall in Hall. apply (Hall y).
      rewrite <- (firstn_skipn n r). apply in_or_app. now right.
    + now apply (IH n).
Qed.

Lemma nth_element_ref_ok : forall n orig, nth_ok n orig (nth_element_ref orig).
Proof.
  intros n orig. unfold nth_element_ref. split; [apply isort_by_perm|].
  pose proof (isort_by_sorted (@snd Z Z) orig) as Hs.
  set (res := isort_by snd orig) in *.
  clearbody res.
  match goal with |- match ?s with _ => _ end => destruct s as [|p after] eqn:E end; [exact I|]. split.
  - intros x Hx. apply (firstn_skipn_sorted_le _ n x p Hs Hx). rewrite E. now left.
  - intros y Hy.
    assert (Hs2 : StronglySorted (key_le snd) (p :: after)).
    { rewrite <- E. clear E Hy. revert n. induction Hs as [|a r Hs IH Hall]; intros n.
      - rewrite skipn_nil. constructor.
      - destruct n as [|n]; cbn [skipn]; [now constructor | apply IH]. }
    inversion Hs2 as [|? ? _ Hall]; subst. rewrite Forall_forall in Hall. now apply Hall.
Qed.

Lemma drec_eqb_eq : forall a b, drec_eqb a b = true <-> a = b.
Proof.
  intros [a1 a2] [b1 b2]. unfold drec_eqb. cbn [fst snd].
  rewrite andb_true_iff, !Z.eqb_eq. split; [intros [-> ->]; reflexivity | intros E; inversion E; now split].
Qed.

Lemma NoDup_map_fst : forall (l : list drec), NoDup (map fst l) -> NoDup l.
Proof.
  induction l as [|a r IH]; intros H; [constructor|]. cbn [map] in H. inversion H; subst.
  constructor; [|now apply IH]. intros Hin. apply H2. now apply in_map.
Qed.

Lemma nth_ok_b_sound : forall n orig res, nth_ok_b n orig res = true -> nth_ok n orig res.
Proof.
  intros n orig res H. unfold nth_ok_b in H. rewrite !andb_true_iff in H.
  destruct H as [[[Hlen Hnd] Hall] Hpart]. apply Nat.eqb_eq in Hlen. apply nodup_b_spec in Hnd.
  split.
  - apply NoDup_Permutation_bis; [now apply NoDup_map_fst | lia |].
    intros x Hx. rewrite forallb_forall in Hall. specialize (Hall x Hx).
    apply existsb_exists in Hall. destruct Hall as [y [Hy E]]. apply drec_eqb_eq in E. now subst.
  - destruct (skipn n res) as [|p after]; [exact I|]. apply andb_true_iff in Hpart.
    destruct Hpart as [H1 H2]. rewrite forallb_forall in H1, H2. split.
    + intros x Hx. specialize (H1 x Hx). lia.
    + intros y Hy. specialize (H2 y Hy). lia.
Qed.

Lemma brute_checked_exact_lemma : forall d N q k sel,
  0 <= q < Z.of_nat N -> (k < N)%nat ->
  nth_ok_b k (brute_dists_fixed d N q) sel = true ->
  exists l, brute_row_fixed sel k = Some l /\ is_knn d N q k l.
Proof.
  intros d N q k sel Hq Hk H. apply brute_exact_lemma; try assumption. now apply nth_ok_b_sound.
Qed.
