(* ====================================================================== *)
(*  Pencil_Proof_Unique.v — property C10, "up to per-column sign": in a    *)
(*  simple eigenvalue the B-normalised eigenvector of the pencil is        *)
(*  unique up to sign.                                                     *)
(*                                                                         *)
(*  Let (V, lam) be a full decomposition of (A, B)  (A V = B V diag(lam),  *)
(*  V^T B V = I, V (V^T B) = I).  If  A q = mu B q,  q^T B q = 1  and      *)
(*  lam_t <> mu for every t <> j, then  q = c v_j  with  c c = 1           *)
(*  (c = 1 or c = -1).  Used with rot_solution: R v_j solves the pencil of *)
(*  R X with the same eigenvalue, so ANY decomposition the solver returns  *)
(*  for R X has, in that (simple) eigenvalue, the column +- R v_j; the     *)
(*  embedding column changes by that sign only.                            *)
(* ====================================================================== *)

From Coq Require Import Field Ring Arith Lia List Bool.
From TK Require Import Mat_Sums Mat_Core Pencil_Model Pencil_Spec Pencil_Proof Pencil_Proof_Rot.

Section Unique.
  Context {F : Type} {Fo : FieldOps F} {Ff : IsField F}.
  Add Field UniqueField : (@Fth F Fo Ff).
  Local Open Scope nat_scope.
  Local Open Scope F_scope.

  (* full_contract does not use the order: restate it here without the OrderedField instance *)
  Definition full_contract0 (D : nat) (A B V : mat F) (lam : vec F) : Prop :=
    meq D D (mmul D A V) (mmul D (mmul D B V) (mdiag lam)) /\
    meq D D (mmul D (mtrans V) (mmul D B V)) mI /\
    meq D D (mmul D V (mmul D (mtrans V) B)) mI.

  Section One.
    Variables (D : nat) (A B V : mat F) (lam : vec F) (q : vec F) (mu : F) (j : nat).
    Hypothesis Hc : full_contract0 D A B V lam.
    Hypothesis Hj : j < D.
    Hypothesis Hsimple : forall t, t < D -> t <> j -> lam t <> mu.
    Hypothesis Heig : forall i, i < D -> mv D A q i = mu * mv D B q i.
    Hypothesis Hnorm : dot D q (mv D B q) = 1.

    (* coordinates of q in the eigenbasis *)
    Definition co (t : nat) : F := sumn D (fun u => V u t * mv D B q u).

    Lemma q_expansion i : i < D -> q i = sumn D (fun t => V i t * co t).
    Proof.
      intros Hi. destruct Hc as [_ [_ H3]].
      (* sum_t V i t * sum_u V u t (B q) u = sum_s (V V^T B) i s q s = q i *)
      transitivity (sumn D (fun s => mmul D V (mmul D (mtrans V) B) i s * q s)).
      - rewrite (sumn_ext D _ (fun s => mI i s * q s)) by (intros s Hs; rewrite (H3 i s Hi Hs); reflexivity).
        symmetry. unfold mI. apply sumn_delta_l. assumption.
      - unfold mmul at 1.
        rewrite (sumn_ext D _ (fun s => sumn D (fun t => V i t * (mmul D (mtrans V) B t s * q s))))
          by (intros s _; rewrite <- sumn_mul_r; apply sumn_ext; intros; ring).
        rewrite sumn_swap. apply sumn_ext. intros t _.
        rewrite sumn_mul_l. f_equal. unfold co, mv.
        unfold mmul, mtrans.
        rewrite (sumn_ext D _ (fun s => sumn D (fun u => V u t * (B u s * q s))))
          by (intros s _; rewrite <- sumn_mul_r; apply sumn_ext; intros; ring).
        rewrite sumn_swap. apply sumn_ext. intros u _. rewrite sumn_mul_l. reflexivity.
    Qed.

    (* M q = (M V) co  for any M, entrywise on rows < D *)
    Lemma mv_expansion (M : mat F) i : mv D M q i = sumn D (fun t => mmul D M V i t * co t).
    Proof.
      unfold mv.
      rewrite (sumn_ext D _ (fun s => sumn D (fun t => M i s * (V s t * co t)))).
      2:{ intros s Hs. rewrite (q_expansion s Hs), sumn_mul_l. reflexivity. }
      rewrite sumn_swap. apply sumn_ext. intros t _. unfold mmul.
      rewrite <- sumn_mul_r. apply sumn_ext. intros; ring.
    Qed.

    Definition w (t : nat) : F := (lam t - mu) * co t.

    Lemma BV_w_zero i : i < D -> sumn D (fun t => mmul D B V i t * w t) = 0.
    Proof.
      intros Hi. destruct Hc as [H1 _].
      transitivity (mv D A q i - mu * mv D B q i); [|rewrite (Heig i Hi); ring].
      rewrite !mv_expansion.
      rewrite (sumn_ext D (fun t => mmul D A V i t * co t) (fun t => mmul D B V i t * lam t * co t)).
      2:{ intros t Ht. rewrite (H1 i t Hi Ht), mmul_diag_r by assumption. reflexivity. }
      rewrite <- sumn_mul_l, <- sumn_sub. apply sumn_ext. intros t _. unfold w. ring.
    Qed.

    Lemma w_zero s : s < D -> w s = 0.
    Proof.
      intros Hs. destruct Hc as [_ [H2 _]].
      transitivity (sumn D (fun t => mmul D (mtrans V) (mmul D B V) s t * w t)).
      - rewrite (sumn_ext D _ (fun t => mI s t * w t)) by (intros t Ht; rewrite (H2 s t Hs Ht); reflexivity).
        symmetry. unfold mI. apply sumn_delta_l. assumption.
      - unfold mmul at 1.
        rewrite (sumn_ext D _ (fun t => sumn D (fun i => mtrans V s i * (mmul D B V i t * w t))))
          by (intros t _; rewrite <- sumn_mul_r; apply sumn_ext; intros; ring).
        rewrite sumn_swap. apply sumn_zero'. intros i Hi.
        rewrite sumn_mul_l, (BV_w_zero i Hi). ring.
    Qed.

    Lemma co_off t : t < D -> t <> j -> co t = 0.
    Proof.
      intros Ht Hne. pose proof (w_zero t Ht) as Hw. unfold w in Hw.
      assert (Hd : lam t - mu <> 0).
      { intros H0. apply (Hsimple t Ht Hne). transitivity (lam t - mu + mu); [ring|]. rewrite H0. ring. }
      transitivity (/ (lam t - mu) * ((lam t - mu) * co t)); [field; assumption|].
      rewrite Hw. ring.
    Qed.

    Lemma q_is_multiple i : i < D -> q i = co j * V i j.
    Proof.
      intros Hi. rewrite (q_expansion i Hi).
      rewrite (sumn_single D j) by
        (try assumption; intros t Ht Hne; rewrite (co_off t Ht Hne); ring).
      ring.
    Qed.

    Lemma co_square : co j * co j = 1.
    Proof.
      destruct Hc as [_ [H2 _]].
      rewrite <- Hnorm. unfold dot.
      (* q^T B q = co_j^2 (V^T B V)_jj *)
      transitivity (co j * co j * mmul D (mtrans V) (mmul D B V) j j);
        [rewrite (H2 j j Hj Hj); unfold mI; rewrite delta_eq; ring|].
      unfold mmul at 1. rewrite <- sumn_mul_l. apply sumn_ext. intros i Hi.
      rewrite (q_is_multiple i Hi). unfold mtrans.
      assert (E : mv D B q i = co j * mmul D B V i j).
      { unfold mv, mmul. rewrite <- sumn_mul_l. apply sumn_ext. intros s Hs.
        rewrite (q_is_multiple s Hs). ring. }
      rewrite E. ring.
    Qed.
  End One.

  Theorem eigenvector_unique_up_to_sign D (A B V : mat F) (lam : vec F) (q : vec F) (mu : F) j :
    full_contract0 D A B V lam -> j < D ->
    (forall t, t < D -> t <> j -> lam t <> mu) ->
    (forall i, i < D -> mv D A q i = mu * mv D B q i) ->
    dot D q (mv D B q) = 1 ->
    exists c, c * c = 1 /\ (c <> 1 -> c = - (1)) /\ forall i, i < D -> q i = c * V i j.
  Proof.
    intros Hc Hj Hs He Hn. exists (co D B V q j).
    pose proof (co_square D A B V lam q mu j Hc Hj Hs He Hn) as Hsq.
    split; [exact Hsq|]. split.
    - intros Hne.
      assert (Hne' : co D B V q j - 1 <> 0).
      { intros H0. apply Hne. transitivity (co D B V q j - 1 + 1); [ring|]. rewrite H0. ring. }
      transitivity (/ (co D B V q j - 1) * (co D B V q j * co D B V q j - 1) - 1).
      + field. assumption.
      + rewrite Hsq. field. assumption.
    - intros i Hi. apply (q_is_multiple D A B V lam q mu j Hc Hj Hs He); assumption.
  Qed.

  (* rotation clause, sign part: whatever full decomposition (V', lam') the solver returns for the
     pencil of R X, its column in a simple eigenvalue lam_j is + or - R v_j *)
  Theorem rotated_eigenvector_up_to_sign D (R A B V V' : mat F) (lam lam' : vec F) j j' :
    orthogonal D R ->
    full_contract0 D A B V lam ->
    full_contract0 D (conj_by D R A) (conj_by D R B) V' lam' ->
    j < D -> j' < D ->
    (forall t, t < D -> t <> j' -> lam' t <> lam j) ->
    exists c, c * c = 1 /\ (c <> 1 -> c = - (1)) /\
              forall i, i < D -> V' i j' = c * mmul D R V i j.
  Proof.
    intros HR [H1 [H2 H3]] Hc' Hj Hj' Hs.
    assert (Hsol : gen_eig_solution D D (conj_by D R A) (conj_by D R B) (mmul D R V) lam).
    { apply rot_solution; [assumption|split; assumption]. }
    destruct Hsol as [S1 S2].
    set (q := fun i => mmul D R V i j).
    destruct (eigenvector_unique_up_to_sign D (conj_by D R A) (conj_by D R B) V' lam' q (lam j) j'
                Hc' Hj' Hs) as [c [Hcc [Hsign Hq]]].
    - intros i Hi. change (mv D (conj_by D R A) q i) with (mmul D (conj_by D R A) (mmul D R V) i j).
      change (mv D (conj_by D R B) q i) with (mmul D (conj_by D R B) (mmul D R V) i j).
      rewrite (S1 i j Hi Hj), mmul_diag_r by assumption. ring.
    - change (dot D q (mv D (conj_by D R B) q))
        with (mmul D (mtrans (mmul D R V)) (mmul D (conj_by D R B) (mmul D R V)) j j).
      rewrite (S2 j j Hj Hj). unfold mI. apply delta_eq.
    - exists c. split; [assumption|]. split; [assumption|].
      intros i Hi. fold (q i). rewrite (Hq i Hi).
      transitivity (c * c * V' i j'); [rewrite Hcc; ring|ring].
  Qed.

End Unique.
