(* Knn_Brute_Model.v — executable model of find_neighbors_bruteforce_impl
   (include/tapkee/neighbors/neighbors.hpp).  No proofs in this file.

   One row (one value of `iter`) at a time:
     distances      = [(j, d(q,j)) | j = 0..N-1]                      brute_dists
     std::nth_element(begin, begin+k+1, end, by .second)              ORACLE: its result
                      `sel` is an argument; contract nth_ok
     for r in [begin, begin+k+1): if r.first != iter push r.first     brute_row
   `begin + k + 1` past `end` (k+1 > N) is undefined behaviour: the model returns None.

   brute_*_fixed model the repaired loop of fixes/F01_knn_exclude_query.patch:
   the query is left out of `distances`, nth_element is asked for position k and the
   first k records are returned.

   Distances are integers (see Knn_Spec.v): the code only compares them. *)
From Coq Require Import List ZArith Bool Permutation.
From TK Require Import Knn_Spec.
Import ListNotations.
Local Open Scope Z_scope.

Definition drec := (Z * Z)%type.   (* DistanceRecord: (sample, distance to the query) *)

Definition dist_records (d : dist) (q : Z) (U : list Z) : list drec :=
  map (fun j => (j, d q j)) U.

(* the vector `distances` built by the shipped inner loop *)
Definition brute_dists (d : dist) (N : nat) (q : Z) : list drec := dist_records d q (samples N).

(* Contract of std::nth_element(first, first+n, last, distances_comparator):
   the result is a permutation; if first+n != last, no element before position n is
   greater than the n-th and no element after it is smaller. *)
Definition nth_ok (n : nat) (orig res : list drec) : Prop :=
  Permutation orig res /\
  match skipn n res with
  | [] => True
  | p :: after =>
      (forall x, In x (firstn n res) -> snd x <= snd p) /\
      (forall y, In y after -> snd p <= snd y)
  end.

Definition drec_eqb (a b : drec) : bool := (fst a =? fst b) && (snd a =? snd b).

(* run-time validation of the contract on an observed call (the records of one row have
   pairwise distinct first components, so "same length and every original record
   present" is "permutation") *)
Definition nth_ok_b (n : nat) (orig res : list drec) : bool :=
  Nat.eqb (length orig) (length res) &&
  nodup_b (map fst orig) &&
  forallb (fun x => existsb (drec_eqb x) res) orig &&
  match skipn n res with
  | [] => true
  | p :: after =>
      forallb (fun x => snd x <=? snd p) (firstn n res) &&
      forallb (fun y => snd p <=? snd y) after
  end.

(* shipped code: one row.  `sel` is what nth_element left in `distances`. *)
Definition brute_row (sel : list drec) (q : Z) (k : nat) : option (list Z) :=
  if Nat.ltb (length sel) (k + 1) then None
  else Some (map fst (filter (fun r => negb (fst r =? q)) (firstn (k + 1) sel))).

(* repaired code: `distances` holds the other samples only *)
Definition brute_dists_fixed (d : dist) (N : nat) (q : Z) : list drec :=
  dist_records d q (others N q).

Definition brute_row_fixed (sel : list drec) (k : nat) : option (list Z) :=
  if Nat.ltb (length sel) k then None
  else Some (map fst (firstn k sel)).

(* A deterministic instance of the oracle (a stable sort certainly meets the
   contract); used by the extracted driver when no observed `sel` is supplied and by
   the examples. *)
Definition nth_element_ref (orig : list drec) : list drec := isort_by snd orig.
