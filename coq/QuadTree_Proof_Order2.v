(* QuadTree_Proof_Order2.v — consequences of order independence of the tree:
   (1) without coincident points computeNonEdgeForces returns the same sums (as rationals) for EVERY
       theta, query index and accumulator whatever the insertion order was;
   (2) in every leaf the slot multiplicity count[0] equals the mass cum_size (fix F24's field). *)
From Coq Require Import List Arith Bool ZArith QArith Permutation Lia Lqa.
From TK Require Import QuadTree_Model QuadTree_Spec QuadTree_SpecExec QuadTree_Proof_Base
                       QuadTree_Proof_Insert QuadTree_Proof_Main QuadTree_Proof_Forces
                       QuadTree_Proof_Spec QuadTree_Proof_Order.
Import ListNotations.
Local Open Scope Q_scope.

(* ---------- morphisms ---------- *)

Lemma Qltb_compat : forall a a' b b', a == a' -> b == b' -> Qltb a b = Qltb a' b'.
Proof.
  intros a a' b b' Ha Hb.
  destruct (Qltb a b) eqn:E; destruct (Qltb a' b') eqn:E'; try reflexivity.
  - apply Qltb_true in E. apply Qltb_false in E'. lra.
  - apply Qltb_false in E. apply Qltb_true in E'. lra.
Qed.

Lemma summary_ok_compat : forall c theta D D', D == D' -> summary_ok c theta D = summary_ok c theta D'.
Proof.
  intros c theta D D' H. unfold summary_ok.
  rewrite (Qltb_compat _ (qmax (chh c) (chw c) * qmax (chh c) (chw c)) (theta * theta * D) (theta * theta * D')).
  - rewrite (Qltb_compat 0 0 D D'); [reflexivity | reflexivity | exact H].
  - reflexivity.
  - rewrite H. reflexivity.
Qed.

Lemma add_summary_compat : forall p cum com com' a a',
  pt_eq com com' -> feq a a' -> feq (add_summary p cum com a) (add_summary p cum com' a').
Proof.
  intros p cum com com' [[f0 f1] sq] [[g0 g1] sq'] E (A & B & C). cbn [fst snd] in A, B, C.
  pose proof (sqdist_pt_eq p com com' E) as ED. destruct E as [E1 E2].
  unfold add_summary, feq. cbn [fst snd]. rewrite !Qred_correct, ED, E1, E2, A, B, C.
  repeat split; reflexivity.
Qed.

(* ---------- (1) ---------- *)

Lemma forces_at_teq : forall data t t', teq data t t' ->
  (forall a b, In a (all_indices t) -> In b (all_indices t') -> coinc data a b -> a = b) ->
  forall p i theta a a', feq a a' -> feq (forces_at p i theta t a) (forces_at p i theta t' a').
Proof.
  intros data t t' H.
  induction H as [c com com' | c j j' cnt cum com com' Hco Ecom
                 | c cum com com' nw ne sw se nw' ne' sw' se' Ecom T1 IH1 T2 IH2 T3 IH3 T4 IH4];
    intros Huniq p i theta a a' Ha.
  - cbn [forces_at Nat.eqb]. exact Ha.
  - cbn [forces_at].
    assert (E : j = j') by (apply Huniq; [left; reflexivity | left; reflexivity | exact Hco]).
    subst j'. destruct (cum =? 0)%nat; [exact Ha|].
    destruct (j =? i)%nat; [exact Ha|].
    apply add_summary_compat; assumption.
  - cbn [forces_at]. destruct (cum =? 0)%nat; [exact Ha|].
    rewrite (summary_ok_compat c theta _ _ (sqdist_pt_eq p com com' Ecom)).
    destruct (summary_ok c theta (sqdist p com')).
    + apply add_summary_compat; assumption.
    + cbn [all_indices] in Huniq.
      apply IH4.
      { intros x y Hx Hy. apply Huniq; apply in_or_app; right; apply in_or_app; right; apply in_or_app; right; assumption. }
      apply IH3.
      { intros x y Hx Hy. apply Huniq; apply in_or_app; right; apply in_or_app; right; apply in_or_app; left; assumption. }
      apply IH2.
      { intros x y Hx Hy. apply Huniq; apply in_or_app; right; apply in_or_app; left; assumption. }
      apply IH1.
      { intros x y Hx Hy. apply Huniq; apply in_or_app; left; assumption. }
      exact Ha.
Qed.

Theorem forces_order_independent_gen : forall fx fuel1 fuel2 data order1 order2 root ok1 ok2 t1 t2,
  Permutation order1 order2 ->
  (forall i, In i order1 -> inside data root i) ->
  NoCo data order1 ->
  fill_order fx fuel1 data order1 (init root) = Done ok1 t1 ->
  fill_order fx fuel2 data order2 (init root) = Done ok2 t2 ->
  forall p i theta a, feq (forces_at p i theta t1 a) (forces_at p i theta t2 a).
Proof.
  intros fx fuel1 fuel2 data order1 order2 root ok1 ok2 t1 t2 HP Hin HN E1 E2 p i theta a.
  assert (Hm : mode fx data order1) by (right; exact HN).
  pose proof (order_independent_tree_gen fx fuel1 fuel2 data order1 order2 root ok1 ok2 t1 t2 HP Hin Hm E1 E2) as T.
  assert (Hin2 : forall i, In i order2 -> inside data root i).
  { intros k Hk. apply Hin. apply (Permutation_in _ (Permutation_sym HP) Hk). }
  assert (Hm2 : mode fx data order2) by (right; apply (NoCo_perm _ _ _ HP HN)).
  destruct (routed_once_gen fx fuel1 data order1 root ok1 t1 Hin Hm E1) as (_ & (_ & A1 & _) & _).
  destruct (routed_once_gen fx fuel2 data order2 root ok2 t2 Hin2 Hm2 E2) as (_ & (_ & A2 & _) & _).
  apply (forces_at_teq data t1 t2 T); [|apply feq_refl].
  intros x y Hx Hy C. destruct HN as [_ HU]. apply HU; [apply A1; exact Hx | | exact C].
  apply (Permutation_in _ (Permutation_sym HP)). apply A2. exact Hy.
Qed.

(* ---------- (2) ---------- *)

Fixpoint count_ok (t : qt) : Prop :=
  match t with
  | Leaf _ None cum _ => cum = 0%nat
  | Leaf _ (Some (_, cnt)) cum _ => cnt = cum /\ (1 <= cum)%nat
  | Node _ cum _ nw ne sw se =>
    cum = (qcum nw + qcum ne + qcum sw + qcum se)%nat /\ (2 <= cum)%nat /\
    count_ok nw /\ count_ok ne /\ count_ok sw /\ count_ok se
  end.

Lemma Inv_cum : forall data l t, Inv data l t -> qcum t = length l.
Proof.
  intros data l t H. destruct H as [c com | c j cnt cum com l Hj Hco Hin Hcnt (Hc & _)
                                   | c cum com nw ne sw se l l1 l2 l3 l4 HP I1 I2 I3 I4 HG HF Hins H2 (Hc & _)];
    cbn [qcum]; auto.
Qed.

Lemma two_distinct_len : forall data c l,
  (forall i, In i l -> inside data c i) -> two_distinct data l -> (2 <= length l)%nat.
Proof.
  intros data c l Hv (a & b & Ha & Hb & Hab).
  destruct l as [|x [|y l]]; cbn [length]; try lia.
  - destruct Ha.
  - exfalso. destruct Ha as [<-|[]]. destruct Hb as [<-|[]]. apply Hab.
    destruct (Hv x (or_introl eq_refl)) as (p & Hp & _). apply (coinc_refl _ _ _ Hp).
Qed.

Lemma Inv_count_ok : forall data l t, Inv data l t -> count_ok t.
Proof.
  intros data l t H.
  induction H as [c com | c j cnt cum com l Hj Hco Hin Hcnt Hagg
                 | c cum com nw ne sw se l l1 l2 l3 l4 HP I1 IH1 I2 IH2 I3 IH3 I4 IH4 HG HF Hins H2 Hagg].
  - reflexivity.
  - cbn [count_ok]. destruct Hagg as (Hc & _). split; [congruence|].
    rewrite Hc. destruct l; [destruct Hj | cbn [length]; lia].
  - cbn [count_ok]. destruct Hagg as (Hc & _).
    rewrite (Inv_cum _ _ _ I1), (Inv_cum _ _ _ I2), (Inv_cum _ _ _ I3), (Inv_cum _ _ _ I4).
    split; [|split; [|tauto]].
    + rewrite Hc, (Permutation_length HP), !app_length. lia.
    + rewrite Hc. apply (two_distinct_len data c l Hins H2).
Qed.

Theorem count_ok_gen : forall fx fuel data order root ok t,
  (forall i, In i order -> inside data root i) ->
  mode fx data order ->
  fill_order fx fuel data order (init root) = Done ok t -> count_ok t.
Proof.
  intros fx fuel data order root ok t Hin Hm E.
  destruct (build_Inv fx fuel data order root Hin Hm) as [[E' _]|(t' & E' & I & Ec)]; rewrite E in E'.
  - discriminate.
  - injection E' as -> ->. apply (Inv_count_ok _ _ _ I).
Qed.
