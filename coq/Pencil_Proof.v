(* ====================================================================== *)
(*  Pencil_Proof.v — property C10: the pencils the three construct_*       *)
(*  routines return (current code = `*_repaired`, code before fix F9 =     *)
(*  `*_shipped`), what the lower-triangle solver sees of them, the column  *)
(*  selection, and the oracle contract turned into the property's          *)
(*  generalised eigen-equation.  Generic over the field F.                 *)
(* ====================================================================== *)

Require Import Field Ring Arith Lia List Bool.
From TK Require Import Mat_Sums Mat_Core Mat_EigSelect Pencil_Model Pencil_Spec Pencil_Proof_Sums.
Import ListNotations.

Section PencilProof.
  Context {F : Type} {Fo : FieldOps F} {Ff : IsField F}.
  Add Field PencilProofField : (@Fth F Fo Ff).
  Local Open Scope F_scope.

  Lemma read_upper_mzero i j : read_upper (@mzero F Fo) i j = 0.
  Proof. unfold read_upper, mzero. destruct (Nat.leb i j); reflexivity. Qed.

  (* a table whose two triangles were materialised from the upper one is seen the same
     by a reader of either triangle *)
  Lemma read_lower_sym_from_upper (M : mat F) i j :
    read_lower (sym_from_upper M) i j = read_upper M i j.
  Proof.
    unfold read_lower, sym_from_upper.
    destruct (Nat.leb j i) eqn:E; [reflexivity|].
    apply (read_upper_sym (S (i + j)) M); lia.
  Qed.

  (* ====================== entries of the accumulated tables ====================== *)
  Lemma lhs_upper N (X : mat F) (W : sparse F) i j :
    indices_ok N W ->
    read_upper (acc_sparse X W mzero) i j = XMXt N X (sym2 (dense_of W)) i j.
  Proof.
    intros Hok. rewrite acc_sparse_upper, read_upper_mzero, (sparse_sum_is_sym2 N) by assumption. ring.
  Qed.

  Lemma rhs_upper_weighted N (X : mat F) (a : vec F) i j :
    read_upper (acc_samples X N a mzero) i j = XMXt N X (mdiag a) i j.
  Proof. rewrite acc_samples_upper, read_upper_mzero, XMXt_mdiag. ring. Qed.

  Lemma rhs_upper_plain N (X : mat F) i j :
    read_upper (acc_samples X N (fun _ => 1) mzero) i j = XMXt N X mI i j.
  Proof.
    rewrite acc_samples_upper, read_upper_mzero, XMXt_mI.
    rewrite (sumn_ext N _ (fun t => X i t * X j t)) by (intros; ring). ring.
  Qed.

  (* the rank update by the feature sum with -1/N is  - X (11^T/N) X^T *)
  Lemma mean_update_upper N (X : mat F) (M : mat F) i j :
    read_upper (rank_update_upper (minus_inv_n N) (feature_sum X N) M) i j =
    read_upper M i j - XMXt N X (mconst (/ of_nat N)) i j.
  Proof.
    rewrite read_upper_rank_update_upper, XMXt_mconst, !feature_sum_eq, minus_inv_n_eq. ring.
  Qed.

  Lemma XMXt_Jn N (X : mat F) i j :
    XMXt N X (Jn N) i j = XMXt N X mI i j - XMXt N X (mconst (/ of_nat N)) i j.
  Proof.
    rewrite <- XMXt_msub. apply XMXt_ext. intros s t _ _. reflexivity.
  Qed.

  (* entry (i,j) of X M X^T depends on X only through rows i and j *)
  Lemma XMXt_ext_rows N (X X' M : mat F) i j :
    (forall s, s < N -> X i s = X' i s) -> (forall t, t < N -> X j t = X' j t) ->
    XMXt N X M i j = XMXt N X' M i j.
  Proof.
    intros Hi Hj. rewrite !XMXt_entry. apply sumn_ext. intros t Ht. apply sumn_ext. intros s Hs.
    rewrite (Hi s Hs), (Hj t Ht). reflexivity.
  Qed.

  Lemma XMXt_ext_X N (X X' M : mat F) i j :
    (forall f s, s < N -> X f s = X' f s) -> XMXt N X M i j = XMXt N X' M i j.
  Proof. intros H. apply XMXt_ext_rows; intros s Hs; apply H; assumption. Qed.

  Lemma compute_mean0_eq N (X : mat F) f :
    compute_mean0 X N f = sumn N (fun s => X f s) / of_nat N.
  Proof. unfold compute_mean0. rewrite feature_sum_eq. reflexivity. Qed.

  (* scatter of the centred features = X J X^T *)
  Lemma centred_scatter N (X : mat F) i j :
    of_nat N <> 0 -> XMXt N (centred X N) mI i j = XMXt N X (Jn N) i j.
  Proof.
    intros HN. rewrite XMXt_Jn, !XMXt_mI, XMXt_mconst. unfold centred.
    rewrite !compute_mean0_eq.
    set (Si := sumn N (fun s => X i s)). set (Sj := sumn N (fun t => X j t)).
    rewrite (sumn_ext N _ (fun t => X i t * X j t - (Sj / of_nat N) * X i t
                                    - (Si / of_nat N) * X j t + Si / of_nat N * (Sj / of_nat N)))
      by (intros; ring).
    rewrite sumn_add, !sumn_sub, !sumn_mul_l, sumn_const.
    change (sumn N (X i)) with Si. change (sumn N (X j)) with Sj.
    field. assumption.
  Qed.

  (* ====================== the CURRENT routines (after fix F9) ====================== *)
  Theorem npe_problem_gen D N (X : mat F) (W : sparse F) :
    indices_ok N W ->
    is_pencil D (npe_lhs N X W) (npe_rhs N X) (npe_repaired X N W).
  Proof.
    intros Hok. split; intros i j _ _; cbn [p_lhs p_rhs npe_repaired]; unfold sym_from_upper.
    - apply lhs_upper. assumption.
    - apply rhs_upper_plain.
  Qed.

  (* after F9, before F25: lhs carries the spurious mean term *)
  Theorem lltsa_f9_pencil_gen D N (X : mat F) (W : sparse F) :
    indices_ok N W ->
    is_pencil D (lltsa_lhs_f9 N X W) (lltsa_rhs N X) (lltsa_repaired X N W).
  Proof.
    intros Hok. split; intros i j _ _; cbn [p_lhs p_rhs lltsa_repaired]; unfold sym_from_upper.
    - rewrite mean_update_upper, (lhs_upper N) by assumption.
      unfold lltsa_lhs_f9. rewrite XMXt_msub. reflexivity.
    - rewrite mean_update_upper, rhs_upper_plain. unfold lltsa_rhs. rewrite XMXt_Jn. reflexivity.
  Qed.

  (* after F25, before F42: uncentred lhs *)
  Theorem lltsa_f25_pencil_gen D N (X : mat F) (W : sparse F) :
    indices_ok N W ->
    is_pencil D (lltsa_lhs_f25 N X W) (lltsa_rhs N X) (lltsa_fixed X N W).
  Proof.
    intros Hok. split; intros i j _ _; cbn [p_lhs p_rhs lltsa_fixed]; unfold sym_from_upper.
    - apply lhs_upper. assumption.
    - rewrite mean_update_upper, rhs_upper_plain. unfold lltsa_rhs. rewrite XMXt_Jn. reflexivity.
  Qed.

  (* CURRENT (after F42): both sides from the centred features *)
  Theorem lltsa_problem_gen D N (X : mat F) (W : sparse F) :
    of_nat N <> 0 -> indices_ok N W ->
    is_pencil D (lltsa_lhs N X W) (lltsa_rhs N X) (lltsa_centred X N W).
  Proof.
    intros HN Hok. split; intros i j _ _; cbn [p_lhs p_rhs lltsa_centred]; unfold sym_from_upper.
    - apply lhs_upper. assumption.
    - rewrite rhs_upper_plain. apply centred_scatter. assumption.
  Qed.

  (* the F9-only lhs differs from the property's by exactly (X 1)(X 1)^T / N *)
  Theorem lltsa_f9_lhs_gap N (X : mat F) (W : sparse F) i j :
    lltsa_lhs_f9 N X W i j =
    lltsa_lhs_f25 N X W i j - / of_nat N * (sumn N (fun s => X i s) * sumn N (fun t => X j t)).
  Proof. unfold lltsa_lhs_f9, lltsa_lhs_f25. rewrite XMXt_msub, XMXt_mconst. reflexivity. Qed.

  (* ... so on centred features (all feature sums zero) it is X (W+W^T) X^T *)
  Theorem lltsa_f9_centred_ok D N (X : mat F) (W : sparse F) :
    indices_ok N W -> (forall f, f < D -> sumn N (fun s => X f s) = 0) ->
    is_pencil D (lltsa_lhs_f25 N X W) (lltsa_rhs N X) (lltsa_repaired X N W).
  Proof.
    intros Hok Hc. destruct (lltsa_f9_pencil_gen D N X W Hok) as [HA HB]. split; [|assumption].
    intros i j Hi Hj. rewrite (HA i j Hi Hj), lltsa_f9_lhs_gap, (Hc i Hi). ring.
  Qed.

  Theorem lpp_problem_gen D N (X : mat F) (L : sparse F) (dv : vec F) :
    indices_ok N L ->
    is_pencil D (lpp_lhs N X L) (lpp_rhs N X dv) (lpp_repaired X N L dv).
  Proof.
    intros Hok. split; intros i j _ _; cbn [p_lhs p_rhs lpp_repaired]; unfold sym_from_upper.
    - apply lhs_upper. assumption.
    - apply rhs_upper_weighted.
  Qed.

  (* the solver (lower-triangle reader) sees the same pair *)
  Lemma seen_sym_from_upper D (L R A B : mat F) :
    (forall i j, read_upper L i j = A i j) -> (forall i j, read_upper R i j = B i j) ->
    solver_sees D A B {| p_lhs := sym_from_upper L; p_rhs := sym_from_upper R |}.
  Proof.
    intros HL HR. split; intros i j _ _; cbn [seen p_lhs p_rhs];
      rewrite read_lower_sym_from_upper; [apply HL|apply HR].
  Qed.

  Theorem npe_seen_gen D N (X : mat F) (W : sparse F) :
    indices_ok N W ->
    solver_sees D (npe_lhs N X W) (npe_rhs N X) (npe_repaired X N W).
  Proof.
    intros Hok. apply seen_sym_from_upper; intros i j.
    - apply lhs_upper. assumption.
    - apply rhs_upper_plain.
  Qed.

  Theorem lltsa_seen_gen D N (X : mat F) (W : sparse F) :
    of_nat N <> 0 -> indices_ok N W ->
    solver_sees D (lltsa_lhs N X W) (lltsa_rhs N X) (lltsa_centred X N W).
  Proof.
    intros HN Hok. apply seen_sym_from_upper; intros i j.
    - apply lhs_upper. assumption.
    - rewrite rhs_upper_plain. apply centred_scatter. assumption.
  Qed.

  Theorem lltsa_f25_seen_gen D N (X : mat F) (W : sparse F) :
    indices_ok N W ->
    solver_sees D (lltsa_lhs_f25 N X W) (lltsa_rhs N X) (lltsa_fixed X N W).
  Proof.
    intros Hok. apply seen_sym_from_upper; intros i j.
    - apply lhs_upper. assumption.
    - rewrite mean_update_upper, rhs_upper_plain. unfold lltsa_rhs. rewrite XMXt_Jn. reflexivity.
  Qed.

  Theorem lltsa_f9_seen_gen D N (X : mat F) (W : sparse F) :
    indices_ok N W ->
    solver_sees D (lltsa_lhs_f9 N X W) (lltsa_rhs N X) (lltsa_repaired X N W).
  Proof.
    intros Hok. apply seen_sym_from_upper; intros i j.
    - rewrite mean_update_upper, (lhs_upper N) by assumption.
      unfold lltsa_lhs_f9. rewrite XMXt_msub. reflexivity.
    - rewrite mean_update_upper, rhs_upper_plain. unfold lltsa_rhs. rewrite XMXt_Jn. reflexivity.
  Qed.

  Theorem lpp_seen_gen D N (X : mat F) (L : sparse F) (dv : vec F) :
    indices_ok N L ->
    solver_sees D (lpp_lhs N X L) (lpp_rhs N X dv) (lpp_repaired X N L dv).
  Proof.
    intros Hok. apply seen_sym_from_upper; intros i j.
    - apply lhs_upper. assumption.
    - apply rhs_upper_weighted.
  Qed.

  (* the returned tables are symmetric, whichever triangle a later consumer reads *)
  Theorem repaired_tables_symmetric D N (X : mat F) (W : sparse F) (dv : vec F) :
    msym D (p_lhs (npe_repaired X N W)) /\ msym D (p_rhs (npe_repaired X N W)) /\
    msym D (p_lhs (lltsa_repaired X N W)) /\ msym D (p_rhs (lltsa_repaired X N W)) /\
    msym D (p_lhs (lltsa_fixed X N W)) /\ msym D (p_rhs (lltsa_fixed X N W)) /\
    msym D (p_lhs (lltsa_centred X N W)) /\ msym D (p_rhs (lltsa_centred X N W)) /\
    msym D (p_lhs (lpp_repaired X N W dv)) /\ msym D (p_rhs (lpp_repaired X N W dv)).
  Proof. repeat split; apply read_upper_sym. Qed.

  (* ====================== the routines BEFORE fix F9 ====================== *)
  (* a table that lives in the upper triangle only, read through the lower one: diagonal *)
  Lemma read_lower_upper_only (M : mat F) i j :
    (forall a b, b < a -> M a b = 0) ->
    read_lower M i j = if Nat.eqb i j then M i i else 0.
  Proof.
    intros HU. unfold read_lower.
    destruct (Nat.eqb i j) eqn:E.
    - apply Nat.eqb_eq in E. subst j. rewrite Nat.leb_refl. reflexivity.
    - apply Nat.eqb_neq in E. destruct (Nat.leb j i) eqn:E1.
      + apply Nat.leb_le in E1. apply HU. lia.
      + apply Nat.leb_gt in E1. apply HU. lia.
  Qed.

  Lemma sym_avg_upper_only_all (M : mat F) i j :
    two <> 0 -> (forall a b, b < a -> M a b = 0) ->
    sym_avg M i j = if Nat.eqb i j then M i i else read_upper M i j / two.
  Proof.
    intros H2 HU. apply (sym_avg_upper_only (S (i + j))); try assumption; try lia.
    intros a b _ _ Hab. apply HU. assumption.
  Qed.

  Lemma read_lower_of_msym_all (M : mat F) i j :
    (forall a b, M a b = M b a) -> read_lower M i j = M i j.
  Proof. intros H. unfold read_lower. destruct (Nat.leb j i); [reflexivity|apply H]. Qed.

  Lemma acc_sparse_mzero_lower (X : mat F) (W : sparse F) a b :
    b < a -> acc_sparse X W mzero a b = 0.
  Proof. intros H. rewrite acc_sparse_lower by assumption. reflexivity. Qed.

  Lemma acc_samples_mzero_lower (X : mat F) N w a b :
    b < a -> acc_samples X N w mzero a b = 0.
  Proof. intros H. rewrite acc_samples_lower by assumption. reflexivity. Qed.

  (* lhs of all three old routines, as the solver saw it: diag (X M X^T) *)
  Theorem shipped_lhs_seen N (X : mat F) (W : sparse F) i j :
    indices_ok N W ->
    read_lower (acc_sparse X W mzero) i j =
    if Nat.eqb i j then XMXt N X (sym2 (dense_of W)) i j else 0.
  Proof.
    intros Hok. rewrite read_lower_upper_only by (apply acc_sparse_mzero_lower).
    destruct (Nat.eqb i j) eqn:E; [|reflexivity].
    apply Nat.eqb_eq in E. subst j.
    rewrite <- (lhs_upper N X W i i Hok). symmetry. apply read_upper_diag.
  Qed.

  Theorem npe_shipped_seen_gen D N (X : mat F) (W : sparse F) :
    two <> 0 -> indices_ok N W ->
    solver_sees D
      (fun i j => if Nat.eqb i j then npe_lhs N X W i j else 0)
      (fun i j => if Nat.eqb i j then npe_rhs N X i j else npe_rhs N X i j / two)
      (npe_shipped X N W).
  Proof.
    intros H2 Hok. split; intros i j _ _; cbn [seen p_lhs p_rhs npe_shipped].
    - apply shipped_lhs_seen. assumption.
    - rewrite read_lower_of_msym_all by (intros a b; apply (sym_avg_sym (S (a + b))); lia).
      rewrite sym_avg_upper_only_all by (try assumption; apply acc_samples_mzero_lower).
      unfold npe_rhs. rewrite <- !rhs_upper_plain.
      destruct (Nat.eqb i j) eqn:E; [|reflexivity].
      apply Nat.eqb_eq in E. subst j. symmetry. apply read_upper_diag.
  Qed.

  Theorem lpp_shipped_seen_gen D N (X : mat F) (L : sparse F) (dv : vec F) :
    indices_ok N L ->
    solver_sees D
      (fun i j => if Nat.eqb i j then lpp_lhs N X L i j else 0)
      (fun i j => if Nat.eqb i j then lpp_rhs N X dv i j else 0)
      (lpp_shipped X N L dv).
  Proof.
    intros Hok. split; intros i j _ _; cbn [seen p_lhs p_rhs lpp_shipped].
    - apply shipped_lhs_seen. assumption.
    - rewrite read_lower_upper_only by (apply acc_samples_mzero_lower).
      destruct (Nat.eqb i j) eqn:E; [|reflexivity].
      apply Nat.eqb_eq in E. subst j. unfold lpp_rhs.
      rewrite <- rhs_upper_weighted. symmetry. apply read_upper_diag.
  Qed.

  (* ====================== column selection ====================== *)
  Theorem select_cols_ok D d (V : mat F) :
    d <= D -> exists P, select_cols D d V = Ok P /\ forall i j, P i j = V i j.
  Proof.
    intros Hd. unfold select_cols.
    rewrite (sel_left_right_ok d gen_dense_skip D gen_dense_cols) by
      (try reflexivity; unfold gen_dense_skip; lia).
    eexists. split; [reflexivity|]. intros i j. reflexivity.
  Qed.

  Theorem select_cols_oob D d (V : mat F) :
    D < d -> select_cols D d V = OOB 3 d D.
  Proof.
    intros Hd. unfold select_cols, eval_ops, gen_dense_cols, gen_dense_skip.
    cbn [fold_left apply_op ieval].
    assert (E : Nat.leb (d + 0) D = false) by (apply Nat.leb_gt; lia).
    rewrite E. reflexivity.
  Qed.

  (* ====================== oracle contract -> the property's equation ====================== *)
  (* Eigen::GeneralizedSelfAdjointEigenSolver (ABx_lx) on what it reads: A V = B V diag(lam),
     V^T B V = I.  (Ascending order of lam is part of the contract but F carries no order:
     "the d smallest" is the index statement `select_cols_ok`: columns 0 .. d-1.) *)
  Definition oracle_contract (D : nat) (A B V : mat F) (lam : vec F) : Prop :=
    gen_eig_solution D D A B V lam.

  Lemma gen_eig_solution_meq D d (A A' B B' P P' : mat F) lam :
    meq D D A A' -> meq D D B B' -> meq D d P P' ->
    gen_eig_solution D d A B P lam -> gen_eig_solution D d A' B' P' lam.
  Proof.
    intros HA HB HP [H1 H2]. split.
    - intros i j Hi Hj.
      assert (E1 : mmul D A' P' i j = mmul D A P i j).
      { apply (mmul_meq D D d); try assumption; apply meq_sym; assumption. }
      rewrite E1, (H1 i j Hi Hj).
      apply (mmul_meq D d d); try assumption.
      + apply (mmul_meq D D d); assumption.
      + apply meq_refl.
    - intros i j Hi Hj. rewrite <- (H2 i j Hi Hj).
      apply (mmul_meq d D d); try assumption.
      + intros a b Ha Hb. unfold mtrans. symmetry. apply HP; assumption.
      + apply (mmul_meq D D d); apply meq_sym; assumption.
  Qed.

  Theorem selected_solves D d (A B V P : mat F) lam :
    d <= D -> oracle_contract D A B V lam -> select_cols D d V = Ok P ->
    gen_eig_solution D d A B P lam.
  Proof.
    intros Hd [H1 H2] Hsel.
    destruct (select_cols_ok D d V Hd) as [P' [E HP']]. rewrite E in Hsel.
    injection Hsel as <-.
    assert (HBP : forall i j, mmul D B P' i j = mmul D B V i j).
    { intros i j. unfold mmul. apply sumn_ext. intros t _. rewrite HP'. reflexivity. }
    split.
    - intros i j Hi Hj.
      rewrite mmul_diag_r by assumption. rewrite HBP.
      rewrite <- (mmul_diag_r D (mmul D B V) lam i j) by lia.
      rewrite <- (H1 i j) by lia.
      unfold mmul. apply sumn_ext. intros t _. rewrite HP'. reflexivity.
    - intros i j Hi Hj. rewrite <- (H2 i j) by lia.
      unfold mmul at 1 3. apply sumn_ext. intros t _.
      unfold mtrans. rewrite HP', HBP. reflexivity.
  Qed.

  (* end to end for the model of the three methods: whatever the solver answers (within its
     contract) on what it reads of the returned tables, the selected columns solve the
     generalised problem the property names *)
  Theorem npe_solution D d N (X : mat F) (W : sparse F) (V P : mat F) lam :
    indices_ok N W -> d <= D ->
    oracle_contract D (p_lhs (seen (npe_repaired X N W))) (p_rhs (seen (npe_repaired X N W))) V lam ->
    select_cols D d V = Ok P ->
    gen_eig_solution D d (npe_lhs N X W) (npe_rhs N X) P lam.
  Proof.
    intros Hok Hd Hc Hsel. destruct (npe_seen_gen D N X W Hok) as [HA HB].
    apply (gen_eig_solution_meq D d _ _ _ _ P P lam HA HB (meq_refl _ _ _)).
    apply (selected_solves D d _ _ V); assumption.
  Qed.

  Theorem lltsa_solution D d N (X : mat F) (W : sparse F) (V P : mat F) lam :
    of_nat N <> 0 -> indices_ok N W -> d <= D ->
    oracle_contract D (p_lhs (seen (lltsa_centred X N W))) (p_rhs (seen (lltsa_centred X N W))) V lam ->
    select_cols D d V = Ok P ->
    gen_eig_solution D d (lltsa_lhs N X W) (lltsa_rhs N X) P lam.
  Proof.
    intros HN Hok Hd Hc Hsel. destruct (lltsa_seen_gen D N X W HN Hok) as [HA HB].
    apply (gen_eig_solution_meq D d _ _ _ _ P P lam HA HB (meq_refl _ _ _)).
    apply (selected_solves D d _ _ V); assumption.
  Qed.

  Theorem lpp_solution D d N (X : mat F) (L : sparse F) dv (V P : mat F) lam :
    indices_ok N L -> d <= D ->
    oracle_contract D (p_lhs (seen (lpp_repaired X N L dv))) (p_rhs (seen (lpp_repaired X N L dv))) V lam ->
    select_cols D d V = Ok P ->
    gen_eig_solution D d (lpp_lhs N X L) (lpp_rhs N X dv) P lam.
  Proof.
    intros Hok Hd Hc Hsel. destruct (lpp_seen_gen D N X L dv Hok) as [HA HB].
    apply (gen_eig_solution_meq D d _ _ _ _ P P lam HA HB (meq_refl _ _ _)).
    apply (selected_solves D d _ _ V); assumption.
  Qed.

  (* per-column sign is free: flipping the sign of columns keeps a solution a solution *)
  Theorem gen_eig_solution_sign D d (A B P : mat F) lam (sg : vec F) :
    (forall j, j < d -> sg j * sg j = 1) ->
    gen_eig_solution D d A B P lam ->
    gen_eig_solution D d A B (fun i j => sg j * P i j) lam.
  Proof.
    intros Hs [H1 H2].
    assert (HM : forall M i j, mmul D M (fun a b => sg b * P a b) i j = sg j * mmul D M P i j).
    { intros M i j. unfold mmul. rewrite <- sumn_mul_l. apply sumn_ext. intros; ring. }
    split.
    - intros i j Hi Hj. rewrite HM, (H1 i j Hi Hj).
      rewrite !mmul_diag_r by assumption. rewrite HM. ring.
    - intros i j Hi Hj.
      assert (E : mmul D (mtrans (fun a b => sg b * P a b)) (mmul D B (fun a b => sg b * P a b)) i j
                  = sg i * sg j * mmul D (mtrans P) (mmul D B P) i j).
      { transitivity (sumn D (fun t => sg i * sg j * (mtrans P i t * mmul D B P t j))).
        - unfold mmul at 1. apply sumn_ext. intros t _. rewrite HM. unfold mtrans. ring.
        - rewrite sumn_mul_l. reflexivity. }
      rewrite E, (H2 i j Hi Hj). unfold mI, delta.
      destruct (Nat.eqb i j) eqn:Eij.
      + apply Nat.eqb_eq in Eij. subst j. rewrite (Hs i Hi). ring.
      + ring.
  Qed.

  (* a B-normalised multiple of a B-normalised vector is the vector or its negative *)
  Theorem normalised_multiple_is_sign D (B : mat F) (p q : vec F) c :
    (forall i, i < D -> q i = c * p i) ->
    dot D p (mv D B p) = 1 -> dot D q (mv D B q) = 1 ->
    c * c = 1 /\ (c <> 1 -> c = - (1)).
  Proof.
    intros Hq Hp Hqq.
    assert (E : dot D q (mv D B q) = c * c * dot D p (mv D B p)).
    { unfold dot. rewrite <- sumn_mul_l. apply sumn_ext. intros i Hi.
      rewrite (Hq i Hi).
      assert (E2 : mv D B q i = c * mv D B p i).
      { unfold mv. rewrite <- sumn_mul_l. apply sumn_ext. intros t Ht. rewrite (Hq t Ht). ring. }
      rewrite E2. ring. }
    rewrite Hp, Hqq in E.
    assert (Hcc : c * c = 1) by (rewrite E; ring).
    split; [assumption|]. intros Hne.
    assert (Hne' : c - 1 <> 0).
    { intros H0. apply Hne. transitivity (c - 1 + 1); [ring|]. rewrite H0. ring. }
    transitivity (/ (c - 1) * (c * c - 1) - 1).
    - field. assumption.
    - rewrite Hcc. field. assumption.
  Qed.

  (* ====================== the embedding is the centred samples projected ====================== *)
  Theorem project_is_centred_projection D (P : mat F) (m : vec F) (X : mat F) s j :
    project D P m X s j = dot D (mcol P j) (vsub (fvec X s) m).
  Proof. reflexivity. Qed.

  Theorem compute_mean_is_mean N (X : mat F) f :
    compute_mean X N f = sumn N (fun s => X f s) / of_nat N.
  Proof. unfold compute_mean. apply compute_mean0_eq. Qed.

  Theorem embedding_columns_sum_to_zero D N (P X : mat F) j :
    of_nat N <> 0 ->
    sumn N (fun s => project D P (compute_mean X N) X s j) = 0.
  Proof.
    intros HN. unfold project. rewrite sumn_swap.
    apply sumn_zero'. intros f _.
    rewrite sumn_mul_l, sumn_sub, sumn_const, compute_mean_is_mean.
    change (fun s : nat => X f s) with (X f). field. assumption.
  Qed.

End PencilProof.
