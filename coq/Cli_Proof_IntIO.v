(* ====================================================================== *)
(*  Cli_Proof_IntIO.v — the oracle hypotheses of cli_roundtrip discharged  *)
(*  for integer-valued matrices: print = decimal numeral (stdlib           *)
(*  DecimalString), parse = its inverse.  For every delimiter that is not  *)
(*  a digit, '-' or the newline, what write_matrix writes read_data reads  *)
(*  back — a closed theorem without hypotheses on the number format.       *)
(* ====================================================================== *)
From Coq Require Import String Ascii List ZArith Bool Arith Lia Decimal DecimalString DecimalZ DecimalPos.
From TK Require Import Cli_Model Cli_Spec Cli_Proof_Files.
Import ListNotations.
Local Open Scope string_scope.

Definition printZ (z : Z) : string := NilZero.string_of_int (Z.to_int z).
Definition parseZ (s : string) : option Z := option_map Z.of_int (NilZero.int_of_string s).

Lemma to_int_not_nil : forall z, Z.to_int z <> Decimal.Pos Nil /\ Z.to_int z <> Decimal.Neg Nil.
Proof.
  intros [|p|p]; cbn; split; intro H; inversion H as [H1]; exact (Unsigned.to_uint_nonnil p H1).
Qed.

Lemma parse_printZ : forall z, parseZ (printZ z) = Some z.
Proof.
  intro z. unfold parseZ, printZ.
  destruct (to_int_not_nil z) as [H1 H2].
  rewrite (NilZero.isi (Z.to_int z) H1 H2).
  cbn [option_map]. rewrite DecimalZ.of_to. reflexivity.
Qed.

Lemma uint_chars_digits : forall u c, has_char c (NilEmpty.string_of_uint u) = true -> is_digit c = true.
Proof.
  induction u; cbn [NilEmpty.string_of_uint has_char]; intros c H; try discriminate H;
    (apply orb_true_iff in H; destruct H as [H|H]; [apply Ascii.eqb_eq in H; subst c; reflexivity|apply IHu; exact H]).
Qed.

Lemma uint_chars_digits0 : forall u c, has_char c (NilZero.string_of_uint u) = true -> is_digit c = true.
Proof.
  intros u c H. destruct u; try exact (uint_chars_digits _ c H).
  cbn [NilZero.string_of_uint has_char] in H. apply orb_true_iff in H. destruct H as [H|H]; [|discriminate H].
  apply Ascii.eqb_eq in H. subst c. reflexivity.
Qed.

Lemma uint_nonempty : forall u, is_empty (NilZero.string_of_uint u) = false.
Proof. destruct u; reflexivity. Qed.

Definition delim_ok (d : ascii) : bool :=
  negb (is_digit d) && negb (Ascii.eqb d "-") && negb (Ascii.eqb d nl).

Lemma printZ_clean : forall d z, delim_ok d = true -> clean d (printZ z) = true.
Proof.
  intros d z Hd. unfold delim_ok in Hd.
  apply andb_true_iff in Hd. destruct Hd as [Hd Hnl]. apply andb_true_iff in Hd. destruct Hd as [Hdig Hdash].
  apply negb_true_iff in Hdig. apply negb_true_iff in Hdash. apply negb_true_iff in Hnl.
  assert (Hc : forall c u, is_digit c = false -> has_char c (NilZero.string_of_uint u) = false).
  { intros c u Hcd. destruct (has_char c (NilZero.string_of_uint u)) eqn:E; [|reflexivity].
    apply uint_chars_digits0 in E. congruence. }
  assert (Hnld : is_digit nl = false) by reflexivity.
  assert (Hnd : Ascii.eqb "-"%char nl = false) by reflexivity.
  unfold clean, printZ.
  destruct (Z.to_int z) as [u|u]; cbn [NilZero.string_of_int].
  - rewrite uint_nonempty, (Hc d u Hdig), (Hc nl u Hnld). reflexivity.
  - cbn [is_empty has_char]. rewrite (Hc d u Hdig), (Hc nl u Hnld).
    rewrite Ascii.eqb_sym in Hdash. rewrite Hdash. rewrite Hnd. reflexivity.
Qed.

Theorem write_read_integers : forall d c (m : list (list Z)),
  delim_ok d = true -> 0 < c -> rect Z c m ->
  read_data_fixed Z parseZ d (write_matrix Z printZ d m) = RMat m /\
  read_data_shipped Z parseZ d (write_matrix Z printZ d m) = RMat m.
Proof.
  intros d c m Hd Hc Hrect.
  apply (write_read Z parseZ printZ parse_printZ d c m); try assumption.
  - unfold delim_ok in Hd. apply andb_true_iff in Hd. destruct Hd as [_ Hnl].
    apply negb_true_iff in Hnl. exact Hnl.
  - intro v. apply printZ_clean. exact Hd.
Qed.

(* a delimiter that can occur inside a printed number breaks the round trip *)
Example dash_delimiter_refuted :
  read_data_fixed Z parseZ "-" (write_matrix Z printZ "-" [[1%Z; (-2)%Z]]) <> RMat [[1%Z; (-2)%Z]].
Proof. vm_compute. discriminate. Qed.
