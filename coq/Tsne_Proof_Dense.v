(* Tsne_Proof_Dense.v — proofs about the dense algebra of Tsne_Model.v:
   zeroMean centres, the shipped squared-distance routine returns -2<x,y> (refuted) and
   the repaired one |x-y|^2, the dense symmetrisation yields a joint distribution, the
   exact gradient loop is the published closed form (with the repaired distance) and is
   not (with the shipped one), max-normalisation facts. *)
From Coq Require Import List Arith Bool ZArith QArith Qcanon Lia Field Ring Lqa.
From TK Require Import Mat_Sums Mat_Qc Tsne_Model Tsne_Spec.
Import ListNotations.

Section Dense.
  Context {F : Type} {Fo : FieldOps F} {Ff : IsField F}.
  Add Field TsneDenseField : (@Fth F Fo Ff).
  Local Open Scope F_scope.

  Lemma div_def (a b : F) : a / b = a * / b.
  Proof. apply (Fdiv_def (@Fth F Fo Ff)). Qed.

  (* ---------- zeroMean ---------- *)
  Theorem zero_mean_centres_thm : forall N D (X : buf),
    of_nat N <> 0 -> centred N D (zero_mean N X).
  Proof.
    intros N D X HN d _. unfold zero_mean, col_mean.
    rewrite sumn_sub, sumn_const. field. exact HN.
  Qed.

  (* zeroMean does not change differences between samples *)
  Lemma zero_mean_diff : forall N (X : buf) n m d,
    zero_mean N X n d - zero_mean N X m d = X n d - X m d.
  Proof. intros. unfold zero_mean. ring. Qed.

  (* ---------- squared distances ---------- *)
  Theorem sqdist_shipped_value_thm : forall D (X : buf) n m,
    sqdist_shipped D X n m = - (two * sumn D (fun d => X n d * X m d)).
  Proof.
    intros D X n m. unfold sqdist_shipped, m2gram.
    rewrite <- sumn_mul_l, <- sumn_opp. apply sumn_ext. intros i _. ring.
  Qed.

  Theorem sqdist_correct_thm : forall D (X : buf) n m,
    sqdist_fixed D X n m = true_sqdist D X n m.
  Proof.
    intros D X n m. unfold sqdist_fixed, true_sqdist, data_sum, m2gram.
    rewrite <- !sumn_add. apply sumn_ext. intros i _. unfold two. ring.
  Qed.

  (* ---------- dense symmetrisation ---------- *)
  Lemma dsym_sym : forall (P : buf) n m, dsym P n m = dsym P m n.
  Proof.
    intros P n m. unfold dsym.
    destruct (Nat.eqb_spec n m) as [->|Hne].
    - rewrite Nat.eqb_refl. reflexivity.
    - destruct (Nat.eqb_spec m n) as [E|_]; [congruence|].
      destruct (Nat.ltb_spec n m) as [Hlt|Hge]; destruct (Nat.ltb_spec m n) as [Hlt'|Hge'];
        try lia; reflexivity.
  Qed.

  Lemma dsym_value : forall (P : buf) n m, n <> m -> dsym P n m = P n m + P m n.
  Proof.
    intros P n m Hne. unfold dsym. destruct (Nat.eqb_spec n m) as [E|_]; [congruence|].
    destruct (n <? m)%nat; ring.
  Qed.

  Lemma total_dnorm : forall N (P : buf), total N P <> 0 -> total N (dnorm N P) = 1.
  Proof.
    intros N P H. unfold total at 1. unfold dnorm.
    transitivity (sumn N (fun n => sumn N (fun m => P n m) * / total N P)).
    - apply sumn_ext. intros n _. rewrite <- sumn_mul_r. apply sumn_ext. intros m _. apply div_def.
    - rewrite sumn_mul_r. fold (total N P). field. exact H.
  Qed.

  Theorem dense_symmetrise_thm : forall N (P : buf),
    total N (dsym P) <> 0 -> is_joint N (dense_joint N P).
  Proof.
    intros N P H. split.
    - intros n m _ _. unfold dense_joint, dnorm. now rewrite dsym_sym.
    - apply total_dnorm. exact H.
  Qed.

  (* the normaliser the code divides by: twice the sum of P minus its trace *)
  Lemma total_dsym : forall N (P : buf),
    total N (dsym P) = two * total N P - sumn N (fun n => P n n).
  Proof.
    intros N P. unfold total.
    transitivity (sumn N (fun n => sumn N (fun m => P n m + P m n - delta n m * P n n))).
    - apply sumn_ext. intros n _. apply sumn_ext. intros m _. unfold dsym, delta.
      destruct (Nat.eqb_spec n m) as [->|Hne]; [ring|]. destruct (n <? m)%nat; ring.
    - transitivity (sumn N (fun n => sumn N (fun m => P n m) + sumn N (fun m => P m n) - P n n)).
      + apply sumn_ext. intros n Hn. rewrite sumn_sub, sumn_add.
        rewrite (sumn_delta_l N n (fun m => P n n)) by exact Hn. reflexivity.
      + rewrite sumn_sub, sumn_add. rewrite (sumn_swap N N (fun n m => P m n)). unfold two. ring.
  Qed.

  (* ---------- exact gradient ---------- *)
  Lemma qnum_fixed : forall D (Y : buf) n m, qnum (sqdist_fixed D Y) n m = w_t D Y n m.
  Proof. intros. unfold qnum, w_t. now rewrite sqdist_correct_thm. Qed.

  Lemma sum_Q_fixed : forall N D (Y : buf), sum_Q N (sqdist_fixed D Y) = Z_t N D Y.
  Proof.
    intros N D Y. unfold sum_Q, Z_t. apply sumn_ext. intros n _. apply sumn_ext. intros m _.
    destruct (Nat.eqb n m); [reflexivity | apply qnum_fixed].
  Qed.

  Theorem exact_gradient_closed_form_thm : forall N D (P Y : buf) n d,
    exact_grad_fixed N D P Y n d = grad_spec N D P Y n d.
  Proof.
    intros N D P Y n d. unfold exact_grad_fixed, grad_with, grad_spec. cbv zeta.
    apply sumn_ext. intros m _. destruct (Nat.eqb n m); [reflexivity|].
    rewrite sum_Q_fixed, qnum_fixed. unfold q_t. ring.
  Qed.
End Dense.

(* ====================================================================== *)
(* closed witnesses over Qc *)

Definition ones : @buf Qc := fun _ _ => 1%Qc.

Theorem sqdist_refuted_thm :
  exists (D : nat) (X : @buf Qc) (n m : nat),
    sqdist_shipped D X n m <> true_sqdist D X n m.
Proof.
  exists 1%nat, ones, 0%nat, 0%nat. intros H.
  assert (E : qeqb (sqdist_shipped 1%nat ones 0%nat 0%nat) (true_sqdist 1%nat ones 0%nat 0%nat) = true)
    by (apply qeqb_ok; exact H).
  vm_compute in E. discriminate.
Qed.

(* three map points on a line at 1, 2, 3; P uniform off the diagonal (1/6 each) *)
Definition wY : @buf Qc := fun n _ => qz (Z.of_nat (S n)).
Definition wP : @buf Qc := fun n m => if Nat.eqb n m then 0%Qc else qfrac 1 6.

Theorem exact_gradient_refuted_thm :
  exists (N D : nat) (P Y : @buf Qc) (n d : nat),
    exact_grad_shipped N D P Y n d <> grad_spec N D P Y n d.
Proof.
  exists 3%nat, 1%nat, wP, wY, 0%nat, 0%nat. intros H.
  assert (E : qeqb (exact_grad_shipped 3%nat 1%nat wP wY 0%nat 0%nat) (grad_spec 3%nat 1%nat wP wY 0%nat 0%nat) = true)
    by (apply qeqb_ok; exact H).
  vm_compute in E. discriminate.
Qed.

Theorem zero_mean_centres_Qc : forall N D (X : @buf Qc),
  N <> 0%nat -> centred N D (zero_mean N X).
Proof. intros N D X HN. apply zero_mean_centres_thm. now apply Qc_of_nat_neq0. Qed.

(* non-vacuity of the hypotheses used above, over Qc *)
Example zero_mean_centres_nonvacuous : (@of_nat Qc _ 3%nat) <> 0%Qc.
Proof. apply Qc_of_nat_neq0. discriminate. Qed.

Example dense_symmetrise_nonvacuous : total 3%nat (dsym wP) <> 0%Qc.
Proof.
  intros H. assert (E : qeqb (total 3%nat (dsym wP)) 0%Qc = true) by (apply qeqb_ok; exact H).
  vm_compute in E. discriminate.
Qed.

(* ====================================================================== *)
(* max-normalisation (Q) *)
Local Open Scope Q_scope.

Lemma Qltb_true : forall a b, Qltb a b = true <-> a < b.
Proof.
  intros a b. unfold Qltb. rewrite negb_true_iff. split.
  - intros H. apply Qnot_le_lt. intros Hle. apply Qle_bool_iff in Hle. congruence.
  - intros H. destruct (Qle_bool b a) eqn:E; [|reflexivity].
    apply Qle_bool_iff in E. exfalso. apply (Qlt_not_le _ _ H E).
Qed.

Lemma Qltb_false : forall a b, Qltb a b = false <-> b <= a.
Proof.
  intros a b. unfold Qltb. rewrite negb_false_iff. apply Qle_bool_iff.
Qed.

Lemma fold_max_spec : forall r x,
  let mx := fold_left (fun m y => if Qltb m y then y else m) r x in
  In mx (x :: r) /\ forall y, In y (x :: r) -> y <= mx.
Proof.
  induction r as [|a r IH]; intros x; cbn [fold_left].
  - split; [now left|]. intros y [<-|[]]. apply Qle_refl.
  - destruct (Qltb x a) eqn:E.
    + destruct (IH a) as [Hin Hle]. split.
      * destruct Hin as [<-|Hin]; [right; now left | right; now right].
      * intros y [<-|[<-|Hy]].
        -- apply Qltb_true in E. apply Qle_trans with a; [now apply Qlt_le_weak|]. apply Hle. now left.
        -- apply Hle. now left.
        -- apply Hle. now right.
    + destruct (IH x) as [Hin Hle]. split.
      * destruct Hin as [<-|Hin]; [now left | right; now right].
      * intros y [<-|[<-|Hy]].
        -- apply Hle. now left.
        -- apply Qltb_false in E. apply Qle_trans with x; [exact E|]. apply Hle. now left.
        -- apply Hle. now right.
Qed.

Theorem max_coeff_spec : forall l mx,
  max_coeff l = Some mx -> In mx l /\ forall x, In x l -> x <= mx.
Proof.
  intros [|x r] mx H; [discriminate|]. cbn [max_coeff] in H. inversion H; subst.
  apply fold_max_spec.
Qed.

Theorem max_normalise_spec : forall l mx l',
  max_coeff l = Some mx -> 0 < mx -> max_normalise l = Some l' -> max_normalised l'.
Proof.
  intros l mx l' Hm Hpos Hn. unfold max_normalise in Hn. rewrite Hm in Hn.
  rewrite (proj2 (Qltb_true 0 mx) Hpos) in Hn. inversion Hn; subst l'.
  destruct (max_coeff_spec l mx Hm) as [Hin Hle]. split.
  - intros y Hy. apply in_map_iff in Hy. destruct Hy as [x [<- Hx]].
    apply Qle_shift_div_r; [exact Hpos|]. rewrite Qmult_1_l. now apply Hle.
  - exists (mx / mx). split.
    + apply in_map_iff. now exists mx.
    + field. intros E. rewrite E in Hpos. now apply Qlt_irrefl in Hpos.
Qed.

(* a non-positive maximum (constant data: all zero after centring) leaves the data alone *)
Theorem max_normalise_nonpositive : forall l mx,
  max_coeff l = Some mx -> mx <= 0 -> max_normalise l = Some l.
Proof.
  intros l mx Hm Hle. unfold max_normalise. rewrite Hm.
  now rewrite (proj2 (Qltb_false 0 mx) Hle).
Qed.

(* before F43 the same data was divided by its zero maximum *)
Theorem max_normalise_shipped_div0 :
  max_normalise_shipped [0; 0; 0] = Some (map (fun x => x / 0) [0; 0; 0]).
Proof. reflexivity. Qed.

(* the normalisation is by the largest SIGNED entry, not by the largest magnitude *)
Theorem max_normalise_signed :
  exists l l', max_normalise l = Some l' /\ exists x, In x l' /\ x < -1.
Proof.
  exists [-3; 1; 2], (map (fun x => x / 2) [-3; 1; 2]). split; [reflexivity|].
  exists (-3 / 2). split; [now left|]. reflexivity.
Qed.

Example max_normalise_nonvacuous : max_coeff [-3; 1; 2] = Some 2 /\ 0 < 2.
Proof. split; reflexivity. Qed.

Example max_normalise_constant_nonvacuous : max_coeff [0; 0; 0] = Some 0 /\ 0 <= 0.
Proof. split; [reflexivity | discriminate]. Qed.
