(* Shapes_Spec.v — C01: what "every embed call returns N x d rows or a documented error, never reads
   or writes outside its buffers, never hangs" means for the model of Shapes_Model.v. *)
From Coq Require Import ZArith List Bool.
From TK Require Import Shapes_Model.
Import ListNotations.
Open Scope Z_scope.

(* what C02 gives: N lists, all of the same length k, every entry a sample index *)
Definition nb_wf (N k : Z) (nb : neighbors) : Prop :=
  Z.of_nat (length nb) = N /\
  Forall (fun l => Z.of_nat (length l) = k /\ Forall (fun w => 0 <= w < N) l) nb.

(* a list of sample indices (landmarks, a shuffled permutation, SPE draws) *)
Definition idx_wf (N : Z) (l : list Z) : Prop := Forall (fun w => 0 <= w < N) l.

(* the exception types tapkee::embed documents (embed.hpp @throw list + no_data_error of base.hpp) *)
Definition documented (e : exc) : Prop :=
  match e with
  | WrongParameter | WrongParameterType | MissedParameter | MultipleParameter | UnsupportedMethod
  | NotEnoughMemory | Cancelled | EigendecompositionFailed | NoData => True
  end.

(* the C01 contract on a model run: it ends, and ends in Ok or in a documented exception *)
Definition safe (r : res) : Prop :=
  match r with
  | Ok => True
  | Throw e => documented e
  | OOB _ _ _ => False
  | OutOfFuel _ => False
  end.

Definition safe_b (r : res) : bool :=
  match r with Ok | Throw _ => true | _ => false end.

(* the C01 contract on an outcome *)
Definition outcome_ok (c : cfg) (o : outcome) : Prop :=
  match o with
  | OShape r k => r = c_N c /\ k = out_cols c
  | OExc e => documented e
  | OCrash _ _ _ => False
  | OHang _ => False
  end.

(* Inputs of the model that are not decided by the model itself: the neighbour lists returned by
   find_neighbors (C02/C03: all of one length keff with num_neighbors <= keff <= N-1, entries are
   sample indices), the permutation produced by random_shuffle, the SPE draws floor(u*k) with
   u in [0,1), and the integers the C++ derives from doubles (landmark count, t-SNE K). *)
Definition inputs_wf (c : cfg) (nb : neighbors) (perm rs : list Z) : Prop :=
  0 <= c_D c /\
  (uses_neighbors c = true -> 3 <= c_k c < c_N c ->
     exists keff, c_k c <= keff /\ keff < c_N c /\ nb_wf (c_N c) keff nb /\
                  idx_wf keff rs) /\
  Z.of_nat (length perm) = c_N c /\ idx_wf (c_N c) perm /\
  0 <= c_L c <= c_N c /\
  (c_m c = TSNE -> c_scalars_ok c = true -> 0 <= c_K c < c_N c) /\
  (c_m c = SPE -> c_scalars_ok c = true -> 1 <= c_nupd c <= Z.of_nat (length rs)).

(* the one place where /repo HEAD still reads out of range (known finding F7):
   dense solver, smallest eigenvalues with skip = 1, N = d + 1 *)
Definition smallest_skip1 (m : meth) : bool :=
  match m with KLLE | KLTSA | HLLE | LA => true | _ => false end.

Definition f7_zone (c : cfg) : bool :=
  smallest_skip1 (c_m c) && c_dense c && (c_N c <? c_d c + 2).
