(* ====================================================================== *)
(*  Mds_Proof_Rank.v — C05: the rank argument.                             *)
(*  Points spanning at most r dimensions => all but r eigenvalues of       *)
(*  -1/2 J D2 J vanish -- without any rank theory in the library:          *)
(*   (1) a homogeneous linear system with more unknowns than equations     *)
(*       has a non-trivial solution (any field with decidable equality,    *)
(*       Gaussian elimination by induction on the number of equations);    *)
(*   (2) hence among r+1 mutually orthogonal vectors of F^r one has        *)
(*       squared norm 0;                                                   *)
(*   (3) the vectors u_t = Z^T v_t (Z the centred configuration, v_t the   *)
(*       eigenvectors) are mutually orthogonal with |u_t|^2 = lambda_t.    *)
(*  At Qc (ordered): lambda_t >= 0, ascending => the N-r smallest are 0.   *)
(* ====================================================================== *)
Require Import Field Ring Arith Lia List Bool ZArith QArith Qcanon.
From TK Require Import Mat_Sums Mat_Core Mat_Qc Mat_EigSelect Mds_Model Mds_Spec Mds_Proof
                       Mds_Proof_Qc Spectral_KyFan.
Import ListNotations.

Section Underdetermined.
  Context {F : Type} {Fo : FieldOps F} {Ff : IsField F}.
  Add Field MdsRankField : (@Fth F Fo Ff).
  Variable eq_dec : forall x y : F, {x = y} + {x <> y}.
  Local Open Scope nat_scope.
  Local Open Scope F_scope.

  Lemma one_neq_zero : (1 : F) <> 0.
  Proof. exact (F_1_neq_0 (@Fth F Fo Ff)). Qed.

  Lemma find_nonzero m (f : nat -> F) :
    (forall i, i < m -> f i = 0) \/ (exists p, p < m /\ f p <> 0).
  Proof.
    induction m as [|m IH].
    - left. intros i Hi. lia.
    - destruct IH as [Hall|[p [Hp Hnz]]].
      + destruct (eq_dec (f m) 0) as [E|E].
        * left. intros i Hi. destruct (Nat.eq_dec i m) as [->|Hne]; [exact E|apply Hall; lia].
        * right. exists m. split; [lia|exact E].
      + right. exists p. split; [lia|exact Hnz].
  Qed.

  (* m equations, m+1 unknowns *)
  Theorem underdetermined m (A : nat -> nat -> F) :
    exists c : nat -> F,
      (exists k, k < S m /\ c k <> 0) /\
      (forall i, i < m -> sumn (S m) (fun k => A i k * c k) = 0).
  Proof.
    revert A. induction m as [|m IH]; intros A.
    - exists (fun _ => 1). split.
      + exists 0%nat. split; [lia|exact one_neq_zero].
      + intros i Hi. lia.
    - destruct (find_nonzero (S m) (fun i => A i (S m))) as [Hall|[p [Hp Hnz]]].
      + (* the last unknown does not occur: take the last unit vector *)
        exists (fun k => if Nat.eqb k (S m) then 1 else 0). split.
        * exists (S m). split; [lia|]. rewrite Nat.eqb_refl. exact one_neq_zero.
        * intros i Hi. rewrite sumn_S. rewrite Nat.eqb_refl.
          rewrite sumn_zero'.
          -- rewrite (Hall i Hi). ring.
          -- intros k Hk. assert (E : Nat.eqb k (S m) = false) by (apply Nat.eqb_neq; lia).
             rewrite E. ring.
      + (* pivot row p: eliminate the last unknown from the other rows *)
        set (rho := fun i => if Nat.ltb i p then i else S i).
        set (piv := A p (S m)).
        set (A' := fun i k => A (rho i) k - A (rho i) (S m) / piv * A p k).
        destruct (IH A') as [c' [[k0 [Hk0 Hc0]] Hsol]].
        set (T := sumn (S m) (fun k => A p k * c' k)).
        exists (fun k => if Nat.eqb k (S m) then - T / piv else c' k). split.
        * exists k0. split; [lia|].
          assert (E : Nat.eqb k0 (S m) = false) by (apply Nat.eqb_neq; lia). rewrite E. exact Hc0.
        * intros i Hi. rewrite sumn_S. rewrite Nat.eqb_refl.
          rewrite (sumn_ext (S m) _ (fun k => A i k * c' k)).
          2:{ intros k Hk. assert (E : Nat.eqb k (S m) = false) by (apply Nat.eqb_neq; lia).
              rewrite E. reflexivity. }
          destruct (Nat.eq_dec i p) as [->|Hne].
          -- fold T. fold piv. field. exact Hnz.
          -- (* i = rho j *)
             set (j := if Nat.ltb i p then i else Nat.pred i).
             assert (Hj : j < m).
             { unfold j. destruct (Nat.ltb i p) eqn:E.
               - apply Nat.ltb_lt in E. lia.
               - apply Nat.ltb_ge in E. lia. }
             assert (Hr : rho j = i).
             { unfold rho, j. destruct (Nat.ltb i p) eqn:E.
               - rewrite E. reflexivity.
               - apply Nat.ltb_ge in E.
                 assert (E2 : Nat.ltb (Nat.pred i) p = false) by (apply Nat.ltb_ge; lia).
                 rewrite E2. lia. }
             pose proof (Hsol j Hj) as Hs. unfold A' in Hs. rewrite Hr in Hs.
             assert (Hs' : sumn (S m) (fun k => A i k * c' k) = A i (S m) / piv * T).
             { unfold T. rewrite <- sumn_mul_l.
               assert (E : sumn (S m) (fun k => A i k * c' k)
                           - sumn (S m) (fun k => A i (S m) / piv * (A p k * c' k)) = 0).
               { rewrite <- sumn_sub. rewrite <- Hs. apply sumn_ext. intros; ring. }
               apply (f_equal (fun x => x + sumn (S m) (fun k => A i (S m) / piv * (A p k * c' k)))) in E.
               ring_simplify in E. exact E. }
             rewrite Hs'. field. exact Hnz.
  Qed.

  (* among r+1 mutually orthogonal vectors of F^r, one has squared norm 0
     (U k j = component j of vector k) *)
  Theorem orthogonal_family_degenerate r (U : nat -> nat -> F) :
    (forall k l, k < S r -> l < S r -> k <> l -> sumn r (fun j => U k j * U l j) = 0) ->
    exists l, l < S r /\ sumn r (fun j => U l j * U l j) = 0.
  Proof.
    intros Horth.
    destruct (underdetermined r (fun j k => U k j)) as [c [[l [Hl Hcl]] Hsol]].
    exists l. split; [exact Hl|].
    (* 0 = sum_j U_lj (sum_k U_kj c_k) = c_l |u_l|^2 *)
    assert (E : sumn r (fun j => U l j * sumn (S r) (fun k => U k j * c k)) =
                c l * sumn r (fun j => U l j * U l j)).
    { rewrite (sumn_ext r _ (fun j => sumn (S r) (fun k => c k * (U l j * U k j))))
        by (intros j _; rewrite <- sumn_mul_l; apply sumn_ext; intros; ring).
      rewrite sumn_swap.
      rewrite (sumn_single (S r) l).
      - rewrite sumn_mul_l. reflexivity.
      - exact Hl.
      - intros k Hk Hne. rewrite sumn_mul_l. rewrite (Horth l k Hl Hk) by congruence. ring. }
    assert (Z : sumn r (fun j => U l j * sumn (S r) (fun k => U k j * c k)) = 0).
    { apply sumn_zero'. intros j Hj. rewrite (Hsol j Hj). ring. }
    rewrite Z in E.
    destruct (eq_dec (sumn r (fun j => U l j * U l j)) 0) as [E0|E0]; [exact E0|].
    exfalso. apply Hcl.
    assert (K : c l = c l * sumn r (fun j => U l j * U l j) / sumn r (fun j => U l j * U l j))
      by (field; exact E0).
    rewrite K, <- E. field. exact E0.
  Qed.

  (* ---------------- the eigen-side: u_t = Z^T v_t ---------------- *)
  (* B = Z Z^T (n x n, Z is n x r), B V = V diag lam, V^T V = I:
     the vectors u_t (j) = sum_i Z_ij V_it are mutually orthogonal with |u_t|^2 = lam_t *)
  Lemma gram_images n r (Z V B : mat F) (lam : vec F) :
    (forall i i', i < n -> i' < n -> B i i' = sumn r (fun j => Z i j * Z i' j)) ->
    meq n n (mmul n (mtrans V) V) mI ->
    meq n n (mmul n B V) (mmul n V (mdiag lam)) ->
    forall s t, s < n -> t < n ->
      sumn r (fun j => sumn n (fun i => Z i j * V i s) * sumn n (fun i => Z i j * V i t)) =
      if Nat.eqb s t then lam t else 0.
  Proof.
    intros HB HVtV HE s t Hs Ht.
    transitivity (sumn n (fun i => V i s * mmul n B V i t)).
    { (* sum_j (sum_i Z_ij V_is)(sum_i' Z_i'j V_i't) = sum_i V_is sum_i' B_ii' V_i't *)
      rewrite (sumn_ext r _ (fun j => sumn n (fun i => sumn n (fun i' =>
                 (Z i j * V i s) * (Z i' j * V i' t)))))
        by (intros j _; apply sumn_mul_sumn).
      rewrite sumn_swap. apply sumn_ext. intros i Hi.
      rewrite sumn_swap. unfold mmul. rewrite <- sumn_mul_l. apply sumn_ext. intros i' Hi'.
      rewrite (HB i i' Hi Hi'). rewrite <- sumn_mul_r, <- sumn_mul_l.
      apply sumn_ext. intros; ring. }
    rewrite (sumn_ext n _ (fun i => (mtrans V s i * V i t) * lam t)).
    2:{ intros i Hi. rewrite (HE i t Hi Ht). rewrite mmul_diag_r by assumption.
        unfold mtrans. ring. }
    rewrite sumn_mul_r. pose proof (HVtV s t Hs Ht) as E. unfold mmul in E. rewrite E.
    unfold mI, delta. destruct (Nat.eqb s t); ring.
  Qed.
End Underdetermined.

(* ---------------- at Qc: the N - r smallest eigenvalues vanish ---------------- *)
Local Open Scope nat_scope.

Lemma Qc_sumsq_nonneg r (f : nat -> Qc) : (0 <= sumn r (fun j => (f j * f j)%Qc))%Qc.
Proof.
  induction r as [|r IH]; cbn [sumn].
  - apply Qcle_refl.
  - cbn [fadd QcOps]. replace (Q2Qc 0) with (Q2Qc 0 + Q2Qc 0)%Qc by (apply Qc_is_canon; reflexivity).
    apply Qcplus_le_compat; [exact IH|]. apply Spectral_KyFan.Qc_sq_nonneg.
Qed.

Theorem gram_small_eigenvalues_vanish n r (Z V B : mat Qc) (lam : vec Qc) :
  (forall i i', i < n -> i' < n -> B i i' = sumn r (fun j => (Z i j * Z i' j)%F)) ->
  meq n n (mmul n (mtrans V) V) mI ->
  meq n n (mmul n B V) (mmul n V (mdiag lam)) ->
  ascending n lam ->
  (forall t, t < n -> (0 <= lam t)%Qc) /\
  (forall t, t < n - r -> lam t = Q2Qc 0).
Proof.
  intros HB HVtV HE Hasc.
  pose proof (@gram_images Qc QcOps QcField n r Z V B lam HB HVtV HE) as HG.
  assert (Hpos : forall t, t < n -> (0 <= lam t)%Qc).
  { intros t Ht. pose proof (HG t t Ht Ht) as E. rewrite Nat.eqb_refl in E. rewrite <- E.
    apply (Qc_sumsq_nonneg r (fun j => sumn n (fun i => (Z i j * V i t)%F))). }
  split; [exact Hpos|].
  intros t Ht.
  (* the r+1 eigenvectors n-r-1 .. n-1 *)
  set (off := n - r - 1).
  destruct (@orthogonal_family_degenerate Qc QcOps QcField Qc_eq_dec r
              (fun k j => sumn n (fun i => (Z i j * V i (off + k)%nat)%F))) as [l [Hl Hz]].
  { intros k l Hk Hl Hne. cbv beta.
    rewrite (HG (off + k) (off + l)) by (unfold off; lia).
    assert (E : Nat.eqb (off + k) (off + l) = false) by (apply Nat.eqb_neq; lia).
    rewrite E. reflexivity. }
  cbv beta in Hz. rewrite (HG (off + l) (off + l)) in Hz by (unfold off; lia).
  rewrite Nat.eqb_refl in Hz.
  (* lam t <= lam (off + l) = 0 and 0 <= lam t *)
  apply Qcle_antisym.
  - change (Q2Qc 0) with (0%F : Qc). rewrite <- Hz. apply Hasc; unfold off; lia.
  - apply Hpos. lia.
Qed.

(* ---------------- the C05 consequence, with no rank hypothesis ---------------- *)
(* X: N points with r coordinates (they span at most r dimensions), r <= d <= N;
   dist = their Euclidean distances; (V, Lam) ANY full ascending orthonormal answer for the
   matrix MDS hands to the solver; s the sqrt answers for max(lambda,0).  Then the embedding
   reproduces every pairwise distance. *)
Theorem mds_recovers_euclidean_Qc N r d (X : mat Qc) (V : mat Qc) (Lam s : vec Qc) (dist : mat Qc) :
  N <> 0 -> r <= d -> d <= N ->
  (forall i j, i < N -> j < N -> i <= j -> (dist i j * dist i j)%Qc = sqdist r X i j) ->
  (forall i, i < N -> dist i i = Q2Qc 0) ->
  full_contract N (mds_matrix N dist) V Lam ->
  meq N N (mmul N V (mtrans V)) mI ->
  ascending N Lam ->
  (forall c, c < d -> (s c * s c)%Qc = qmax0 (Lam (N - d + c)%nat)) ->
  let Y := scale_cols (select_cols N V (N - d, d)) s in
  forall i j, i < N -> j < N -> i <= j -> sqdist d Y i j = (dist i j * dist i j)%Qc.
Proof.
  intros HN Hrd HdN Hdist Hdiag HC HVVt Hasc Hs Y i j Hi Hj Hij.
  destruct HC as [HVtV HE].
  assert (HB : forall a b, a < N -> b < N ->
             mds_matrix N dist a b = sumn r (fun t => (centered N X a t * centered N X b t)%F)).
  { intros a b Ha Hb.
    exact (@mds_identity Qc QcOps QcField N r X dist (Qc_of_nat_neq0 N HN) Qc_two_neq0 Hdist a b Ha Hb). }
  destruct (gram_small_eigenvalues_vanish N r (centered N X) V (mds_matrix N dist) Lam HB HVtV HE Hasc)
    as [Hpos Hzero].
  apply (mds_recovers_euclidean_clamped_partial_Qc N d V Lam s dist HdN (conj HVtV HE) HVVt); try assumption.
  - intros t Ht. apply Hzero. lia.
  - intros c Hc. apply Hpos. lia.
Qed.

(* non-vacuity witness: the four points +1,-1,+1,-1 on a line (r = d = 1, N = 4) *)
Definition exr_X : mat Qc := mof [[qz 1]; [qz (-1)]; [qz 1]; [qz (-1)]].
Definition exr_dist : mat Qc :=
  mof [[qz 0; qz 2; qz 0; qz 2]; [qz 2; qz 0; qz 2; qz 0];
       [qz 0; qz 2; qz 0; qz 2]; [qz 2; qz 0; qz 2; qz 0]].
Definition exr_h : Qc := qfrac 1 2.
Definition exr_V : mat Qc :=
  mtrans (mof [[exr_h; exr_h; exr_h; exr_h]; [exr_h; exr_h; (-exr_h)%Qc; (-exr_h)%Qc];
               [exr_h; (-exr_h)%Qc; (-exr_h)%Qc; exr_h]; [exr_h; (-exr_h)%Qc; exr_h; (-exr_h)%Qc]]).
Definition exr_Lam : vec Qc := vof [qz 0; qz 0; qz 0; qz 4].
Definition exr_s : vec Qc := vof [qz 2].

Lemma exr_ok :
  4 <> 0 /\ 1 <= 1 /\ 1 <= 4 /\
  (forall i j, i < 4 -> j < 4 -> i <= j -> (exr_dist i j * exr_dist i j)%Qc = sqdist 1 exr_X i j) /\
  (forall i, i < 4 -> exr_dist i i = Q2Qc 0) /\
  full_contract 4 (mds_matrix 4 exr_dist) exr_V exr_Lam /\
  meq 4 4 (mmul 4 exr_V (mtrans exr_V)) mI /\
  ascending 4 exr_Lam /\
  (forall c, c < 1 -> (exr_s c * exr_s c)%Qc = qmax0 (exr_Lam (4 - 1 + c)%nat)).
Proof.
  split; [lia|]. split; [lia|]. split; [lia|].
  split.
  { intros i j Hi Hj _.
    destruct i as [|[|[|[|i]]]]; try lia; destruct j as [|[|[|[|j]]]]; try lia;
      apply Qc_is_canon; vm_compute; reflexivity. }
  split.
  { intros i Hi. destruct i as [|[|[|[|i]]]]; try lia; apply Qc_is_canon; vm_compute; reflexivity. }
  split; [split; apply meq_by_compute; vm_compute; reflexivity|].
  split; [apply meq_by_compute; vm_compute; reflexivity|].
  split.
  { intros a b Hab Hb.
    destruct a as [|[|[|[|a]]]]; try lia; destruct b as [|[|[|[|b]]]]; try lia;
      unfold Qcle; vm_compute; discriminate. }
  intros c Hc. assert (c = 0) by lia. subst. apply Qc_is_canon. vm_compute. reflexivity.
Qed.

(* ---------------- Y Y^T = B exactly when B = Z Z^T has rank <= d ---------------- *)
Theorem gram_recovered_Qc n r d (Z V B : mat Qc) (lam s : vec Qc) :
  r <= d -> d <= n ->
  (forall i i', i < n -> i' < n -> B i i' = sumn r (fun j => (Z i j * Z i' j)%F)) ->
  full_contract n B V lam ->
  meq n n (mmul n V (mtrans V)) mI ->
  ascending n lam ->
  (forall c, c < d -> (s c * s c)%Qc = qmax0 (lam (n - d + c)%nat)) ->
  let Y := scale_cols (select_cols n V (n - d, d)) s in
  forall a b, a < n -> b < n -> mmul d Y (mtrans Y) a b = B a b.
Proof.
  intros Hrd Hdn HB HC HVVt Hasc Hs Y a b Ha Hb.
  destruct HC as [HVtV HE].
  destruct (gram_small_eigenvalues_vanish n r Z V B lam HB HVtV HE Hasc) as [Hpos Hzero].
  assert (Hs' : forall c, c < d -> (s c * s c)%F = lam (n - d + c)%nat).
  { intros c Hc. cbn [fmul QcOps]. rewrite (Hs c Hc). apply qmax0_nonneg. apply Hpos. lia. }
  destruct (@mds_factor_partial Qc QcOps QcField n d B V lam s Hdn (conj HVtV HE) Hs') as [_ Hg].
  fold Y in Hg. rewrite Hg.
  rewrite (@Mds_Proof.spectral_form Qc QcOps QcField n B V lam (conj HVtV HE) HVVt a b Ha Hb).
  set (f := fun t => (V a t * lam t * V b t)%F).
  replace (sumn n f) with (sumn ((n - d) + d) f) by (f_equal; lia).
  rewrite (@sumn_split Qc QcOps QcField).
  rewrite (@sumn_zero' Qc QcOps QcField (n - d)).
  2:{ intros t Ht. unfold f. rewrite (Hzero t) by lia. cbn [fmul fzero QcOps]. ring. }
  unfold f. cbn [fadd fzero QcOps]. ring.
Qed.

(* Kernel PCA with the linear kernel k(x,y) = <x,y> on points with r <= d coordinates:
   the embedding reproduces every pairwise Euclidean distance *)
Theorem kpca_linear_recovers_euclidean_Qc N r d (X V : mat Qc) (Lam s : vec Qc) (kern : mat Qc) :
  N <> 0 -> r <= d -> d <= N ->
  (forall i j, i < N -> j < N -> i <= j -> kern i j = dot r (mrow X i) (mrow X j)) ->
  full_contract N (kpca_matrix N kern) V Lam ->
  meq N N (mmul N V (mtrans V)) mI ->
  ascending N Lam ->
  (forall c, c < d -> (s c * s c)%Qc = qmax0 (Lam (N - d + c)%nat)) ->
  let Y := scale_cols (select_cols N V (N - d, d)) s in
  forall i j, i < N -> j < N -> sqdist d Y i j = sqdist r X i j.
Proof.
  intros HN Hrd HdN Hk HC HVVt Hasc Hs Y i j Hi Hj.
  assert (HB : forall a b, a < N -> b < N ->
             kpca_matrix N kern a b = sumn r (fun t => (centered N X a t * centered N X b t)%F)).
  { intros a b Ha Hb.
    rewrite (@kpca_matrix_is_JKJ Qc QcOps QcField N kern (Qc_of_nat_neq0 N HN) a b Ha Hb).
    assert (HK : meq N N (kernel_matrix kern) (mmul r X (mtrans X))).
    { intros p q Hp Hq. unfold kernel_matrix, mmul, mtrans.
      destruct (Nat.leb p q) eqn:E.
      - apply Nat.leb_le in E. rewrite (Hk p q Hp Hq E). reflexivity.
      - apply Nat.leb_gt in E. rewrite (Hk q p Hq Hp) by lia. unfold dot, mrow.
        apply (@sumn_ext Qc QcOps). intros t _. cbn [fmul QcOps]. ring. }
    rewrite (@double_center_meq Qc QcOps N _ _ HK a b Ha Hb).
    exact (@double_center_gram Qc QcOps QcField N r X a b (Qc_of_nat_neq0 N HN) Ha Hb). }
  pose proof (gram_recovered_Qc N r d (centered N X) V (kpca_matrix N kern) Lam s Hrd HdN HB HC HVVt Hasc Hs)
    as HG. fold Y in HG.
  rewrite (@sqdist_from_gram Qc QcOps QcField d Y i j). rewrite !HG by assumption.
  rewrite !HB by assumption.
  unfold sqdist, centered.
  rewrite <- (@sumn_add Qc QcOps QcField), <- !(@sumn_sub Qc QcOps QcField).
  apply (@sumn_ext Qc QcOps). intros t _. cbn [fmul fsub fadd QcOps]. ring.
Qed.

Definition exr_kern : mat Qc :=
  mof [[qz 1; qz (-1); qz 1; qz (-1)]; [qz (-1); qz 1; qz (-1); qz 1];
       [qz 1; qz (-1); qz 1; qz (-1)]; [qz (-1); qz 1; qz (-1); qz 1]].
Lemma exr_kpca_ok :
  (forall i j, i < 4 -> j < 4 -> i <= j -> exr_kern i j = dot 1 (mrow exr_X i) (mrow exr_X j)) /\
  full_contract 4 (kpca_matrix 4 exr_kern) exr_V exr_Lam.
Proof.
  split.
  - intros i j Hi Hj _.
    destruct i as [|[|[|[|i]]]]; try lia; destruct j as [|[|[|[|j]]]]; try lia;
      apply Qc_is_canon; vm_compute; reflexivity.
  - split; apply meq_by_compute; vm_compute; reflexivity.
Qed.
