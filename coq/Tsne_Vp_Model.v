(* Tsne_Vp_Model.v — executable model of tsne::VpTree<DataPoint, euclidean_distance>
   (include/tapkee/external/barnes_hut_sne/vptree.hpp) and of its only consumer, the
   neighbour loop of the K-NN overload of TSNE::computeGaussianPerplexity (tsne.hpp).
   No proofs in this file.

   Relation to Knn_VpTree_Model.v (agent c02, tapkee/neighbors/vptree.hpp): same data
   structure, but the two C++ files are NOT the same text: the t-SNE copy recurses into
   the near child unconditionally and tests only the far child
   (`dist + _tau >= threshold` resp. `dist - _tau <= threshold`), it returns results
   nearest first together with their distances, and the consumer drops position 0
   (assumed to be the query) instead of erasing the query by value.  Hence an own
   (small) model; only the specification Knn_Spec.v is shared.

   Numbers.  The search only compares, adds and subtracts distances: `Z` (any finite set
   of dyadic doubles scales to integers).  The distance is a TABLE `d : Z -> Z -> Z`
   so that the same search model runs with
     - the squared Euclidean distance (what the shipped `euclidean_distance` returns),
     - a metric (what fixes/F11_tsne_vptree_metric.patch makes it return),
     - the table measured from the real function by the harness.
   Tree.     `Nd item thr l r`: item = _items[node->index].index(); E is NULL;
             a leaf is `Nd x 0 E E`.
   heap.     std::priority_queue<HeapItem> (max-heap on dist) = list sorted by
             decreasing dist, top = head, pop = tail.  Which of several equally distant
             maxima is popped is the STL's choice; the theorems speak about membership
             and distances only and the correspondence compares distance lists.
   _tau.     `option Z`, None = DBL_MAX (distances are far below DBL_MAX, so every
             comparison against it has the obvious outcome).
   k = 0.    heap.size() == k holds for the empty heap and heap.pop() on an empty
             priority_queue is undefined: None. *)
From Coq Require Import List ZArith Bool.
From TK Require Import Knn_Spec.
Import ListNotations.
Local Open Scope Z_scope.

Inductive vpt : Type := E | Nd (item : Z) (thr : Z) (l r : vpt).

Fixpoint items (t : vpt) : list Z :=
  match t with E => [] | Nd i _ l r => i :: items l ++ items r end.

Definition hitem := (Z * Z)%type.                     (* HeapItem: (index, dist) *)
Definition state := (list hitem * option Z)%type.     (* heap, _tau *)

Fixpoint hpush (x : hitem) (h : list hitem) : list hitem :=
  match h with
  | [] => [x]
  | y :: r => if snd y <=? snd x then x :: y :: r else y :: hpush x r
  end.

Definition lt_tau (x : Z) (tau : option Z) : bool :=
  match tau with None => true | Some t => x <? t end.          (* dist < _tau *)
Definition sub_le (x : Z) (tau : option Z) (thr : Z) : bool :=
  match tau with None => true | Some t => x - t <=? thr end.   (* dist - _tau <= threshold *)
Definition add_ge (x : Z) (tau : option Z) (thr : Z) : bool :=
  match tau with None => true | Some t => x + t >=? thr end.   (* dist + _tau >= threshold *)

(* if (dist < _tau) { if (heap.size() == k) heap.pop(); heap.push(...);
                      if (heap.size() == k) _tau = heap.top().dist; } *)
Definition visit (k : nat) (it dq : Z) (st : state) : state :=
  let '(h, tau) := st in
  if lt_tau dq tau then
    let h1 := if Nat.eqb (length h) k then tl h else h in
    let h2 := hpush (it, dq) h1 in
    let tau2 := if Nat.eqb (length h2) k
                then match h2 with (_, dd) :: _ => Some dd | [] => tau end
                else tau in
    (h2, tau2)
  else st.

(* void search(Node* node, const T& target, int k, heap): _tau is a member, so the test
   on the far child reads the value left by the recursive call into the near child. *)
Fixpoint search (d : dist) (t : vpt) (q : Z) (k : nat) (st : state) : state :=
  match t with
  | E => st
  | Nd it thr l r =>
      let dq := d it q in                       (* distance(_items[node->index], target) *)
      let st1 := visit k it dq st in
      match l, r with
      | E, E => st1
      | _, _ =>
          if dq <? thr then
            let st2 := search d l q k st1 in
            if add_ge dq (snd st2) thr then search d r q k st2 else st2
          else
            let st2 := search d r q k st1 in
            if sub_le dq (snd st2) thr then search d l q k st2 else st2
      end
  end.

(* public search(target, k, results, distances): popped farthest first, then reversed *)
Definition vp_search_pairs (d : dist) (t : vpt) (q : Z) (k : nat) : option (list hitem) :=
  if Nat.eqb k 0 then (match t with E => Some [] | _ => None end)
  else Some (rev (fst (search d t q k ([], None)))).

Definition vp_search (d : dist) (t : vpt) (q : Z) (k : nat) : option (list Z) :=
  option_map (map fst) (vp_search_pairs d t q k).
Definition vp_search_dists (d : dist) (t : vpt) (q : Z) (k : nat) : option (list Z) :=
  option_map (map snd) (vp_search_pairs d t q k).

(* The consumer BEFORE commit f79b9b7 (fixes/F45_tsne_bh_coincident_self_neighbour.patch):
   tree->search(obj_X[n], K + 1, &indices, &distances); then for m < K
   col_P[row_P[n] + m] = indices[m + 1].index() and distances[m + 1] feed the kernel.
   Reading indices[m + 1] with fewer than K + 1 results is out of range: None.
   (The CURRENT consumer is bh_row_pairs_fixed below.) *)
Definition bh_row_pairs (d : dist) (t : vpt) (q : Z) (K : nat) : option (list hitem) :=
  match vp_search_pairs d t q (K + 1) with
  | Some l => if Nat.eqb (length l) (K + 1) then Some (tl l) else None
  | None => None
  end.
Definition bh_row (d : dist) (t : vpt) (q : Z) (K : nat) : option (list Z) :=
  option_map (map fst) (bh_row_pairs d t q K).

(* CURRENT code (fixes/F45_tsne_bh_coincident_self_neighbour.patch, commit f79b9b7): the query is dropped BY INDEX (first result
   whose index() is n); if it is not among the K + 1 results the last (farthest) one is dropped;
   then positions 0..K-1 are read (fewer than K left: out of range, None). *)
Fixpoint drop_first (q : Z) (l : list hitem) : option (list hitem) :=
  match l with
  | [] => None
  | x :: r => if fst x =? q then Some r
              else match drop_first q r with Some r' => Some (x :: r') | None => None end
  end.

Definition bh_row_pairs_fixed (d : dist) (t : vpt) (q : Z) (K : nat) : option (list hitem) :=
  match vp_search_pairs d t q (K + 1) with
  | Some l =>
      let l' := match drop_first q l with Some r => r | None => removelast l end in
      if Nat.eqb (length l') K then Some l' else None
  | None => None
  end.
Definition bh_row_fixed (d : dist) (t : vpt) (q : Z) (K : nat) : option (list Z) :=
  option_map (map fst) (bh_row_pairs_fixed d t q K).

(* ---------- invariant of a built tree + boolean checker for dumped real trees ---------- *)

Fixpoint vp_inv (d : dist) (t : vpt) : Prop :=
  match t with
  | E => True
  | Nd i thr l r =>
      (forall x, In x (items l) -> d i x <= thr) /\
      (forall x, In x (items r) -> thr <= d i x) /\
      vp_inv d l /\ vp_inv d r
  end.

Fixpoint vp_inv_b (d : dist) (t : vpt) : bool :=
  match t with
  | E => true
  | Nd i thr l r =>
      forallb (fun x => d i x <=? thr) (items l) &&
      forallb (fun x => thr <=? d i x) (items r) &&
      vp_inv_b d l && vp_inv_b d r
  end.

(* the tree holds exactly the samples 0..N-1, each once *)
Definition vp_holds (N : nat) (t : vpt) : Prop :=
  NoDup (items t) /\ forall x, In x (items t) <-> 0 <= x < Z.of_nat N.

Definition vp_holds_b (N : nat) (t : vpt) : bool :=
  nodup_b (items t) && Nat.eqb (length (items t)) N &&
  forallb (fun x => (0 <=? x) && (x <? Z.of_nat N)) (items t).

(* ---------- buildFromPoints with its two library calls as oracles ----------
   piv lower upper      = i - lower for the i drawn from uniform_random()
   nth lower upper vp l = what std::nth_element leaves in _items[lower+1, upper)
   (contract in Tsne_Spec.nth_ok). *)
Inductive bres : Type := Built (t : vpt) | BOutOfFuel | BOOB.

Fixpoint upd (j : nat) (x : Z) (l : list Z) : list Z :=
  match l, j with
  | [], _ => []
  | _ :: r, O => x :: r
  | y :: r, S j' => y :: upd j' x r
  end.

Definition swap0 (i : nat) (l : list Z) : option (list Z) :=
  match l with
  | [] => None
  | x :: r =>
      match i with
      | O => Some l
      | S j => match nth_error r j with
               | None => None
               | Some y => Some (y :: upd j x r)
               end
      end
  end.

Fixpoint build (d : dist) (piv : nat -> nat -> nat) (nth : nat -> nat -> Z -> list Z -> list Z)
               (fuel : nat) (lower : nat) (its : list Z) : bres :=
  match fuel with
  | O => BOutOfFuel
  | S f =>
      match its with
      | [] => Built E                               (* upper == lower *)
      | [x] => Built (Nd x 0 E E)                   (* upper - lower == 1 *)
      | _ =>
          let upper := (lower + length its)%nat in
          match swap0 (piv lower upper) its with
          | None | Some [] => BOOB
          | Some (vp :: rest) =>
              let median := Nat.div (upper + lower) 2 in
              let m := (median - (lower + 1))%nat in
              let rest' := nth lower upper vp rest in
              match nth_error rest' m with
              | None => BOOB
              | Some med =>
                  match build d piv nth f (lower + 1) (firstn m rest'),
                        build d piv nth f median (skipn m rest') with
                  | Built l, Built r => Built (Nd vp (d vp med) l r)
                  | BOOB, _ | _, BOOB => BOOB
                  | _, _ => BOutOfFuel
                  end
              end
          end
      end
  end.

Definition piv_first (lower upper : nat) : nat := O.
Definition nth_sort (d : dist) (lower upper : nat) (vp : Z) (l : list Z) : list Z :=
  isort_by (d vp) l.

(* ---------- distance tables for the witnesses ---------- *)
(* points on a line: coordinates xs; the shipped euclidean_distance (squared) and the
   repaired one (absolute difference = sqrt of the square, exact) *)
Definition coord (xs : list Z) (i : Z) : Z := nth (Z.to_nat i) xs 0.
Definition d_sq_1d (xs : list Z) : dist := fun i j => (coord xs i - coord xs j) * (coord xs i - coord xs j).
Definition d_abs_1d (xs : list Z) : dist := fun i j => Z.abs (coord xs i - coord xs j).
