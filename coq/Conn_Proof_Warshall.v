(* Conn_Proof_Warshall.v — the decision procedures strong_b / from_first_b of Conn_Spec
   (Warshall closure, no code shared with the DFS model) decide strong connectivity /
   reachability from sample 0 on well-formed graphs. *)
From Coq Require Import List Arith Bool ZArith Lia.
From TK Require Import Conn_Model Conn_Spec Conn_Proof_Graph.
Import ListNotations.

(* paths whose intermediate vertices are all < k *)
Inductive rk (nb : graph) (k : nat) : nat -> nat -> Prop :=
| rk_refl : forall i, rk nb k i i
| rk_edge : forall i j, edge nb i j -> rk nb k i j
| rk_step : forall i v j, edge nb i v -> v < k -> rk nb k v j -> rk nb k i j.

Lemma rk_mono : forall nb k i j, rk nb k i j -> rk nb (S k) i j.
Proof.
  intros nb k i j H. induction H as [i|i j He|i v j He Hv Hr IH].
  - apply rk_refl.
  - apply rk_edge; auto.
  - eapply rk_step; eauto.
Qed.

Lemma rk_concat : forall nb k i m j, rk nb k i m -> m < k -> rk nb k m j -> rk nb k i j.
Proof.
  intros nb k i m j H. induction H as [i|i m He|i v m He Hv Hr IH]; intros Hm Hj; auto.
  - eapply rk_step; eauto.
  - eapply rk_step; eauto.
Qed.

Lemma rk_split : forall nb k i j, rk nb (S k) i j ->
  rk nb k i j \/ (rk nb k i k /\ rk nb k k j).
Proof.
  intros nb k i j H. induction H as [i|i j He|i v j He Hv Hr IH].
  - left. apply rk_refl.
  - left. apply rk_edge; auto.
  - destruct (Nat.eq_dec v k) as [->|Hne].
    + right. split; [apply rk_edge; auto|]. destruct IH as [H|[_ H]]; auto.
    + assert (Hvk : v < k) by lia.
      destruct IH as [H|[H1 H2]].
      * left. eapply rk_step; eauto.
      * right. split; auto. eapply rk_step; eauto.
Qed.

Lemma rk_succ_iff : forall nb k i j,
  rk nb (S k) i j <-> rk nb k i j \/ (rk nb k i k /\ rk nb k k j).
Proof.
  intros nb k i j. split; [apply rk_split|].
  intros [H|[H1 H2]]; [apply rk_mono; auto|].
  eapply rk_concat; [apply rk_mono; eauto|lia|apply rk_mono; auto].
Qed.

Lemma rk_zero_iff : forall nb i j, rk nb 0 i j <-> i = j \/ edge nb i j.
Proof.
  intros nb i j. split.
  - intros H. destruct H as [i|i j He|i v j He Hv Hr]; auto. lia.
  - intros [->|H]; [apply rk_refl|apply rk_edge; auto].
Qed.

Lemma rk_reach : forall nb k i j, rk nb k i j -> reach nb i j.
Proof.
  intros nb k i j H. induction H as [i|i j He|i v j He Hv Hr IH].
  - apply reach_refl.
  - apply reach_edge; auto.
  - eapply reach_step; eauto.
Qed.

Lemma reach_rk : forall N nb i j, wf_graph N nb -> reach nb i j -> rk nb N i j.
Proof.
  intros N nb i j Hwf H. induction H as [i|i m j He Hr IH].
  - apply rk_refl.
  - eapply rk_step; eauto. eapply wf_edge; eauto.
Qed.

(* ------------------------------------------------------------ matrices *)
Definition dims (N : nat) (R : bmat) : Prop :=
  length R = N /\ forall row, In row R -> length row = N.

Lemma nth_map_seq : forall (A : Type) (F : nat -> A) n i d, i < n ->
  nth i (map F (seq 0 n)) d = F i.
Proof.
  intros A F n i d Hi.
  rewrite (nth_indep _ d (F 0)) by (rewrite map_length, seq_length; auto).
  rewrite map_nth. rewrite seq_nth by auto. reflexivity.
Qed.

Lemma get_init : forall N nb i j, i < N -> j < N ->
  get (w_init N nb) i j = (i =? j) || mem j (nth i nb []).
Proof.
  intros N nb i j Hi Hj. unfold get, w_init.
  rewrite nth_map_seq by auto. rewrite nth_map_seq by auto. reflexivity.
Qed.

Lemma dims_init : forall N nb, dims N (w_init N nb).
Proof.
  intros N nb. unfold w_init. split.
  - rewrite map_length, seq_length. reflexivity.
  - intros row Hrow. apply in_map_iff in Hrow. destruct Hrow as [i [<- _]].
    rewrite map_length, seq_length. reflexivity.
Qed.

Lemma dims_row : forall N R i, dims N R -> i < N -> length (nth i R []) = N.
Proof. intros N R i [Hl Hr] Hi. apply Hr. apply nth_In. lia. Qed.

Lemma or_rows_length : forall a b, length a = length b -> length (or_rows a b) = length a.
Proof.
  intros a b H. unfold or_rows. rewrite map_length, combine_length. lia.
Qed.

Lemma or_rows_nth : forall a b j, length a = length b -> j < length a ->
  nth j (or_rows a b) false = nth j a false || nth j b false.
Proof.
  intros a b j Hl Hj. unfold or_rows.
  set (F := fun p : bool * bool => fst p || snd p).
  rewrite (nth_indep _ false (F (false, false)))
    by (rewrite map_length, combine_length; lia).
  rewrite map_nth. rewrite combine_nth by auto. reflexivity.
Qed.

Lemma dims_step : forall N R k, dims N R -> k < N -> dims N (w_step R k).
Proof.
  intros N R k HD Hk. pose proof HD as [Hl Hr]. unfold w_step. split.
  - rewrite map_length; auto.
  - intros row Hrow. apply in_map_iff in Hrow. destruct Hrow as [ri [<- Hri]].
    destruct (nth k ri false); auto.
    rewrite or_rows_length; auto. rewrite (Hr ri Hri). symmetry. apply dims_row; auto.
Qed.

Lemma get_step : forall N R k i j, dims N R -> k < N -> i < N -> j < N ->
  get (w_step R k) i j = get R i j || (get R i k && get R k j).
Proof.
  intros N R k i j HD Hk Hi Hj. pose proof HD as [Hl Hr]. unfold get, w_step.
  set (F := fun ri : list bool => if nth k ri false then or_rows ri (nth k R []) else ri).
  assert (HF : F [] = []). { unfold F. destruct k; reflexivity. }
  rewrite <- HF at 1. rewrite map_nth. unfold F.
  destruct (nth k (nth i R []) false) eqn:E.
  - rewrite or_rows_nth.
    + cbn. reflexivity.
    + rewrite !(dims_row N) by auto. reflexivity.
    + rewrite (dims_row N) by auto. auto.
  - cbn. rewrite orb_false_r. reflexivity.
Qed.

Definition mat_inv (N : nat) (nb : graph) (k : nat) (R : bmat) : Prop :=
  dims N R /\ forall i j, i < N -> j < N -> (get R i j = true <-> rk nb k i j).

Lemma mat_inv_init : forall N nb, mat_inv N nb 0 (w_init N nb).
Proof.
  intros N nb. split; [apply dims_init|].
  intros i j Hi Hj. rewrite get_init by auto. rewrite rk_zero_iff.
  rewrite orb_true_iff, Nat.eqb_eq, mem_spec. reflexivity.
Qed.

Lemma mat_inv_step : forall N nb k R, mat_inv N nb k R -> k < N ->
  mat_inv N nb (S k) (w_step R k).
Proof.
  intros N nb k R [HD H] Hk. split; [apply dims_step; auto|].
  intros i j Hi Hj. rewrite (get_step N) by auto. rewrite rk_succ_iff.
  rewrite orb_true_iff, andb_true_iff.
  rewrite (H i j), (H i k), (H k j) by auto. reflexivity.
Qed.

Lemma mat_inv_fold : forall N nb n k R, mat_inv N nb k R -> k + n <= N ->
  mat_inv N nb (k + n) (fold_left w_step (seq k n) R).
Proof.
  intros N nb n. induction n as [|n IH]; intros k R HI Hk; cbn [seq fold_left].
  - rewrite Nat.add_0_r. auto.
  - replace (k + S n) with (S k + n) by lia. apply IH; [|lia].
    apply mat_inv_step; auto. lia.
Qed.

Lemma closure_spec : forall N nb i j, wf_graph N nb -> i < N -> j < N ->
  (get (closure N nb) i j = true <-> reach nb i j).
Proof.
  intros N nb i j Hwf Hi Hj. unfold closure.
  destruct (mat_inv_fold N nb N 0 (w_init N nb) (mat_inv_init N nb)) as [_ H]; [lia|].
  cbn [Nat.add] in H. rewrite (H i j) by auto. split.
  - apply rk_reach.
  - apply reach_rk; auto.
Qed.

Lemma strong_b_spec : forall N nb, wf_graph N nb ->
  (strong_b N nb = true <-> strongly_connected N nb).
Proof.
  intros N nb Hwf. unfold strong_b, strongly_connected. cbv zeta.
  rewrite forallb_forall. split.
  - intros H i j Hi Hj. apply (closure_spec N); auto.
    assert (Hin : In i (seq 0 N)) by (apply in_seq; lia).
    specialize (H i Hin). rewrite forallb_forall in H. apply H. apply in_seq; lia.
  - intros H i Hi. apply in_seq in Hi. apply forallb_forall. intros j Hj. apply in_seq in Hj.
    apply (closure_spec N); auto; try lia. apply H; lia.
Qed.

Lemma from_first_b_spec : forall N nb, 0 < N -> wf_graph N nb ->
  (from_first_b N nb = true <-> all_from_first N nb).
Proof.
  intros N nb HN Hwf. unfold from_first_b, all_from_first. cbv zeta.
  rewrite forallb_forall. split.
  - intros H j Hj. apply (closure_spec N); auto. apply H. apply in_seq; lia.
  - intros H j Hj. apply in_seq in Hj. apply (closure_spec N); auto; try lia. apply H; lia.
Qed.
