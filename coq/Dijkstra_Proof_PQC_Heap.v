(* Dijkstra_Proof_PQC_Heap.v — libstdc++'s push_heap / pop_heap, as modelled in Dijkstra_PQC_Model.v, keep
   the heap order; hence the first cell always has a minimal key, the check `is_min` of step_pqc never fires,
   and the concrete priority-queue configuration returns the shortest-path matrix — a TOTAL theorem
   (full_matrix_pqc_correct), which supersedes the partial ones of Dijkstra_Proof_PQC.v.

   heap_ord c : key (c[(i-1)/2]) <= key (c[i]) for every 0 < i < length c.
   sift_up   : invariant "every parent/child pair is in order except possibly the pair whose child is the hole,
               and the grandparent of the hole's children is not above them".
   sift_down : invariant "every pair is in order except those that involve the hole, and the parent of the
               hole is not above the hole's children"; at exit the hole is a leaf and the sift_up invariant holds. *)
From Coq Require Import List ZArith Bool Arith Lia Permutation.
From TK Require Import Dijkstra_Model Dijkstra_Spec Dijkstra_Proof_Base Dijkstra_Proof_Core Dijkstra_Proof_PQ
     Dijkstra_Proof_Spec Dijkstra_Proof Dijkstra_PQC_Model Dijkstra_Proof_PQC.
From TK Require Dijkstra_FibC_Model Dijkstra_Proof_FibC.
Import ListNotations.
Local Open Scope Z_scope.

Local Transparent bh_pop bh_push.

Definition dflt : entry := (0%nat, 0).
Definition ky (c : list entry) (i : nat) : Z := snd (nth i c dflt).
Definition par (i : nat) : nat := ((i - 1) / 2)%nat.
Definition ord (c : list entry) (i : nat) : Prop := ky c (par i) <= ky c i.
Definition heap_ord (c : list entry) : Prop := forall i, (0 < i < length c)%nat -> ord c i.

Ltac div2 a := let H1 := fresh "Hdm" in let H2 := fresh "Hmb" in
  pose proof (Nat.div_mod a 2 ltac:(discriminate)) as H1;
  pose proof (Nat.mod_upper_bound a 2 ltac:(discriminate)) as H2.

Lemma par_lt : forall i, (0 < i)%nat -> (par i < i)%nat.
Proof. intros i H. unfold par. div2 (i - 1)%nat. lia. Qed.

Lemma par_child : forall j h, (0 < j)%nat -> (par j = h <-> (j = 2 * h + 1 \/ j = 2 * h + 2)%nat).
Proof. intros j h H. unfold par. div2 (j - 1)%nat. split; intros; lia. Qed.

(* ---------- cells of a swapped vector ---------- *)
Lemma swap_length : forall c i j, length (swap c i j) = length c.
Proof.
  intros c i j. unfold swap. destruct (nth_error c i); [|reflexivity].
  destruct (nth_error c j); [|reflexivity]. rewrite !upd_length. reflexivity.
Qed.

Lemma nth_error_nth_dflt : forall (c : list entry) i, (i < length c)%nat -> nth_error c i = Some (nth i c dflt).
Proof. intros c i H. apply nth_error_nth'. assumption. Qed.

Lemma ky_swap : forall c i j x, (i < length c)%nat -> (j < length c)%nat ->
    ky (swap c i j) x = if Nat.eqb x i then (if Nat.eqb i j then ky c i else ky c j)
                        else if Nat.eqb x j then ky c i else ky c x.
Proof.
  intros c i j x Hi Hj. unfold swap, ky.
  rewrite (nth_error_nth_dflt c i Hi), (nth_error_nth_dflt c j Hj).
  destruct (Nat.eqb_spec x j) as [->|Hxj].
  - rewrite nth_upd_eq by (rewrite upd_length; assumption).
    destruct (Nat.eqb_spec j i) as [->|Hji].
    + rewrite Nat.eqb_refl. reflexivity.
    + reflexivity.
  - rewrite nth_upd_neq by congruence.
    destruct (Nat.eqb_spec x i) as [->|Hxi].
    + rewrite nth_upd_eq by assumption.
      destruct (Nat.eqb_spec i j) as [E|E]; [congruence | reflexivity].
    + rewrite nth_upd_neq by congruence. reflexivity.
Qed.

Lemma comp_ky : forall c i j, (i < length c)%nat -> (j < length c)%nat ->
    comp (nth i c dflt) (nth j c dflt) = Z.ltb (ky c j) (ky c i).
Proof. reflexivity. Qed.

(* ---------- the first cell is minimal ---------- *)
Lemma heap_ord_root : forall c, heap_ord c -> forall i, (i < length c)%nat -> ky c 0 <= ky c i.
Proof.
  intros c H i. induction i as [i IH] using lt_wf_ind. intros Hi.
  destruct (Nat.eq_dec i 0) as [->|Hne]; [lia|].
  assert (Hp : (par i < i)%nat) by (apply par_lt; lia).
  specialize (IH (par i) Hp ltac:(lia)). specialize (H i ltac:(lia)). unfold ord in H. lia.
Qed.

Lemma heap_ord_is_min : forall top rest, heap_ord (top :: rest) -> is_min top (top :: rest) = true.
Proof.
  intros top rest H. unfold is_min. apply forallb_forall. intros q Hin.
  destruct (In_nth _ _ dflt Hin) as (i & Hi & Eq).
  pose proof (heap_ord_root _ H i Hi) as Hr. unfold ky in Hr. rewrite Eq in Hr. cbn [nth] in Hr.
  apply Z.leb_le. exact Hr.
Qed.

(* ---------- sift_up ---------- *)
Definition up_inv (c : list entry) (hole : nat) : Prop :=
  (forall i, (0 < i < length c)%nat -> i <> hole -> ord c i) /\
  (forall j, (0 < hole)%nat -> (0 < j < length c)%nat -> par j = hole -> ky c (par hole) <= ky c j).

Lemma sift_up_ord : forall fuel c hole,
    (hole < length c)%nat -> (hole < fuel)%nat -> up_inv c hole -> heap_ord (sift_up fuel c hole).
Proof.
  induction fuel as [|f IH]; intros c hole Hh Hf [H1 H2]; [lia|].
  cbn [sift_up]. destruct (Nat.ltb_spec 0 hole) as [Hpos|H0].
  2:{ intros i Hi. apply H1; lia. }
  pose proof (par_lt hole Hpos) as HP. fold (par hole).
  rewrite (nth_error_nth_dflt c (par hole)) by lia. rewrite (nth_error_nth_dflt c hole Hh).
  rewrite comp_ky by lia.
  destruct (Z.ltb_spec (ky c hole) (ky c (par hole))) as [Hlt|Hge].
  2:{ intros i Hi. destruct (Nat.eq_dec i hole) as [->|Hne]; [exact Hge | apply H1; assumption]. }
  set (P := par hole) in *.
  apply IH; [rewrite swap_length; lia | lia |].
  assert (KS : forall x, ky (swap c hole P) x =
                         if Nat.eqb x hole then ky c P else if Nat.eqb x P then ky c hole else ky c x).
  { intros x. rewrite ky_swap by lia. destruct (Nat.eqb_spec hole P) as [E|_]; [lia | reflexivity]. }
  split.
  - intros i Hi HiP. rewrite swap_length in Hi. unfold ord. rewrite !KS.
    assert (Hpi : (par i < i)%nat) by (apply par_lt; lia).
    destruct (Nat.eqb_spec i hole) as [->|Hih].
    + (* the old hole now holds the old parent *)
      fold P. rewrite Nat.eqb_refl.
      destruct (Nat.eqb_spec P hole) as [E|_]; [lia|]. lia.
    + destruct (Nat.eqb_spec i P) as [E|_]; [contradiction|].
      destruct (Nat.eqb_spec (par i) hole) as [Eph|Nph].
      * (* a child of the old hole: grandparent clause *)
        apply (H2 i Hpos Hi Eph).
      * destruct (Nat.eqb_spec (par i) P) as [EpP|NpP].
        -- (* the sibling of the old hole *)
           pose proof (H1 i Hi Hih) as Ho. unfold ord in Ho. rewrite EpP in Ho. lia.
        -- apply (H1 i Hi Hih).
  - intros j HP0 Hj Hpj. rewrite swap_length in Hj. rewrite !KS.
    assert (HPP : (par P < P)%nat) by (apply par_lt; lia).
    destruct (Nat.eqb_spec (par P) hole) as [E|_]; [lia|].
    destruct (Nat.eqb_spec (par P) P) as [E|_]; [lia|].
    pose proof (H1 P ltac:(lia) ltac:(lia)) as HoP. unfold ord in HoP.
    destruct (Nat.eqb_spec j hole) as [->|Hjh]; [exact HoP|].
    destruct (Nat.eqb_spec j P) as [E|_].
    + subst j. pose proof (par_lt P HP0). lia.
    + pose proof (H1 j Hj Hjh) as Hoj. unfold ord in Hoj. rewrite Hpj in Hoj. lia.
Qed.

Lemma ky_app_l : forall c x i, (i < length c)%nat -> ky (c ++ [x]) i = ky c i.
Proof. intros c x i H. unfold ky. rewrite app_nth1 by assumption. reflexivity. Qed.

Lemma bh_push_ord : forall x c, heap_ord c -> heap_ord (bh_push x c).
Proof.
  intros x c H. unfold bh_push. apply sift_up_ord.
  - rewrite app_length. cbn. lia.
  - lia.
  - split.
    + intros i Hi Hne. rewrite app_length in Hi. cbn [length] in Hi.
      assert (Hi' : (0 < i < length c)%nat) by lia.
      unfold ord. rewrite !ky_app_l by (try lia; pose proof (par_lt i); lia). apply H. assumption.
    + intros j Hpos Hj Hpj. rewrite app_length in Hj. cbn [length] in Hj.
      apply par_child in Hpj; lia.
Qed.

(* ---------- sift_down ---------- *)
Definition down_inv (c : list entry) (hole : nat) : Prop :=
  (forall i, (0 < i < length c)%nat -> i <> hole -> par i <> hole -> ord c i) /\
  (forall j, (0 < hole)%nat -> (0 < j < length c)%nat -> par j = hole -> ky c (par hole) <= ky c j).

Lemma sift_down_inv : forall fuel c hole,
    (hole < length c)%nat -> (length c - hole <= fuel)%nat -> down_inv c hole ->
    let r := sift_down fuel c (length c) hole in
    length (fst r) = length c /\ (snd r < length c)%nat /\ up_inv (fst r) (snd r).
Proof.
  induction fuel as [|f IH]; intros c hole Hh Hf [H1 H2]; [lia|].
  set (L := length c) in *. cbn [sift_down].
  destruct (Nat.ltb_spec hole ((L - 1) / 2)) as [Hin|Hout].
  - (* two children *)
    div2 (L - 1)%nat.
    set (r := (2 * (hole + 1))%nat).
    assert (Hr : (r < L)%nat) by (unfold r; lia).
    rewrite (nth_error_nth_dflt c r Hr). rewrite (nth_error_nth_dflt c (r - 1)) by lia.
    rewrite comp_ky by lia.
    set (sc := if Z.ltb (ky c (r - 1)) (ky c r) then (r - 1)%nat else r).
    assert (Hsc : (sc = r - 1 \/ sc = r)%nat /\ ky c sc <= ky c r /\ ky c sc <= ky c (r - 1)).
    { unfold sc. destruct (Z.ltb_spec (ky c (r - 1)) (ky c r)); split; try lia; auto. }
    destruct Hsc as (Hsc & Hle1 & Hle2).
    assert (Hpsc : par sc = hole) by (apply par_child; unfold r in *; lia).
    assert (KS : forall x, ky (swap c hole sc) x =
                           if Nat.eqb x hole then ky c sc else if Nat.eqb x sc then ky c hole else ky c x).
    { intros x. rewrite ky_swap by (fold L; unfold r in *; lia).
      destruct (Nat.eqb_spec hole sc) as [E|_]; [unfold r in *; lia | reflexivity]. }
    assert (HLs : length (swap c hole sc) = L) by apply swap_length.
    specialize (IH (swap c hole sc) sc). rewrite HLs in IH.
    destruct IH as (A & B & C).
    + unfold r in *; lia.
    + unfold r in *; lia.
    + split.
      * intros i Hi Hne Hpne. rewrite HLs in Hi. unfold ord. rewrite !KS.
        assert (Hpi : (par i < i)%nat) by (apply par_lt; lia).
        destruct (Nat.eqb_spec i sc) as [E|_]; [contradiction|].
        destruct (Nat.eqb_spec (par i) sc) as [E|_]; [contradiction|].
        destruct (Nat.eqb_spec i hole) as [->|Hih].
        -- (* the old hole now holds the smaller child: parent of the hole is not above it *)
           destruct (Nat.eqb_spec (par hole) hole) as [E|_]; [lia|].
           apply (H2 sc); [lia | unfold r in *; lia | exact Hpsc].
        -- destruct (Nat.eqb_spec (par i) hole) as [Eph|Nph].
           ++ (* the other child *)
              apply par_child in Eph; [|lia].
              assert (Ei : (i = r - 1 \/ i = r)%nat) by (unfold r; lia).
              destruct Ei as [->| ->]; assumption.
           ++ apply (H1 i Hi Hih Nph).
      * intros j Hpos Hj Hpj. rewrite HLs in Hj. rewrite !KS. rewrite Hpsc, Nat.eqb_refl.
        assert (Hjsc : (sc < j)%nat) by (rewrite <- Hpj; apply par_lt; lia).
        destruct (Nat.eqb_spec j hole) as [E|_]; [unfold r in *; lia|].
        destruct (Nat.eqb_spec j sc) as [E|_]; [lia|].
        pose proof (H1 j Hj ltac:(unfold r in *; lia) ltac:(rewrite Hpj; unfold r in *; lia)) as Ho.
        unfold ord in Ho. rewrite Hpj in Ho. exact Ho.
    + cbv zeta in A, B, C |- *. split; [rewrite A; reflexivity | split; assumption].
  - destruct (Nat.even L && Nat.eqb hole ((L - 2) / 2) && Nat.leb 2 L) eqn:Ecase; cbn [fst snd].
    + (* one child, the last cell *)
      apply andb_prop in Ecase. destruct Ecase as [E12 E3]. apply andb_prop in E12. destruct E12 as [E1 E2].
      apply Nat.even_spec in E1. destruct E1 as [m Em]. apply Nat.eqb_eq in E2. apply Nat.leb_le in E3.
      div2 (L - 2)%nat.
      set (ch := (2 * (hole + 1) - 1)%nat).
      assert (Hch : ch = (L - 1)%nat) by (unfold ch; lia).
      assert (KS : forall x, ky (swap c hole ch) x =
                             if Nat.eqb x hole then ky c ch else if Nat.eqb x ch then ky c hole else ky c x).
      { intros x. rewrite ky_swap by (fold L; lia).
        destruct (Nat.eqb_spec hole ch) as [E|_]; [lia | reflexivity]. }
      split; [apply swap_length | split; [fold L; lia|]].
      split.
      * intros i Hi Hne. rewrite swap_length in Hi. fold L in Hi. unfold ord. rewrite !KS.
        assert (Hpi : (par i < i)%nat) by (apply par_lt; lia).
        destruct (Nat.eqb_spec i ch) as [E|_]; [contradiction|].
        destruct (Nat.eqb_spec (par i) ch) as [E|_]; [lia|].
        destruct (Nat.eqb_spec i hole) as [->|Hih].
        -- destruct (Nat.eqb_spec (par hole) hole) as [E|_]; [lia|].
           apply (H2 ch); [lia | fold L; lia | apply par_child; lia].
        -- destruct (Nat.eqb_spec (par i) hole) as [Eph|Nph].
           ++ apply par_child in Eph; lia.
           ++ apply (H1 i Hi Hih Nph).
      * intros j Hpos Hj Hpj. rewrite swap_length in Hj. fold L in Hj. apply par_child in Hpj; lia.
    + (* the hole is a leaf *)
      assert (Hleaf : (L <= 2 * hole + 1)%nat).
      { div2 (L - 1)%nat. div2 (L - 2)%nat.
        destruct (Nat.even L) eqn:Ev; cbn [andb] in Ecase.
        - apply Nat.even_spec in Ev. destruct Ev as [m Em].
          destruct (Nat.leb_spec 2 L) as [H2L|H2L]; [|lia]. rewrite andb_true_r in Ecase.
          apply Nat.eqb_neq in Ecase. lia.
        - assert (Hodd : Nat.odd L = true) by (unfold Nat.odd; rewrite Ev; reflexivity).
          apply Nat.odd_spec in Hodd. destruct Hodd as [m Em]. lia. }
      split; [reflexivity | split; [assumption|]].
      split.
      * intros i Hi Hne. apply (H1 i Hi Hne). intros E. apply par_child in E; lia.
      * intros j Hpos Hj Hpj. apply par_child in Hpj; lia.
Qed.

Lemma nth_removelast : forall (l : list entry) i d, (S i < length l)%nat -> nth i (removelast l) d = nth i l d.
Proof.
  induction l as [|a l IH]; intros i d H; [cbn in H; lia|].
  destruct l as [|b l]; [cbn in H; lia|].
  cbn [removelast]. destruct i as [|i]; [reflexivity|].
  cbn [nth]. apply IH. cbn [length] in *. lia.
Qed.

Lemma bh_pop_ord : forall top rest, heap_ord (top :: rest) -> heap_ord (bh_pop (top :: rest)).
Proof.
  intros top rest H. unfold bh_pop. destruct rest as [|r0 rest']; [intros i Hi; cbn in Hi; lia|].
  set (rest := r0 :: rest') in *.
  set (body := last rest top :: removelast rest).
  assert (HLb : length body = length rest).
  { unfold body. cbn [length]. assert (Hne : rest <> []) by (unfold rest; discriminate).
    rewrite (app_removelast_last top Hne) at 2. rewrite app_length. cbn. lia. }
  assert (Hky : forall i, (0 < i < length body)%nat -> ky body i = ky (top :: rest) i).
  { intros i Hi. unfold ky, body. destruct i as [|i]; [lia|]. cbn [nth].
    rewrite nth_removelast by lia. reflexivity. }
  pose proof (sift_down_inv (length body) body 0) as SD. cbv zeta in SD.
  destruct SD as (A & B & C).
  - rewrite HLb. unfold rest. cbn. lia.
  - lia.
  - split.
    + intros i Hi Hne Hpne. unfold ord. assert (Hp : (par i < i)%nat) by (apply par_lt; lia).
      rewrite !Hky by lia. apply H. cbn [length]. lia.
    + intros j Hpos; lia.
  - apply sift_up_ord; [rewrite A; exact B | lia | exact C].
Qed.

Global Opaque bh_pop bh_push.

(* ---------- Dijkstra over the concrete queue: total ---------- *)
Lemma relax_pqc_ord : forall w u ws st st',
    heap_ord (d_heap st) -> relax_pqc w u ws st = DOk st' -> heap_ord (d_heap st').
Proof.
  intros w u ws. induction ws as [|v ws IH]; intros st st' H HR; cbn [relax_pqc] in HR.
  - injection HR as <-. exact H.
  - destruct (nth_error (d_s st) v) as [[|]|]; [eapply IH; eassumption | | discriminate HR].
    destruct (nth_error (d_dist st) u) as [[du|]|]; [| |discriminate HR].
    + destruct (nth_error (d_dist st) v) as [dv|]; [|discriminate HR].
      destruct (lt_inf (du + w u v) dv); [|eapply IH; eassumption].
      eapply IH; [|exact HR]. cbn [d_heap]. apply bh_push_ord. exact H.
    + destruct (nth_error (d_dist st) v) as [dv|]; [eapply IH; eassumption | discriminate HR].
Qed.

Section TotalC.
  Variable nbrs : list (list nat).
  Variable w : nat -> nat -> Z.
  Variables N K k : nat.
  Hypothesis Hwf : wf_graph nbrs N K.
  Hypothesis Hnn : nonneg_w nbrs w.
  Hypothesis Hk : (k < N)%nat.

  Definition inv_pqc (st : dstate) : Prop := inv_pq nbrs w N k st /\ heap_ord (d_heap st).

  Lemma step_pqc_ok : forall st, inv_pqc st ->
      match step_pqc nbrs w K st with
      | None => True
      | Some r => exists st', r = DOk st' /\ inv_pqc st' /\ (measure_pq N K st' < measure_pq N K st)%nat
      end.
  Proof.
    intros st [Hinv Hord].
    destruct (step_pqc nbrs w K st) as [r|] eqn:Es; [|exact I].
    (* the step cannot fail: compare with the abstract step under the queue discipline made for st *)
    assert (Hr : exists st', r = DOk st').
    { unfold step_pqc in Es. destruct (d_heap st) as [|[u d] rest] eqn:Eh; [discriminate Es|].
      cbv beta iota in Es.
      pose proof (heap_ord_is_min (u, d) rest Hord) as Emin.
      pose proof (step_pq_ok nbrs w (pick_for ((u, d) :: rest) (u, d)) N K k Hwf Hnn
                             (pick_for_ok u d rest Emin) Hk st Hinv) as Habs.
      rewrite (step_pq_pick_for nbrs w K st u d rest Eh) in Habs.
      unfold entry in *. rewrite Emin in Es.
      destruct (nth_error (d_dist st) u) as [du|] eqn:Edu.
      2:{ destruct Habs as (sa & Ea & _). discriminate Ea. }
      destruct (gt_inf d du).
      - injection Es as <-. eexists. reflexivity.
      - unfold expand in *. destruct (nbr_row nbrs K u) as [ws| |] eqn:Erow.
        + destruct Habs as (sa & Ea & _).
          pose proof (relax_sim w u ws
                        (mkD (d_dist st) (upd (d_s st) u true) (upd (d_f st) u false) rest)
                        (mkD (d_dist st) (upd (d_s st) u true) (upd (d_f st) u false) (bh_pop ((u, d) :: rest)))
                        ltac:(repeat split; try reflexivity; apply Permutation_sym; apply bh_pop_perm)) as Hs.
          rewrite Ea in Hs. destruct Hs as (b' & Eb & _). unfold entry in *. rewrite Eb in Es.
          injection Es as <-. exists b'. reflexivity.
        + destruct Habs as (sa & Ea & _). discriminate Ea.
        + destruct Habs as (sa & Ea & _). discriminate Ea. }
    destruct Hr as (st' & ->). exists st'. split; [reflexivity|].
    destruct (step_pqc_inv nbrs w N K k Hwf Hnn Hk st st' Hinv Es) as [Hi Hm].
    split; [|exact Hm]. split; [exact Hi|].
    (* heap order of the new queue *)
    unfold step_pqc in Es. destruct (d_heap st) as [|[u d] rest] eqn:Eh; [discriminate Es|].
    cbv beta iota in Es.
    match type of Es with context [is_min ?a ?b] => destruct (is_min a b) end; [|discriminate Es].
    pose proof (bh_pop_ord (u, d) rest Hord) as Hpop.
    destruct (nth_error (d_dist st) u) as [du|]; [|discriminate Es].
    destruct (gt_inf d du).
    - injection Es as <-. exact Hpop.
    - unfold expand in Es. destruct (nbr_row nbrs K u) as [ws| |]; try discriminate Es.
      injection Es as Es. eapply relax_pqc_ord; [|exact Es]. exact Hpop.
  Qed.

  Theorem row_pqc_eq_sp : forall fidx, (fidx < N)%nat ->
      row_pqc nbrs w N K k fidx = DOk (sp_row nbrs w N k).
  Proof.
    intros fidx Hf.
    assert (HR : exists row, row_pqc nbrs w N K k fidx = DOk row).
    { unfold row_pqc, row_of, init_state.
      apply Nat.ltb_lt in Hk as Hk'. apply Nat.ltb_lt in Hf as Hf'. rewrite Hk', Hf'.
      set (st0 := mkD (upd (repeat None N) k (Some 0)) (repeat false N)
                      (upd (repeat false N) fidx true) [(k, 0)]).
      destruct (loop_rule inv_pqc (measure_pq N K) (step_pqc nbrs w K) step_pqc_ok
                          (fuel_of N K) st0) as (st' & EL & _ & _).
      - split; [apply (init_pq nbrs w N k Hk)|]. intros i Hi. cbn in Hi. lia.
      - unfold measure_pq, fuel_of, st0; cbn [d_heap d_s length]. rewrite count_true_repeat_false. nia.
      - rewrite EL. eexists. reflexivity. }
    destruct HR as (row & ER). rewrite ER. f_equal.
    apply (row_pqc_partial nbrs w N K k Hwf Hnn Hk fidx row Hf ER).
  Qed.
End TotalC.

Theorem full_matrix_pqc_correct : forall nbrs w N K,
    wf_graph nbrs N K -> nonneg_w nbrs w -> (0 < N)%nat ->
    full_matrix_pqc nbrs w N = DOk (sp_matrix nbrs w N).
Proof.
  intros nbrs w N K Hwf Hnn HN.
  destruct (wf_first_row nbrs w N K Hwf Hnn HN) as (r0 & rest & E & HK).
  unfold full_matrix_pqc, sp_matrix. rewrite E, HK, <- E.
  apply sequence_map_ok. intros k Hin. apply in_seq in Hin.
  apply (row_pqc_eq_sp nbrs w N K k Hwf Hnn ltac:(lia) k ltac:(lia)).
Qed.

Theorem landmark_matrix_pqc_correct : forall nbrs w N K lm,
    wf_graph nbrs N K -> nonneg_w nbrs w -> (0 < N)%nat -> Forall (fun v => (v < N)%nat) lm ->
    landmark_matrix_pqc nbrs w N lm = DOk (sp_landmarks nbrs w N lm).
Proof.
  intros nbrs w N K lm Hwf Hnn HN Hlm.
  destruct (wf_first_row nbrs w N K Hwf Hnn HN) as (r0 & rest & E & HK).
  unfold landmark_matrix_pqc, sp_landmarks. rewrite E, HK, <- E.
  apply sequence_map_ok. intros src Hin. rewrite Forall_forall in Hlm. specialize (Hlm src Hin).
  apply (row_pqc_eq_sp nbrs w N K src Hwf Hnn Hlm src Hlm).
Qed.

Lemma pqc_fibc_agree : forall nbrs w N K lm,
    wf_graph nbrs N K -> nonneg_w nbrs w -> (0 < N)%nat -> Forall (fun v => (v < N)%nat) lm ->
    full_matrix_pqc nbrs w N = Dijkstra_FibC_Model.full_matrix_fibc nbrs w N /\
    landmark_matrix_pqc nbrs w N lm = Dijkstra_FibC_Model.landmark_matrix_fibc nbrs w N lm.
Proof.
  intros nbrs w N K lm Hwf Hnn HN Hlm. split.
  - rewrite (full_matrix_pqc_correct nbrs w N K Hwf Hnn HN).
    rewrite (Dijkstra_Proof_FibC.full_matrix_fibc_correct nbrs w N K Hwf Hnn HN). reflexivity.
  - rewrite (landmark_matrix_pqc_correct nbrs w N K lm Hwf Hnn HN Hlm).
    rewrite (Dijkstra_Proof_FibC.landmark_matrix_fibc_correct nbrs w N K lm Hwf Hnn HN Hlm). reflexivity.
Qed.

(* non-vacuity: a heap-ordered vector with a tie, and what push / pop make of it (computed) *)
Example heap_ord_example :
    heap_ord [(0%nat, 1); (1%nat, 3); (2%nat, 1); (3%nat, 3)] /\
    bh_push (4%nat, 0) [(0%nat, 1); (1%nat, 3); (2%nat, 1); (3%nat, 3)] =
      [(4%nat, 0); (0%nat, 1); (2%nat, 1); (3%nat, 3); (1%nat, 3)] /\
    bh_pop [(0%nat, 1); (1%nat, 3); (2%nat, 1); (3%nat, 3)] = [(2%nat, 1); (1%nat, 3); (3%nat, 3)].
Proof.
  split; [|split; vm_compute; reflexivity].
  intros i Hi. cbn [length] in Hi.
  destruct i as [|[|[|[|i]]]]; try lia; unfold ord; vm_compute; discriminate.
Qed.
