(* FibHeap_Proof_Many.v — several heaps alive at once (property C16).

   compute_shortest_distances_matrix keeps one heap per thread; the operations of the different heaps are
   interleaved arbitrarily in time.  The model of that program is a family of heaps (nat -> heap) driven by
   operations tagged with the heap they address; run_many executes any interleaving.  Because the real heap
   keeps all of its state in its own object (fh_state_is_own_record: the obligation over the source-generated
   table), one operation touches one member of the family only, which is how step is lifted here.

   many_projects: whatever the interleaving, each heap goes through exactly the history addressed to it, and
   sees exactly the outputs it would see running alone.  With fh_refines_map this gives many_refine: every heap of
   the family ends in a state satisfying the invariant and every output is allowed by the finite-map
   specification. *)
From Coq Require Import List ZArith Arith Bool Lia.
From TK Require Import FibHeap_Model FibHeap_SpecExec FibHeap_Proof_Basics FibHeap_Proof_Main.
Import ListNotations.

Definition fam := nat -> heap.

Definition fam_set (f : fam) (j : nat) (h : heap) : fam := fun i => if Nat.eqb i j then h else f i.

Fixpoint run_many (f : fam) (ops : list (nat * op)) : res (fam * list (nat * out)) :=
  match ops with
  | [] => Ok (f, [])
  | (j, o) :: ops' =>
    match step (f j) o with
    | Ok (h', x) =>
      match run_many (fam_set f j h') ops' with
      | Ok (f', xs) => Ok (f', (j, x) :: xs)
      | OOB d s => OOB d s
      | OutOfFuel => OutOfFuel
      end
    | OOB d s => OOB d s
    | OutOfFuel => OutOfFuel
    end
  end.

(* the part of a tagged list addressed to heap j *)
Fixpoint proj {A : Type} (j : nat) (l : list (nat * A)) : list A :=
  match l with
  | [] => []
  | (i, a) :: l' => if Nat.eqb i j then a :: proj j l' else proj j l'
  end.

Lemma fam_set_same f j h : fam_set f j h j = h.
Proof. unfold fam_set. rewrite Nat.eqb_refl. reflexivity. Qed.

Lemma fam_set_other f j h i : i <> j -> fam_set f j h i = f i.
Proof. intros Hne. unfold fam_set. destruct (Nat.eqb_spec i j) as [E | _]; [contradiction | reflexivity]. Qed.

Theorem many_projects : forall ops f f' xs,
  run_many f ops = Ok (f', xs) ->
  forall j, run (f j) (proj j ops) = Ok (f' j, proj j xs).
Proof.
  induction ops as [| [i o] ops IH]; intros f f' xs Hrun j; cbn [run_many] in Hrun.
  - inversion Hrun; subst. reflexivity.
  - destruct (step (f i) o) as [[h' x] | d s |] eqn:Hstep; try discriminate.
    destruct (run_many (fam_set f i h') ops) as [[f'' xs'] | d s |] eqn:Hrest; try discriminate.
    inversion Hrun; subst f' xs. clear Hrun.
    specialize (IH _ _ _ Hrest j).
    cbn [proj]. destruct (Nat.eqb_spec i j) as [E | Hne].
    + subst i. cbn [run]. rewrite Hstep. rewrite fam_set_same in IH. rewrite IH. reflexivity.
    + rewrite fam_set_other in IH by (intro E; apply Hne; symmetry; exact E). exact IH.
Qed.

(* conversely: if every heap completes its own history, every interleaving of those histories completes *)
Theorem many_completes : forall ops f,
  (forall j, exists r, run (f j) (proj j ops) = Ok r) ->
  exists r, run_many f ops = Ok r.
Proof.
  induction ops as [| [i o] ops IH]; intros f Hall; cbn [run_many].
  - eexists; reflexivity.
  - destruct (Hall i) as [[hi xsi] Hi]. cbn [proj] in Hi. rewrite Nat.eqb_refl in Hi. cbn [run] in Hi.
    destruct (step (f i) o) as [[h' x] | d s |] eqn:Hstep; try discriminate.
    destruct (run h' (proj i ops)) as [[h'' xs'] | d s |] eqn:Hr; try discriminate.
    destruct (IH (fam_set f i h')) as [[f' xs] Hrest].
    + intros j. destruct (Nat.eq_dec j i) as [E | Hne].
      * subst j. rewrite fam_set_same. eexists; exact Hr.
      * rewrite fam_set_other by exact Hne.
        destruct (Hall j) as [r Hj]. cbn [proj] in Hj.
        destruct (Nat.eqb_spec i j) as [E | _]; [exfalso; apply Hne; symmetry; exact E |].
        eexists; exact Hj.
    + rewrite Hrest. eexists; reflexivity.
Qed.

(* every heap of the family refines the finite map, whatever the interleaving *)
Theorem many_refine : forall ops cap dn f' xs,
  (forall j, (0 <= cap j)%Z) ->
  run_many (fun j => empty_heap (cap j) (dn j)) ops = Ok (f', xs) ->
  forall j, Inv (f' j) /\ spec_run_b (cap j) [] (proj j ops) (proj j xs) 0 = None.
Proof.
  intros ops cap dn f' xs Hcap Hrun j.
  pose proof (many_projects _ _ _ _ Hrun j) as Hj. cbn beta in Hj.
  exact (fh_refines_map (cap j) (dn j) (proj j ops) (f' j) (proj j xs) (Hcap j) Hj).
Qed.

(* non-vacuity: two heaps of different capacity, operations interleaved *)
Example many_nonvacuous : exists f' xs,
  run_many (fun j => empty_heap (if Nat.eqb j 0 then 4%Z else 8%Z) 4)
           [(0, Insert 0%Z 5%Z); (1, Insert 3%Z 2%Z); (0, Insert 1%Z 3%Z); (1, Insert 0%Z 9%Z); (1, ExtractMin);
            (0, ExtractMin); (1, Decrease 0%Z 1%Z); (0, ExtractMin); (1, ExtractMin); (0, ExtractMin)] = Ok (f', xs)
  /\ length (proj 0 xs) = 5 /\ length (proj 1 xs) = 5.
Proof. eexists; eexists. vm_compute. repeat split. Qed.
