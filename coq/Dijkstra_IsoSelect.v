(* Dijkstra_IsoSelect.v — the dense LargestEigenvalues path between embed() and the solver
   (include/tapkee/routines/eigendecomposition.hpp, eigendecomposition_impl_dense, `largest` branch):

       dense_wm = wm;  dense_wm += dense_wm.transpose().eval();  dense_wm /= 2.0;     -> sym_avg
       DenseSelfAdjointEigenSolver solver(dense_wm);                                  -> ORACLE (all n pairs)
       selected_eigenvectors = solver.eigenvectors().rightCols(target_dimension);     -> columns n-d .. n-1
       return (selected_eigenvectors, solver.eigenvalues().tail(target_dimension));   -> values  n-d .. n-1
   followed by the scaling loop of embed() with `sqrt(std::max(lambda, 0.0))` (commit 93782a6).

   Oracle contract of Eigen::SelfAdjointEigenSolver (DESIGN 1.3), as hypotheses over Qc:
       Vf : n x n, Lf : n,   (sym_avg M) Vf = Vf diag(Lf),  Vf^T Vf = I,  Lf ascending
   and of sqrt(max(x,0)):  x >= 0 -> s*s = x ;  x < 0 -> s = 0.
   Theorem isomap_embedding_top_d: the returned Y consists of eigenvectors of -1/2 J S J for the d LARGEST
   eigenvalues of the spectrum, mutually orthogonal, column j of squared length max(lambda_j, 0): the
   classical-MDS configuration.  What stays outside: that this configuration is the best rank-d fit
   (Eckart-Young, a fact about classical MDS, not about tapkee) and the oracles themselves. *)
From Coq Require Import Field Ring List ZArith Arith Lia Qcanon.
From TK Require Import Mat_Sums Mat_Core Mat_Qc Dijkstra_IsoModel Dijkstra_Proof_Iso Dijkstra_IsoEmbed.
Import ListNotations.

Add Field IsoSelectQc : (@Fth Qc QcOps QcField).

(* rightCols(d) / tail(d) of an n-column object *)
Definition sel_cols (n d : nat) (Vf : mat Qc) : mat Qc := fun i j => Vf i (n - d + j)%nat.
Definition sel_vals (n d : nat) (Lf : vec Qc) : vec Qc := fun j => Lf (n - d + j)%nat.

Lemma iso_fixed_msym : forall n (G : mat Qc), msym n (iso_fixed n G).
Proof.
  intros n G i j Hi Hj. unfold iso_fixed, mscale. f_equal.
  apply center_matrix_msym; [apply sym_avg_sym | assumption | assumption].
Qed.

Section Select.
  Variables n d : nat.
  Variable G : mat Qc.
  Variable Vf : mat Qc.
  Variable Lf s : vec Qc.
  Hypothesis Hn : n <> 0%nat.
  Hypothesis Hd : (d <= n)%nat.
  Local Open Scope F_scope.

  Hypothesis Heig : forall i j, (i < n)%nat -> (j < n)%nat ->
      sumn n (fun t => seen_by_dense (iso_fixed n G) i t * Vf t j) = Lf j * Vf i j.
  Hypothesis Horth : forall a b, (a < n)%nat -> (b < n)%nat ->
      sumn n (fun t => Vf t a * Vf t b) = delta a b.
  Hypothesis Hasc : forall a b, (a <= b)%nat -> (b < n)%nat -> (Lf a <= Lf b)%Qc.
  Hypothesis Hsqrt_pos : forall j, (j < d)%nat -> (0 <= sel_vals n d Lf j)%Qc ->
      s j * s j = sel_vals n d Lf j.
  Hypothesis Hsqrt_neg : forall j, (j < d)%nat -> (sel_vals n d Lf j < 0)%Qc -> s j = 0.

  Notation V := (sel_cols n d Vf).
  Notation lam := (sel_vals n d Lf).
  Notation Y := (scale_cols (sel_cols n d Vf) s).

  Lemma two_neq0_Qc : (@two Qc QcOps) <> 0.
  Proof. apply Qc_two_neq0. Qed.

  (* the dense front-end's (M + M^T)/2 changes nothing: embed() hands over a symmetric matrix *)
  Lemma seen_is_mds : forall i t, (i < n)%nat -> (t < n)%nat ->
      seen_by_dense (iso_fixed n G) i t = mds_ref n G i t.
  Proof.
    intros i t Hi Ht. unfold seen_by_dense.
    rewrite (sym_avg_of_sym n (iso_fixed n G) two_neq0_Qc (iso_fixed_msym n G) i t Hi Ht).
    apply iso_fixed_is_mds_Qc; assumption.
  Qed.

  (* (a) the selected eigenvalues are the d largest of the spectrum *)
  Lemma selected_are_largest : forall j t, (j < d)%nat -> (t < n - d)%nat -> (Lf t <= lam j)%Qc.
  Proof. intros j t Hj Ht. unfold sel_vals. apply Hasc; lia. Qed.

  Lemma sel_eig : forall i j, (i < n)%nat -> (j < d)%nat ->
      sumn n (fun t => mds_ref n G i t * V t j) = lam j * V i j.
  Proof.
    intros i j Hi Hj. unfold sel_cols, sel_vals.
    rewrite <- (Heig i (n - d + j)%nat Hi ltac:(lia)).
    apply sumn_ext. intros t Ht. rewrite seen_is_mds by assumption. reflexivity.
  Qed.

  Lemma sel_orth : forall a b, (a < d)%nat -> (b < d)%nat ->
      sumn n (fun t => V t a * V t b) = delta a b.
  Proof.
    intros a b Ha Hb. unfold sel_cols. rewrite Horth by lia. unfold delta.
    destruct (Nat.eqb_spec a b) as [->|Hne].
    - rewrite Nat.eqb_refl. reflexivity.
    - destruct (Nat.eqb_spec (n - d + a) (n - d + b)) as [E|E]; [lia | reflexivity].
  Qed.

  (* (b) every returned column is an eigenvector of -1/2 J S J for its eigenvalue (a zero column when the
     eigenvalue is negative) *)
  Lemma emb_eigen : forall i j, (i < n)%nat -> (j < d)%nat ->
      sumn n (fun t => mds_ref n G i t * Y t j) = lam j * Y i j.
  Proof.
    intros i j Hi Hj. unfold scale_cols.
    rewrite (sumn_ext n _ (fun t => (mds_ref n G i t * V t j) * s j)) by (intros; ring).
    rewrite sumn_mul_r, sel_eig by assumption. ring.
  Qed.

  (* (c) columns mutually orthogonal, squared length max(lambda_j, 0) *)
  Lemma emb_gram : forall a b, (a < d)%nat -> (b < d)%nat ->
      sumn n (fun t => Y t a * Y t b) =
      if Nat.eqb a b then (if Qclt_le_dec (lam a) 0 then 0 else lam a) else 0.
  Proof.
    intros a b Ha Hb. unfold scale_cols.
    rewrite (sumn_ext n _ (fun t => (s a * s b) * (V t a * V t b))) by (intros; ring).
    rewrite sumn_mul_l, sel_orth by assumption. unfold delta.
    destruct (Nat.eqb_spec a b) as [<-|Hne]; [|ring].
    destruct (Qclt_le_dec (lam a) 0) as [Hneg|Hpos].
    - rewrite (Hsqrt_neg a Ha Hneg). ring.
    - rewrite (Hsqrt_pos a Ha Hpos). ring.
  Qed.

  Theorem isomap_embedding_top_d :
      (forall j t, (j < d)%nat -> (t < n - d)%nat -> (Lf t <= lam j)%Qc) /\
      (forall i j, (i < n)%nat -> (j < d)%nat ->
          sumn n (fun t => mds_ref n G i t * Y t j) = lam j * Y i j) /\
      (forall a b, (a < d)%nat -> (b < d)%nat ->
          sumn n (fun t => Y t a * Y t b) =
          if Nat.eqb a b then (if Qclt_le_dec (lam a) 0 then 0 else lam a) else 0).
  Proof. split; [exact selected_are_largest | split; [exact emb_eigen | exact emb_gram]]. Qed.
End Select.

(* non-vacuity: the four-sample instance of Dijkstra_IsoEmbed.v with its FULL decomposition
   (Hadamard basis / 2; spectrum 0,0,0,4 ascending), d = 1 *)
Definition emb_Vf : mat Qc :=
  mof (map (map (fun z => qfrac z 2))
           [[1; 1; 1; 1]; [1; 1; -1; -1]; [1; -1; -1; 1]; [1; -1; 1; -1]]%Z).
Definition emb_Lf : vec Qc := fun j => if Nat.eqb j 3 then qz 4 else qz 0.

Example isomap_select_contract_satisfiable :
    let n := 4%nat in let d := 1%nat in let s : vec Qc := fun _ => qz 2 in
    n <> 0%nat /\ (d <= n)%nat /\
    (forall i j, (i < n)%nat -> (j < n)%nat ->
        sumn n (fun t => seen_by_dense (iso_fixed n emb_G) i t * emb_Vf t j) = emb_Lf j * emb_Vf i j)%F /\
    (forall a b, (a < n)%nat -> (b < n)%nat -> sumn n (fun t => emb_Vf t a * emb_Vf t b) = delta a b)%F /\
    (forall a b, (a <= b)%nat -> (b < n)%nat -> (emb_Lf a <= emb_Lf b)%Qc) /\
    (forall j, (j < d)%nat -> (0 <= sel_vals n d emb_Lf j)%Qc -> s j * s j = sel_vals n d emb_Lf j)%F /\
    (forall j, (j < d)%nat -> (sel_vals n d emb_Lf j < 0)%Qc -> s j = 0)%F /\
    scale_cols (sel_cols n d emb_Vf) s 1%nat 0%nat = qz (-1).
Proof.
  cbv zeta. split; [discriminate|]. split; [lia|]. split; [|split; [|split; [|split; [|split]]]].
  - intros i j Hi Hj.
    destruct i as [|[|[|[|i]]]]; try lia; destruct j as [|[|[|[|j]]]]; try lia;
      apply Qc_is_canon; vm_compute; reflexivity.
  - intros a b Ha Hb.
    destruct a as [|[|[|[|a]]]]; try lia; destruct b as [|[|[|[|b]]]]; try lia;
      apply Qc_is_canon; vm_compute; reflexivity.
  - intros a b Hab Hb.
    destruct a as [|[|[|[|a]]]]; try lia; destruct b as [|[|[|[|b]]]]; try lia;
      vm_compute; discriminate.
  - intros j Hj _. assert (j = 0%nat) by lia. subst. apply Qc_is_canon. vm_compute. reflexivity.
  - intros j Hj Hneg. assert (j = 0%nat) by lia. subst. exfalso. vm_compute in Hneg. discriminate.
  - apply Qc_is_canon. vm_compute. reflexivity.
Qed.
