(* QuadTree_Proof_Dump.v — from the checker's verdict on ANY tree to the force clauses for that tree.
   The force theorems of QuadTree_Proof_Forces / _Bound are about trees built by the model's insert.
   Here they are re-proved from the specification alone: if `spec data ins t` holds (in particular if
   the extracted struct_okb accepted the dump of the REAL tree, with the exact means put in: recom)
   and no two inserted points coincide, then computeNonEdgeForces on THAT tree returns the exact
   all-pairs sums at theta = 0 and stays within the (9 theta + 8 theta^2) bounds for 8 theta^2 <= 1.
   So for the force clauses the hand-written model of insert/subdivide is not in the trusted path of
   the correspondence run: what is compared with the C++ is only forces_at on the dumped tree. *)
From Coq Require Import List Arith Bool ZArith QArith Permutation Lia Lqa.
From TK Require Import QuadTree_Model QuadTree_Spec QuadTree_SpecExec QuadTree_Proof_Base
                       QuadTree_Proof_Insert QuadTree_Proof_Main QuadTree_Proof_Forces
                       QuadTree_Proof_Spec QuadTree_Proof_Exec QuadTree_Proof_Bound.
Import ListNotations.
Local Open Scope Q_scope.

(* the indices routed into a leaf, under NoCo, are exactly the stored one *)
Lemma leaf_singleton : forall data L l j,
  NoCo data L -> incl l L -> In j L -> NoCo data l -> l <> [] ->
  (forall x, In x l -> coinc data x j) -> l = [j].
Proof.
  intros data L l j [_ HU] Hl Hj [Hnd _] Hne Hco.
  assert (Hall : forall x, In x l -> x = j).
  { intros x Hx. apply HU; [apply Hl; exact Hx | exact Hj | apply Hco; exact Hx]. }
  pose proof (all_same_nodup_len l j Hall Hnd) as Hlen.
  destruct l as [|a [|b l]]; cbn in Hlen; try lia; [congruence|].
  f_equal. apply Hall. left. reflexivity.
Qed.

Lemma incl_app4 : forall (l l1 l2 l3 l4 L : list nat),
  Permutation l (l1 ++ l2 ++ l3 ++ l4) -> incl l L ->
  incl l1 L /\ incl l2 L /\ incl l3 L /\ incl l4 L.
Proof.
  intros l l1 l2 l3 l4 L HP Hl.
  assert (H : forall x, In x (l1 ++ l2 ++ l3 ++ l4) -> In x L).
  { intros x Hx. apply Hl. apply (Permutation_in _ (Permutation_sym HP) Hx). }
  repeat split; intros x Hx; apply H.
  - apply in_or_app; auto.
  - apply in_or_app; right; apply in_or_app; auto.
  - apply in_or_app; right; apply in_or_app; right; apply in_or_app; auto.
  - apply in_or_app; right; apply in_or_app; right; apply in_or_app; auto.
Qed.

Lemma incl_idx4 : forall (a b c d L : list nat),
  incl (a ++ b ++ c ++ d) L -> incl a L /\ incl b L /\ incl c L /\ incl d L.
Proof.
  intros a b c d L H. repeat split; intros x Hx; apply H.
  - apply in_or_app; auto.
  - apply in_or_app; right; apply in_or_app; auto.
  - apply in_or_app; right; apply in_or_app; right; apply in_or_app; auto.
  - apply in_or_app; right; apply in_or_app; right; apply in_or_app; auto.
Qed.

Lemma NoCo_split4 : forall data l l1 l2 l3 l4,
  Permutation l (l1 ++ l2 ++ l3 ++ l4) -> NoCo data l ->
  NoCo data l1 /\ NoCo data l2 /\ NoCo data l3 /\ NoCo data l4.
Proof.
  intros data l l1 l2 l3 l4 HP HN.
  pose proof (NoCo_perm _ _ _ HP HN) as HN'.
  pose proof (NoCo_app_l _ _ _ HN') as N1.
  pose proof (NoCo_app_r _ _ _ HN') as HN2.
  pose proof (NoCo_app_l _ _ _ HN2) as N2.
  pose proof (NoCo_app_r _ _ _ HN2) as HN3.
  pose proof (NoCo_app_l _ _ _ HN3) as N3.
  pose proof (NoCo_app_r _ _ _ HN3) as N4.
  auto.
Qed.

(* ---------- theta = 0 ---------- *)

Lemma forces_theta0_Routed : forall data l t,
  Routed data l t ->
  forall L, NoCo data L -> incl l L -> incl (all_indices t) L -> NoCo data l ->
  forall p i a, feq (forces_at p i 0 t a) (fadd a (exact_sums data p i l)).
Proof.
  intros data l t H.
  induction H as [c com | c j cnt cum com l Hne Hco Hin Hagg
                 | c cum com nw ne sw se l l1 l2 l3 l4 HP R1 IH1 R2 IH2 R3 IH3 R4 IH4 Hins Hagg];
    intros L HL Hl Hidx HN p i a.
  - cbn [forces_at exact_sums Nat.eqb]. apply feq_sym, fadd_0_r.
  - assert (Hj : In j L) by (apply Hidx; left; reflexivity).
    pose proof (leaf_singleton data L l j HL Hl Hj HN Hne Hco) as El. subst l.
    destruct Hagg as (Hc & Hx & Hy). cbn [length] in Hc. subst cum.
    cbn [forces_at exact_sums Nat.eqb].
    destruct (j =? i)%nat; [apply feq_sym, fadd_0_r|].
    destruct (Hin j (or_introl eq_refl)) as (pj & Hpj & _).
    cbn [sumx sumy] in Hx, Hy. rewrite (pt_at_nth_error _ _ _ Hpj) in *.
    assert (E : pt_eq com pj).
    { change (Qn 1) with 1 in Hx, Hy. split; lra. }
    eapply feq_trans; [apply (add_summary_one p com pj a E)|].
    apply fadd_feq; [apply feq_refl | apply feq_sym, fadd_0_r].
  - cbn [forces_at].
    destruct (NoCo_split4 data l l1 l2 l3 l4 HP HN) as (N1 & N2 & N3 & N4).
    destruct (incl_app4 l l1 l2 l3 l4 L HP Hl) as (S1 & S2 & S3 & S4).
    cbn [all_indices] in Hidx. destruct (incl_idx4 _ _ _ _ L Hidx) as (X1 & X2 & X3 & X4).
    destruct (cum =? 0)%nat eqn:Ecum.
    + apply Nat.eqb_eq in Ecum. destruct Hagg as (Hc & _). rewrite Ecum in Hc.
      destruct l; [|discriminate]. cbn [exact_sums]. apply feq_sym, fadd_0_r.
    + rewrite summary_ok_0.
      eapply feq_trans; [apply (IH4 L HL S4 X4 N4)|].
      eapply feq_trans; [apply fadd_feq; [apply (IH3 L HL S3 X3 N3) | apply feq_refl]|].
      eapply feq_trans; [apply fadd_feq; [apply fadd_feq; [apply (IH2 L HL S2 X2 N2) | apply feq_refl] | apply feq_refl]|].
      eapply feq_trans;
        [apply fadd_feq; [apply fadd_feq; [apply fadd_feq; [apply (IH1 L HL S1 X1 N1) | apply feq_refl]
                                          | apply feq_refl] | apply feq_refl]|].
      eapply feq_trans; [apply fadd_assoc|].
      eapply feq_trans; [apply fadd_assoc|].
      eapply feq_trans; [apply fadd_assoc|].
      apply fadd_feq; [apply feq_refl|].
      eapply feq_trans; [|apply feq_sym, (exact_sums_perm data p i _ _ HP)].
      eapply feq_trans; [|apply feq_sym, exact_sums_app].
      apply fadd_feq; [apply feq_refl|].
      eapply feq_trans; [|apply feq_sym, exact_sums_app].
      apply fadd_feq; [apply feq_refl|].
      apply feq_sym, exact_sums_app.
Qed.

(* ---------- the error bound ---------- *)

Lemma bound_Routed : forall data l t,
  Routed data l t ->
  forall L, NoCo data L -> incl l L -> incl (all_indices t) L -> NoCo data l ->
  forall theta, 0 <= theta -> 8 * (theta * theta) <= 1 ->
  forall p i, nth_error data i = Some p ->
    bound theta (forces_at p i theta t (0, 0, 0)) (exact_sums data p i l).
Proof.
  intros data l t H.
  induction H as [c com | c j cnt cum com l Hne Hco Hin Hagg
                 | c cum com nw ne sw se l l1 l2 l3 l4 HP R1 IH1 R2 IH2 R3 IH3 R4 IH4 Hins Hagg];
    intros L HL Hl Hidx HN theta Ht Ht8 p i Hp.
  - cbn [forces_at exact_sums Nat.eqb]. apply bound_same; [exact Ht | cbn; lra].
  - assert (Hj : In j L) by (apply Hidx; left; reflexivity).
    pose proof (leaf_singleton data L l j HL Hl Hj HN Hne Hco) as El. subst l.
    destruct Hagg as (Hc & Hx & Hy). cbn [length] in Hc. subst cum.
    cbn [forces_at exact_sums Nat.eqb].
    destruct (j =? i)%nat; [apply bound_same; [exact Ht | cbn; lra]|].
    destruct (Hin j (or_introl eq_refl)) as (pj & Hpj & _).
    cbn [sumx sumy] in Hx, Hy. rewrite (pt_at_nth_error _ _ _ Hpj) in *.
    assert (E : pt_eq com pj).
    { change (Qn 1) with 1 in Hx, Hy. split; lra. }
    set (term := (qij p pj * qij p pj * (fst p - fst pj), qij p pj * qij p pj * (snd p - snd pj), qij p pj)).
    apply (bound_feq theta (fadd (0, 0, 0) term) _ (fadd term (0, 0, 0))).
    + apply feq_sym. apply (add_summary_one p com pj (0, 0, 0) E).
    + apply feq_refl.
    + apply (bound_feq theta term _ term); [apply feq_sym, fadd_0_l | apply feq_sym, fadd_0_r|].
      apply bound_same; [exact Ht|]. unfold term. cbn [snd]. pose proof (qij_pos p pj). lra.
  - cbn [forces_at].
    destruct (NoCo_split4 data l l1 l2 l3 l4 HP HN) as (N1 & N2 & N3 & N4).
    destruct (incl_app4 l l1 l2 l3 l4 L HP Hl) as (S1 & S2 & S3 & S4).
    cbn [all_indices] in Hidx. destruct (incl_idx4 _ _ _ _ L Hidx) as (X1 & X2 & X3 & X4).
    destruct (cum =? 0)%nat eqn:Ecum.
    { apply Nat.eqb_eq in Ecum. destruct Hagg as (Hc & _). rewrite Ecum in Hc.
      destruct l; [|discriminate]. cbn [exact_sums]. apply bound_same; [exact Ht | cbn; lra]. }
    destruct (summary_ok c theta (sqdist p com)) eqn:Esum.
    + destruct (summary_ok_true _ _ _ Esum) as (Hcrit & HD).
      assert (Hne : l <> []).
      { intro E. subst l. destruct Hagg as (Hc & _). cbn in Hc. subst cum. discriminate. }
      assert (Hbox : forall k, In k l -> contains c (pt_at data k) = true).
      { intros k Hk. destruct (Hins k Hk) as (y & Hy & Hcy). rewrite (pt_at_nth_error _ _ _ Hy). exact Hcy. }
      pose proof (mean_in_box data l cum com c Hne Hagg Hbox) as Hcom.
      set (m := qmax (chh c) (chw c)) in *.
      pose proof (sq_nonneg m) as Hmm. pose proof (sq_nonneg theta) as Htt.
      assert (Hth : 0 < theta).
      { destruct (Qlt_le_dec 0 theta) as [K|K]; [exact K|exfalso].
        assert (Z : theta == 0) by lra. rewrite Z in Hcrit. lra. }
      assert (Hnot : ~ In i l).
      { intro Hi. destruct (Hins i Hi) as (y & Hy & Hcy). rewrite Hp in Hy. injection Hy as <-.
        apply contains_iff in Hcy. pose proof Hcom as Hc'. apply contains_iff in Hc'.
        pose proof (qmax_ge_l (chh c) (chw c)) as M1. pose proof (qmax_ge_r (chh c) (chw c)) as M2. fold m in M1, M2.
        assert (Hm : 0 <= m) by lra.
        set (vx := fst p - fst com). set (vy := snd p - snd com).
        assert (Vx : vx*vx <= 4*m*m).
        { assert (P : 0 <= (2*m - vx)*(2*m+vx)) by (apply Qmult_le_0_compat; unfold vx; lra).
          assert (E1 : (2*m - vx)*(2*m+vx) == 4*m*m - vx*vx) by ring. lra. }
        assert (Vy : vy*vy <= 4*m*m).
        { assert (P : 0 <= (2*m - vy)*(2*m+vy)) by (apply Qmult_le_0_compat; unfold vy; lra).
          assert (E1 : (2*m - vy)*(2*m+vy) == 4*m*m - vy*vy) by ring. lra. }
        assert (ED : sqdist p com == vx*vx + vy*vy) by (unfold sqdist, vx, vy; ring).
        assert (K1 : theta*theta*sqdist p com <= theta*theta*(8*(m*m))).
        { rewrite (Qmult_comm (theta*theta) (sqdist p com)), (Qmult_comm (theta*theta) (8*(m*m))).
          apply Qmult_le_compat_r; [lra | exact Htt]. }
        assert (K2 : (8*(theta*theta))*(m*m) <= 1*(m*m)) by (apply Qmult_le_compat_r; assumption).
        assert (K3 : theta*theta*(8*(m*m)) == (8*(theta*theta))*(m*m)) by ring.
        lra. }
      destruct (cell_sums data p com c theta Hth Hcom Hcrit l Hbox) as ((Q1 & Q2) & SB).
      destruct (SB fst (or_introl eq_refl)) as (F1 & F2). destruct (SB snd (or_intror eq_refl)) as (G1 & G2).
      destruct Hagg as (Hc & Hx & Hy).
      rewrite sumd_fst in F1, F2. rewrite sumd_snd in G1, G2. rewrite <- Hc in Q1, Q2, F1, F2, G1, G2.
      rewrite <- Hx in F1, F2. rewrite <- Hy in G1, G2.
      apply (bound_feq theta (add_summary p cum com (0, 0, 0)) _ (ef fst data p l, ef snd data p l, esq data p l));
        [apply feq_refl | apply feq_sym, exact_sums_notin; exact Hnot |].
      unfold bound, add_summary. cbn [fst snd]. rewrite !Qred_correct.
      set (q := 1 / (1 + sqdist p com)) in *.
      pose proof (esq_nonneg data p l) as He.
      assert (EA : 0 + Qn cum * q * q * (fst p - fst com) == q * q * (Qn cum * fst p - Qn cum * fst com)) by ring.
      assert (EB : 0 + Qn cum * q * q * (snd p - snd com) == q * q * (Qn cum * snd p - Qn cum * snd com)) by ring.
      assert (EC : 0 + Qn cum * q == Qn cum * q) by ring.
      rewrite EA, EB, EC. repeat split; assumption.
    + set (z := (0, 0, 0) : facc).
      pose proof (IH1 L HL S1 X1 N1 theta Ht Ht8 p i Hp) as B1. pose proof (IH2 L HL S2 X2 N2 theta Ht Ht8 p i Hp) as B2.
      pose proof (IH3 L HL S3 X3 N3 theta Ht Ht8 p i Hp) as B3. pose proof (IH4 L HL S4 X4 N4 theta Ht Ht8 p i Hp) as B4.
      fold z in B1, B2, B3, B4.
      apply (bound_feq theta
               (fadd (fadd (fadd (forces_at p i theta nw z) (forces_at p i theta ne z)) (forces_at p i theta sw z))
                     (forces_at p i theta se z)) _
               (fadd (fadd (fadd (exact_sums data p i l1) (exact_sums data p i l2)) (exact_sums data p i l3))
                     (exact_sums data p i l4))).
      * apply feq_sym.
        eapply feq_trans; [apply forces_at_acc|]. apply fadd_feq; [|apply feq_refl].
        eapply feq_trans; [apply forces_at_acc|]. apply fadd_feq; [|apply feq_refl].
        eapply feq_trans; [apply forces_at_acc|]. apply fadd_feq; [|apply feq_refl].
        apply feq_refl.
      * apply feq_sym.
        eapply feq_trans; [apply (exact_sums_perm data p i _ _ HP)|].
        eapply feq_trans; [apply exact_sums_app|].
        eapply feq_trans; [apply fadd_feq; [apply feq_refl | apply exact_sums_app]|].
        eapply feq_trans; [apply fadd_feq; [apply feq_refl | apply fadd_feq; [apply feq_refl | apply exact_sums_app]]|].
        eapply feq_trans; [apply feq_sym, fadd_assoc|].
        eapply feq_trans; [apply feq_sym, fadd_assoc|].
        apply feq_refl.
      * apply bound_add; [apply bound_add; [apply bound_add|]|]; assumption.
Qed.

(* ---------- from `spec`, hence from the checker's verdict ---------- *)

Theorem spec_forces_gen : forall data ins t,
  spec data ins t -> NoCo data ins ->
  forall i p, nth_error data i = Some p ->
    (forall a, feq (forces_at p i 0 t a) (fadd a (exact_sums data p i ins))) /\
    (forall theta, 0 <= theta -> 8 * (theta * theta) <= 1 ->
       bound theta (forces_at p i theta t (0, 0, 0)) (exact_sums data p i ins)).
Proof.
  intros data ins t ((l & HP & HR) & Hidx & _) HN i p Hp.
  assert (HNl : NoCo data l) by (apply (NoCo_perm _ _ _ HP HN)).
  assert (Hl : incl l ins) by (intros x Hx; apply (Permutation_in _ (Permutation_sym HP) Hx)).
  split.
  - intro a. eapply feq_trans; [apply (forces_theta0_Routed data l t HR ins HN Hl Hidx HNl)|].
    apply fadd_feq; [apply feq_refl | apply exact_sums_perm, Permutation_sym, HP].
  - intros theta Ht Ht8.
    apply (bound_feq theta (forces_at p i theta t (0, 0, 0)) _ (exact_sums data p i l));
      [apply feq_refl | apply exact_sums_perm, Permutation_sym, HP |].
    apply (bound_Routed data l t HR ins HN Hl Hidx HNl theta Ht Ht8 p i Hp).
Qed.

Theorem dump_forces_gen : forall data ins t,
  struct_okb data ins t = true -> NoCo data ins ->
  forall i p, nth_error data i = Some p ->
    (forall a, feq (forces_at p i 0 (recom data ins t) a) (fadd a (exact_sums data p i ins))) /\
    (forall theta, 0 <= theta -> 8 * (theta * theta) <= 1 ->
       bound theta (forces_at p i theta (recom data ins t) (0, 0, 0)) (exact_sums data p i ins)).
Proof.
  intros data ins t H HN i p Hp.
  apply (spec_forces_gen data ins (recom data ins t) (struct_okb_sound_gen data ins t H) HN i p Hp).
Qed.
