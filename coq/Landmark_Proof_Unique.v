(* ====================================================================== *)
(*  Landmark_Proof_Unique.v — unit eigenvectors of a SIMPLE eigenvalue of  *)
(*  a symmetric matrix are unique up to sign (given a full orthonormal     *)
(*  eigendecomposition), and with it the landmark_ratio = 1 clause of C11  *)
(*  for Landmark MDS at full strength: the output equals MDS's output up   *)
(*  to column signs, for ANY two solver answers that meet the contract.    *)
(* ====================================================================== *)
Require Import Field Ring Arith Lia List Bool Permutation.
From TK Require Import Mat_Sums Mat_Core Landmark_Model Landmark_Spec
                       Landmark_Proof_Trace Landmark_Proof_Euclid Landmark_Proof_Main Landmark_Proof_Ratio.
Import ListNotations.

Section Unique.
  Context {F : Type} {Fo : FieldOps F} {Ff : IsField F}.
  Add Field LandmarkUniqueField : (@Fth F Fo Ff).
  Local Open Scope nat_scope.
  Local Open Scope F_scope.

  (* a full orthonormal eigendecomposition: Q^T Q = I, Q Q^T = I, B Q = Q diag(Lam) *)
  Definition full_eig (n : nat) (B Q : mat F) (Lam : vec F) : Prop :=
    meq n n (mmul n (mtrans Q) Q) mI /\
    meq n n (mmul n Q (mtrans Q)) mI /\
    meq n n (mmul n B Q) (mmul n Q (mdiag Lam)).

  Variable Feq_dec : forall x y : F, {x = y} + {x <> y}.

  Lemma eigvec_unique n (B Q : mat F) (Lam : vec F) (k : nat) (v : vec F) :
    msym n B -> full_eig n B Q Lam -> k < n ->
    (forall j, j < n -> j <> k -> Lam j <> Lam k) ->
    (forall i, i < n -> sumn n (fun t => B i t * v t) = Lam k * v i) ->
    sumn n (fun t => v t * v t) = 1 ->
    (forall i, i < n -> v i = Q i k) \/ (forall i, i < n -> v i = - Q i k).
  Proof.
    intros HB [HQ1 [HQ2 HBQ]] Hk Hsimple Hv Hnorm.
    set (a := fun j => sumn n (fun t => Q t j * v t)).
    (* (B Q)_uj = Q_uj Lam_j *)
    assert (HBQ' : forall u j, u < n -> j < n -> sumn n (fun t => B u t * Q t j) = Q u j * Lam j).
    { intros u j Hu Hj. pose proof (HBQ u j Hu Hj) as E. rewrite mmul_diag_r in E by assumption. exact E. }
    assert (H1 : forall j, j < n -> Lam j * a j = Lam k * a j).
    { intros j Hj. unfold a. symmetry.
      rewrite <- sumn_mul_l.
      rewrite (sumn_ext n _ (fun t => sumn n (fun u => Q t j * (B t u * v u)))).
      2:{ intros t Ht. rewrite sumn_mul_l, (Hv t Ht). ring. }
      rewrite sumn_swap.
      rewrite (sumn_ext n _ (fun u => (Q u j * Lam j) * v u)).
      2:{ intros u Hu. rewrite <- (HBQ' u j Hu Hj). rewrite <- sumn_mul_r. apply sumn_ext. intros t Ht.
          rewrite (HB t u Ht Hu). ring. }
      rewrite <- sumn_mul_l. apply sumn_ext. intros; ring. }
    assert (H2 : forall j, j < n -> j <> k -> a j = 0).
    { intros j Hj Hne. apply (fcancel_l (Lam j - Lam k)).
      - intros E. apply (Hsimple j Hj Hne).
        assert (E' : Lam j = (Lam j - Lam k) + Lam k) by ring. rewrite E' , E. ring.
      - transitivity (Lam j * a j - Lam k * a j); [ring|]. rewrite (H1 j Hj). ring. }
    assert (H3 : forall i, i < n -> v i = Q i k * a k).
    { intros i Hi.
      transitivity (sumn n (fun j => Q i j * a j)).
      - unfold a.
        rewrite (sumn_ext n _ (fun j => sumn n (fun t => Q i j * Q t j * v t))).
        2:{ intros j _. rewrite <- sumn_mul_l. apply sumn_ext. intros; ring. }
        rewrite sumn_swap.
        rewrite (sumn_ext n _ (fun t => delta i t * v t)).
        2:{ intros t Ht. rewrite sumn_mul_r. pose proof (HQ2 i t Hi Ht) as E.
            unfold mmul, mtrans, mI in E. rewrite E. reflexivity. }
        rewrite sumn_delta_l by assumption. reflexivity.
      - apply (sumn_single n k); [assumption|]. intros j Hj Hne. rewrite (H2 j Hj Hne). ring. }
    assert (H4 : a k * a k = 1).
    { rewrite <- Hnorm.
      rewrite (sumn_ext n _ (fun t => (a k * a k) * (Q t k * Q t k))).
      2:{ intros t Ht. rewrite (H3 t Ht). ring. }
      rewrite sumn_mul_l. pose proof (HQ1 k k Hk Hk) as E. unfold mmul, mtrans, mI in E.
      rewrite E, delta_eq. ring. }
    destruct (Feq_dec (a k) 1) as [E1|N1].
    - left. intros i Hi. rewrite (H3 i Hi), E1. ring.
    - right. assert (E2 : a k + 1 = 0).
      { apply (fcancel_l (a k - 1)).
        - intros E. apply N1. assert (E' : a k = (a k - 1) + 1) by ring. rewrite E', E. ring.
        - transitivity (a k * a k - 1); [ring|]. rewrite H4. ring. }
      intros i Hi. rewrite (H3 i Hi).
      assert (E3 : a k = - (1)) by (transitivity ((a k + 1) - 1); [ring|rewrite E2; ring]).
      rewrite E3. ring.
  Qed.

  Lemma mds_matrix_full_sym n (dist : mat F) : msym n (mds_matrix_full n dist).
  Proof.
    intros i j Hi Hj. unfold mds_matrix_full. f_equal.
    apply center_matrix_msym; try assumption. apply full_dist_sq_sym.
  Qed.

  (* ratio = 1, Landmark MDS, full strength: every sample a landmark (any order), symmetric callback;
     the landmark run got ANY answer (W, w) meeting the contract on its d selected pairs; the MDS run
     got a full orthonormal eigendecomposition (W0, w0) with the same selected eigenvalues, each of them
     simple; the same sqrt values.  Then the two embeddings agree up to one sign per column. *)
  Theorem ratio_one_lmds_upto_sign_lemma N d keep lm (dist W W0 : mat F) (w w0 s : vec F) ws Y0 :
    Permutation lm (seq 0 N) ->
    (forall a b, a < N -> b < N -> dist a b = dist b a) ->
    lmds_embed N d keep lm dist W w s = LOk ws ->
    lm_eig_contract N d (lmds_matrix lm dist) (sel_vecs N d W) (sel_vals N d w) ->
    mds_embed N d W0 w0 s = LOk Y0 ->
    full_eig N (mds_matrix_full N dist) W0 w0 ->
    (forall c, c < d -> sel_vals N d w c = sel_vals N d w0 c) ->
    (forall c j, c < d -> j < N -> j <> (N - d + c)%nat -> w0 j <> w0 (N - d + c)%nat) ->
    exists Y : mat F,
      (forall a, a < N -> last_write ws a = Some (mrow Y a)) /\
      same_upto_sign N d Y Y0.
  Proof.
    intros HP Hsym H Hcontract H0 Hfull Hvals Hsimple.
    destruct (ratio_one_lmds_partial_lemma N d keep lm dist W w s ws HP Hsym H) as [[Y [HY HYrows]] Htransfer].
    destruct (Htransfer Hcontract) as [Horth Heig].
    exists Y. split; [exact HYrows|].
    unfold mds_embed, select_largest in HY, H0.
    destruct (Nat.leb d N) eqn:Ed; [|discriminate]. apply Nat.leb_le in Ed.
    inversion HY; subst Y. inversion H0; subst Y0. clear HY H0.
    intros c Hc.
    set (Wp := fun a c0 => W (pos_of lm a) c0) in *.
    set (k := (N - d + c)%nat).
    assert (Hk : k < N) by (unfold k; lia).
    destruct (eigvec_unique N (mds_matrix_full N dist) W0 w0 k (fun a => sel_vecs N d Wp a c))
      as [Hpos|Hneg].
    - apply mds_matrix_full_sym.
    - exact Hfull.
    - exact Hk.
    - intros j Hj Hne. apply Hsimple; assumption.
    - intros i Hi. pose proof (Heig i c Hi Hc) as E. rewrite mmul_diag_r in E by assumption.
      unfold mmul in E. rewrite E. rewrite (Hvals c Hc). unfold sel_vals. fold k. ring.
    - pose proof (Horth c c Hc Hc) as E. unfold mmul, mtrans, mI in E. rewrite delta_eq in E. exact E.
    - left. intros a Ha. pose proof (Hpos a Ha) as E. unfold sel_vecs, Wp, k in E. cbv beta in E.
      unfold scale_by, sel_vecs. rewrite E. reflexivity.
    - right. intros a Ha. pose proof (Hneg a Ha) as E. unfold sel_vecs, Wp, k in E. cbv beta in E.
      unfold scale_by, sel_vecs. rewrite E. ring.
  Qed.
  (* ---------------- ratio = 1, Landmark Isomap, full strength ---------------- *)
  Lemma msym_square n (B : mat F) : msym n B -> msym n (mmul n B B).
  Proof.
    intros HB i j Hi Hj. unfold mmul. apply sumn_ext. intros t Ht.
    rewrite (HB i t Hi Ht), (HB t j Ht Hj). ring.
  Qed.

  Lemma full_eig_square n (B Q : mat F) (Lam : vec F) :
    full_eig n B Q Lam -> full_eig n (mmul n B B) Q (fun j => Lam j * Lam j).
  Proof.
    intros [H1 [H2 H3]]. split; [exact H1|]. split; [exact H2|].
    intros i j Hi Hj. rewrite mmul_diag_r by assumption. rewrite mmul_assoc.
    unfold mmul at 1.
    rewrite (sumn_ext n _ (fun t => B i t * Q t j * Lam j)).
    2:{ intros t Ht. pose proof (H3 t j Ht Hj) as E. rewrite mmul_diag_r in E by assumption.
        rewrite E. ring. }
    rewrite sumn_mul_r. pose proof (H3 i j Hi Hj) as E. rewrite mmul_diag_r in E by assumption.
    unfold mmul in E. rewrite E. ring.
  Qed.

  Lemma isomap_matrix_sym n (G : mat F) : msym n (isomap_matrix n G).
  Proof.
    intros a b Ha Hb. unfold isomap_matrix. f_equal.
    apply center_matrix_msym; try assumption. apply sym_avg_sym.
  Qed.

  (* Isomap's own embed(): select the d largest, scale by sqrt *)
  Theorem ratio_one_lisomap_upto_sign_lemma N d lm (G W W0 : mat F) (w w0 q s : vec F) Y Y0 :
    Permutation lm (seq 0 N) -> of_nat N <> 0 -> @two F Fo <> 0 ->
    (forall x y, x < N -> y < N -> G x y = G y x) ->
    lisomap_embed N N d (fun a b => G (lmk lm a) b) W w q = LOk Y ->
    lm_eig_contract N d (lisomap_sym N (lisomap_matrix N N (fun a b => G (lmk lm a) b)))
                    (sel_vecs N d W) (sel_vals N d w) ->
    mds_embed N d W0 w0 s = LOk Y0 ->
    full_eig N (isomap_matrix N G) W0 w0 ->
    (* the eigenvalue of B B^T the landmark method selected is the square of the one Isomap selected ... *)
    (forall c, c < d -> sel_vals N d w c = sel_vals N d w0 c * sel_vals N d w0 c) ->
    (* ... and no other eigenvalue of Isomap's matrix has the same square (excludes -nu: finding F44) *)
    (forall c j, c < d -> j < N -> j <> (N - d + c)%nat ->
        w0 j * w0 j <> w0 (N - d + c)%nat * w0 (N - d + c)%nat) ->
    (forall c, c < d -> s c * s c = sel_vals N d w0 c /\ q c = s c /\ s c <> 0) ->
    same_upto_sign N d Y Y0.
  Proof.
    intros HP HN H2 Hsym H [Horth Heig] H0 Hfull Hsq Hsimple Hs.
    destruct (perm_facts lm N HP) as [Hlen [Hnd [Hlt [Hpos Hlmk]]]].
    set (B0 := isomap_matrix N G).
    set (BL := lisomap_matrix N N (fun a b => G (lmk lm a) b)) in *.
    set (U := sel_vecs N d W) in *.
    set (Up := fun a c => U (pos_of lm a) c).
    assert (HB0sym : msym N B0) by apply isomap_matrix_sym.
    (* (B_L B_L^T)_{k k'} = (B0 B0)_{lm k, lm k'} *)
    assert (HS : forall k k', k < N -> k' < N ->
              lisomap_sym N BL k k' = mmul N B0 B0 (lmk lm k) (lmk lm k')).
    { intros k k' Hk Hk'. unfold lisomap_sym, mmul. apply sumn_ext. intros t Ht.
      unfold BL. rewrite !(lisomap_matrix_perm lm N G _ t HP HN H2 Hsym) by assumption.
      fold B0. destruct (Hlmk k' Hk') as [Hl' _]. rewrite (HB0sym (lmk lm k') t Hl' Ht). reflexivity. }
    (* Up meets the contract for B0 B0 *)
    assert (HorthP : forall a b, a < d -> b < d -> sumn N (fun t => Up t a * Up t b) = delta a b).
    { intros a b Ha Hb. pose proof (Horth a b Ha Hb) as E. unfold mmul, mtrans, mI in E. rewrite <- E.
      rewrite <- (sumn_perm lm N (fun t => Up t a * Up t b) HP).
      apply sumn_ext. intros i Hi. destruct (Hlmk i Hi) as [_ Hpi]. unfold Up. rewrite Hpi. reflexivity. }
    assert (HeigP : forall x c, x < N -> c < d ->
              sumn N (fun t => mmul N B0 B0 x t * Up t c) = sel_vals N d w c * Up x c).
    { intros x c Hx Hc. destruct (Hpos x Hx) as [Hp Hl].
      rewrite <- (sumn_perm lm N (fun t => mmul N B0 B0 x t * Up t c) HP).
      rewrite (sumn_ext N _ (fun j => lisomap_sym N BL (pos_of lm x) j * U j c)).
      2:{ intros j Hj. destruct (Hlmk j Hj) as [_ Hpj]. rewrite (HS (pos_of lm x) j Hp Hj), Hl.
          unfold Up. rewrite Hpj. reflexivity. }
      pose proof (Heig (pos_of lm x) c Hp Hc) as E. rewrite mmul_diag_r in E by assumption.
      unfold mmul in E. rewrite E. unfold Up. ring. }
    unfold mds_embed, select_largest in H0.
    destruct (Nat.leb d N) eqn:Ed; [|discriminate]. apply Nat.leb_le in Ed.
    inversion H0; subst Y0. clear H0.
    (* each selected column of Up is +- the column of W0 *)
    assert (Hcol : forall c, c < d ->
              (forall a, a < N -> Up a c = W0 a (N - d + c)%nat) \/
              (forall a, a < N -> Up a c = - W0 a (N - d + c)%nat)).
    { intros c Hc. set (k := (N - d + c)%nat). assert (Hk : k < N) by (unfold k; lia).
      apply (eigvec_unique N (mmul N B0 B0) W0 (fun j => w0 j * w0 j) k (fun a => Up a c)).
      - apply msym_square. exact HB0sym.
      - apply full_eig_square. exact Hfull.
      - exact Hk.
      - intros j Hj Hne. apply Hsimple; assumption.
      - intros i Hi. rewrite (HeigP i c Hi Hc), (Hsq c Hc). unfold sel_vals. fold k. ring.
      - pose proof (HorthP c c Hc Hc) as E. rewrite delta_eq in E. exact E. }
    (* hence Up is an eigen-answer of Isomap's matrix itself, for nu = the selected values of w0 *)
    assert (HeigB0 : meq N d (mmul N B0 Up) (mmul d Up (mdiag (sel_vals N d w0)))).
    { intros x c Hx Hc. rewrite mmul_diag_r by assumption. unfold mmul.
      destruct Hfull as [_ [_ HBQ]]. set (k := (N - d + c)%nat). assert (Hk : k < N) by (unfold k; lia).
      pose proof (HBQ x k Hx Hk) as E. rewrite mmul_diag_r in E by assumption. unfold mmul in E.
      fold B0 in E.
      destruct (Hcol c Hc) as [Hp|Hn].
      - rewrite (sumn_ext N _ (fun t => B0 x t * W0 t k)) by (intros t Ht; rewrite (Hp t Ht); unfold k; reflexivity).
        rewrite E, (Hp x Hx). unfold sel_vals, k. reflexivity.
      - rewrite (sumn_ext N _ (fun t => - (B0 x t * W0 t k))) by (intros t Ht; rewrite (Hn t Ht); unfold k; ring).
        rewrite sumn_opp, E, (Hn x Hx). unfold sel_vals, k. ring. }
    pose proof (ratio_one_lisomap_partial_lemma N d lm G W w q Y HP HN H2 Hsym H (sel_vals N d w0) s
                  HeigB0 Hs) as HY.
    intros c Hc. destruct (Hcol c Hc) as [Hp|Hn].
    - left. intros a Ha. rewrite (HY a c Ha Hc). unfold scale_by. fold U. fold (Up a c).
      rewrite (Hp a Ha). unfold sel_vecs. reflexivity.
    - right. intros a Ha. rewrite (HY a c Ha Hc). unfold scale_by. fold U. fold (Up a c).
      rewrite (Hn a Ha). unfold sel_vecs. ring.
  Qed.
End Unique.
