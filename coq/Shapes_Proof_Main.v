(* Shapes_Proof_Main.v — C01 strand 1+2 assembled: for every method and every request, the model of
   tapkee::embed ends in Ok (N x d shape) or in a documented exception; never OOB, never OutOfFuel.
   For /repo HEAD (`head`: F7 open) the same outside the F7 zone, and the F7 zone is refuted.  The
   variants without the repairs F12 / F21 are refuted with witnesses. *)
From Coq Require Import ZArith List Bool Lia.
From TK Require Import Shapes_Model Shapes_Spec Shapes_Proof_Base Shapes_Proof_Routines Shapes_Proof_Term.
Import ListNotations.
Open Scope Z_scope.

Lemma safe_ok r : r = Ok -> safe r.
Proof. intros ->. exact I. Qed.

Lemma safe_seq_ok a b : a = Ok -> safe b -> safe (a ;; b).
Proof. intros ->. auto. Qed.

Lemma documented_all e : documented e.
Proof. destruct e; exact I. Qed.

Lemma safe_throw e r : safe (Throw e ;; r).
Proof. cbn. apply documented_all. Qed.

Lemma safe_guard b e r : (b = true -> safe r) -> safe (guard b e ;; r).
Proof. destruct b; cbn; intros H; [auto|apply documented_all]. Qed.

Lemma safe_guard_last b e : safe (guard b e).
Proof. destruct b; cbn; [exact I|apply documented_all]. Qed.

(* eigen front-ends under the method-level facts *)
Lemma eig_largest_ok v dn n d :
  0 <= d -> (dn = true -> d <= n) -> eig v dn true n d 0 = Ok.
Proof.
  intros Hd Hn. unfold eig. destruct dn.
  - apply eig_dense_largest_iff. specialize (Hn eq_refl). lia.
  - apply eig_randomized_ok; lia.
Qed.

Lemma eig_smallest_ok v dn N d :
  1 <= d < N -> (v_f7 v = false -> dn = true -> d + 2 <= N) -> eig v dn false N d 1 = Ok.
Proof.
  intros Hd H7. unfold eig. destruct dn.
  - apply eig_dense_smallest_iff. repeat split; try lia. intros E. specialize (H7 E eq_refl). lia.
  - apply eig_randomized_ok; lia.
Qed.

Lemma eig_nvals_ge v dn d skip : 0 <= skip -> d <= eig_nvals v dn true d skip.
Proof. intros. unfold eig_nvals, eig_dense_nvals, eig_randomized_nvals. destruct dn; lia. Qed.

Lemma geig_safe v c n skip r :
  0 <= skip -> 1 <= c_d c -> c_d c + skip <= n ->
  (v_f7 v = false -> skip + skip + c_d c <= n) ->
  safe r -> safe (geig v c n skip ;; r).
Proof.
  intros Hs Hd Hn H7 Hr. unfold geig. destruct (c_dense c).
  - apply safe_seq_ok; [|exact Hr]. apply eig_dense_smallest_iff. repeat split; try lia. exact H7.
  - apply safe_throw.
Qed.

Section Embed.
  Variable v : variant.
  Hypothesis V6 : v_f6 v = true.
  Hypothesis V12 : v_f12 v = true.
  Hypothesis V21 : v_f21 v = true.

  Lemma embed_body_safe c nb perm rs :
    inputs_wf c nb perm rs ->
    (v_f7 v = false -> f7_zone c = false) ->
    c_N c <> 0 -> 1 <= c_d c < c_N c -> validate v c = true ->
    safe (embed_body v c nb perm rs).
  Proof.
    intros (HD & Hnb & Hpl & Hpw & HL & HK & HU) H7 HN Hd Hval.
    unfold validate in Hval. rewrite V12, V21 in Hval.
    apply andb_true_iff in Hval. destruct Hval as [Hval H12].
    apply andb_true_iff in Hval. destruct Hval as [Hsc H21].
    assert (HN0 : 0 < c_N c) by lia.
    unfold f7_zone in H7.
    unfold embed_body, neighbors_stage.
    destruct (c_m c) eqn:Em; cbn [smallest_skip1 andb] in H7;
      try (apply safe_guard; intros Hk;
           apply andb_true_iff in Hk; destruct Hk as [Hk1 Hk2];
           apply Z.leb_le in Hk1; apply Z.ltb_lt in Hk2;
           destruct (Hnb ltac:(unfold uses_neighbors; rewrite Em; reflexivity) ltac:(lia))
             as (keff & Hke1 & Hke2 & W & Wrs)).
    - (* KLLE *)
      apply safe_seq_ok; [eapply linear_weight_matrix_ok; eauto|]. apply safe_ok.
      apply eig_smallest_ok; [lia|]. intros E Dn. specialize (H7 E). rewrite Dn in H7.
      apply Z.ltb_ge in H7. lia.
    - (* NPE *)
      apply andb_true_iff in H21. destruct H21 as [A B]. apply Z.leb_le in A, B.
      apply safe_seq_ok; [eapply linear_weight_matrix_ok; eauto|].
      apply geig_safe; try lia. apply safe_ok. apply project_ok.
    - (* KLTSA *)
      apply andb_true_iff in H21. destruct H21 as [A B]. apply Z.leb_le in A, B.
      apply safe_seq_ok; [eapply tangent_weight_matrix_ok; eauto; lia|]. apply safe_ok.
      apply eig_smallest_ok; [lia|]. intros E Dn. specialize (H7 E). rewrite Dn in H7.
      apply Z.ltb_ge in H7. lia.
    - (* LLTSA *)
      apply andb_true_iff in H21. destruct H21 as [H21 C]. apply andb_true_iff in H21.
      destruct H21 as [A B]. apply Z.leb_le in A, B, C.
      apply safe_seq_ok; [eapply tangent_weight_matrix_ok; eauto; lia|].
      apply geig_safe; try lia. apply safe_ok. apply project_ok.
    - (* HLLE *)
      apply andb_true_iff in H21. destruct H21 as [A B]. apply Z.leb_le in A, B.
      rewrite V6.
      apply safe_seq_ok; [eapply hessian_weight_matrix_ok; eauto; lia|]. apply safe_ok.
      apply eig_smallest_ok; [lia|]. intros E Dn. specialize (H7 E). rewrite Dn in H7.
      apply Z.ltb_ge in H7. lia.
    - (* LA *)
      apply safe_seq_ok; [eapply compute_laplacian_ok; eauto|].
      unfold geig. destruct (c_dense c) eqn:Dn; [|apply documented_all].
      apply safe_ok. apply eig_dense_smallest_iff. repeat split; try lia.
      intros E. specialize (H7 E). apply Z.ltb_ge in H7. lia.
    - (* LPP *)
      apply andb_true_iff in H21. destruct H21 as [A B]. apply Z.leb_le in A, B.
      apply safe_seq_ok; [eapply compute_laplacian_ok; eauto|].
      apply geig_safe; try lia. apply safe_ok. apply project_ok.
    - (* DM *)
      apply safe_ok.
      apply seq_ok. split; [apply diffusion_matrix_ok|].
      apply seq_ok. split; [apply eig_largest_ok; lia|].
      apply seq_ok. split; [apply blk_ok; lia|].
      apply seq_ok. split; [|apply chk_ok; lia].
      apply scale_cols_ok; [lia|]. pose proof (eig_nvals_ge v (c_dense c) (c_d c + 1) 0). lia.
    - (* ISOMAP *)
      apply safe_seq_ok; [eapply shortest_distances_ok; eauto|]. apply safe_ok.
      apply seq_ok. split; [apply eig_largest_ok; lia|].
      apply scale_cols_ok; [lia|]. apply eig_nvals_ge. lia.
    - (* LISOMAP *)
      apply andb_true_iff in H21. destruct H21 as [A B]. apply Z.leb_le in A, B.
      apply safe_seq_ok; [apply select_landmarks_ok; lia|].
      apply safe_seq_ok; [eapply landmark_shortest_distances_ok; eauto; apply idx_wf_firstn; exact Hpw|].
      apply safe_ok.
      apply seq_ok. split; [apply eig_largest_ok; lia|].
      apply scale_cols_ok; [lia|]. apply eig_nvals_ge. lia.
    - (* MDS *)
      apply safe_ok.
      apply seq_ok. split; [apply distance_matrix_ok|].
      apply seq_ok. split; [apply eig_largest_ok; lia|].
      apply scale_cols_ok; [lia|]. apply eig_nvals_ge. lia.
    - (* LMDS *)
      apply andb_true_iff in H21. destruct H21 as [A B]. apply Z.leb_le in A, B.
      apply safe_ok.
      apply seq_ok. split; [apply select_landmarks_ok; lia|].
      apply seq_ok. split; [apply landmark_distance_matrix_ok; apply idx_wf_firstn; exact Hpw|].
      apply seq_ok. split; [apply eig_largest_ok; lia|].
      apply seq_ok. split; [apply scale_cols_ok; [lia|apply eig_nvals_ge; lia]|].
      apply triangulate_ok; [apply idx_wf_firstn; exact Hpw|lia|apply eig_nvals_ge; lia].
    - (* SPE *)
      rewrite spe_clamp_2.
      specialize (HU eq_refl Hsc).
      assert (Hstep : 0 <= spe_clamp_step (c_N c) (c_nupd c) /\
                      2 * spe_clamp_step (c_N c) (c_nupd c) <= c_N c /\
                      spe_clamp_step (c_N c) (c_nupd c) <= c_nupd c).
      { unfold spe_clamp_step. pose proof (Z.mul_div_le (c_N c) 2 ltac:(lia)).
        assert (0 <= c_N c / 2) by (apply Z.div_pos; lia).
        destruct (c_N c / 2 <? c_nupd c) eqn:E; [apply Z.ltb_lt in E|apply Z.ltb_ge in E]; lia. }
      destruct (c_global c) eqn:G.
      + apply safe_ok. apply seq_ok. split; [reflexivity|].
        eapply spe_iteration_ok with (k := 0); eauto; try lia; try discriminate.
      + apply safe_guard; intros Hk.
        apply andb_true_iff in Hk; destruct Hk as [Hk1 Hk2].
        apply Z.leb_le in Hk1; apply Z.ltb_lt in Hk2.
        destruct (Hnb ltac:(unfold uses_neighbors; rewrite Em, G; reflexivity) ltac:(lia))
          as (keff & Hke1 & Hke2 & W & Wrs).
        apply safe_ok. eapply spe_iteration_ok with (k := keff); eauto; try lia.
        intros _. split; [exact W|split; [exact Wrs|lia]].
    - (* KPCA *)
      apply safe_ok.
      apply seq_ok. split; [apply centered_kernel_matrix_ok|].
      apply seq_ok. split; [apply eig_largest_ok; lia|].
      apply scale_cols_ok; [lia|]. apply eig_nvals_ge. lia.
    - (* PCA *)
      apply andb_true_iff in H21. destruct H21 as [A B]. apply Z.leb_le in A, B.
      apply safe_ok. apply seq_ok. split; [apply eig_largest_ok; lia|apply project_full_ok].
    - (* RP *) apply safe_ok. apply seq_ok. split; [apply gaussian_projection_matrix_ok|apply project_full_ok].
    - (* FA *) apply safe_ok. apply factor_analysis_ok.
    - (* TSNE *)
      specialize (HK eq_refl Hsc). apply safe_ok.
      apply seq_ok. split; [apply tsne_buffers_ok; lia|].
      apply seq_ok. split.
      + destruct (c_exact c); [reflexivity|apply tsne_bh_rows_ok; lia].
      + rewrite V12. apply tsne_map_ok; try lia.
        intros E. rewrite E in H12. cbn in H12. apply Z.eqb_eq in H12. exact H12.
    - (* MS *)
      apply andb_true_iff in H21. destruct H21 as [A B]. apply Z.leb_le in A, B.
      apply safe_ok. eapply manifold_sculpting_ok; eauto. lia.
    - (* PASSTHRU *) apply safe_ok. apply project_ok.
  Qed.

  Theorem embed_model_safe c nb perm rs :
    inputs_wf c nb perm rs ->
    (v_f7 v = false -> f7_zone c = false) ->
    safe (embed_model v c nb perm rs).
  Proof.
    intros W H7. unfold embed_model.
    apply safe_guard. intros HN. apply negb_true_iff, Z.eqb_neq in HN.
    apply safe_guard. intros Hd. apply andb_true_iff in Hd. destruct Hd as [Hd1 Hd2].
    apply Z.leb_le in Hd1. apply Z.ltb_lt in Hd2.
    apply safe_guard. intros Hval.
    apply embed_body_safe; auto.
  Qed.

  (* strand 1: every request has exactly one outcome (outcome_of is a function), and it is the
     N x d shape (PassThru: N x D) or a documented exception *)
  Theorem outcome_total c nb perm rs :
    inputs_wf c nb perm rs ->
    (v_f7 v = false -> f7_zone c = false) ->
    outcome_ok c (outcome_of v c nb perm rs).
  Proof.
    intros W H7. pose proof (embed_model_safe c nb perm rs W H7) as S.
    unfold outcome_of. destruct (embed_model v c nb perm rs); cbn in *; auto.
  Qed.
End Embed.

(* the fully repaired source: no side condition at all *)
Theorem embed_all_fixed_safe c nb perm rs :
  inputs_wf c nb perm rs -> safe (embed_model all_fixed c nb perm rs).
Proof. intros W. apply embed_model_safe; auto. cbn. discriminate. Qed.

(* /repo HEAD after F12 + F20 + F21 (F7 is a known finding and stays) *)
Theorem embed_head_safe c nb perm rs :
  inputs_wf c nb perm rs -> f7_zone c = false -> safe (embed_model head c nb perm rs).
Proof. intros W Z. apply embed_model_safe; auto. Qed.

Theorem outcome_total_all_fixed c nb perm rs :
  inputs_wf c nb perm rs -> outcome_ok c (outcome_of all_fixed c nb perm rs).
Proof. intros W. apply (outcome_total all_fixed eq_refl eq_refl eq_refl c nb perm rs W). discriminate. Qed.

Theorem outcome_total_head c nb perm rs :
  inputs_wf c nb perm rs -> f7_zone c = false -> outcome_ok c (outcome_of head c nb perm rs).
Proof. intros W Z. apply (outcome_total head eq_refl eq_refl eq_refl c nb perm rs W). intros _. exact Z. Qed.

(* ---------------------------------------------------------------- refutations *)
Definition mk (m : meth) (N D d k : Z) (dense : bool) : cfg :=
  {| c_m := m; c_N := N; c_D := D; c_d := d; c_k := k; c_dense := dense; c_scalars_ok := true;
     c_L := N / 2; c_exact := false; c_K := 3; c_global := true; c_nupd := 1 |}.

Definition ring_nb (N : nat) (l : list Z) : neighbors := repeat l N.
Definition iota (n : nat) : list Z := map Z.of_nat (List.seq 0%nat n).

Ltac wf_tac := repeat first [reflexivity | lia | discriminate | constructor].

(* F7 on /repo HEAD: KLLE, dense solver, N = 5, d = 4 = N - 1 passes validation and the eigenvalue
   slice reads entry 5 of a 5-vector *)
Theorem eig_segment_refuted :
  exists c nb perm rs, inputs_wf c nb perm rs /\ f7_zone c = true /\
                       embed_model head c nb perm rs = OOB 105 6 5.
Proof.
  exists (mk KLLE 5 3 4 3 true), (ring_nb 5 [0; 1; 2]), (iota 5), [].
  split; [|split; vm_compute; reflexivity].
  unfold inputs_wf. cbn. repeat split; try lia; try discriminate.
  - intros _ _. exists 3. repeat split; try lia; wf_tac.
  - wf_tac.
Qed.

(* F21 before the repair, one witness per family *)
Theorem rank_checks_refuted :
  (exists c nb perm rs, inputs_wf c nb perm rs /\ c_m c = PCA /\ c_D c < c_d c /\
      embed_model pre_round2 c nb perm rs = OOB 101 2 2) /\
  (exists c nb perm rs, inputs_wf c nb perm rs /\ c_m c = NPE /\ c_D c < c_d c /\
      embed_model pre_round2 c nb perm rs = OOB 103 3 2) /\
  (exists c nb perm rs, inputs_wf c nb perm rs /\ c_m c = LMDS /\ c_L c < c_d c /\
      embed_model pre_round2 c nb perm rs = OOB 101 4 4) /\
  (exists c nb perm rs, inputs_wf c nb perm rs /\ c_m c = KLTSA /\ c_k c < c_d c /\
      embed_model pre_round2 c nb perm rs = OOB 223 3 3) /\
  (exists c nb perm rs, inputs_wf c nb perm rs /\ c_m c = MS /\ c_D c < c_d c /\
      embed_model pre_round2 c nb perm rs = OOB 345 2 2).
Proof.
  repeat split.
  - exists (mk PCA 8 2 3 3 true), [], (iota 8), [].
    split; [|repeat split; try (cbn; lia); vm_compute; reflexivity].
    unfold inputs_wf. cbn. repeat split; try lia; try discriminate; wf_tac.
  - exists (mk NPE 8 2 3 3 true), (ring_nb 8 [0; 1; 2]), (iota 8), [].
    split; [|repeat split; try (cbn; lia); vm_compute; reflexivity].
    unfold inputs_wf. cbn. repeat split; try lia; try discriminate; try solve [wf_tac].
    intros _ _. exists 3. repeat split; try lia; wf_tac.
  - exists (mk LMDS 8 3 5 3 true), [], (iota 8), [].
    split; [|repeat split; try (vm_compute; reflexivity)].
    unfold inputs_wf. cbn. repeat split; try lia; try discriminate; wf_tac.
  - exists (mk KLTSA 8 3 4 3 true), (ring_nb 8 [0; 1; 2]), (iota 8), [].
    split; [|repeat split; try (cbn; lia); vm_compute; reflexivity].
    unfold inputs_wf. cbn. repeat split; try lia; try discriminate; try solve [wf_tac].
    intros _ _. exists 3. repeat split; try lia; wf_tac.
  - exists (mk MS 8 2 3 3 true), (ring_nb 8 [0; 1; 2]), (iota 8), [].
    split; [|repeat split; try (cbn; lia); vm_compute; reflexivity].
    unfold inputs_wf. cbn. repeat split; try lia; try discriminate; try solve [wf_tac].
    intros _ _. exists 3. repeat split; try lia; wf_tac.
Qed.

(* F12 before the repair: t-SNE with target_dimension = 1, both modes *)
Theorem tsne_dimension_refuted :
  (exists c nb perm rs, inputs_wf c nb perm rs /\ c_m c = TSNE /\ c_exact c = false /\
      embed_model pre_round2 c nb perm rs = OOB 322 8 8) /\
  (exists c nb perm rs, inputs_wf c nb perm rs /\ c_m c = TSNE /\ c_exact c = true /\
      embed_model pre_round2 c nb perm rs = OOB 321 8 8).
Proof.
  split.
  - exists (mk TSNE 8 3 1 3 true), [], (iota 8), [].
    split; [|repeat split; vm_compute; reflexivity].
    unfold inputs_wf. cbn. repeat split; try lia; try discriminate; wf_tac.
  - exists {| c_m := TSNE; c_N := 8; c_D := 3; c_d := 1; c_k := 3; c_dense := true; c_scalars_ok := true;
              c_L := 4; c_exact := true; c_K := 3; c_global := true; c_nupd := 1 |}, [], (iota 8), [].
    split; [|repeat split; vm_compute; reflexivity].
    unfold inputs_wf. cbn. repeat split; try lia; try discriminate; wf_tac.
Qed.

(* the repaired validate() turns each of those requests into wrong_parameter_error *)
Theorem rank_checks_now_rejected :
  embed_model head (mk PCA 8 2 3 3 true) [] (iota 8) [] = Throw WrongParameter /\
  embed_model head (mk LMDS 8 3 5 3 true) [] (iota 8) [] = Throw WrongParameter /\
  embed_model head (mk KLTSA 8 3 4 3 true) (ring_nb 8 [0; 1; 2]) (iota 8) [] = Throw WrongParameter /\
  embed_model head (mk TSNE 8 3 1 3 true) [] (iota 8) [] = Throw WrongParameter.
Proof. repeat split; vm_compute; reflexivity. Qed.

(* non-vacuity: a request that satisfies every hypothesis and proceeds to the N x d shape *)
Example embed_head_safe_nonvacuous :
  inputs_wf (mk KLTSA 8 3 2 3 true) (ring_nb 8 [0; 1; 2]) (iota 8) [] /\
  f7_zone (mk KLTSA 8 3 2 3 true) = false /\
  outcome_of head (mk KLTSA 8 3 2 3 true) (ring_nb 8 [0; 1; 2]) (iota 8) [] = OShape 8 2.
Proof.
  split; [|split; vm_compute; reflexivity].
  unfold inputs_wf. cbn. repeat split; try lia; try discriminate; try solve [wf_tac].
  intros _ _. exists 3. repeat split; try lia; wf_tac.
Qed.
