(* Properties_C02.v — C02: all three neighbour searches return exactly the k nearest other
   samples.  Only statements; proofs are in Knn_Spec.v, Knn_*_Proof.v and CoverTree_*.v.

   Reading guide   ("current" = the code in /repo now, i.e. after the fixes F1, F2, F25, F26, F28;
                    "old" = the code before the named fix, kept as regression theorems)
     spec            is_knn (Knn_Spec.v), decided by is_knn_b (extracted; run on the
                     implementation's own output)
     brute force     brute_exact (current code), brute_exact_partial / brute_dup_refuted
                     (old code, before F1); std::nth_element is an oracle with contract nth_ok
     VP-tree         vp_search_exact for EVERY tree satisfying vp_inv, build_inv for every
                     oracle answer (pivot draw, nth_element) meeting its contract,
                     vptree_wrapper_exact (current wrapper), vp_row_exact_partial / vp_dup_refuted
                     (old wrapper, before F1), kernel_comparator for the kernel flavour
     cover tree      ct_select_exact (current selection stage), ct_select_refuted /
                     ct_select_count_refuted (old selection, before F2); covertree_exact_partial:
                     the selection from a candidate list that passes the run-time completeness
                     check cand_complete_b.
     cover tree query  CoverTree_Model.v is an executable model of the batch query (descend, shell,
                     copy_zero_set, copy_cover_sets, brute_nearest, the k-vector of upper bounds) run on
                     the dumped REAL tree; flag oc = false is the current code (after fix F46: the copy sites
                     prune with TWO query max_dist like descend), oc = true the code before F46.
                     FULL STRENGTH (wave 2): ct_query_complete - for every metric and every tree satisfying
                     ct_inv_b whose leaves are pairwise distinct, every row the model returns contains every
                     sample with fewer than K strictly closer samples; ct_query_rows_shape - every row is a
                     duplicate-free list of samples; covertree_model_exact - composed with the selection:
                     every row is exactly a k-nearest set.  They rest on ct_query_audit_true (the audit flag is
                     ALWAYS true: upper_bound[0] is backed by K distinct samples whenever it is read; proved
                     from the disjointness of the reference frontier, CoverTree_Proof_Audit.v) and on
                     ct_prune_*_sound (the triangle-inequality lemmas of the pruning tests).  The *_partial
                     theorems (relative to the flag) are kept: they are the lemmas the full ones use.
                     ct_copy_radius_refuted: the OLD copy radius loses a true neighbour on a real tree although
                     the flag is true (defect F46).
     cover tree build  CoverTree_Build_Model.v (batch_create, batch_insert, bi_loop, dist_split, redistribute, exact
                     13/10 arithmetic) is compared node by node with the dumped real tree on every run; ct_build_inv:
                     for EVERY distance function and input order the built tree satisfies ct_inv_b, holds no sample
                     twice, and holds every sample when get_scale covered the largest distance; ct_build_leaf100;
                     covertree_pipeline_exact: construction + query + selection END TO END on the models - for every
                     metric on 0..N-1 and every k < N the query answers with one row per sample and every row is
                     exactly a k-nearest set.  What ties these models to the C++ is the differential / structural
                     run (ct_inv_b / ct_holds_b are still also checked on every dumped real tree).
                     ct_query_rows / ct_query_total: one row per sample, never out of fuel (no hypothesis on d).
                     ct_scale100_refuted: the model reproduces defect F25 on the tree the old code built.
     dispatcher      (wave 4) Knn_Wrapper_Model.find_neighbors_core: the dispatcher find_neighbors with the result of the
                     tree search as an ARBITRARY parameter and the exhaustive-search fallback of fix F48 (any row of
                     the wrong size -> the whole table recomputed by brute force).  wrapper_exact / wrapper_fired_exact:
                     for EVERY callback (no metric assumption) a fired fallback returns a table whose every row is an
                     exact k-nearest row of the callback values as they are; wrapper_all_exact: when it does not fire
                     and the tree rows are exact (a metric), likewise; wrapper_tree_exact_unchanged /
                     wrapper_vptree_metric: an exact table never fires it.  wrapper_rowwise_refuted: recomputing only
                     the rows of the wrong size is wrong.  fn_shape_src_is_model: the shape of the fallback block read
                     from the source by translate/t_knn_wrapper.py is the one the model transcribes.
     *_checked_*     the same theorems with their hypotheses replaced by the boolean
                     checkers the harness runs on what it observes (dumped real VP-tree,
                     observed nth_element result, observed candidate list). *)
From Coq Require Import List ZArith Bool Lia Permutation Sorted.
From TK Require Import Knn_Spec Knn_Brute_Model Knn_Brute_Proof Knn_VpTree_Model Knn_VpTree_Proof
                       Knn_CoverSel_Model Knn_CoverSel_Proof CoverTree_Model CoverTree_Proof CoverTree_Proof_Total
                       CoverTree_Refuted CoverTree_Build_Model Knn_CoverQuery_Proof CoverTree_Proof_Audit CoverTree_Build_Proof Knn_Scale
                       Knn_Wrapper_Model Knn_Wrapper_Proof KnnWrapper.
Import ListNotations.
Local Open Scope Z_scope.

(* ---------------- specification ---------------- *)

Theorem is_knn_b_reflects : forall d N q k l, is_knn_b d N q k l = true <-> is_knn d N q k l.
Proof. exact is_knn_b_spec. Qed.
Print Assumptions is_knn_b_reflects.

Theorem is_knn_k_smallest : forall d N q k l,
  is_knn d N q k l -> dists_sorted d q l = firstn k (dists_sorted d q (others N q)).
Proof. exact is_knn_sorted_dists. Qed.
Print Assumptions is_knn_k_smallest.

Theorem knn_methods_agree : forall d N q k l1 l2,
  is_knn d N q k l1 -> is_knn d N q k l2 -> dists_sorted d q l1 = dists_sorted d q l2.
Proof. exact is_knn_agree. Qed.
Print Assumptions knn_methods_agree.

Example is_knn_nonvacuous : is_knn line_d 3 1 1 [0] /\ is_knn line_d 3 1 1 [2].
Proof. split; apply is_knn_b_spec; vm_compute; reflexivity. Qed.

(* ---------------- brute force ---------------- *)

Theorem brute_exact : forall d N q k sel,
  0 <= q < Z.of_nat N -> (k < N)%nat ->
  nth_ok k (brute_dists_fixed d N q) sel ->
  exists l, brute_row_fixed sel k = Some l /\ is_knn d N q k l.
Proof. exact brute_exact_lemma. Qed.
Print Assumptions brute_exact.

Example brute_exact_nonvacuous :
  0 <= 4 < Z.of_nat 9 /\ (3 < 9)%nat /\
  nth_ok 3 (brute_dists_fixed grid_d 9 4) (nth_element_ref (brute_dists_fixed grid_d 9 4)).
Proof. split; [cbn; lia|]. split; [lia|]. apply nth_element_ref_ok. Qed.

Theorem brute_exact_partial : forall d N q k sel,
  0 <= q < Z.of_nat N -> (k + 1 <= N)%nat ->
  nth_ok (k + 1) (brute_dists d N q) sel ->
  (length (filter (fun j => (d q j <=? d q q)%Z) (others N q)) <= k)%nat ->
  exists l, brute_row sel q k = Some l /\ is_knn d N q k l.
Proof. exact brute_exact_partial_lemma. Qed.
Print Assumptions brute_exact_partial.

Example brute_exact_partial_nonvacuous :
  0 <= 4 < Z.of_nat 9 /\ (3 + 1 <= 9)%nat /\
  nth_ok (3 + 1) (brute_dists grid_d 9 4) (nth_element_ref (brute_dists grid_d 9 4)) /\
  (length (filter (fun j => (grid_d 4 j <=? grid_d 4 4)%Z) (others 9 4)) <= 3)%nat.
Proof.
  split; [cbn; lia|]. split; [lia|]. split; [apply nth_element_ref_ok|]. vm_compute. lia.
Qed.

Theorem brute_dup_refuted :
  exists (d : dist) (N : nat) (q : Z) (k : nat) (sel : list drec) (l : list Z),
    metric_on (fun _ => True) d /\ 0 <= q < Z.of_nat N /\ (k + 1 <= N)%nat /\
    nth_ok (k + 1) (brute_dists d N q) sel /\
    brute_row sel q k = Some l /\ length l = S k /\ ~ is_knn d N q k l.
Proof. exact brute_dup_refuted_lemma. Qed.
Print Assumptions brute_dup_refuted.

Theorem brute_checked_exact : forall d N q k sel,
  0 <= q < Z.of_nat N -> (k < N)%nat ->
  nth_ok_b k (brute_dists_fixed d N q) sel = true ->
  exists l, brute_row_fixed sel k = Some l /\ is_knn d N q k l.
Proof. exact brute_checked_exact_lemma. Qed.
Print Assumptions brute_checked_exact.

Example brute_checked_nonvacuous :
  nth_ok_b 3 (brute_dists_fixed grid_d 9 4) (nth_element_ref (brute_dists_fixed grid_d 9 4)) = true.
Proof. vm_compute. reflexivity. Qed.

(* ---------------- VP-tree ---------------- *)

Theorem vp_search_exact : forall d dom t q k,
  metric_on dom d -> dom q -> (forall x, In x (items t) -> dom x) ->
  vp_inv d t -> NoDup (items t) -> (1 <= k)%nat ->
  exists l, vp_search d t q k = Some l /\
            knn_of d q (items t) (Nat.min k (length (items t))) l /\
            desc_from d q l.
Proof. exact vp_search_exact_lemma. Qed.
Print Assumptions vp_search_exact.

Theorem build_inv : forall d piv nth,
  piv_ok piv -> nth_oracle_ok d nth ->
  forall fuel lower its, (length its < fuel)%nat ->
  exists t, build d piv nth fuel lower its = Built t /\ vp_inv d t /\ Permutation its (items t).
Proof. exact build_inv_lemma. Qed.
Print Assumptions build_inv.

Example build_inv_nonvacuous : forall d, piv_ok piv_first /\ nth_oracle_ok d (nth_sort d).
Proof. intros d. split; [exact piv_first_ok | exact (nth_sort_ok d)]. Qed.

Example vp_search_exact_nonvacuous :
  metric_on (in_range 9) grid_d /\ in_range 9 4 /\ (forall x, In x (items grid_tree) -> in_range 9 x) /\
  vp_inv grid_d grid_tree /\ NoDup (items grid_tree) /\ (1 <= 4)%nat /\
  Permutation (items grid_tree) (samples 9).
Proof.
  assert (Hp : Permutation (items grid_tree) (samples 9)) by (apply vp_holds_b_sound; vm_compute; reflexivity).
  split; [apply metric_b_sound; vm_compute; reflexivity|].
  split; [unfold in_range; cbn; lia|].
  split; [intros x Hx; apply samples_In; now apply (Permutation_in _ Hp)|].
  split; [apply vp_inv_b_spec; vm_compute; reflexivity|].
  split; [apply (Permutation_NoDup (Permutation_sym Hp)), samples_NoDup|].
  split; [lia | exact Hp].
Qed.

Theorem vptree_wrapper_exact : forall d N t q k,
  metric_on (in_range N) d -> in_range N q ->
  vp_inv d t -> Permutation (items t) (samples N) -> (k < N)%nat ->
  exists l, vp_row_fixed d t q k = Some l /\ is_knn d N q k l.
Proof. exact vptree_wrapper_exact_lemma. Qed.
Print Assumptions vptree_wrapper_exact.

Theorem vp_row_exact_partial : forall d N t q k,
  metric_on (in_range N) d -> in_range N q ->
  vp_inv d t -> Permutation (items t) (samples N) -> (k + 1 <= N)%nat ->
  (length (filter (fun j => (d q j <=? d q q)%Z) (others N q)) <= k)%nat ->
  exists l, vp_row d t q k = Some l /\ is_knn d N q k l.
Proof. exact vp_row_exact_partial_lemma. Qed.
Print Assumptions vp_row_exact_partial.

Example vp_row_exact_partial_nonvacuous :
  (3 + 1 <= 9)%nat /\
  (length (filter (fun j => (grid_d 4 j <=? grid_d 4 4)%Z) (others 9 4)) <= 3)%nat.
Proof. split; [lia | vm_compute; lia]. Qed.

Theorem vp_dup_refuted :
  exists (d : dist) (N : nat) (t : vpt) (q : Z) (k : nat) (l : list Z),
    metric_on (in_range N) d /\ in_range N q /\ vp_inv d t /\
    Permutation (items t) (samples N) /\ (k + 1 <= N)%nat /\
    build d piv_first (nth_sort d) (S N) 0 (samples N) = Built t /\
    vp_row d t q k = Some l /\ length l = S k /\ ~ is_knn d N q k l.
Proof. exact vp_dup_refuted_lemma. Qed.
Print Assumptions vp_dup_refuted.

Theorem vptree_checked_exact : forall d N t q k,
  metric_on (in_range N) d -> in_range N q -> (k < N)%nat ->
  vp_inv_b d t = true -> vp_holds_b N t = true ->
  exists l, vp_row_fixed d t q k = Some l /\ is_knn d N q k l.
Proof. exact vptree_checked_exact_lemma. Qed.
Print Assumptions vptree_checked_exact.

Example vptree_checked_nonvacuous :
  vp_inv_b grid_d grid_tree = true /\ vp_holds_b 9 grid_tree = true /\ metric_b grid_d 9 = true.
Proof. vm_compute. auto. Qed.

Theorem kernel_comparator : forall kpp kpa kaa kpb kbb da db : Z,
  0 <= da -> 0 <= db ->
  da * da = kpp - 2 * kpa + kaa ->
  db * db = kpp - 2 * kpb + kbb ->
  (-2 * kpa + kaa < -2 * kpb + kbb <-> da < db).
Proof. exact kernel_comparator_lemma. Qed.
Print Assumptions kernel_comparator.

Example kernel_comparator_nonvacuous :
  0 <= 1 /\ 0 <= 2 /\ 1 * 1 = 9 - 2 * 12 + 16 /\ 2 * 2 = 9 - 2 * 15 + 25.
Proof. lia. Qed.

(* scale equivariance (what the kernel_scaled stream exercises at 2^-60 .. 2^60): the kernel comparator, the
   specification and the metric hypothesis are invariant under a positive rescaling of the callback values *)
Theorem kernel_comparator_scale : forall c kpa kaa kpb kbb : Z, 0 < c ->
  (-2 * (c * kpa) + c * kaa < -2 * (c * kpb) + c * kbb <-> -2 * kpa + kaa < -2 * kpb + kbb).
Proof. exact kernel_comparator_scale_lemma. Qed.
Print Assumptions kernel_comparator_scale.

Theorem is_knn_scale : forall (c : Z) (d : dist) N q k l, 0 < c ->
  (is_knn (fun i j => c * d i j) N q k l <-> is_knn d N q k l).
Proof. exact is_knn_scale_lemma. Qed.
Print Assumptions is_knn_scale.

Theorem metric_scale : forall (c : Z) dom (d : dist), 0 < c ->
  metric_on dom d -> metric_on dom (fun i j => c * d i j).
Proof. exact metric_scale_lemma. Qed.
Print Assumptions metric_scale.

Example scale_nonvacuous : 0 < 1024 /\ metric_on (in_range 3) line_d.
Proof. split; [lia | apply metric_b_sound; vm_compute; reflexivity]. Qed.

(* ---------------- cover tree: the selection wrapper ---------------- *)

Theorem ct_select_exact : forall d N q k cands,
  in_range N q -> (k < N)%nat ->
  cand_complete d N q k cands ->
  exists l, ct_select_fixed d (q :: cands) k = Some l /\ is_knn d N q k l.
Proof. exact ct_select_exact_lemma. Qed.
Print Assumptions ct_select_exact.

Example ct_select_exact_nonvacuous :
  in_range 9 0 /\ (3 < 9)%nat /\ cand_complete grid_d 9 0 3 grid_cands.
Proof.
  split; [unfold in_range; cbn; lia|]. split; [lia|].
  apply cand_complete_b_sound. vm_compute. reflexivity.
Qed.

(* PARTIAL: exactness of the cover-tree method given that the candidate list returned by
   CoverTreeWrapper::k_nearest_neighbor passes the run-time check cand_complete_b.  Missing:
   a proof that the batch query (covertree.hpp: batch_create, descend, brute_nearest, ...)
   always returns such a list. *)
Theorem covertree_exact_partial : forall d N q k cands,
  in_range N q -> (k < N)%nat ->
  cand_complete_b d N q k cands = true ->
  exists l, ct_select_fixed d (q :: cands) k = Some l /\ is_knn d N q k l.
Proof. exact covertree_exact_partial_lemma. Qed.
Print Assumptions covertree_exact_partial.

Example covertree_exact_partial_nonvacuous : cand_complete_b grid_d 9 0 3 grid_cands = true.
Proof. vm_compute. reflexivity. Qed.

Theorem cand_bound_suffices : forall d N q k cands B,
  NoDup cands -> (forall j, In j cands -> in_range N j) ->
  (forall j, in_range N j -> d q j <= B -> In j cands) ->
  (k <= length (filter (fun i => (d q i <=? B)%Z) (others N q)))%nat ->
  cand_complete d N q k cands.
Proof. exact cand_bound_complete. Qed.
Print Assumptions cand_bound_suffices.

Example cand_bound_suffices_nonvacuous :
  NoDup grid_cands /\ (forall j, In j grid_cands -> in_range 9 j) /\
  (forall j, in_range 9 j -> grid_d 0 j <= 2 -> In j grid_cands) /\
  (3 <= length (filter (fun i => (grid_d 0 i <=? 2)%Z) (others 9 0)))%nat.
Proof.
  split; [apply nodup_b_spec; vm_compute; reflexivity|].
  split; [intros j Hj; unfold in_range; cbn in Hj; cbn; lia|].
  split; [|vm_compute; lia].
  intros j Hj Hd. unfold in_range in Hj. cbn in Hj.
  assert (Hc : j = 0 \/ j = 1 \/ j = 2 \/ j = 3 \/ j = 4 \/ j = 5 \/ j = 6 \/ j = 7 \/ j = 8) by lia.
  destruct Hc as [->|[->|[->|[->|[->|[->|[->|[->| ->]]]]]]]]; vm_compute in Hd; cbn; try tauto;
    exfalso; apply Hd; reflexivity.
Qed.

Theorem ct_select_refuted :
  exists (d : dist) (N : nat) (q : Z) (k : nat) (cands l : list Z),
    metric_on (in_range N) d /\ in_range N q /\ (k < N)%nat /\
    cand_complete d N q k cands /\ cand_exact_b d N q k cands = true /\
    ct_select (q :: cands) k = Some l /\ ~ is_knn d N q k l.
Proof. exact ct_select_refuted_lemma. Qed.
Print Assumptions ct_select_refuted.

Theorem ct_select_count_refuted :
  exists (d : dist) (N : nat) (q : Z) (k : nat) (cands l : list Z),
    metric_on (in_range N) d /\ in_range N q /\ (k < N)%nat /\
    cand_complete d N q k cands /\
    ct_select (q :: cands) k = Some l /\ length l = S k.
Proof. exact ct_select_count_refuted_lemma. Qed.
Print Assumptions ct_select_count_refuted.

(* ---------------- cover tree: the batch query ---------------- *)

(* descend (and the final filter): a sample farther than upper_bound[0] + 2 max_dist(Q) from the query
   node's point is needed by no query below Q *)
Theorem ct_prune_descend_sound :
  forall (d : dist) (pts : list Z) (K : nat) (dom : Z -> Prop),
  (forall x y : Z, dom x -> dom y -> dd d x y = dd d y x) ->
  (forall x y z : Z, dom x -> dom y -> dom z -> dd d x z <= dd d x y + dd d y z) ->
  (forall x : Z, In x pts -> dom x) ->
  forall (Q : ctree) (ub : list ext) (v q' x : Z),
  node_ok d pts Q -> valid_b d pts K false Q ub = true -> ub0 ub = Some v ->
  In q' (leaf_points Q) -> v + c_maxd Q + c_maxd Q < dd d (c_p Q) x -> dom x ->
  ~ needed d pts K q' x.
Proof. exact audit_descend. Qed.
Print Assumptions ct_prune_descend_sound.

(* copy_zero_set / copy_cover_sets (repaired radius, fix F46): a sample farther than
   new_upper_bound[0] + 2 max_dist(query_chi) from query_chi's point is needed by no query below query_chi.
   With ONE max_dist (the code before F46) the statement is false: ct_copy_radius_refuted below. *)
Theorem ct_prune_copy_sound :
  forall (d : dist) (pts : list Z) (K : nat) (dom : Z -> Prop),
  (forall x y : Z, dom x -> dom y -> dd d x y = dd d y x) ->
  (forall x y z : Z, dom x -> dom y -> dom z -> dd d x z <= dd d x y + dd d y z) ->
  (forall x : Z, In x pts -> dom x) ->
  forall (qc : ctree) (ub : list ext) (v q' x : Z),
  node_ok d pts qc -> valid_b d pts K true qc ub = true -> ub0 ub = Some v ->
  In q' (leaf_points qc) -> v + c_maxd qc + c_maxd qc < dd d (c_p qc) x -> dom x ->
  ~ needed d pts K q' x.
Proof. exact audit_copy. Qed.
Print Assumptions ct_prune_copy_sound.

Example ct_prune_nonvacuous :
  node_ok grid9_d (leaf_points grid9_ctree) grid9_ctree /\
  valid_b grid9_d (leaf_points grid9_ctree) 2 false grid9_ctree [Some 1; Some 0] = true /\
  valid_b grid9_d (leaf_points grid9_ctree) 2 true grid9_ctree [Some 1; Some 0] = true.
Proof. split; [split; [vm_compute; reflexivity | apply incl_refl]|]. vm_compute. auto. Qed.

(* PARTIAL (see the reading guide): completeness of the model of the batch query *)
Theorem ct_query_complete_partial : forall d dom top K fuel rows,
  metric_on dom d -> (forall x, In x (leaf_points top) -> dom x) ->
  ct_inv_b d top = true -> is_leaf top = false ->
  ct_query false d K (valid_b d (leaf_points top) K) fuel top = Some (rows, true) ->
  forall q cands, In (q, cands) rows ->
    In q (leaf_points top) /\
    forall x, In x (leaf_points top) ->
      (length (filter (fun y => (dd d q y <? dd d q x)%Z) (leaf_points top)) < K)%nat -> In x cands.
Proof. exact ct_query_complete_partial_lemma. Qed.
Print Assumptions ct_query_complete_partial.

Example ct_query_complete_partial_nonvacuous :
  metric_on (in_range 9) grid9_d /\ (forall x, In x (leaf_points grid9_ctree) -> in_range 9 x) /\
  ct_inv_b grid9_d grid9_ctree = true /\ is_leaf grid9_ctree = false /\
  exists rows, ct_query false grid9_d 4 (valid_b grid9_d (leaf_points grid9_ctree) 4) (ct_fuel grid9_ctree) grid9_ctree
               = Some (rows, true) /\ length rows = 9%nat.
Proof.
  split; [apply metric_b_sound; vm_compute; reflexivity|].
  split; [intros x Hx; unfold in_range; cbn in Hx; cbn; lia|].
  split; [vm_compute; reflexivity|]. split; [reflexivity|].
  eexists. split; [vm_compute; reflexivity | reflexivity].
Qed.

Theorem needed_gives_cand_complete : forall d N q k pts cands,
  Permutation pts (samples N) -> in_range N q -> (k < N)%nat ->
  NoDup cands -> (forall j, In j cands -> in_range N j) ->
  (forall x, In x pts ->
     (length (filter (fun y => (dd d q y <? dd d q x)%Z) pts) < S k)%nat -> In x cands) ->
  cand_complete d N q k cands.
Proof. exact needed_cand_complete. Qed.
Print Assumptions needed_gives_cand_complete.

Theorem covertree_model_exact_partial : forall d N top k fuel rows q cands,
  metric_on (in_range N) d -> (k < N)%nat ->
  ct_inv_b d top = true -> ct_holds_b N top = true -> is_leaf top = false ->
  ct_query false d (S k) (valid_b d (leaf_points top) (S k)) fuel top = Some (rows, true) ->
  In (q, cands) rows -> nodup_b cands = true ->
  forallb (fun j => (0 <=? j) && (j <? Z.of_nat N)) cands = true ->
  exists l, ct_select_fixed d (q :: cands) k = Some l /\ is_knn d N q k l.
Proof. exact covertree_model_exact_partial_lemma. Qed.
Print Assumptions covertree_model_exact_partial.

Example covertree_model_exact_partial_nonvacuous :
  metric_on (in_range 9) grid9_d /\ (3 < 9)%nat /\ ct_inv_b grid9_d grid9_ctree = true /\
  ct_holds_b 9 grid9_ctree = true /\ is_leaf grid9_ctree = false /\
  exists rows, ct_query false grid9_d 4 (valid_b grid9_d (leaf_points grid9_ctree) 4) (ct_fuel grid9_ctree) grid9_ctree
               = Some (rows, true) /\
    In (0, [6; 4; 2; 0; 3; 1]) rows /\ nodup_b [6; 4; 2; 0; 3; 1] = true /\
    forallb (fun j => (0 <=? j) && (j <? Z.of_nat 9)) [6; 4; 2; 0; 3; 1] = true.
Proof.
  split; [apply metric_b_sound; vm_compute; reflexivity|]. split; [lia|].
  split; [vm_compute; reflexivity|]. split; [vm_compute; reflexivity|]. split; [reflexivity|].
  eexists. split; [vm_compute; reflexivity|]. split; [|split; vm_compute; reflexivity].
  cbn. tauto.
Qed.

(* ---------------- cover tree: the batch query at full strength (wave 2) ---------------- *)

(* the audit flag is always true, for the current and for the pre-F46 copy radius: whenever upper_bound[0] is read,
   at least K samples lie within it of the query node's point *)
Theorem ct_query_audit_true : forall oc d dom top K fuel rows ok,
  metric_on dom d -> (forall x, In x (leaf_points top) -> dom x) ->
  ct_inv_b d top = true -> NoDup (leaf_points top) -> is_leaf top = false ->
  ct_query oc d K (valid_b d (leaf_points top) K) fuel top = Some (rows, ok) -> ok = true.
Proof. exact ct_query_audit_true_lemma. Qed.
Print Assumptions ct_query_audit_true.

Theorem ct_query_complete : forall d dom top K fuel rows ok,
  metric_on dom d -> (forall x, In x (leaf_points top) -> dom x) ->
  ct_inv_b d top = true -> NoDup (leaf_points top) -> is_leaf top = false ->
  ct_query false d K (valid_b d (leaf_points top) K) fuel top = Some (rows, ok) ->
  forall q cands, In (q, cands) rows ->
    In q (leaf_points top) /\
    forall x, In x (leaf_points top) ->
      (length (filter (fun y => (dd d q y <? dd d q x)%Z) (leaf_points top)) < K)%nat -> In x cands.
Proof. exact ct_query_complete_lemma. Qed.
Print Assumptions ct_query_complete.

Theorem ct_query_rows_shape : forall oc d dom top K fuel rows ok,
  metric_on dom d -> (forall x, In x (leaf_points top) -> dom x) ->
  ct_inv_b d top = true -> NoDup (leaf_points top) -> is_leaf top = false ->
  ct_query oc d K (valid_b d (leaf_points top) K) fuel top = Some (rows, ok) ->
  forall q cands, In (q, cands) rows -> NoDup cands /\ incl cands (leaf_points top).
Proof. exact ct_query_rows_shape_lemma. Qed.
Print Assumptions ct_query_rows_shape.

(* model of the whole cover-tree method (query with the repaired radius + repaired selection): every row is exactly
   a set of k nearest other samples, on every tree that passes the two checkers run on the dumped real tree *)
Theorem covertree_model_exact : forall d N top k fuel rows ok q cands,
  metric_on (in_range N) d -> (k < N)%nat ->
  ct_inv_b d top = true -> ct_holds_b N top = true -> is_leaf top = false ->
  ct_query false d (S k) (valid_b d (leaf_points top) (S k)) fuel top = Some (rows, ok) ->
  In (q, cands) rows ->
  exists l, ct_select_fixed d (q :: cands) k = Some l /\ is_knn d N q k l.
Proof. exact covertree_model_exact_lemma. Qed.
Print Assumptions covertree_model_exact.

Example ct_query_full_nonvacuous :
  metric_on (in_range 9) grid9_d /\ (forall x, In x (leaf_points grid9_ctree) -> in_range 9 x) /\ (3 < 9)%nat /\
  ct_inv_b grid9_d grid9_ctree = true /\ ct_holds_b 9 grid9_ctree = true /\ NoDup (leaf_points grid9_ctree) /\
  is_leaf grid9_ctree = false /\
  exists rows ok, ct_query false grid9_d 4 (valid_b grid9_d (leaf_points grid9_ctree) 4) (ct_fuel grid9_ctree) grid9_ctree
                  = Some (rows, ok) /\ In (0, [6; 4; 2; 0; 3; 1]) rows.
Proof.
  split; [apply metric_b_sound; vm_compute; reflexivity|].
  split; [intros x Hx; unfold in_range; cbn in Hx; cbn; lia|]. split; [lia|].
  split; [vm_compute; reflexivity|]. split; [vm_compute; reflexivity|].
  split; [apply nodup_b_spec; vm_compute; reflexivity|]. split; [reflexivity|].
  eexists. eexists. split; [vm_compute; reflexivity|]. cbn. tauto.
Qed.

(* the model query answers for every sample exactly once, whatever the distance function and the audit *)
Theorem ct_query_rows : forall oc d K au fuel top rows ok,
  ct_query oc d K au fuel top = Some (rows, ok) -> Permutation (map fst rows) (leaf_points top).
Proof. exact ct_query_rows_lemma. Qed.
Print Assumptions ct_query_rows.

(* ... and with fuel ct_fuel top it never runs out of fuel and never dereferences the children of a leaf *)
Theorem ct_query_total : forall oc d K au top,
  leaf100_b top = true -> ct_query oc d K au (ct_fuel top) top <> None.
Proof. exact ct_query_total_lemma. Qed.
Print Assumptions ct_query_total.

Example ct_query_total_nonvacuous : leaf100_b grid9_ctree = true.
Proof. vm_compute. reflexivity. Qed.

(* regression for F25: the model query on the tree built by the pre-fix batch_insert (dumped from the
   reverted source) loses the coincident samples exactly as the real query did; ct_inv_b rejects it *)
Theorem ct_scale100_refuted :
  metric_b f25_d 4 = true /\
  ct_holds_b 4 f25_old_tree = true /\ ct_inv_b f25_d f25_old_tree = false /\
  ct_query true f25_d 2 no_audit (ct_fuel f25_old_tree) f25_old_tree
    = Some ([(3, [3]); (2, [0]); (1, [0]); (0, [0])], true) /\
  ct_inv_b f25_d f25_new_tree = true /\
  ct_query false f25_d 2 (valid_b f25_d (leaf_points f25_new_tree) 2) (ct_fuel f25_new_tree) f25_new_tree
    = Some ([(3, [3; 2; 1]); (1, [2; 1]); (2, [2; 1]); (0, [0; 2; 1])], true).
Proof. exact ct_scale100_refuted_lemma. Qed.
Print Assumptions ct_scale100_refuted.

(* regression for F46: on the tree the real batch_create builds for eleven points of the plane (L1 metric) the
   model of the query with the OLD copy radius (one query max_dist in copy_zero_set / copy_cover_sets) returns for
   sample 4 the candidate list the real query returned, which misses its second nearest neighbour - although the
   tree passes every checker and the bound was valid at every read; the repaired query is complete on that tree *)
Theorem ct_copy_radius_refuted :
  metric_b f46_d 11 = true /\ ct_inv_b f46_d f46_tree = true /\ ct_holds_b 11 f46_tree = true /\
  leaf100_b f46_tree = true /\
  (exists rows, ct_query true f46_d 3 (valid_b f46_d (leaf_points f46_tree) 3) (ct_fuel f46_tree) f46_tree
                = Some (rows, true) /\ In (4, [6; 2; 0; 10; 4]) rows) /\
  cand_complete_b f46_d 11 4 2 [6; 2; 0; 10; 4] = false /\
  ct_select_fixed f46_d (4 :: [6; 2; 0; 10; 4]) 2 = Some [10; 0] /\
  is_knn_b f46_d 11 4 2 [10; 0] = false /\ is_knn_b f46_d 11 4 2 [10; 7] = true /\
  all_rows_complete f46_d 11 2
    (ct_query false f46_d 3 (valid_b f46_d (leaf_points f46_tree) 3) (ct_fuel f46_tree) f46_tree) = true.
Proof. exact ct_copy_radius_refuted_lemma. Qed.
Print Assumptions ct_copy_radius_refuted.

(* ---------------- cover tree: the construction (wave 2) ---------------- *)

(* CoverTree_Build_Model.v models batch_create / batch_insert (loop bi_loop) / split / dist_split / max_set / get_scale
   with exact 13/10 arithmetic; it is compared node by node with the real tree on every run.  For EVERY distance
   function (nothing about d is used), every input order and every behaviour of get_scale the tree it builds satisfies
   ct_inv_b (I1 max_dist bounds every leaf below, I2 parent_dist, I3 first child repeats the point, I4 inner children
   have a larger scale), no sample occurs twice, and every sample is a leaf when get_scale covered the largest distance *)
Theorem ct_build_inv : forall d fuel p0 rest t,
  batch_create d fuel (p0 :: rest) = Some t ->
  ct_inv_b d t = true /\ c_p t = p0 /\
  (NoDup (p0 :: rest) -> NoDup (leaf_points t)) /\
  (scale_found d p0 rest -> Permutation (leaf_points t) (p0 :: rest)).
Proof. exact batch_create_inv_lemma. Qed.
Print Assumptions ct_build_inv.

Theorem ct_build_leaf100 : forall d fuel points t, batch_create d fuel points = Some t -> leaf100_b t = true.
Proof. exact batch_create_leaf100_lemma. Qed.
Print Assumptions ct_build_leaf100.

Theorem ct_build_checked : forall d N fuel t,
  (2 <= N)%nat -> batch_create d fuel (samples N) = Some t -> scale_found d 0 (zseq 1 (N - 1)) ->
  ct_inv_b d t = true /\ ct_holds_b N t = true /\ is_leaf t = false.
Proof. exact batch_create_checked_lemma. Qed.
Print Assumptions ct_build_checked.

(* END TO END on the models of the cover-tree method as committed (construction, batch query with the F46 radius,
   F2 selection): for every metric on the samples 0..N-1, every k < N, the query answers with exactly one row per
   sample and every row is exactly a set of k nearest other samples *)
Theorem covertree_pipeline_exact : forall d N k fuel t,
  metric_on (in_range N) d -> (k < N)%nat -> (2 <= N)%nat ->
  batch_create d fuel (samples N) = Some t -> scale_found d 0 (zseq 1 (N - 1)) ->
  exists rows ok,
    ct_query false d (S k) (valid_b d (leaf_points t) (S k)) (ct_fuel t) t = Some (rows, ok) /\
    Permutation (map fst rows) (samples N) /\
    forall q cands, In (q, cands) rows ->
      exists l, ct_select_fixed d (q :: cands) k = Some l /\ is_knn d N q k l.
Proof. exact covertree_pipeline_total_lemma. Qed.
Print Assumptions covertree_pipeline_exact.

(* non-vacuity + executable sanity check of the construction model: two recorded real trees (dumped by the harness) *)
Example ct_build_model_examples :
  batch_create grid9_d 100 (samples 9) = Some grid9_ctree /\
  batch_create f25_d 100 (samples 4) = Some f25_new_tree /\
  batch_create f46_d 100 (samples 11) = Some f46_tree /\
  ct_inv_b grid9_d grid9_ctree = true /\ leaf100_b grid9_ctree = true /\
  metric_on (in_range 9) grid9_d /\ (3 < 9)%nat /\ (2 <= 9)%nat /\ scale_found grid9_d 0 (zseq 1 (9 - 1)).
Proof.
  split; [vm_compute; reflexivity|]. split; [vm_compute; reflexivity|]. split; [vm_compute; reflexivity|].
  split; [vm_compute; reflexivity|]. split; [vm_compute; reflexivity|].
  split; [apply metric_b_sound; vm_compute; reflexivity|]. split; [lia|]. split; [lia|].
  right. vm_compute. reflexivity.
Qed.

(* ---------------- the dispatcher find_neighbors and its exhaustive-search fallback (wave 4) ---------------- *)

(* the whole contract, for every callback d, every tree result, every admissible nth_element answer per row *)
Theorem wrapper_exact : forall m d N k0 tree_rows sels,
  (1 <= N)%nat -> sels_ok d N (fn_clamp N k0) sels ->
  exists fired rows,
    find_neighbors_core m tree_rows sels N k0 = Some (fired, rows) /\
    (fired = negb (is_brute m) && fn_incomplete (fn_clamp N k0) tree_rows) /\
    (is_brute m || fired = true -> rows_exact d N (fn_clamp N k0) rows) /\
    (is_brute m || fired = false -> rows = tree_rows /\ Forall (fun r => length r = fn_clamp N k0) rows).
Proof. exact wrapper_exact_lemma. Qed.
Print Assumptions wrapper_exact.

(* whenever the fallback fires, EVERY returned row is an exact k-NN row of the callback values as they are *)
Theorem wrapper_fired_exact : forall m d N k tree_rows sels rows,
  (k < N)%nat -> sels_ok d N k sels ->
  find_neighbors_core m tree_rows sels N k = Some (true, rows) ->
  rows_exact d N k rows.
Proof. exact wrapper_fired_exact_lemma. Qed.
Print Assumptions wrapper_fired_exact.

(* whenever it does not fire and the tree rows are exact (callback a metric), likewise *)
Theorem wrapper_all_exact : forall m d N k tree_rows sels,
  (k < N)%nat -> sels_ok d N k sels ->
  (fn_incomplete k tree_rows = false -> rows_exact d N k tree_rows) ->
  exists fired rows, find_neighbors_core m tree_rows sels N k = Some (fired, rows) /\ rows_exact d N k rows.
Proof. exact wrapper_all_exact_lemma. Qed.
Print Assumptions wrapper_all_exact.

Theorem wrapper_tree_exact_unchanged : forall m d N k tree_rows sels,
  (k < N)%nat -> is_brute m = false -> rows_exact d N k tree_rows ->
  find_neighbors_core m tree_rows sels N k = Some (false, tree_rows).
Proof. exact wrapper_tree_exact_unchanged_lemma. Qed.
Print Assumptions wrapper_tree_exact_unchanged.

Theorem wrapper_vptree_metric : forall d N t k tree_rows sels,
  metric_on (in_range N) d -> vp_inv d t -> Permutation (items t) (samples N) -> (k < N)%nat ->
  Forall2 (fun q l => vp_row_fixed d t q k = Some l) (samples N) tree_rows ->
  find_neighbors_core MVpTree tree_rows sels N k = Some (false, tree_rows) /\ rows_exact d N k tree_rows.
Proof. exact wrapper_vptree_metric_lemma. Qed.
Print Assumptions wrapper_vptree_metric.

Theorem all_knn_b_reflects : forall d N k qs rows,
  all_knn_b d N k qs rows = true <-> Forall2 (fun q l => is_knn d N q k l) qs rows.
Proof. exact all_knn_b_spec. Qed.
Print Assumptions all_knn_b_reflects.

(* recomputing only the rows whose size is wrong (seeded change C02_4) keeps wrong rows of the right size *)
Theorem wrapper_rowwise_refuted :
  exists m d N k tree_rows sels rows,
    (k < N)%nat /\ sels_ok d N k sels /\
    find_neighbors_rowwise m tree_rows sels N k = Some (true, rows) /\
    Forall (fun r => length r = k) rows /\
    ~ rows_exact d N k rows /\
    exists rows', find_neighbors_core m tree_rows sels N k = Some (true, rows') /\ rows_exact d N k rows'.
Proof. exact wrapper_rowwise_refuted_lemma. Qed.
Print Assumptions wrapper_rowwise_refuted.

(* non-vacuity: a NON-metric callback (nm_d 0 1 = 9 > nm_d 0 2 + nm_d 2 1 = 4 + 1; metric_b is false) and a tree table
   with an empty row and a wrong row of the right size: the hypotheses of wrapper_fired_exact hold and the fallback
   fires; an exact table does not fire it; Brute with k0 = 7 > N - 1 is clamped to 2 *)
Definition nm_d : dist := fun a b =>
  if (a =? b) then 0 else if ((a + b) =? 1) then 9 else if ((a + b) =? 2) then 4 else 1.
Example wrapper_fired_nonvacuous :
  (1 < 3)%nat /\ sels_ok nm_d 3 1 (sels_ref nm_d 3) /\ metric_b nm_d 3 = false /\
  find_neighbors_core MCoverTree [ []; [0]; [1] ] (sels_ref nm_d 3) 3 1 = Some (true, [ [2]; [2]; [1] ]) /\
  find_neighbors_core MVpTree [ [2]; [2]; [1] ] (sels_ref nm_d 3) 3 1 = Some (false, [ [2]; [2]; [1] ]) /\
  find_neighbors_core MBrute [] (sels_ref nm_d 3) 3 7 = Some (false, [ [2; 1]; [2; 0]; [1; 0] ]).
Proof.
  split; [lia|]. split; [apply sels_ref_ok|]. repeat split; vm_compute; reflexivity.
Qed.

(* the tie of the dispatcher model to the source text: the table generated from neighbors.hpp (coq/gen/KnnWrapper.v) *)
Theorem fn_shape_src_is_model : fn_shape_src = fn_shape_model.
Proof. reflexivity. Qed.
Print Assumptions fn_shape_src_is_model.
