(* Spe_Proof_Lists.v — list lemmas and reflection of the boolean procedures of Spe_Spec.v *)
Require Import List Arith Lia Bool Permutation.
From TK Require Import Spe_Model Spe_Spec.
Import ListNotations.

(* ---------------- nth / firstn / skipn ---------------- *)
Lemma nth_firstn_lt {A} (l : list A) n i d : i < n -> nth i (firstn n l) d = nth i l d.
Proof.
  revert n i. induction l as [|x l IH]; intros n i Hi.
  - rewrite firstn_nil. reflexivity.
  - destruct n as [|n]; [lia|]. destruct i as [|i]; cbn [firstn nth]; [reflexivity|].
    apply IH. lia.
Qed.

Lemma nth_skipn_add {A} (l : list A) n i d : nth i (skipn n l) d = nth (n + i) l d.
Proof.
  revert l. induction n as [|n IH]; intros l; [reflexivity|].
  destruct l as [|x l]; cbn [skipn Nat.add nth].
  - destruct i; reflexivity.
  - apply IH.
Qed.

Lemma nth_error_nth_lt {A} (l : list A) i d : i < length l -> nth_error l i = Some (nth i l d).
Proof.
  revert i. induction l as [|x l IH]; intros i Hi; cbn [length] in Hi; [lia|].
  destruct i as [|i]; cbn [nth_error nth]; [reflexivity|]. apply IH. lia.
Qed.

Lemma map_nth_seq {A} (l : list A) d : map (fun i => nth i l d) (seq 0 (length l)) = l.
Proof.
  induction l as [|x l IH] using rev_ind; [reflexivity|].
  rewrite app_length. cbn [length]. rewrite Nat.add_1_r, seq_S, map_app. cbn [map Nat.add].
  rewrite app_nth2 by lia. rewrite Nat.sub_diag. cbn [nth]. f_equal.
  rewrite <- IH at 2. apply map_ext_in. intros i Hi. apply in_seq in Hi.
  apply app_nth1. lia.
Qed.

Lemma nth_map_seq {A} (f : nat -> A) n j d : j < n -> nth j (map f (seq 0 n)) d = f j.
Proof.
  intros H. rewrite (nth_indep _ d (f 0)) by (rewrite map_length, seq_length; lia).
  rewrite map_nth. rewrite seq_nth by lia. reflexivity.
Qed.

Lemma combine_firstn_skipn_nth (l : list nat) nu :
  nu + nu <= length l ->
  combine (firstn nu l) (firstn nu (skipn nu l)) =
  map (fun j => (nth j l 0, nth (nu + j) l 0)) (seq 0 nu).
Proof.
  intros Hl.
  assert (L1 : length (firstn nu l) = nu) by (rewrite firstn_length; lia).
  assert (L2 : length (firstn nu (skipn nu l)) = nu)
    by (rewrite firstn_length, skipn_length; lia).
  apply (nth_ext _ _ (0, 0) (0, 0)).
  - rewrite combine_length, map_length, seq_length. lia.
  - intros j Hj. rewrite combine_length in Hj.
    rewrite combine_nth by lia.
    rewrite nth_map_seq by lia.
    rewrite nth_firstn_lt by lia. rewrite nth_firstn_lt by lia.
    rewrite nth_skipn_add. reflexivity.
Qed.

Lemma map_fst_combine {A B} (a : list A) (b : list B) :
  length a = length b -> map fst (combine a b) = a.
Proof.
  revert b. induction a as [|x a IH]; intros [|y b] H; cbn in *; try lia; [reflexivity|].
  f_equal. apply IH. lia.
Qed.

Lemma map_snd_combine {A B} (a : list A) (b : list B) :
  length a = length b -> map snd (combine a b) = b.
Proof.
  revert b. induction a as [|x a IH]; intros [|y b] H; cbn in *; try lia; [reflexivity|].
  f_equal. apply IH. lia.
Qed.

Lemma NoDup_app_remove_r {A} (l l' : list A) : NoDup (l ++ l') -> NoDup l.
Proof.
  induction l as [|x l IH]; cbn [app]; intros H; [constructor|].
  inversion H as [|? ? Hx Hn]; subst. constructor.
  - intro Hin. apply Hx. apply in_or_app. left. exact Hin.
  - apply IH. exact Hn.
Qed.

Lemma NoDup_firstn {A} (l : list A) n : NoDup l -> NoDup (firstn n l).
Proof.
  intros H. rewrite <- (firstn_skipn n l) in H. apply NoDup_app_remove_r in H. exact H.
Qed.

Lemma NoDup_two_halves {A} (l : list A) n :
  NoDup l -> NoDup (firstn n l ++ firstn n (skipn n l)).
Proof.
  intros H. rewrite <- (firstn_skipn n l) in H.
  rewrite <- (firstn_skipn n (skipn n l)) in H. rewrite app_assoc in H.
  apply NoDup_app_remove_r in H. exact H.
Qed.

(* equal-size blocks *)
Lemma nth_concat_blocks {A} (bs : list (list A)) k j m d :
  Forall (fun b => length b = k) bs -> j < length bs -> m < k ->
  nth (k * j + m) (concat bs) d = nth m (nth j bs []) d.
Proof.
  intros Hb. revert j. induction Hb as [|b bs Hlen Hb IH]; intros j Hj Hm; cbn [length] in Hj; [lia|].
  cbn [concat]. destruct j as [|j].
  - rewrite Nat.mul_0_r. cbn [Nat.add nth]. apply app_nth1. lia.
  - cbn [nth]. rewrite app_nth2 by nia.
    replace (k * S j + m - length b) with (k * j + m) by nia.
    apply IH; lia.
Qed.

Lemma length_concat_blocks {A} (bs : list (list A)) k :
  Forall (fun b => length b = k) bs -> length (concat bs) = k * length bs.
Proof.
  induction 1 as [|b bs Hlen Hb IH]; cbn [concat length]; [lia|].
  rewrite app_length, IH. nia.
Qed.

(* ---------------- reflection ---------------- *)
Lemma mem_ok x l : mem x l = true <-> In x l.
Proof.
  unfold mem. rewrite existsb_exists. split.
  - intros [y [Hy He]]. apply Nat.eqb_eq in He. subst. exact Hy.
  - intros H. exists x. split; [exact H|apply Nat.eqb_refl].
Qed.

Lemma nodup_b_ok l : nodup_b l = true <-> NoDup l.
Proof.
  induction l as [|x l IH]; cbn [nodup_b].
  - split; [constructor|reflexivity].
  - rewrite andb_true_iff, negb_true_iff, IH. split.
    + intros [Hm Hn]. constructor; [|exact Hn]. intro Hin. apply mem_ok in Hin. congruence.
    + intros H. inversion H as [|? ? Hx Hn]; subst. split; [|exact Hn].
      destruct (mem x l) eqn:E; [|reflexivity]. apply mem_ok in E. contradiction.
Qed.

Lemma is_perm_b_ok N l : is_perm_b N l = true <-> is_perm N l.
Proof.
  unfold is_perm_b, is_perm. rewrite andb_true_iff, Nat.eqb_eq, forallb_forall. split.
  - intros [Hlen Hall]. apply Permutation_sym. apply NoDup_Permutation_bis.
    + apply seq_NoDup.
    + rewrite seq_length. lia.
    + intros i Hi. apply mem_ok. apply Hall. exact Hi.
  - intros HP. split.
    + rewrite (Permutation_length HP). apply seq_length.
    + intros i Hi. apply mem_ok. apply (Permutation_in i (Permutation_sym HP)). exact Hi.
Qed.

Lemma list_eqb_ok {A} (eqb : A -> A -> bool) :
  (forall a b, eqb a b = true <-> a = b) -> forall l l', list_eqb eqb l l' = true <-> l = l'.
Proof.
  intros He. induction l as [|a l IH]; intros [|b l']; cbn [list_eqb]; try (split; congruence).
  rewrite andb_true_iff, He, IH. split; [intros [-> ->]; reflexivity|intros H; inversion H; auto].
Qed.

Lemma pair_eqb_ok p q : pair_eqb p q = true <-> p = q.
Proof.
  destruct p as [a b], q as [c d]. unfold pair_eqb. cbn [fst snd].
  rewrite andb_true_iff, !Nat.eqb_eq. split; [intros [-> ->]; reflexivity|intros H; inversion H; auto].
Qed.

Lemma global_iter_ok_b_ok N nu perm ps :
  global_iter_ok_b N nu perm ps = true <-> global_iter_ok N nu perm ps.
Proof.
  unfold global_iter_ok_b, global_iter_ok, pairs_disjoint_b, pairs_disjoint.
  rewrite !andb_true_iff, is_perm_b_ok, Nat.eqb_eq, (list_eqb_ok pair_eqb pair_eqb_ok), nodup_b_ok.
  tauto.
Qed.

Lemma local_iter_ok_b_ok N nu k nbrs perm ps :
  local_iter_ok_b N nu k nbrs perm ps = true <-> local_iter_ok N nu k nbrs perm ps.
Proof.
  unfold local_iter_ok_b, local_iter_ok.
  rewrite !andb_true_iff, is_perm_b_ok, Nat.eqb_eq, (list_eqb_ok Nat.eqb Nat.eqb_eq), nodup_b_ok,
    forallb_forall, Forall_forall.
  split.
  - intros [[[[H1 H2] H3] H4] H5]. repeat split; try assumption.
    intros p Hp. apply mem_ok. apply H5. exact Hp.
  - intros [H1 [H2 [H3 [H4 H5]]]]. repeat split; try assumption.
    intros p Hp. apply mem_ok. apply H5. exact Hp.
Qed.

Lemma first_bad_none {A} (ok : A -> bool) l pos :
  first_bad ok l pos = None <-> Forall (fun a => ok a = true) l.
Proof.
  revert pos. induction l as [|a l IH]; intros pos; cbn [first_bad].
  - split; [constructor|reflexivity].
  - destruct (ok a) eqn:E.
    + rewrite IH. split; [intros H; constructor; assumption|intros H; inversion H; assumption].
    + split; [discriminate|]. intros H. inversion H; congruence.
Qed.

(* ---------------- the res monad ---------------- *)
Lemma mapM_ok_map {A B} (f : A -> res B) (g : A -> B) l :
  (forall a, In a l -> f a = Ok (g a)) -> mapM f l = Ok (map g l).
Proof.
  induction l as [|a l IH]; intros H; cbn [mapM map]; [reflexivity|].
  rewrite (H a) by (left; reflexivity). cbn [bind].
  rewrite IH by (intros; apply H; right; assumption). reflexivity.
Qed.

Lemma get_ok site l i : i < length l -> get site l i = Ok (nth i l 0).
Proof. intros H. unfold get. rewrite (nth_error_nth_lt l i 0 H). reflexivity. Qed.

Lemma set_nth_ok l i v :
  i < length l ->
  exists l', set_nth l i v = Some l' /\ length l' = length l /\ nth i l' 0 = v /\
             forall p, p <> i -> nth p l' 0 = nth p l 0.
Proof.
  revert i. induction l as [|x l IH]; intros i Hi; cbn [length] in Hi; [lia|].
  destruct i as [|i]; cbn [set_nth].
  - exists (v :: l). repeat split. intros [|p] Hp; [lia|reflexivity].
  - destruct (IH i ltac:(lia)) as [l' [E [L [Hv Ho]]]]. rewrite E.
    exists (x :: l'). cbn [length nth]. repeat split; [lia|exact Hv|].
    intros [|p] Hp; [reflexivity|]. apply Ho. lia.
Qed.
