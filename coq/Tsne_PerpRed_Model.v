(* Tsne_PerpRed_Model.v — the perplexity search of Tsne_Model.v in a representation that can be RUN
   through extraction.  No proofs in this file (Tsne_Proof_PerpRed.v proves that it computes the
   same thing as Tsne_Model.perp_loop).

   Tsne_Model.perp_loop works on `Q` without ever reducing a fraction: `next` forms
   (beta + max_beta) / 2, whose denominator is the PRODUCT of the two denominators, so the size of
   beta doubles with every bisection step and step 40 no longer fits in memory.  Here every number
   the loop keeps from one step to the next (beta) and every partial sum of a row is passed through
   `Qred2`, which cancels the common factors of two of numerator and denominator (value unchanged:
   Qred2_correct; linear time, where Qred's gcd is quadratic in the 1100 bits that DBL_MIN = 2^-1022
   brings into sum_P; on dyadic numbers — every binary64 value is one — it reduces completely).  Nothing else differs: same kernel row, same order of the
   sums, same comparisons, same `next`.  exp and log stay value oracles; the only thing asked of
   them for the equivalence is that they are functions of the VALUE of their argument
   (Proper (Qeq ==> Qeq)), which the binary64 oracles of coq/extract/c17_driver.ml are. *)
From Coq Require Import List Arith Bool ZArith QArith.
From TK Require Import Tsne_Model.
Import ListNotations.
Local Open Scope Q_scope.

(* cancel common factors of two *)
Fixpoint red2_pos (n d : positive) : positive * positive :=
  match n, d with
  | xO n', xO d' => red2_pos n' d'
  | _, _ => (n, d)
  end.

Definition Qred2 (q : Q) : Q :=
  match Qnum q with
  | Z0 => 0
  | Zpos n => let (n', d') := red2_pos n (Qden q) in Zpos n' # d'
  | Zneg n => let (n', d') := red2_pos n (Qden q) in Zneg n' # d'
  end.

Section PerplexityRed.
  Variable expf logf : Q -> Q.
  Variable dbl_min : Q.
  Variable tol : Q.

  Definition evaluate_r (self : option nat) (dd : list Q) (beta : Q) : evalr :=
    let P := kernel_row expf dbl_min self beta dd in
    let sum_P := fold_left (fun a p => Qred2 (a + p)) P (Qred2 dbl_min) in
    let H0 := fold_left (fun h xp => Qred2 (h + beta * (fst xp * snd xp))) (combine dd P) 0 in
    mkEval beta P sum_P (Qred2 (H0 / sum_P + logf sum_P)).

  Definition next_r (logperp : Q) (ev : evalr) (st : bstate) : bstate :=
    let '(beta, minb, maxb) := next logperp ev st in (Qred2 beta, minb, maxb).

  Fixpoint perp_loop_r (fuel : nat) (self : option nat) (dd : list Q) (perplexity : Q)
                       (st : bstate) (last : option evalr) : bool * option evalr :=
    match fuel with
    | O => (false, last)
    | S f =>
        let ev := evaluate_r self dd (fst (fst st)) in
        if good tol (logf perplexity) ev then (true, Some ev)
        else perp_loop_r f self dd perplexity (next_r (logf perplexity) ev st) (Some ev)
    end.

  Definition perp_search_r (self : option nat) (dd : list Q) (perplexity : Q) : bool * option evalr :=
    perp_loop_r 200 self dd perplexity (1, None, None) None.

  (* Row normalize, reduced: what the driver prints *)
  Definition perp_row_r (self : option nat) (dd : list Q) (perplexity : Q) : bool * option (Q * list Q) :=
    let r := perp_search_r self dd perplexity in
    (fst r, option_map (fun ev => (e_beta ev, map (fun p => Qred2 (p / e_sum ev)) (e_row ev))) (snd r)).
End PerplexityRed.
