(* ====================================================================== *)
(*  Lap_Proof_Embed.v — Laplacian Eigenmaps: which columns are returned    *)
(*  and what normalisation they have (property C09)                        *)
(*                                                                         *)
(*  le_select_ok             with the selector table GENERATED from the    *)
(*      current source (gen/EigSelect.v) and skip(SmallestEigenvalues)     *)
(*      from the generated skip table: columns 1 .. d of the solver's      *)
(*      answer are kept whenever d + 1 <= N.                               *)
(*  le_embedding_normalised  for ANY answer (V, lam) of the generalised    *)
(*      solver meeting gen_contract for the pencil (L, Dm) with L          *)
(*      symmetric, L 1 = 0, Dm symmetric, and lam non-zero on the kept     *)
(*      columns:  L y_c = lam_(1+c) Dm y_c,  Y^T Dm Y = I,  Y^T Dm 1 = 0.  *)
(* ====================================================================== *)
Require Import Arith Lia List Bool Field Ring.
Require Import ZArith QArith Qcanon.
From TK Require Import Mat_Sums Mat_Core Mat_Qc Mat_EigSelect EigSelect Mat_EigSelect_Tie
                       Lap_Model Lap_Spec Lap_Proof_Lap.
Import ListNotations.
Local Open Scope list_scope.
Local Open Scope nat_scope.

Lemma le_site_ok :
  exists b, le_site = Some b /\ In b eig_table /\ b_largest b = false /\ b_base b = BaseN.
Proof.
  unfold le_site, find_site.
  match goal with |- context [find ?f eig_table] => destruct (find f eig_table) as [b|] eqn:E end.
  2:{ vm_compute in E. discriminate. }
  pose proof (find_some _ _ E) as [Hin Hp].
  exists b. split; [reflexivity|]. split; [exact Hin|].
  unfold eig_table in Hin. cbn [In] in Hin.
  repeat (destruct Hin as [<-|Hin]; [try (vm_compute in Hp; discriminate); try (split; reflexivity)|]).
  contradiction.
Qed.

Lemma le_skip_ok : le_skip = Some 1.
Proof. vm_compute. reflexivity. Qed.

Theorem le_select_ok N d : d + 1 <= N -> le_select N d = Some (1, d).
Proof.
  intros H. unfold le_select. destruct le_site_ok as [b [E [Hin [Hl HB]]]].
  rewrite E, le_skip_ok, HB. cbn [base_eval].
  apply select_smallest_cols; assumption.
Qed.

Lemma dm_site_ok :
  exists b, dm_site = Some b /\ In b eig_table /\ b_largest b = true /\ b_base b = BaseN.
Proof.
  unfold dm_site, find_site.
  match goal with |- context [find ?f eig_table] => destruct (find f eig_table) as [b|] eqn:E end.
  2:{ vm_compute in E. discriminate. }
  pose proof (find_some _ _ E) as [Hin Hp].
  exists b. split; [reflexivity|]. split; [exact Hin|].
  unfold eig_table in Hin. cbn [In] in Hin.
  repeat (destruct Hin as [<-|Hin]; [try (vm_compute in Hp; discriminate); try (split; reflexivity)|]).
  contradiction.
Qed.

Lemma dm_skip_ok : dm_skip = Some 0.
Proof. vm_compute. reflexivity. Qed.

(* a request for d1 largest pairs: the LAST d1 columns and the LAST d1 values *)
Theorem dm_select_ok N d1 : d1 <= N -> dm_select N d1 = Some ((N - d1, d1), (N - d1, d1)).
Proof.
  intros H. unfold dm_select. destruct dm_site_ok as [b [E [Hin [Hl HB]]]].
  rewrite E, dm_skip_ok.
  pose proof (select_largest b Hin Hl N d1 H) as K. rewrite HB in K. cbn [base_eval] in K.
  destruct K as [K1 [K2 _]]. rewrite HB. cbn [base_eval]. rewrite K1, K2. reflexivity.
Qed.

Section LapEmbedProof.
  Context {F : Type} {Fo : FieldOps F} {Ff : IsField F}.
  Add Field LapEmbedField : (@Fth F Fo Ff).
  Local Open Scope F_scope.

  Theorem le_embedding_normalised (N d : nat) (L Dm V : mat F) (lam : vec F) :
    (d + 1 <= N)%nat ->
    msym N L -> (forall i, (i < N)%nat -> sumn N (fun j => L i j) = 0) ->
    msym N Dm ->
    gen_contract N L Dm V lam ->
    (forall c, (c < d)%nat -> lam (1 + c)%nat <> 0) ->
    exists Y, le_embedding N d V = Some Y /\
              (forall r c, Y r c = V r (1 + c)%nat) /\
              le_spec N d L Dm Y (fun c => lam (1 + c)%nat).
  Proof.
    intros Hd HLs HL1 HDs [HAV HVBV] Hlam.
    unfold le_embedding. rewrite (le_select_ok N d Hd). cbn [fst].
    eexists. split; [reflexivity|]. split; [intros; reflexivity|].
    (* eigenvector equation, column by column *)
    assert (Heig : forall c, (c < d)%nat ->
              gen_eigvec N L Dm (lam (1 + c)%nat) (mcol (fun r c0 => V r (1 + c0)%nat) c)).
    { intros c Hc i Hi. specialize (HAV i (1 + c)%nat Hi ltac:(lia)).
      unfold mmul in HAV. unfold mv, vscale, mcol.
      etransitivity; [exact HAV|].
      rewrite <- sumn_mul_l. apply sumn_ext. intros t Ht.
      pose proof (mmul_diag_r N V lam t (1 + c)%nat ltac:(lia)) as E. unfold mmul in E.
      rewrite E. ring. }
    split; [exact Heig|]. split.
    - intros a b Ha Hb. specialize (HVBV (1 + a)%nat (1 + b)%nat ltac:(lia) ltac:(lia)).
      unfold mmul, mtrans in *. unfold mI, delta in *.
      cbn [Nat.add Nat.eqb] in HVBV. exact HVBV.
    - intros c Hc. specialize (Heig c Hc). unfold gen_eigvec in Heig.
      set (y := mcol (fun r c0 => V r (1 + c0)%nat) c) in *.
      (* sum_i (L y)_i = 0 by symmetry and L 1 = 0 *)
      assert (S0 : sumn N (fun i => mv N L y i) = 0).
      { unfold mv. rewrite sumn_swap. apply sumn_zero'. intros t Ht.
        rewrite (sumn_ext N _ (fun i => L t i * y t)).
        - rewrite sumn_mul_r, HL1 by exact Ht. ring.
        - intros i Hi. rewrite (HLs i t Hi Ht). reflexivity. }
      assert (S1 : sumn N (fun i => mv N L y i) = lam (1 + c)%nat * sumn N (fun i => mv N Dm y i)).
      { rewrite <- sumn_mul_l. apply sumn_ext. intros i Hi. apply Heig. exact Hi. }
      rewrite S0 in S1. symmetry in S1. apply field_cancel in S1; [|apply Hlam; exact Hc].
      (* dot y (Dm 1) = sum_i (Dm y)_i by symmetry of Dm *)
      unfold dot, mv. rewrite <- S1. unfold mv.
      rewrite (sumn_ext N _ (fun t => sumn N (fun j => Dm j t * y t))).
      + rewrite sumn_swap. reflexivity.
      + intros t Ht. rewrite <- sumn_mul_l. apply sumn_ext. intros j Hj.
        rewrite (HDs t j Ht Hj). ring.
  Qed.
End LapEmbedProof.

(* msym at Qc by computation (for the non-vacuity examples) *)
Lemma read_msym_by_compute n (A : mat Qc) :
  mlist_eqb (mtab n n A) (mtab n n (mtrans A)) = true -> msym n A.
Proof.
  intros H i j Hi Hj. pose proof (meq_by_compute n n A (mtrans A) H i j Hi Hj) as E.
  exact E.
Qed.
