(* ====================================================================== *)
(*  Pencil_Proof_OnePass.v — property C10 (Wave 3): the one-pass form of   *)
(*  the LLTSA right-hand side,  sum x x^T - N m m^T,  and the two-pass     *)
(*  form of the code,  sum (x - m)(x - m)^T,  are EQUAL over every field.  *)
(*  Consequence: an exact (Qc) model cannot tell them apart; they differ   *)
(*  only in binary64 (relative error eps * (offset/spread)^2 for the       *)
(*  expanded formula, eps * offset/spread for the centred one), which is   *)
(*  decided by the large-offset inputs of the exact stream (centred        *)
(*  accumulation exact in binary64, expanded sums beyond 2^53) and by the  *)
(*  tolerance stream of checks/c10.py.                                     *)
(* ====================================================================== *)

Require Import Field Ring Arith Lia List Bool.
From TK Require Import Mat_Sums Mat_Core Mat_EigSelect Pencil_Model Pencil_Spec Pencil_Proof_Sums Pencil_Proof.
Import ListNotations.

Section PencilOnePass.
  Context {F : Type} {Fo : FieldOps F} {Ff : IsField F}.
  Add Field PencilOnePassField : (@Fth F Fo Ff).
  Local Open Scope F_scope.

  (* entry (i,j) of the one-pass table:  sum_t x_it x_jt  -  N m_i m_j  =  (X J X^T)_ij *)
  Lemma one_pass_scatter N (X : mat F) i j :
    of_nat N <> 0 ->
    read_upper (rank_update_upper (- of_nat N) (compute_mean0 X N)
                                  (acc_samples X N (fun _ => 1) mzero)) i j =
    XMXt N X (Jn N) i j.
  Proof.
    intros HN.
    rewrite read_upper_rank_update_upper, rhs_upper_plain, XMXt_Jn, XMXt_mconst, !compute_mean0_eq.
    field. assumption.
  Qed.

  Theorem lltsa_rhs_one_pass_equal_gen N (X : mat F) (W : sparse F) i j :
    of_nat N <> 0 ->
    p_rhs (lltsa_one_pass X N W) i j = p_rhs (lltsa_centred X N W) i j.
  Proof.
    intros HN. cbn [p_rhs lltsa_one_pass lltsa_centred]. unfold sym_from_upper.
    rewrite one_pass_scatter, rhs_upper_plain, centred_scatter by assumption. reflexivity.
  Qed.

  Theorem lltsa_one_pass_equal_gen N (X : mat F) (W : sparse F) :
    of_nat N <> 0 -> peq (lltsa_one_pass X N W) (lltsa_centred X N W).
  Proof.
    intros HN. split; intros i j.
    - reflexivity.
    - apply lltsa_rhs_one_pass_equal_gen. assumption.
  Qed.

  (* hence everything proved about the current code holds of the one-pass rewrite over an exact field *)
  Theorem lltsa_one_pass_problem_gen D N (X : mat F) (W : sparse F) :
    of_nat N <> 0 -> indices_ok N W ->
    is_pencil D (lltsa_lhs N X W) (lltsa_rhs N X) (lltsa_one_pass X N W).
  Proof.
    intros HN Hok. destruct (lltsa_problem_gen D N X W HN Hok) as [HA HB].
    destruct (lltsa_one_pass_equal_gen N X W HN) as [EL ER].
    split; intros i j Hi Hj.
    - rewrite EL. apply HA; assumption.
    - rewrite ER. apply HB; assumption.
  Qed.
End PencilOnePass.
