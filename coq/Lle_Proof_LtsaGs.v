(* ====================================================================== *)
(*  Lle_Proof_LtsaGs.v — C08, wave 4: tangent_weight_matrix after repair   *)
(*  F51 (Gram-Schmidt over the columns of G = [1/sqrt k | tangent columns]) *)
(*    ltsa_gs_fixes       for ANY tangent columns V (in particular the      *)
(*        arbitrary null vectors the local solver returns for a neighbour-  *)
(*        hood that spans fewer than d directions), if k rsk^2 = 1 and no   *)
(*        column degenerates, G G^T fixes 1 and every column of V:          *)
(*        (I - G G^T) 1 = 0, (I - G G^T) V_t = 0, hence every affine        *)
(*        combination (ltsa_gs_null_span)                                   *)
(*    ltsa_no_gs_refuted  the code before the repair (Lle_Model.ltsa_P):    *)
(*        k = 4 collinear neighbours, d = 2, orthonormal tangent columns,   *)
(*        the first orthogonal to 1 (eigenvalue > 0), the second an         *)
(*        eigenvector of eigenvalue 0 with sum 2/3: (I - G G^T) 1 <> 0;     *)
(*        on the same input the repaired loop gives (I - G G^T) 1 = 0       *)
(*  Formally real fields (sum of squares argument, Lle_Proof_Proj.proj_fix) *)
(*  for the positive statement; instantiated at Qc.                         *)
(* ====================================================================== *)
Require Import Field Ring Arith Lia List Bool ZArith QArith Qcanon.
From TK Require Import Mat_Sums Mat_Core Mat_Qc Lle_Model Lle_Proof_Hlle Lle_Proof_Gs Lle_Proof_GsQc
     Lle_Proof_GsSkip Lle_Proof_Proj Lle_Proof_Flat.
Import ListNotations.
Close Scope Qc_scope.
Close Scope Q_scope.
Close Scope Z_scope.

Section LtsaGs.
  Context {F : Type} {Fo : FieldOps F} {Ff : IsField F}.
  Add Field LtsaGsField : (@Fth F Fo Ff).
  Local Open Scope F_scope.
  Local Notation vec := (Mat_Core.vec F).
  Local Notation mat := (Mat_Core.mat F).

  Hypothesis sos_zero : forall n (f : nat -> F),
      sumn n (fun t => f t * f t) = 0 -> forall t, t < n -> f t = 0.

  Lemma ltsa_gs_rel k d rsk (V : mat) :
    dot k (fun _ => rsk) (fun _ => rsk) = 1 ->
    gs_nondegenerate (ltsa_gs_sf k d rsk V) ->
    gs_rel k (ltsa_gs_sf k d rsk V) (memo_vec k (fun _ => rsk) :: cols_of k d V).
  Proof.
    intros H1 Hnd. unfold ltsa_gs_sf in *.
    assert (H0 : gs_rel k [(memo_vec k (fun _ : nat => rsk), 1)] [memo_vec k (fun _ : nat => rsk)]).
    { rewrite <- H1. rewrite <- (dot_memo_l k (fun _ => rsk) (fun _ => rsk)).
      rewrite <- (dot_memo_r k (memo_vec k (fun _ => rsk)) (fun _ => rsk)).
      apply (gs_rel_orthogonal_prefix k [memo_vec k (fun _ : nat => rsk)]).
      intros i j dv Hij Hj. cbn [length] in Hj. lia. }
    exact (mgs_sf_rel k _ _ (cols_of k d V) H0 Hnd).
  Qed.

  (* G G^T y = y for every input column y of the loop *)
  Lemma ltsa_gs_fixes_input k d rsk (V : mat) (y : vec) a :
    dot k (fun _ => rsk) (fun _ => rsk) = 1 ->
    gs_nondegenerate (ltsa_gs_sf k d rsk V) ->
    In y (memo_vec k (fun _ => rsk) :: cols_of k d V) -> a < k ->
    sumn k (fun b => ltsa_P_gs k d rsk V a b * y b) = y a.
  Proof.
    intros H1 Hnd Hin Ha.
    pose proof (ltsa_gs_rel k d rsk V H1 Hnd) as H.
    unfold ltsa_P_gs. rewrite (outer_sum_sf_pv k).
    apply (proj_fix sos_zero k _ y (gs_rel_osys k _ _ H Hnd)); [|assumption].
    intros w Hw. exact (gs_rel_pairwise k _ _ H w Hw y Hin).
  Qed.

  Theorem ltsa_gs_fixes k d rsk (V : mat) a :
    dot k (fun _ => rsk) (fun _ => rsk) = 1 ->
    gs_nondegenerate (ltsa_gs_sf k d rsk V) -> a < k ->
    sumn k (fun b => ltsa_P_gs k d rsk V a b) = 1 /\
    (forall t, t < d -> sumn k (fun b => ltsa_P_gs k d rsk V a b * V b t) = V a t).
  Proof.
    intros H1 Hnd Ha. split.
    - pose proof (ltsa_gs_fixes_input k d rsk V _ a H1 Hnd (or_introl eq_refl) Ha) as Hc.
      rewrite memo_vec_at in Hc by assumption.
      assert (Hr : rsk <> 0).
      { intros K. apply (F_1_neq_0 (@Fth F Fo Ff)). rewrite <- H1. unfold dot.
        apply sumn_zero'. intros i _. rewrite K. ring. }
      rewrite (sumn_ext k _ (fun b => rsk * ltsa_P_gs k d rsk V a b)) in Hc
        by (intros b Hb; rewrite memo_vec_at by assumption; ring).
      rewrite sumn_mul_l in Hc.
      pose (S := sumn k (ltsa_P_gs k d rsk V a)).
      change (S = 1). change (rsk * S = rsk) in Hc. clearbody S.
      transitivity (rsk * S / rsk); [field; exact Hr|].
      rewrite Hc. field. exact Hr.
    - intros t Ht.
      assert (Hin : In (memo_vec k (mcol V t)) (memo_vec k (fun _ => rsk) :: cols_of k d V)).
      { right. unfold cols_of. apply in_map_iff. exists t. split; [reflexivity|]. apply in_seq. lia. }
      pose proof (ltsa_gs_fixes_input k d rsk V _ a H1 Hnd Hin Ha) as Hc.
      rewrite memo_vec_at in Hc by assumption. unfold mcol in Hc. rewrite <- Hc.
      apply sumn_ext. intros b Hb. rewrite memo_vec_at by assumption. reflexivity.
  Qed.

  (* (I - G G^T) annihilates every affine combination of the tangent columns *)
  Theorem ltsa_gs_null_span k d rsk (V : mat) a (c0 : F) (c : nat -> F) :
    dot k (fun _ => rsk) (fun _ => rsk) = 1 ->
    gs_nondegenerate (ltsa_gs_sf k d rsk V) -> a < k ->
    sumn k (fun b => (delta a b - ltsa_P_gs k d rsk V a b) * (c0 + sumn d (fun t => c t * V b t))) = 0.
  Proof.
    intros H1 Hnd Ha. destruct (ltsa_gs_fixes k d rsk V a H1 Hnd Ha) as [Hc HV].
    apply (row_kills_span k d (fun a b => delta a b - ltsa_P_gs k d rsk V a b) V a c0 c); cbv beta.
    - rewrite (sumn_ext k _ (fun b => delta a b * 1 - ltsa_P_gs k d rsk V a b)) by (intros; ring).
      rewrite sumn_sub, (sumn_delta_l k a (fun _ => 1)) by assumption.
      match goal with |- _ - ?X = _ => change X with (sumn k (fun b => ltsa_P_gs k d rsk V a b)) end.
      rewrite Hc. ring.
    - intros t Ht.
      rewrite (sumn_ext k _ (fun b => delta a b * V b t - ltsa_P_gs k d rsk V a b * V b t)) by (intros; ring).
      rewrite sumn_sub, (sumn_delta_l k a (fun b => V b t)) by assumption. rewrite (HV t Ht). ring.
  Qed.
End LtsaGs.

Definition ltsa_gs_fixes_Qc := @ltsa_gs_fixes Qc QcOps QcField Qc_sos_zero.
Definition ltsa_gs_null_span_Qc := @ltsa_gs_null_span Qc QcOps QcField Qc_sos_zero.

(* ---------- the witness (Qc): k = 4, d = 2, rsk = 1/2 ---------- *)
Definition lgw_q (n : Z) (d : positive) : Qc := Q2Qc (n # d).

(* column 0 = (1 -1 -1 1)/2: unit, sums to 0 (the eigenvector of the non-zero eigenvalue of the centred Gram matrix
   x x^T of four collinear samples at centred positions proportional to 1 -1 -1 1);
   column 1 = (5 1 1 -3)/6: unit, orthogonal to column 0, i.e. an eigenvector of eigenvalue 0; its sum is 2/3 *)
Definition lgw_V : mat Qc :=
  mof [[lgw_q 1 2; lgw_q 5 6]; [lgw_q (-1) 2; lgw_q 1 6]; [lgw_q (-1) 2; lgw_q 1 6]; [lgw_q 1 2; lgw_q (-1) 2]].
Definition lgw_rsk : Qc := lgw_q 1 2.

Theorem ltsa_no_gs_refuted :
  (* the sqrt oracle contract and a legitimate answer of the local solver: V^T V = I, first column orthogonal to 1 *)
  dot 4 (fun _ => lgw_rsk) (fun _ => lgw_rsk) = 1%F /\
  dot 4 (mcol lgw_V 0) (mcol lgw_V 0) = 1%F /\ dot 4 (mcol lgw_V 1) (mcol lgw_V 1) = 1%F /\
  dot 4 (mcol lgw_V 0) (mcol lgw_V 1) = 0%F /\ sumn 4 (mcol lgw_V 0) = 0%F /\
  (* before the repair: G G^T 1 <> 1 *)
  sumn 4 (fun b => ltsa_P 2 lgw_rsk lgw_V 0 b) <> 1%F /\
  (* after it: the loop does not degenerate and G G^T 1 = 1, G G^T V_t = V_t *)
  gs_nondegenerate (ltsa_gs_sf 4 2 lgw_rsk lgw_V) /\
  (forall a, a < 4 -> sumn 4 (fun b => ltsa_P_gs 4 2 lgw_rsk lgw_V a b) = 1%F /\
                      (forall t, t < 2 -> sumn 4 (fun b => ltsa_P_gs 4 2 lgw_rsk lgw_V a b * lgw_V b t)%F
                                          = lgw_V a t)).
Proof.
  assert (H1 : dot 4 (fun _ => lgw_rsk) (fun _ => lgw_rsk) = 1%F) by (apply qeqb_ok; vm_compute; reflexivity).
  assert (Hnd : gs_nondegenerate (ltsa_gs_sf 4 2 lgw_rsk lgw_V))
    by (apply gs_nondegenerate_by_compute; vm_compute; reflexivity).
  split; [exact H1|].
  split; [apply qeqb_ok; vm_compute; reflexivity|].
  split; [apply qeqb_ok; vm_compute; reflexivity|].
  split; [apply qeqb_ok; vm_compute; reflexivity|].
  split; [apply qeqb_ok; vm_compute; reflexivity|].
  split; [apply qeqb_false; vm_compute; reflexivity|].
  split; [exact Hnd|].
  intros a Ha. exact (ltsa_gs_fixes_Qc 4 2 lgw_rsk lgw_V a H1 Hnd Ha).
Qed.
