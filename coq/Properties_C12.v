(* Properties_C12.v — C12: embeddings are equivariant to sample order, rigid motion, scale and
   call history.  Statements only; proofs are in Equiv_Proof_*.v (and Conn_Proof_Main.v for the
   connectivity decision).

   Model   Equiv_Model.v: the assemble stages of the deterministic methods (everything between
           the callbacks and the eigen-solver, and between the solver's answer and the returned
           embedding), over an abstract field; Conn_Model.v: is_connected / find_neighbors.
   Spec    Equiv_Spec.v: is_bij (sample permutations), orthogonal (R^T R = I: rotations and
           reflections), eig_answer / geig_answer (the contract of the eigen ORACLES: the solver is
           never assumed equivariant; theorems transport the SET of valid answers), rows_permuted /
           same_distances / scaled_by (what is compared), the allow-list of long-lived objects.
   Every theorem holds for every field F (so for exact rationals, where it is also executed).
   sqrt / exp are arbitrary functions F -> F handed to the model. *)
Require Import Arith List Bool ZArith String QArith Qcanon.
From TK Require Import Mat_Sums Mat_Core Mat_Qc Equiv_Model Equiv_Spec Equiv_SpecExec
     Equiv_Proof_Perm Equiv_Proof_Rigid Equiv_Proof_Spectral Equiv_Proof_Affine Equiv_Proof_Knn
     Equiv_Proof_Exec Equiv_Proof_Align Equiv_Proof_Scale Equiv_Effects Equiv_Proof_Effects Equiv_Proof_Main
     Equiv_Proof_Ties
     Knn_Spec Conn_Model Conn_Spec Conn_Proof_Main Statics.
Import ListNotations.
Local Open Scope nat_scope.

(* ======================================================================================= *)
(* 1. perm_equivariance                                                                     *)
(* ======================================================================================= *)
(* centerMatrix commutes with every simultaneous row/column permutation, for EVERY matrix *)
Theorem perm_center_matrix : forall F (Fo : FieldOps F) (Ff : IsField F) n p q (M : mat F) i j,
  is_bij n p q -> center_matrix n (pact q M) i j = pact q (center_matrix n M) i j.
Proof. exact main_perm_center_matrix. Qed.
Print Assumptions perm_center_matrix.

(* MDS: the matrix handed to the solver (compute_distance_matrix; centerMatrix; *= -0.5) *)
Theorem perm_mds_matrix : forall F (Fo : FieldOps F) (Ff : IsField F) n p q (dist : mat F),
  is_bij n p q -> msym n dist ->
  meq n n (mds_matrix n (pact q dist)) (pact q (mds_matrix n dist)).
Proof. exact main_perm_mds_matrix. Qed.
Print Assumptions perm_mds_matrix.

(* kernel PCA: compute_centered_kernel_matrix *)
Theorem perm_kpca_matrix : forall F (Fo : FieldOps F) (Ff : IsField F) n p q (kern : mat F),
  is_bij n p q -> msym n kern ->
  meq n n (kpca_matrix n (pact q kern)) (pact q (kpca_matrix n kern)).
Proof. exact main_perm_kpca_matrix. Qed.
Print Assumptions perm_kpca_matrix.

(* Isomap: square, (S+S^T)/2, centerMatrix, *= -0.5 on the geodesic table (no symmetry needed) *)
Theorem perm_isomap_matrix : forall F (Fo : FieldOps F) (Ff : IsField F) n p q (G : mat F),
  is_bij n p q -> meq n n (isomap_matrix n (pact q G)) (pact q (isomap_matrix n G)).
Proof. exact main_perm_isomap_matrix. Qed.
Print Assumptions perm_isomap_matrix.

(* diffusion map: compute_diffusion_matrix (exp and sqrt arbitrary functions) *)
Theorem perm_diffusion_matrix : forall F (Fo : FieldOps F) (Ff : IsField F) n p q fexp fsqrt w (dist : mat F),
  is_bij n p q -> msym n dist ->
  meq n n (diffusion_matrix fexp fsqrt w n (pact q dist)) (pact q (diffusion_matrix fexp fsqrt w n dist)).
Proof. exact main_perm_diffusion_matrix. Qed.
Print Assumptions perm_diffusion_matrix.

(* Laplacian eigenmaps / LPP: compute_laplacian including its `k = neighbors[0].size()` consumer:
   with lists of one length (what every search returns) no access is out of range on either side
   and L, D are permuted *)
Theorem perm_laplacian : forall F (Fo : FieldOps F) (Ff : IsField F) n k p q nb (h h' : nat -> nat -> F),
  0 < n -> is_bij n p q -> uniform_rows n k nb -> rows_in_range n nb ->
  (forall a b, a < n -> b < n -> h' (p a) (p b) = h a b) ->
  exists L Dg L' Dg',
    laplacian n nb h = Ok (L, Dg) /\ laplacian n (pnbrs p q nb) h' = Ok (L', Dg') /\
    meq n n L' (pact q L) /\ veq n Dg' (pvec q Dg).
Proof. exact main_perm_laplacian. Qed.
Print Assumptions perm_laplacian.

(* Laplacian eigenmaps end to end: the generalised problem L v = lam D v in sample space: a valid
   answer for the original lists is carried to a valid answer for the relabelled lists, rows permuted *)
Theorem perm_laplacian_eigenmaps : forall F (Fo : FieldOps F) (Ff : IsField F) n k d p q nb
    (h h' : nat -> nat -> F) (V : mat F) lam,
  0 < n -> is_bij n p q -> uniform_rows n k nb -> rows_in_range n nb ->
  (forall a b, a < n -> b < n -> h' (p a) (p b) = h a b) ->
  geig_answer n d (lap_L n nb h) (mdiag (lap_D n nb h)) V lam ->
  geig_answer n d (lap_L n (pnbrs p q nb) h') (mdiag (lap_D n (pnbrs p q nb) h')) (perm_rows q V) lam /\
  rows_permuted n d q V (perm_rows q V).
Proof. exact main_perm_laplacian_eigenmaps. Qed.
Print Assumptions perm_laplacian_eigenmaps.

(* regression (hazard behind F1/F2): with lists of unequal length the same consumer is in range
   for one order of the samples and out of range for another *)
Theorem perm_laplacian_first_row_refuted :
  exists n nb p q, is_bij n p q /\ rows_in_range n nb /\
    rows_in_bounds n nb = true /\ rows_in_bounds n (pnbrs p q nb) = false.
Proof. exact main_perm_laplacian_first_row_refuted. Qed.
Print Assumptions perm_laplacian_first_row_refuted.

(* local Grams of the locally linear family (KLLE / NPE; KLTSA / LLTSA / HLLE) *)
Theorem perm_lle_gram : forall F (Fo : FieldOps F) (Ff : IsField F) n p q (K : mat F) x nb i j,
  is_bij n p q -> x < n -> nb i < n -> nb j < n ->
  lle_gram (pact q K) (p x) (fun t => p (nb t)) i j = lle_gram K x nb i j.
Proof. exact main_perm_lle_gram. Qed.
Print Assumptions perm_lle_gram.

Theorem perm_local_centered_gram : forall F (Fo : FieldOps F) (Ff : IsField F) n k p q (K : mat F) nb,
  is_bij n p q -> (forall t, t < k -> nb t < n) ->
  meq k k (local_centered_gram k (pact q K) (fun t => p (nb t))) (local_centered_gram k K nb).
Proof. exact main_perm_local_centered_gram. Qed.
Print Assumptions perm_local_centered_gram.

(* global alignment matrices of the locally linear family (linear_weight_matrix: KLLE, NPE;
   tangent_weight_matrix: KLTSA, LLTSA; hessian_weight_matrix: HLLE): the triplets summed by sparse_matrix_from_triplets; the
   local solves / local eigenvectors are oracle values w, Gx indexed by (sample, position) *)
Theorem perm_alignment_matrices : forall F (Fo : FieldOps F) (Ff : IsField F) n k p q nb
    (w w' : nat -> nat -> F) (Gx Gx' : nat -> mat F) shift,
  is_bij n p q -> rows_in_range n nb ->
  (forall y a, y < n -> w' (p y) a = w y a) ->
  (forall y a b, y < n -> Gx' (p y) a b = Gx y a b) ->
  meq n n (klle_M n k (pnbrs p q nb) w' shift) (pact q (klle_M n k nb w shift)) /\
  meq n n (kltsa_M n k (pnbrs p q nb) Gx' shift) (pact q (kltsa_M n k nb Gx shift)) /\
  meq n n (hlle_M n k (pnbrs p q nb) Gx') (pact q (hlle_M n k nb Gx)).
Proof. exact main_perm_alignment_matrices. Qed.
Print Assumptions perm_alignment_matrices.

(* their rows sum to the nullspace shift (weights sum to one; the local projector contains the
   constant vector): with shift 0 the hypothesis of translation_lltsa_pencil holds; with the
   shipped shift eps > 0 it does not, which is defect F42 *)
Theorem alignment_row_col_sums : forall F (Fo : FieldOps F) (Ff : IsField F) n k nb
    (w : nat -> nat -> F) (Gx : nat -> mat F) shift,
  rows_in_range n nb ->
  (forall x, x < n -> sumn k (fun a => w x a) = 1%F) ->
  (forall x a, x < n -> a < k -> sumn k (fun b => Gx x a b) = 1%F) ->
  zero_row_col_sums n (klle_M n k nb w 0%F) /\
  (forall i, i < n -> sumn n (fun j => klle_M n k nb w shift i j) = shift) /\
  (forall i, i < n -> sumn n (fun j => kltsa_M n k nb Gx shift i j) = shift).
Proof. exact main_alignment_row_col_sums. Qed.
Print Assumptions alignment_row_col_sums.

(* feature-space pencils (NPE, LPP, LLTSA) do not move at all *)
Theorem perm_pencils : forall F (Fo : FieldOps F) (Ff : IsField F) n p q (W X : mat F) (Dg : vec F) a b,
  is_bij n p q ->
  pencil_lhs n (pact q W) (perm_rows q X) a b = pencil_lhs n W X a b /\
  npe_rhs n (perm_rows q X) a b = npe_rhs n X a b /\
  lpp_rhs n (pvec q Dg) (perm_rows q X) a b = lpp_rhs n Dg X a b /\
  lltsa_rhs n (perm_rows q X) a b = lltsa_rhs n X a b.
Proof. exact main_perm_pencils. Qed.
Print Assumptions perm_pencils.

(* the eigen oracle: a valid answer for G is carried to a valid answer for p.G, and the
   embedding V * sqrt(lam) has its rows permuted, hence the same distances *)
Theorem perm_spectral_embedding : forall F (Fo : FieldOps F) (Ff : IsField F) n d p q (G G' V : mat F) lam s,
  is_bij n p q -> meq n n G' (pact q G) -> eig_answer n d G V lam ->
  eig_answer n d G' (perm_rows q V) lam /\
  rows_permuted n d q (scale_cols V s) (scale_cols (perm_rows q V) s) /\
  forall i j, i < n -> j < n ->
    emb_sq_dist d (scale_cols (perm_rows q V) s) i j = emb_sq_dist d (scale_cols V s) (q i) (q j).
Proof. exact main_perm_spectral_embedding. Qed.
Print Assumptions perm_spectral_embedding.

(* PCA end to end (current tree): same covariance matrix, same answers, rows permuted *)
Theorem perm_pca_embedding : forall F (Fo : FieldOps F) (Ff : IsField F) n D d p q (X P : mat F) lam,
  is_bij n p q -> eig_answer D d (pca_matrix_fixed n X) P lam ->
  eig_answer D d (pca_matrix_fixed n (perm_rows q X)) P lam /\
  forall i c, project D P (mean_vec n (perm_rows q X)) (perm_rows q X) i c
              = project D P (mean_vec n X) X (q i) c.
Proof. exact main_perm_pca_embedding. Qed.
Print Assumptions perm_pca_embedding.

(* the k-NN SPECIFICATION (property C02) is transported by every relabelling, both ways:
   any exact search is equivariant up to the choice among ties *)
Theorem perm_knn_spec : forall N p pinv d q k l,
  zbij N p pinv -> (0 <= q < Z.of_nat N)%Z -> (forall i, In i l -> (0 <= i < Z.of_nat N)%Z) ->
  (is_knn d N q k l <-> is_knn (relabel_dist pinv d) N (p q) k (map p l)).
Proof. exact main_perm_knn_spec. Qed.
Print Assumptions perm_knn_spec.

(* and the neighbour-distance multisets of ANY two exact answers agree across the relabelling *)
Theorem perm_knn_distances : forall N p pinv d q k l l',
  zbij N p pinv -> (0 <= q < Z.of_nat N)%Z ->
  is_knn d N q k l -> is_knn (relabel_dist pinv d) N (p q) k l' ->
  dists_sorted (relabel_dist pinv d) (p q) l' = dists_sorted d q l.
Proof. exact main_perm_knn_distances. Qed.
Print Assumptions perm_knn_distances.

(* the connectivity decision of the current tree (C03's model of connected.hpp after F3) *)
Theorem perm_connectivity : forall N nb p, 0 < N -> wf_graph N nb -> is_perm N p ->
  is_connected_fixed N (relabel p nb) = is_connected_fixed N nb.
Proof. exact main_perm_connectivity. Qed.
Print Assumptions perm_connectivity.

(* regression: the decision shipped before F3 (search from sample 0 along out-edges) was not *)
Theorem perm_connectivity_pre_f3_refuted :
  exists N nb p, wf_graph N nb /\ uniform nb /\ is_perm N p /\
    is_connected N nb = COk true /\ is_connected N (relabel p nb) = COk false.
Proof. exact main_perm_connectivity_pre_f3_refuted. Qed.
Print Assumptions perm_connectivity_pre_f3_refuted.

(* ======================================================================================= *)
(* 2. orthogonal_invariance                                                                 *)
(* ======================================================================================= *)
(* the callback tables do not move: linear kernel, squared distance, distance (any sqrt) *)
Theorem orthogonal_tables : forall F (Fo : FieldOps F) (Ff : IsField F) D (R X : mat F) fsqrt i j,
  orthogonal D R ->
  lin_kernel D (rotate D R X) i j = lin_kernel D X i j /\
  sq_dist D (rotate D R X) i j = sq_dist D X i j /\
  euclid_dist fsqrt D (rotate D R X) i j = euclid_dist fsqrt D X i j.
Proof. exact main_orthogonal_tables. Qed.
Print Assumptions orthogonal_tables.

(* so the matrices handed to the solver are EQUAL (MDS, linear kernel PCA) and have the same
   set of valid answers: everything downstream is equal *)
Theorem orthogonal_mds_kpca : forall F (Fo : FieldOps F) (Ff : IsField F) n D (R X : mat F) fsqrt,
  orthogonal D R ->
  meq n n (mds_matrix n (euclid_dist fsqrt D (rotate D R X))) (mds_matrix n (euclid_dist fsqrt D X)) /\
  meq n n (kpca_matrix n (lin_kernel D (rotate D R X))) (kpca_matrix n (lin_kernel D X)).
Proof. exact main_orthogonal_mds_kpca. Qed.
Print Assumptions orthogonal_mds_kpca.

Theorem same_matrix_same_answer_set : forall F (Fo : FieldOps F) (Ff : IsField F) n d (G G' V : mat F) lam,
  meq n n G' G -> (eig_answer n d G V lam <-> eig_answer n d G' V lam).
Proof. exact main_same_matrix_same_answer_set. Qed.
Print Assumptions same_matrix_same_answer_set.

(* PCA (current tree): covariance R C R^T, answers P -> R P, the embedding is the SAME *)
Theorem orthogonal_pca_embedding : forall F (Fo : FieldOps F) (Ff : IsField F) n D d (R X P : mat F) lam,
  of_nat n <> 0%F -> two <> 0%F -> orthogonal D R ->
  eig_answer D d (pca_matrix_fixed n X) P lam ->
  eig_answer D d (pca_matrix_fixed n (rotate D R X)) (mmul D R P) lam /\
  forall i k, project D (mmul D R P) (mean_vec n (rotate D R X)) (rotate D R X) i k
              = project D P (mean_vec n X) X i k.
Proof. exact main_orthogonal_pca_embedding. Qed.
Print Assumptions orthogonal_pca_embedding.

(* regression: the matrix built before F8 (off-diagonals halved) is not covariant *)
Theorem orthogonal_pca_pre_f8_refuted :
  exists n D (R X : mat Qc) a b, orthogonal D R /\ a < D /\ b < D /\
    pca_matrix_shipped n (rotate D R X) a b <> conj_R D R (pca_matrix_shipped n X) a b.
Proof. exact main_orthogonal_pca_pre_f8_refuted. Qed.
Print Assumptions orthogonal_pca_pre_f8_refuted.

(* feature-space pencils (NPE, LPP, LLTSA): (A,B) -> (R A R^T, R B R^T), answers P -> R P,
   and project() of the transported answer returns the same numbers *)
Theorem orthogonal_pencils : forall F (Fo : FieldOps F) (Ff : IsField F) n D d (R W X : mat F) (Dg : vec F)
                                    (P : mat F) lam,
  orthogonal D R ->
  (geig_answer D d (pencil_lhs n W X) (npe_rhs n X) P lam ->
   geig_answer D d (pencil_lhs n W (rotate D R X)) (npe_rhs n (rotate D R X)) (mmul D R P) lam) /\
  (geig_answer D d (pencil_lhs n W X) (lpp_rhs n Dg X) P lam ->
   geig_answer D d (pencil_lhs n W (rotate D R X)) (lpp_rhs n Dg (rotate D R X)) (mmul D R P) lam) /\
  (geig_answer D d (pencil_lhs n W X) (lltsa_rhs n X) P lam ->
   geig_answer D d (pencil_lhs n W (rotate D R X)) (lltsa_rhs n (rotate D R X)) (mmul D R P) lam) /\
  forall m i k, project D (mmul D R P) (rot_vec D R m) (rotate D R X) i k = project D P m X i k.
Proof. exact main_orthogonal_pencils. Qed.
Print Assumptions orthogonal_pencils.

(* ======================================================================================= *)
(* 3. translation_invariance                                                                *)
(* ======================================================================================= *)
(* distances do not move; the linear kernel becomes K + a 1^T + 1 a^T + c 1 1^T *)
Theorem translation_tables : forall F (Fo : FieldOps F) (Ff : IsField F) D (t : vec F) (X : mat F) fsqrt i j,
  sq_dist D (translate t X) i j = sq_dist D X i j /\
  euclid_dist fsqrt D (translate t X) i j = euclid_dist fsqrt D X i j /\
  lin_kernel D (translate t X) i j =
    shifted (lin_kernel D X) (fun s => dot D (X s) t) (dot D t t) i j.
Proof. exact main_translation_tables. Qed.
Print Assumptions translation_tables.

(* J K' J = J K J : what centerMatrix returns for the linear kernel, and in doubly centred form *)
Theorem translation_kpca : forall F (Fo : FieldOps F) (Ff : IsField F) n D (t : vec F) (X : mat F),
  of_nat n <> 0%F ->
  meq n n (kpca_matrix n (lin_kernel D (translate t X))) (kpca_matrix n (lin_kernel D X)) /\
  meq n n (double_center n (lin_kernel D (translate t X))) (double_center n (lin_kernel D X)).
Proof. exact main_translation_kpca. Qed.
Print Assumptions translation_kpca.

(* centerMatrix kills every a 1^T + 1 a^T + c 1 1^T, for EVERY matrix *)
Theorem translation_center_matrix : forall F (Fo : FieldOps F) (Ff : IsField F) n (K : mat F) a c i j,
  of_nat n <> 0%F -> center_matrix n (shifted K a c) i j = center_matrix n K i j.
Proof. exact main_translation_center_matrix. Qed.
Print Assumptions translation_center_matrix.

(* the local LLE Gram, the kernel-induced distance, the centred local Grams of LTSA / HLLE *)
Theorem translation_local_grams : forall F (Fo : FieldOps F) (Ff : IsField F) k D (t : vec F) (X : mat F) x nb,
  of_nat k <> 0%F ->
  (forall i j, lle_gram (lin_kernel D (translate t X)) x nb i j = lle_gram (lin_kernel D X) x nb i j) /\
  (forall l r, kernel_sq_dist (lin_kernel D (translate t X)) l r = kernel_sq_dist (lin_kernel D X) l r) /\
  meq k k (local_centered_gram k (lin_kernel D (translate t X)) nb)
          (local_centered_gram k (lin_kernel D X) nb).
Proof. exact main_translation_local_grams. Qed.
Print Assumptions translation_local_grams.

Theorem translation_mds : forall F (Fo : FieldOps F) (Ff : IsField F) n D (t : vec F) fsqrt (X : mat F),
  meq n n (mds_matrix n (euclid_dist fsqrt D (translate t X))) (mds_matrix n (euclid_dist fsqrt D X)).
Proof. exact main_translation_mds. Qed.
Print Assumptions translation_mds.

(* PCA through the mean: same matrix, same answers, the SAME embedding *)
Theorem translation_pca_embedding : forall F (Fo : FieldOps F) (Ff : IsField F) n D d (t : vec F) (X P : mat F) lam,
  of_nat n <> 0%F -> eig_answer D d (pca_matrix_fixed n X) P lam ->
  eig_answer D d (pca_matrix_fixed n (translate t X)) P lam /\
  forall i c, project D P (mean_vec n (translate t X)) (translate t X) i c
              = project D P (mean_vec n X) X i c.
Proof. exact main_translation_pca_embedding. Qed.
Print Assumptions translation_pca_embedding.

(* LLTSA: centred right-hand side; X W X^T for every W with zero row and column sums
   (alignment matrices, graph Laplacians) *)
Theorem translation_lltsa_pencil : forall F (Fo : FieldOps F) (Ff : IsField F) n (W : mat F) (t : vec F) (X : mat F) a b,
  of_nat n <> 0%F -> zero_row_col_sums n W ->
  lltsa_rhs n (translate t X) a b = lltsa_rhs n X a b /\
  pencil_lhs n W (translate t X) a b = pencil_lhs n W X a b.
Proof. exact main_translation_lltsa_pencil. Qed.
Print Assumptions translation_lltsa_pencil.

(* LLTSA, the code: before F25lltsa the left-hand side carried -(1/n) s s^T, at 51d934e it still
   carries eps X X^T (nullspace shift on the diagonal of the alignment matrix): in both the pencil
   moves under a translation while the right-hand side does not (regression theorems, pencil
   level) ... *)
Theorem translation_lltsa_pre_f25_refuted :
  exists n (W X : mat Qc) (t : vec Qc), zero_row_col_sums n W /\
    lltsa_lhs_shipped n W (translate t X) 0 0 <> lltsa_lhs_shipped n W X 0 0 /\
    lltsa_rhs n (translate t X) 0 0 = lltsa_rhs n X 0 0.
Proof. exact lltsa_pre_f25_pencil_moves. Qed.
Print Assumptions translation_lltsa_pre_f25_refuted.

Theorem translation_lltsa_f25_shift_refuted :
  exists n (eps : Qc) (W X : mat Qc) (t : vec Qc), zero_row_col_sums n W /\
    lltsa_lhs_f25 n eps W (translate t X) 0 0 <> lltsa_lhs_f25 n eps W X 0 0 /\
    lltsa_rhs n (translate t X) 0 0 = lltsa_rhs n X 0 0 /\
    lltsa_lhs_f42 n (shift_diag eps W) (translate t X) 0 0 = lltsa_lhs_f42 n (shift_diag eps W) X 0 0.
Proof. exact lltsa_f25_shift_pencil_moves. Qed.
Print Assumptions translation_lltsa_f25_shift_refuted.

(* ... and the repair fixes/F42 (both sides from the centred features): invariant for EVERY weight
   matrix, shifted diagonal included; the right-hand side is the same scatter matrix *)
Theorem translation_lltsa_f42 : forall F (Fo : FieldOps F) (Ff : IsField F) n (W' : mat F) (t : vec F) (X : mat F) a b,
  of_nat n <> 0%F ->
  lltsa_lhs_f42 n W' (translate t X) a b = lltsa_lhs_f42 n W' X a b /\
  lltsa_rhs_f42 n (translate t X) a b = lltsa_rhs_f42 n X a b /\
  lltsa_rhs_f42 n X a b = lltsa_rhs n X a b.
Proof. exact main_translation_lltsa_f42. Qed.
Print Assumptions translation_lltsa_f42.

(* NPE and LPP are NOT invariant (the statement excludes them): two samples 3, 4 moved by 17;
   both problems have valid answers and EVERY pair of valid answers gives different embedding
   distances *)
Theorem translation_npe_refuted :
  exists (n D d : nat) (W X : mat Qc) (t : vec Qc),
    zero_row_col_sums n W /\
    (exists P lam, geig_answer D d (pencil_lhs n W X) (npe_rhs n X) P lam) /\
    (exists P' lam', geig_answer D d (pencil_lhs n W (translate t X)) (npe_rhs n (translate t X)) P' lam') /\
    forall P lam P' lam',
      geig_answer D d (pencil_lhs n W X) (npe_rhs n X) P lam ->
      geig_answer D d (pencil_lhs n W (translate t X)) (npe_rhs n (translate t X)) P' lam' ->
      emb_sq_dist d (project D P' (mean_vec n (translate t X)) (translate t X)) 0 1
      <> emb_sq_dist d (project D P (mean_vec n X) X) 0 1.
Proof. exact main_translation_npe_refuted. Qed.
Print Assumptions translation_npe_refuted.

Theorem translation_lpp_refuted :
  exists (n D d : nat) (L X : mat Qc) (Dg t : vec Qc),
    zero_row_col_sums n L /\
    (exists P lam, geig_answer D d (pencil_lhs n L X) (lpp_rhs n Dg X) P lam) /\
    (exists P' lam', geig_answer D d (pencil_lhs n L (translate t X)) (lpp_rhs n Dg (translate t X)) P' lam') /\
    forall P lam P' lam',
      geig_answer D d (pencil_lhs n L X) (lpp_rhs n Dg X) P lam ->
      geig_answer D d (pencil_lhs n L (translate t X)) (lpp_rhs n Dg (translate t X)) P' lam' ->
      emb_sq_dist d (project D P' (mean_vec n (translate t X)) (translate t X)) 0 1
      <> emb_sq_dist d (project D P (mean_vec n X) X) 0 1.
Proof. exact main_translation_lpp_refuted. Qed.
Print Assumptions translation_lpp_refuted.

(* ======================================================================================= *)
(* 4. scale_equivariance (MDS, Isomap, linear kernel PCA, PCA)                              *)
(* ======================================================================================= *)
(* the matrices scale by c^2 (sqrt contract for c >= 0: sqrt(c^2 x) = c sqrt(x)) *)
Theorem scale_matrices : forall F (Fo : FieldOps F) (Ff : IsField F) n D c fsqrt (X G : mat F),
  of_nat n <> 0%F -> two <> 0%F -> (forall x, fsqrt (c * c * x) = c * fsqrt x)%F ->
  meq n n (mds_matrix n (euclid_dist fsqrt D (scale c X)))
          (mscale (c * c)%F (mds_matrix n (euclid_dist fsqrt D X))) /\
  meq n n (kpca_matrix n (lin_kernel D (scale c X))) (mscale (c * c)%F (kpca_matrix n (lin_kernel D X))) /\
  meq n n (isomap_matrix n (mscale c G)) (mscale (c * c)%F (isomap_matrix n G)).
Proof. exact main_scale_matrices. Qed.
Print Assumptions scale_matrices.

(* Isomap's geodesic table scales with the edge weights (Conn_Spec.is_geodesic, integer weights) *)
Theorem scale_geodesics : forall nb w c i j d,
  (0 < c)%Z -> is_geodesic nb w i j d ->
  is_geodesic nb (fun a b => (c * w a b)%Z) i j (option_map (Z.mul c) d).
Proof. exact main_scale_geodesics. Qed.
Print Assumptions scale_geodesics.

(* oracle: G' = c^2 G has the answers (V, c^2 lam); with sqrt values s' = c s the embedding
   V * s' is c times V * s, and all embedding distances scale by c (squared: c^2) *)
Theorem scale_spectral_embedding : forall F (Fo : FieldOps F) (Ff : IsField F) n d c (G G' V : mat F) lam s,
  meq n n G' (mscale (c * c)%F G) ->
  eig_answer n d G V lam -> (forall k, k < d -> (s k * s k = lam k)%F) ->
  eig_answer n d G' V (fun k => (c * c * lam k)%F) /\
  (forall k, k < d -> ((c * s k) * (c * s k) = c * c * lam k)%F) /\
  scaled_by n d c (scale_cols V s) (scale_cols V (fun k => (c * s k)%F)) /\
  forall i j, i < n -> j < n ->
    emb_sq_dist d (scale_cols V (fun k => (c * s k)%F)) i j = (c * c * emb_sq_dist d (scale_cols V s) i j)%F.
Proof. exact main_scale_spectral_embedding. Qed.
Print Assumptions scale_spectral_embedding.

Theorem scale_pca_embedding : forall F (Fo : FieldOps F) (Ff : IsField F) n D d c (X P : mat F) lam,
  of_nat n <> 0%F -> two <> 0%F -> eig_answer D d (pca_matrix_fixed n X) P lam ->
  eig_answer D d (pca_matrix_fixed n (scale c X)) P (fun k => (c * c * lam k)%F) /\
  forall i k, project D P (mean_vec n (scale c X)) (scale c X) i k
              = (c * project D P (mean_vec n X) X i k)%F.
Proof. exact main_scale_pca_embedding. Qed.
Print Assumptions scale_pca_embedding.

(* centerMatrix itself commutes with EVERY scale c (tiny and huge included: a field has no absolute
   thresholds), for every matrix *)
Theorem scale_center_matrix : forall F (Fo : FieldOps F) (Ff : IsField F) n c (M : mat F) i j,
  of_nat n <> 0%F -> center_matrix n (mscale c M) i j = mscale c (center_matrix n M) i j.
Proof. exact main_scale_center_matrix. Qed.
Print Assumptions scale_center_matrix.

(* the Isomap stage as it was BEFORE F23 (no `(S + S^T)/2`) is permutation- and scale-equivariant too: the
   check accepts either variant of that one statement (which one is right is C04's subject) *)
Theorem isomap_pre_f23_equivariant : forall F (Fo : FieldOps F) (Ff : IsField F) n p q c (G : mat F),
  (is_bij n p q -> meq n n (isomap_matrix_pre_f23 n (pact q G)) (pact q (isomap_matrix_pre_f23 n G))) /\
  (of_nat n <> 0%F ->
   meq n n (isomap_matrix_pre_f23 n (mscale c G)) (mscale (c * c)%F (isomap_matrix_pre_f23 n G))) /\
  (forall LG, isomap_matrix_pre_f23_exec n LG = mtab n n (isomap_matrix_pre_f23 n (mof LG))).
Proof. exact main_isomap_pre_f23_equivariant. Qed.
Print Assumptions isomap_pre_f23_equivariant.

(* regression theorems for a class of edits (center_matrix_skip is NOT the shipped code): an early-out
   "all column means pass `small`" is harmless when `small` accepts exact zeros only ... *)
Theorem center_skip_exact_harmless : forall F (Fo : FieldOps F) (Ff : IsField F) small n (M : mat F),
  of_nat n <> 0%F -> (forall x, small x = true -> x = 0%F) ->
  meq n n (center_matrix_skip small n M) (center_matrix n M).
Proof. exact main_center_skip_exact_harmless. Qed.
Print Assumptions center_skip_exact_harmless.

(* ... and breaks scale equivariance when it is an absolute threshold (|x| <= 10^-12, the shape of Eigen's
   isZero()): [[0,1],[1,0]] is centred, 10^-13 times it is not *)
Theorem center_skip_absolute_refuted :
  exists n (M : mat Qc) (c : Qc) i j, i < n /\ j < n /\ c <> 0%F /\
    center_matrix_skip small_abs n (mscale c M) i j <> mscale c (center_matrix_skip small_abs n M) i j.
Proof. exact main_center_skip_absolute_refuted. Qed.
Print Assumptions center_skip_absolute_refuted.

(* ======================================================================================= *)
(* 5. no_hidden_state: the generated inventory of long-lived objects / rand consumers        *)
(*    (coq/gen/Statics.v, regenerated from the source by translate/t_static.py) restricted   *)
(*    to the kinds that can carry state equals the hand-written allow-list of Equiv_Spec.v.  *)
(*    The models above are pure functions; that the listed objects do not influence the      *)
(*    numbers returned by the deterministic methods is argued in Equiv_Spec.v, reduced to an  *)
(*    observable by section 5b (Equiv_Effects.v) and TESTED                                  *)
(*    by the history stream of the check (bitwise), not proved: hence `_partial`.            *)
(* ======================================================================================= *)
Theorem no_hidden_state_partial : inventory_ok Statics.inventory = true.
Proof. exact main_no_hidden_state_partial. Qed.
Print Assumptions no_hidden_state_partial.

(* 5b. HOW the allow-listed objects can reach a call (Equiv_Effects.v: a call is a program over
   Draw = std::rand, Shuffle = random_shuffle's generator, Log = message_<level>, which has no answer;
   `effects p s` = draws + shuffles on the executed path = what the embed driver observes for every call).
   A call that is observed to draw nothing returns the same value from EVERY process state, draws nothing
   there either and leaves both streams untouched; hence after ANY history its result is the result in a
   fresh process; the logger (flags and ps_sink) never matters, draws or not; a drawing call does depend on
   the state (the randomised methods: the statement excludes them). *)
Theorem draw_free_call_state_independent : forall A (p : prog A) s,
  effects p s = 0 ->
  forall s', fst (run p s') = fst (run p s) /\ effects p s' = 0 /\
             ps_pos (snd (run p s')) = ps_pos s' /\ ps_shuf (snd (run p s')) = ps_shuf s'.
Proof. exact main_draw_free_call_state_independent. Qed.
Print Assumptions draw_free_call_state_independent.

Theorem draw_free_call_history_independent : forall A (h : list (prog unit)) (p : prog A) s0,
  effects p s0 = 0 -> forall s, fst (run_history h p s) = fst (run p s0).
Proof. exact main_draw_free_call_history_independent. Qed.
Print Assumptions draw_free_call_history_independent.

Theorem logger_never_matters : forall A (p : prog A) s s',
  same_streams s s' ->
  fst (run p s) = fst (run p s') /\ effects p s = effects p s' /\
  same_streams (snd (run p s)) (snd (run p s')).
Proof. exact main_logger_never_matters. Qed.
Print Assumptions logger_never_matters.

Theorem drawing_call_depends_on_state_refuted :
  exists (p : prog nat) s s', effects p s = 1 /\ fst (run p s) <> fst (run p s').
Proof. exact main_drawing_call_depends_on_state_refuted. Qed.
Print Assumptions drawing_call_depends_on_state_refuted.

(* ======================================================================================= *)
(* 6. the extracted functions are the tables of the functions above; the extracted checkers  *)
(*    decide the relations above                                                             *)
(* ======================================================================================= *)
Theorem exec_tables : forall F (Fo : FieldOps F) (Ff : IsField F) n D (L : list (list F)),
  mds_matrix_exec n L = mtab n n (mds_matrix n (mof L)) /\
  kpca_matrix_exec n L = mtab n n (kpca_matrix n (mof L)) /\
  isomap_matrix_exec n L = mtab n n (isomap_matrix n (mof L)) /\
  mean_exec n D L = vtab D (mean_vec n (mof L)) /\
  (of_nat n <> 0%F -> cov_exec n D L = mtab D D (cov_full n (mof L))).
Proof. exact main_exec_tables. Qed.
Print Assumptions exec_tables.

Theorem checkers_sound : forall n m d D ql c (M M' R : T),
  (perm_list_b n ql = true -> is_bij n (perm_inv_fun ql) (qfun ql)) /\
  (rel_perm_tab_b n ql M M' = true -> meq n n (mof M') (pact (qfun ql) (mof M))) /\
  (rel_perm_rows_b n d ql M M' = true -> rows_permuted n d (qfun ql) (mof M) (mof M')) /\
  (rel_eq_tab_b n m M M' = true -> meq n m (mof M') (mof M)) /\
  (rel_scale_tab_b n m c M M' = true -> meq n m (mof M') (mscale c (mof M))) /\
  (rel_conj_tab_b D R M M' = true -> meq D D (mof M') (conj_R D (mof R) (mof M))) /\
  (orth_b D R = true -> orthogonal D (mof R)).
Proof. exact main_checkers_sound. Qed.
Print Assumptions checkers_sound.

(* ======================================================================================= *)
(* wave 3: equally distant candidates at the k-th neighbour; covariance from centred vectors  *)
(* ======================================================================================= *)
(* the cover-tree wrapper's selection (sort the candidates by (distance, index), keep the first k) is a
   function of the SET of candidates: the order in which the tree traversal delivers them - which depends
   on the scale of the data and on the sample order - does not matter *)
Theorem tie_select_order_independent : forall k (c1 c2 : list cand),
  Permutation.Permutation c1 c2 -> tie_select k c1 = tie_select k c2.
Proof. exact tie_select_order_independent_lemma. Qed.
Print Assumptions tie_select_order_independent.

(* ... and is unchanged when the distances go through ANY strictly increasing map (ties stay ties) *)
Theorem tie_select_monotone : forall g k (c : list cand),
  (forall x y, (x < y <-> g x < g y)%Z) -> tie_select k (map (on_dist g) c) = tie_select k c.
Proof. exact tie_select_monotone_lemma. Qed.
Print Assumptions tie_select_monotone.

(* ... in particular when the data are scaled by c > 0 (no power-of-two restriction) *)
Theorem tie_select_scale : forall s k (c : list cand),
  (0 < s)%Z -> tie_select k (map (on_dist (Z.mul s)) c) = tie_select k c.
Proof. exact tie_select_scale_lemma. Qed.
Print Assumptions tie_select_scale.

(* a selection that compares distances only and leaves equally distant candidates in arrival order
   (std::nth_element under distances_comparator on a two-element tie) depends on the arrival order *)
Theorem tie_select_arrival_refuted :
  exists (c1 c2 : list cand),
    Permutation.Permutation c1 c2 /\ NoDup (map snd c1) /\
    tie_select_arrival 1 c1 <> tie_select_arrival 1 c2 /\ tie_select 1 c1 = tie_select 1 c2.
Proof. exact tie_select_arrival_refuted_lemma. Qed.
Print Assumptions tie_select_arrival_refuted.

(* fixes/F49: the covariance accumulated from centred vectors is the covariance matrix of the shipped
   expanded formula in every field (so the exact streams cannot tell them apart; binary64 can, at large
   offsets), and it is translation invariant entry by entry *)
Theorem cov_centered_is_cov_full : forall F (Fo : FieldOps F) (Ff : IsField F) n (X : mat F) a b,
  of_nat n <> 0%F -> cov_centered n X a b = cov_full n X a b.
Proof. exact (fun F Fo Ff => @cov_centered_is_cov_full_lemma F Fo Ff). Qed.
Print Assumptions cov_centered_is_cov_full.

Theorem cov_centered_translate : forall F (Fo : FieldOps F) (Ff : IsField F) n t (X : mat F) a b,
  of_nat n <> 0%F -> cov_centered n (translate t X) a b = cov_centered n X a b.
Proof. exact (fun F Fo Ff => @cov_centered_translate_lemma F Fo Ff). Qed.
Print Assumptions cov_centered_translate.

(* ======================================================================================= *)
(* non-vacuity: the hypotheses used above are satisfiable                                    *)
(* ======================================================================================= *)
Example hyps_perm_satisfiable :
  is_bij 4 (perm_inv_fun [2;0;3;1]) (qfun [2;0;3;1]) /\
  uniform_rows 3 2 (fun a => match a with 0 => [1;2] | 1 => [0;2] | _ => [1;0] end) /\
  rows_in_range 3 (fun a => match a with 0 => [1;2] | 1 => [0;2] | _ => [1;0] end).
Proof. exact (conj nv_bij nv_uniform_rows). Qed.

Example hyps_orthogonal_satisfiable : orthogonal 4 w_R4 /\ w_R4 0 1 <> 0%F.
Proof. exact nv_orthogonal. Qed.

Example hyps_oracle_satisfiable :
  eig_answer 3 2 w_G w_V w_ev /\ (forall k, k < 2 -> (w_sq k * w_sq k = w_ev k)%F) /\
  @of_nat Qc QcOps 8 <> 0%F /\ @two Qc QcOps <> 0%F.
Proof. exact (conj (proj1 nv_eig_answer) (conj (proj2 nv_eig_answer) nv_sizes)). Qed.

Example hyps_knn_satisfiable : zbij 5 (fun i => i) (fun i => i).
Proof. exact (zbij_id 5). Qed.

Example hyps_scale_center_satisfiable :
  @of_nat Qc QcOps 2 <> 0%F /\
  meq 2 2 (center_matrix 2 (mscale w_tiny w_M2)) (mscale w_tiny (center_matrix 2 w_M2)).
Proof. exact (conj (Qc_of_nat_neq0 2 (Nat.neq_succ_0 1)) center_scale_on_witness). Qed.

Example hyps_draw_free_satisfiable :
  exists (p : prog nat) s, effects p s = 0 /\ fst (run p s) = 7.
Proof. exact no_effects_nonvacuous. Qed.

Example hyps_tie_monotone_satisfiable : exists g, forall x y : Z, (x < y <-> g x < g y)%Z.
Proof. exact tie_select_monotone_hyp_satisfiable. Qed.
