(* Dijkstra_Proof_PQC_Sched.v — every OpenMP schedule, for the priority-queue configuration over the CONCRETE
   binary heap (Dijkstra_PQC_Model.v): the generic schedule model of Dijkstra_Sched_Model.v (per-thread private
   s[], f[] and queue reused across the rows a thread is given) instantiated with step_pqc.  Same statement as
   threads_independent_full / _landmark, without `pick`. *)
From Coq Require Import List ZArith Bool Arith Lia Permutation.
From TK Require Import Dijkstra_Model Dijkstra_Spec Dijkstra_Sched_Model Dijkstra_Proof_Base Dijkstra_Proof
     Dijkstra_Proof_Sched Dijkstra_PQC_Model Dijkstra_Proof_PQC Dijkstra_Proof_PQC_Heap.
Import ListNotations.
Local Open Scope Z_scope.

Lemma relax_pqc_lens : forall w u ws st st', relax_pqc w u ws st = DOk st' -> lens st' = lens st.
Proof.
  intros w u ws; induction ws as [|v ws IH]; intros st st' H; cbn [relax_pqc] in H.
  - inversion H; reflexivity.
  - destruct (nth_error (d_s st) v) as [[|]|]; [apply IH; assumption | | discriminate].
    destruct (nth_error (d_dist st) u) as [[du|]|]; [| |discriminate].
    + destruct (nth_error (d_dist st) v) as [dv|]; [|discriminate].
      destruct (lt_inf (du + w u v) dv).
      * apply IH in H. rewrite H. unfold lens; cbn [d_s d_f]. rewrite upd_length. reflexivity.
      * apply IH; assumption.
    + destruct (nth_error (d_dist st) v); [apply IH; assumption | discriminate].
Qed.

Lemma step_pqc_lens : forall nbrs w K st st',
    step_pqc nbrs w K st = Some (DOk st') -> lens st' = lens st.
Proof.
  intros nbrs w K st st' H. unfold step_pqc in H.
  destruct (d_heap st) as [|[u d] rest]; [discriminate H|]. cbv beta iota in H.
  match type of H with context [is_min ?a ?b] => destruct (is_min a b) end; [|discriminate H].
  destruct (nth_error (d_dist st) u) as [du|]; [|discriminate H].
  destruct (gt_inf d du).
  - injection H as <-. reflexivity.
  - injection H as H'. eapply expand_lens in H'; [exact H'|]. intros; eapply relax_pqc_lens; eauto.
Qed.

Lemma row_reuse_fresh_pqc : forall nbrs w N K src_of k old ts,
    length old = N -> tstate_ok N ts ->
    match src_of k with
    | DOk (src, fidx) =>
      match row_pqc nbrs w N K src fidx with
      | DOk row => exists ts', row_reuse (step_pqc nbrs w K) N K src_of k old ts = DOk (row, ts')
                               /\ tstate_ok N ts'
      | DOOB a b => row_reuse (step_pqc nbrs w K) N K src_of k old ts = DOOB a b
      | DOutOfFuel => row_reuse (step_pqc nbrs w K) N K src_of k old ts = DOutOfFuel
      end
    | DOOB a b => row_reuse (step_pqc nbrs w K) N K src_of k old ts = DOOB a b
    | DOutOfFuel => row_reuse (step_pqc nbrs w K) N K src_of k old ts = DOutOfFuel
    end.
Proof.
  intros nbrs w N K src_of k old ts Hold (Hs & Hf & Hh).
  unfold row_reuse. destruct (src_of k) as [[src fidx]| |]; [|reflexivity|reflexivity].
  rewrite !refill_repeat by assumption. rewrite Hh.
  unfold row_pqc, row_of, init_state.
  destruct (Nat.ltb src N); [|reflexivity].
  destruct (Nat.ltb fidx N); [|reflexivity].
  destruct (loop _ _ _) as [st| |] eqn:EL; [|reflexivity|reflexivity].
  eexists. split; [reflexivity|].
  apply loop_lens in EL; [|intros; eapply step_pqc_lens; eauto].
  unfold lens in EL; cbn [d_s d_f] in EL. rewrite upd_length, !repeat_length in EL.
  inversion EL. unfold tstate_ok; cbn [t_s t_f t_heap]. auto.
Qed.

Section TeamC.
  Variable nbrs : list (list nat).
  Variable w : nat -> nat -> Z.
  Variables N K R : nat.
  Variable src_of : nat -> dres (nat * nat).
  Variable garbage : nat -> list (option Z).
  Variable want : nat -> list (option Z).
  Hypothesis Hgarbage : forall k, length (garbage k) = N.
  Hypothesis Hrow : forall k, (k < R)%nat ->
      exists src fidx, src_of k = DOk (src, fidx) /\ row_pqc nbrs w N K src fidx = DOk (want k).

  Notation stepc := (step_pqc nbrs w K).

  Lemma thread_run_pqc : forall ks ts, Forall (fun k => (k < R)%nat) ks -> tstate_ok N ts ->
      thread_run stepc N K src_of garbage ks ts = DOk (map (fun k => (k, want k)) ks).
  Proof.
    induction ks as [|k ks IH]; intros ts Hks Hts; cbn [thread_run map]; [reflexivity|].
    inversion Hks as [|? ? Hk Hks']; subst.
    destruct (Hrow k Hk) as (src & fidx & Es & Er).
    pose proof (row_reuse_fresh_pqc nbrs w N K src_of k (garbage k) ts (Hgarbage k) Hts) as H.
    rewrite Es, Er in H. destruct H as (ts' & E & Hts').
    rewrite E, (IH ts' Hks' Hts'). reflexivity.
  Qed.

  Lemma team_run_pqc : forall sched inits,
      length inits = length sched ->
      Forall (tstate_ok N) inits ->
      Forall (fun k => (k < R)%nat) (concat sched) ->
      team_run stepc N K src_of garbage sched inits = DOk (map (fun k => (k, want k)) (concat sched)).
  Proof.
    induction sched as [|ks sched IH]; intros inits HL Hin Hks; cbn [team_run concat map]; [reflexivity|].
    destruct inits as [|ts inits]; [cbn in HL; lia|].
    cbn [concat] in Hks. apply Forall_app in Hks. destruct Hks as [Hks1 Hks2].
    inversion Hin as [|? ? Hts Hin']; subst.
    rewrite (thread_run_pqc ks ts Hks1 Hts).
    rewrite (IH inits) by (cbn in HL; auto; lia).
    rewrite map_app. reflexivity.
  Qed.

  Theorem sched_matrix_pqc : forall sched inits,
      length inits = length sched -> Forall (tstate_ok N) inits ->
      (forall k, In k (concat sched) <-> (k < R)%nat) ->
      sched_matrix stepc N K src_of R garbage sched inits = DOk (map want (seq 0 R)).
  Proof.
    intros sched inits HL Hin Hcover. unfold sched_matrix.
    rewrite team_run_pqc; [|assumption|assumption|].
    - f_equal. unfold assemble. apply map_ext_in. intros k Hk. apply in_seq in Hk.
      rewrite find_row_map; [reflexivity|]. apply Hcover. lia.
    - apply Forall_forall. intros k Hk. apply Hcover. assumption.
  Qed.
End TeamC.

Definition full_matrix_sched_pqc nbrs w (N K : nat) garbage sched inits :=
  sched_matrix (step_pqc nbrs w K) N K (fun k => DOk (k, k)) N garbage sched inits.

Definition landmark_matrix_sched_pqc nbrs w (N K : nat) (lm : list nat) garbage sched inits :=
  sched_matrix (step_pqc nbrs w K) N K
               (fun k => match nth_error lm k with
                         | Some src => DOk (src, src)
                         | None => DOOB site_landmark k
                         end)
               (length lm) garbage sched inits.

Theorem full_matrix_pqc_any_schedule : forall nbrs w N K garbage sched inits,
    wf_graph nbrs N K -> nonneg_w nbrs w ->
    (forall k, length (garbage k) = N) ->
    length inits = length sched -> Forall (tstate_ok N) inits ->
    Permutation (concat sched) (seq 0 N) ->
    full_matrix_sched_pqc nbrs w N K garbage sched inits = DOk (sp_matrix nbrs w N).
Proof.
  intros nbrs w N K garbage sched inits Hwf Hnn Hg HL Hin HP.
  unfold full_matrix_sched_pqc, sp_matrix.
  apply (sched_matrix_pqc nbrs w N K N (fun k => DOk (k, k)) garbage (sp_row nbrs w N) Hg);
    [|assumption|assumption|apply permutation_covers; assumption].
  intros k Hk. exists k, k. split; [reflexivity|].
  apply (row_pqc_eq_sp nbrs w N K k Hwf Hnn Hk k Hk).
Qed.

Theorem landmark_matrix_pqc_any_schedule : forall nbrs w N K lm garbage sched inits,
    wf_graph nbrs N K -> nonneg_w nbrs w ->
    Forall (fun v => (v < N)%nat) lm ->
    (forall k, length (garbage k) = N) ->
    length inits = length sched -> Forall (tstate_ok N) inits ->
    Permutation (concat sched) (seq 0 (length lm)) ->
    landmark_matrix_sched_pqc nbrs w N K lm garbage sched inits = DOk (sp_landmarks nbrs w N lm).
Proof.
  intros nbrs w N K lm garbage sched inits Hwf Hnn Hlm Hg HL Hin HP.
  unfold landmark_matrix_sched_pqc, sp_landmarks.
  replace (map (sp_row nbrs w N) lm)
    with (map (fun k => sp_row nbrs w N (nth k lm 0%nat)) (seq 0 (length lm))).
  2:{ rewrite <- (map_map (fun k => nth k lm 0%nat) (sp_row nbrs w N)). f_equal.
      clear. induction lm as [|a l IH]; [reflexivity|]. cbn [length seq map nth]. f_equal.
      rewrite <- seq_shift, map_map. exact IH. }
  apply (sched_matrix_pqc nbrs w N K (length lm) _ garbage
                          (fun k => sp_row nbrs w N (nth k lm 0%nat)) Hg);
    [|assumption|assumption|apply permutation_covers; assumption].
  intros k Hk. exists (nth k lm 0%nat), (nth k lm 0%nat).
  rewrite (nth_error_nth' lm 0%nat Hk). split; [reflexivity|].
  assert (Hs : (nth k lm 0 < N)%nat).
  { rewrite Forall_forall in Hlm. apply Hlm. apply nth_In. assumption. }
  apply (row_pqc_eq_sp nbrs w N K (nth k lm 0%nat) Hwf Hnn Hs _ Hs).
Qed.

(* non-vacuity: two threads, rows handed out of order, garbage everywhere *)
Example schedule_pqc_example :
    full_matrix_sched_pqc f4_nbrs f4_w 3 1
                      (fun k => [Some 7; None; Some (-1)])
                      [[2; 0]; [1]]%nat
                      [mkT [true; true; false] [false; true; true] []; mkT [true; true; true] [true; true; true] []]
    = DOk (sp_matrix f4_nbrs f4_w 3).
Proof. vm_compute. reflexivity. Qed.
