(* Chain_Spec.v — what property C13 demands of the tables interpreted by Chain_Model.v, with boolean
   decision procedures (run inside coqc by vm_compute for the theorems, and extracted for the check).

   C13: "... all give the same embedding, regardless of the order in which the callbacks are attached in
   the call chain.  A method invokes only the callbacks it declares to need, so supplying exactly those
   is always sufficient."

   In the model every call form is the same function of what sits in the slots of the method
   implementation object, so the statement splits into
     ROUTING     whatever the order of attachment and whichever entry point (embedRange / embedUsing),
                 the object the caller attached as <k> -- and nothing else -- is what the slots named
                 kernel / distance / features (and their wrappers plain_distance / kernel_distance) hold;
                 every slot the caller did not fill holds the dummy of ITS OWN kind; begin/end/parameters
                 are the caller's;
     USAGE       the slots a method's code refers to hold callbacks of kinds the method declares;
     SUFFICIENCY supplying (at least) the declared kinds makes the method run without touching a dummy.
   Equality of the numerical results of the call forms is not a Coq theorem: it is the tie (harness). *)
From Coq Require Import List String Bool Arith.
From TK Require Import Chain_Model.
Import ListNotations.
Local Open Scope string_scope.

(* ------------------------------------------------------------------ small deciders *)
Fixpoint kinds_eqb (a b : list kind) : bool :=
  match a, b with
  | [], [] => true
  | x :: r, y :: s => kind_eqb x y && kinds_eqb r s
  | _, _ => false
  end.

Fixpoint nodupb (l : list kind) : bool :=
  match l with
  | [] => true
  | x :: r => negb (kmem x r) && nodupb r
  end.

Fixpoint values_eqb (a b : list value) : bool :=
  match a, b with
  | [], [] => true
  | x :: r, y :: s => value_eqb x y && values_eqb r s
  | _, _ => false
  end.

Definition entry_eqb (a b : entry) : bool :=
  match a, b with
  | ByRange, ByRange | ByContainer, ByContainer | ByMatrix, ByMatrix => true
  | _, _ => false
  end.

(* every list of pairwise different kinds: the 16 attachment orders a caller can write *)
Definition all_orders : list (list kind) :=
  [ [];
    [Kern]; [Dist]; [Feat];
    [Kern; Dist]; [Dist; Kern]; [Kern; Feat]; [Feat; Kern]; [Dist; Feat]; [Feat; Dist];
    [Kern; Dist; Feat]; [Kern; Feat; Dist]; [Dist; Kern; Feat]; [Dist; Feat; Kern]; [Feat; Kern; Dist];
    [Feat; Dist; Kern] ].

Definition all_entries : list entry := [ByRange; ByContainer; ByMatrix].

(* the chains that compile: the state returned by tapkee::with has only embedUsing(matrix); every other
   state has embedRange(begin,end) and embedUsing(container) *)
Definition valid_chain (order : list kind) (en : entry) : Prop :=
  NoDup order /\ (order = [] <-> en = ByMatrix).

Definition valid_chainb (order : list kind) (en : entry) : bool :=
  nodupb order && Bool.eqb (match order with [] => true | _ => false end) (entry_eqb en ByMatrix).

(* ------------------------------------------------------------------ ROUTING *)
(* what the caller put into the chain for kind k *)
Definition supplied (order : list kind) (en : entry) (k : kind) : value :=
  match en with
  | ByMatrix => VEigen k
  | _ => if kmem k order then VUser k else VDummy k
  end.

Definition expected_embed_args (order : list kind) (en : entry) : list value :=
  [VBegin; VEnd; supplied order en Kern; supplied order en Dist; supplied order en Feat; VParams].

(* the slots the method bodies can name (the using-list of __TAPKEE_IMPLEMENTATION), by NAME *)
Definition expected_slots (cb : kind -> value) : env :=
  [ ("parameters", VParams);
    ("kernel", cb Kern); ("distance", cb Dist); ("features", cb Feat);
    ("plain_distance", VWrap "PlainDistance" (cb Dist));
    ("kernel_distance", VWrap "KernelDistance" (cb Kern));
    ("begin", VBegin); ("end", VEnd) ].

Fixpoint slots_match (want : env) (have : env) : bool :=
  match want with
  | [] => true
  | (n, v) :: r =>
    match lookup n have with
    | Some v' => value_eqb v v' && slots_match r have
    | None => false
    end
  end.

Definition routes_ok (t : chain_tables) (order : list kind) (en : entry) : bool :=
  match user_chain t order en with
  | REmbed args =>
    values_eqb args (expected_embed_args order en) &&
    match reach t order en with
    | RObj _ slots => slots_match (expected_slots (supplied order en)) slots
    | _ => false
    end
  | _ => false
  end.

Definition all_routes_ok (t : chain_tables) : bool :=
  forallb (fun o => forallb (fun en => if valid_chainb o en then routes_ok t o en else true) all_entries)
          all_orders.

(* ------------------------------------------------------------------ USAGE *)
Fixpoint kinds_incl (a b : list kind) : bool :=
  match a with
  | [] => true
  | x :: r => kmem x b && kinds_incl r b
  end.

Definition uses_ok (t : chain_tables) (u : uses_tables) (m : method_decl) : bool :=
  kinds_incl (uses t u m) (declared u m).

(* dispatch table = method table (as sets of names) *)
Definition dispatch_ok (u : uses_tables) : bool :=
  forallb (fun m => existsb (String.eqb (md_name m)) (u_dispatched u)) (u_methods u) &&
  forallb (fun n => existsb (fun m => String.eqb (md_name m) n) (u_methods u)) (u_dispatched u).

(* ------------------------------------------------------------------ SUFFICIENCY / what happens otherwise *)
Definition outcome_eqb (a b : outcome) : bool :=
  match a, b with
  | Ok, Ok => true
  | NotDispatched, NotDispatched => true
  | Missed x, Missed y => String.eqb x y
  | TouchesDummy s k, TouchesDummy s' k' => String.eqb s s' && kind_eqb k k'
  | Broken x, Broken y => String.eqb x y
  | _, _ => false
  end.

Definition is_missed (o : outcome) : bool := match o with Missed _ => true | _ => false end.

(* the verdict the check expects of one (method, chain): Ok iff every declared kind was supplied *)
Definition sufficient_ok (t : chain_tables) (u : uses_tables) (m : method_decl) (order : list kind) (en : entry)
  : bool :=
  let o := run_method t u m order en in
  match en with
  | ByMatrix => outcome_eqb o Ok
  | _ => if kinds_incl (declared u m) order then outcome_eqb o Ok else is_missed o
  end.

Definition all_sufficient_ok (t : chain_tables) (u : uses_tables) : bool :=
  forallb (fun m =>
    forallb (fun o => forallb (fun en => if valid_chainb o en then sufficient_ok t u m o en else true) all_entries)
            all_orders) (u_methods u).

(* ------------------------------------------------------------------ which user object may see which call *)
(* the callback member function tapkee's code invokes on a slot, by the slot's NAME (vocabulary fixed by
   the library: KernelDistance calls .kernel, PlainDistance calls .distance, features are read by .vector,
   the base constructor asks .dimension) *)
Definition slot_role (s : string) : option kind :=
  if String.eqb s "kernel" || String.eqb s "kernel_distance" then Some Kern
  else if String.eqb s "distance" || String.eqb s "plain_distance" then Some Dist
  else if String.eqb s "features" then Some Feat
  else None.

Definition role_function (k : kind) : string :=
  match k with Kern => "kernel" | Dist => "distance" | Feat => "vector" end.

(* (k, f): the object the caller supplied as <k> may receive calls of member function f *)
Fixpoint may_call_of (slots : env) (refs : list string) : list (kind * string) :=
  match refs with
  | [] => []
  | s :: r =>
    match lookup s slots, slot_role s with
    | Some v, Some role =>
      match value_kind v with
      | Some k => (k, role_function role) :: may_call_of slots r
      | None => may_call_of slots r
      end
    | _, _ => may_call_of slots r
    end
  end.

Fixpoint base_calls_of (slots : env) (refs : list string) : list (kind * string) :=
  match refs with
  | [] => []
  | s :: r =>
    match lookup s slots with
    | Some v =>
      if value_is_dummy v then base_calls_of slots r else
      match value_kind v with
      | Some k => (k, "dimension") :: base_calls_of slots r
      | None => base_calls_of slots r
      end
    | None => base_calls_of slots r
    end
  end.

Definition may_call (t : chain_tables) (u : uses_tables) (m : method_decl) (order : list kind) (en : entry)
  : list (kind * string) :=
  match reach t order en with
  | RObj _ slots =>
    (base_calls_of slots (u_base_refs u ++ u_base_unguarded u) ++
     match run_method_on u m slots with
     | Ok => may_call_of slots (md_refs m)
     | _ => []
     end)%list
  | _ => []
  end.

(* ------------------------------------------------------------------ the callback classes and the data iterators *)
Definition kind_word (k : kind) : string :=
  match k with Kern => "kernel" | Dist => "distance" | Feat => "features" end.

Definition dummy_class (k : kind) : string := "dummy_" ++ kind_word k ++ "_callback".

Fixpoint find_class3 (cs : list (string * bool * list (string * bool))) (n : string)
  : option (bool * list (string * bool)) :=
  match cs with
  | [] => None
  | (c, mk, ms) :: r => if String.eqb c n then Some (mk, ms) else find_class3 r n
  end.

Definition starts_with (p s : string) : bool := String.eqb (substring 0 (String.length p) s) p.

(* is_dummy<T> is true exactly of the three dummy classes (they carry `typedef int dummy`), every member function
   of a dummy throws, and no real callback class is marked or throws unconditionally *)
Definition callback_classes_ok (u : uses_tables) : bool :=
  forallb (fun k => match find_class3 (u_callback_classes u) (dummy_class k) with
                    | Some (true, ms) => negb (match ms with [] => true | _ => false end) &&
                                         forallb (fun m => snd m) ms
                    | _ => false
                    end) all_kinds &&
  forallb (fun c => match c with
                    | (n, mk, ms) => if starts_with "dummy_" n then mk
                                     else negb mk && forallb (fun m => negb (snd m)) ms
                    end) (u_callback_classes u).

(* the wrapper objects the base class builds (plain_distance, kernel_distance) forward every call to the member
   function of the role of THEIR slot: for each initialiser  slot := W(...)  of the implementation base class, every
   member of W calls only  role_function (slot_role slot)  on the wrapped callback.  (WHICH callback is wrapped --
   the one of that same role -- is part of chain_routes: expected_slots says plain_distance = PlainDistance(distance
   callback), kernel_distance = KernelDistance(kernel callback), however the initialiser spells its argument.) *)
Fixpoint find_wrapper (ws : list (string * list (string * list string))) (w : string)
  : option (list (string * list string)) :=
  match ws with
  | [] => None
  | (n, tb) :: r => if String.eqb n w then Some tb else find_wrapper r w
  end.

Definition wrapper_init_ok (u : uses_tables) (init : string * expr) : bool :=
  match init with
  | (slot, EWrap w _) =>
    match find_wrapper (u_wrappers u) w, slot_role slot with
    | Some tb, Some r =>
      negb (match tb with [] => true | _ => false end) &&
      forallb (fun mc => negb (match snd mc with [] => true | _ => false end) &&
                         forallb (String.eqb (role_function r)) (snd mc)) tb
    | _, _ => false
    end
  | _ => true
  end.

Definition wrappers_ok (t : chain_tables) (u : uses_tables) : bool :=
  match find_class (t_classes t) (t_impl_class t) with
  | Some c => forallb (wrapper_init_ok u) (c_inits c)
  | None => false
  end.

(* "iterators are dereferenced only to pass values to callbacks" *)
Definition derefs_ok (u : uses_tables) : bool := forallb (fun d => snd d) (u_derefs u).

(* ------------------------------------------------------------------ the code before the F13 repair *)
(* defines/methods.hpp at the pinned commit said  ManifoldSculpting("Manifold Sculpting", RequiresFeatures) *)
Definition retrait (name trait : string) (m : method_decl) : method_decl :=
  if String.eqb (md_name m) name
  then {| md_name := md_name m; md_trait := trait; md_refs := md_refs m; md_invoked := md_invoked m |}
  else m.

Definition with_trait (u : uses_tables) (name trait : string) : uses_tables :=
  {| u_trait_fields := u_trait_fields u; u_traits := u_traits u; u_method_inits := u_method_inits u;
     u_guards := u_guards u; u_base_refs := u_base_refs u; u_base_unguarded := u_base_unguarded u;
     u_methods := map (retrait name trait) (u_methods u); u_dispatched := u_dispatched u;
     u_callback_classes := u_callback_classes u; u_wrappers := u_wrappers u;
     u_deref_files := u_deref_files u; u_derefs := u_derefs u |}.

Definition uses_before_F13 (u : uses_tables) : uses_tables := with_trait u "ManifoldSculpting" "RequiresFeatures".

Fixpoint find_method (ms : list method_decl) (n : string) : option method_decl :=
  match ms with
  | [] => None
  | m :: r => if String.eqb (md_name m) n then Some m else find_method r n
  end.
