(* ====================================================================== *)
(*  Spectral_GramDual.v — the non-zero spectra of A A^T and A^T A agree,   *)
(*  WITH their ordering: for every k, the sum of the k largest eigenvalues *)
(*  of A A^T equals the sum of the k largest eigenvalues of A^T A, hence   *)
(*  the k-th largest eigenvalues agree (as long as the eigenvalues         *)
(*  involved have non-zero square roots, i.e. are positive).               *)
(*  Used for C06: the d largest eigenvalues of the centred Gram matrix     *)
(*  X_c X_c^T (what Kernel PCA / MDS decompose) are N times the d largest  *)
(*  eigenvalues of the covariance (what PCA decomposes).                   *)
(*  Proof: an eigen-frame of one side is carried by A to an orthonormal    *)
(*  frame of the other side with the same Rayleigh sum (transfer), then    *)
(*  Ky Fan's maximum principle (Spectral_KyFan) in both directions.        *)
(*  Every ordered field; axiom free.                                       *)
(* ====================================================================== *)
From Coq Require Import Field Ring Arith Lia List Bool.
From TK Require Import Mat_Sums Mat_Core Spectral_KyFan.

Section GramDual.
  Context {F : Type} {Fo : FieldOps F} {Ff : IsField F}.
  Add Field GramDualField : (@Fth F Fo Ff).
  Local Open Scope nat_scope.
  Local Open Scope F_scope.

  (* rows of A against rows of A, inner dimension `inner` *)
  Definition gram (inner : nat) (A : mat F) : mat F :=
    fun i j => sumn inner (fun t => A i t * A j t).

  Lemma gram_sym inner (A : mat F) n : msym n (gram inner A).
  Proof. intros i j _ _. unfold gram. apply sumn_ext. intros; ring. Qed.

  (* A is n x m.  GL = gram m A (n x n),  GR = gram n (mtrans A) (m x m). *)
  Section Transfer.
    Variables (n m k : nat) (A P : mat F) (lam s : vec F).
    Hypothesis HP : meq k k (mmul m (mtrans P) P) mI.
    Hypothesis HE : meq m k (mmul m (gram n (mtrans A)) P) (mmul k P (mdiag lam)).
    Hypothesis Hs : forall c, c < k -> s c * s c = lam c /\ s c <> 0.

    Definition carried : mat F := mmul m A P.                    (* n x k *)
    Definition carried_unit : mat F := fun i c => carried i c * / s c.

    (* A^T applied to a carried column: (A^T (A p_c))_t = lam_c P_tc *)
    Lemma back_carried t c : t < m -> c < k ->
      sumn n (fun i => A i t * carried i c) = P t c * lam c.
    Proof.
      intros Ht Hc. unfold carried, mmul.
      rewrite (sumn_ext n _ (fun i => sumn m (fun r => (A i t * A i r) * P r c)))
        by (intros i _; rewrite <- sumn_mul_l; apply sumn_ext; intros; ring).
      rewrite sumn_swap.
      rewrite (sumn_ext m _ (fun r => gram n (mtrans A) t r * P r c))
        by (intros r _; rewrite sumn_mul_r; reflexivity).
      pose proof (HE t c Ht Hc) as E. unfold mmul at 1 in E. rewrite E.
      apply mmul_diag_r. assumption.
    Qed.

    Lemma carried_gram a b : a < k -> b < k ->
      sumn n (fun i => carried i a * carried i b) = lam b * delta a b.
    Proof.
      intros Ha Hb.
      rewrite (sumn_ext n _ (fun i => sumn m (fun t => P t a * (A i t * carried i b)))).
      2:{ intros i _. unfold carried at 1. unfold mmul. rewrite <- sumn_mul_r.
          apply sumn_ext. intros; ring. }
      rewrite sumn_swap.
      rewrite (sumn_ext m _ (fun t => P t a * (P t b * lam b))).
      2:{ intros t Ht. rewrite sumn_mul_l. rewrite back_carried by assumption. reflexivity. }
      rewrite (sumn_ext m _ (fun t => lam b * (mtrans P a t * P t b))) by (intros; unfold mtrans; ring).
      rewrite sumn_mul_l. pose proof (HP a b Ha Hb) as E. unfold mmul in E. rewrite E. reflexivity.
    Qed.

    Lemma carried_unit_orthonormal : meq k k (mmul n (mtrans carried_unit) carried_unit) mI.
    Proof.
      intros a b Ha Hb. unfold mmul, mtrans, carried_unit.
      rewrite (sumn_ext n _ (fun i => (/ s a * / s b) * (carried i a * carried i b))) by (intros; ring).
      rewrite sumn_mul_l, carried_gram by assumption.
      destruct (Hs a Ha) as [Ea Na]. destruct (Hs b Hb) as [Eb Nb].
      unfold mI, delta. destruct (Nat.eqb a b) eqn:E.
      - apply Nat.eqb_eq in E. subst b. rewrite <- Ea. field. assumption.
      - ring.
    Qed.

    Lemma carried_unit_quad : quad n k (gram m A) carried_unit = sumn k lam.
    Proof.
      unfold quad. apply sumn_ext. intros c Hc.
      destruct (Hs c Hc) as [Ec Nc].
      (* sum_i sum_j U_ic (sum_t A_it A_jt) U_jc = sum_t (sum_i U_ic A_it)^2 *)
      rewrite (sumn_ext n _ (fun i => sumn m (fun t => sumn n (fun j =>
                 (carried_unit i c * A i t) * (A j t * carried_unit j c))))).
      2:{ intros i _. rewrite sumn_swap. apply sumn_ext. intros j _.
          unfold gram. rewrite <- sumn_mul_l, <- sumn_mul_r. apply sumn_ext. intros; ring. }
      rewrite sumn_swap.
      rewrite (sumn_ext m _ (fun t => (P t c * lam c * / s c) * (P t c * lam c * / s c))).
      2:{ intros t Ht.
          assert (E : sumn n (fun j => A j t * carried_unit j c) = P t c * lam c * / s c).
          { unfold carried_unit.
            rewrite (sumn_ext n _ (fun j => (A j t * carried j c) * / s c)) by (intros; ring).
            rewrite sumn_mul_r, back_carried by assumption. reflexivity. }
          rewrite (sumn_ext n _ (fun i => (carried_unit i c * A i t) * (P t c * lam c * / s c))).
          2:{ intros i _. rewrite sumn_mul_l, E. reflexivity. }
          rewrite sumn_mul_r.
          rewrite (sumn_ext n _ (fun i => A i t * carried_unit i c)) by (intros; ring).
          rewrite E. reflexivity. }
      rewrite (sumn_ext m _ (fun t => (lam c * / s c) * (lam c * / s c) * (mtrans P c t * P t c)))
        by (intros; unfold mtrans; ring).
      rewrite sumn_mul_l. pose proof (HP c c Hc Hc) as E. unfold mmul in E. rewrite E.
      unfold mI. rewrite delta_eq. rewrite <- Ec. field. assumption.
    Qed.
  End Transfer.
End GramDual.

Section GramDualOrder.
  Context {F : Type} {Fo : FieldOps F} {Ff : IsField F} {Fle : OrderedField F}.
  Add Field GramDualOrderField : (@Fth F Fo Ff).
  Local Open Scope nat_scope.
  Local Open Scope F_scope.

  Definition top_sum (n k : nat) (lam : vec F) : F := sumn k (fun c => lam (n - k + c)%nat).

  (* one direction: the k largest of A^T A (with non-zero square roots) do not exceed, in sum,
     the k largest of A A^T *)
  Theorem top_sum_le n m k (A V U : mat F) (Lam Mu s : vec F) :
    k <= m -> k <= n ->
    (* full ascending decomposition of GR = A^T A (m x m) *)
    meq m m (mmul m (mtrans V) V) mI ->
    meq m m (mmul m (gram n (mtrans A)) V) (mmul m V (mdiag Lam)) ->
    (* full ascending decomposition of GL = A A^T (n x n) *)
    meq n n (mmul n (mtrans U) U) mI ->
    meq n n (mmul n U (mtrans U)) mI ->
    meq n n (mmul n (gram m A) U) (mmul n U (mdiag Mu)) ->
    ascending n Mu ->
    (forall c, c < k -> s c * s c = Lam (m - k + c)%nat /\ s c <> 0) ->
    fle (top_sum m k Lam) (top_sum n k Mu).
  Proof.
    intros Hkm Hkn HVtV HGV HUtU HUUt HGU Hasc Hs.
    set (P := fun t c => V t (m - k + c)%nat).
    set (lam := fun c => Lam (m - k + c)%nat).
    assert (HP : meq k k (mmul m (mtrans P) P) mI).
    { intros a b Ha Hb. unfold mmul, mtrans, P.
      pose proof (HVtV (m - k + a)%nat (m - k + b)%nat ltac:(lia) ltac:(lia)) as E.
      unfold mmul, mtrans in E. rewrite E. unfold mI, delta.
      destruct (Nat.eqb a b) eqn:Eab.
      - apply Nat.eqb_eq in Eab. subst. rewrite Nat.eqb_refl. reflexivity.
      - apply Nat.eqb_neq in Eab.
        assert (E2 : Nat.eqb (m - k + a) (m - k + b) = false) by (apply Nat.eqb_neq; lia).
        rewrite E2. reflexivity. }
    assert (HE : meq m k (mmul m (gram n (mtrans A)) P) (mmul k P (mdiag lam))).
    { intros t c Ht Hc. rewrite mmul_diag_r by assumption. unfold P, lam.
      pose proof (HGV t (m - k + c)%nat Ht ltac:(lia)) as E. rewrite mmul_diag_r in E by lia.
      unfold mmul in *. exact E. }
    pose proof (carried_unit_orthonormal n m k A P lam s HP HE Hs) as HUo.
    pose proof (carried_unit_quad n m k A P lam s HP HE Hs) as HUq.
    unfold top_sum. fold lam. rewrite <- HUq.
    apply (ky_fan_max n k (gram m A) U (carried_unit m A P s) Mu); assumption.
  Qed.
End GramDualOrder.

Section GramDualEq.
  Context {F : Type} {Fo : FieldOps F} {Ff : IsField F} {Fle : OrderedField F}.
  Add Field GramDualEqField : (@Fth F Fo Ff).
  Local Open Scope nat_scope.
  Local Open Scope F_scope.

  (* a full orthonormal ascending eigendecomposition of the symmetric n x n matrix M *)
  Definition full_asc (n : nat) (M V : mat F) (Lam : vec F) : Prop :=
    meq n n (mmul n (mtrans V) V) mI /\
    meq n n (mmul n V (mtrans V)) mI /\
    meq n n (mmul n M V) (mmul n V (mdiag Lam)) /\
    ascending n Lam.

  (* square roots of the k largest values, all non-zero *)
  Definition roots_of_top (n k : nat) (Lam s : vec F) : Prop :=
    forall c, c < k -> s c * s c = Lam (n - k + c)%nat /\ s c <> 0.

  Theorem top_sum_eq n m k (A V U : mat F) (Lam Mu s r : vec F) :
    k <= m -> k <= n ->
    full_asc m (gram n (mtrans A)) V Lam ->
    full_asc n (gram m A) U Mu ->
    roots_of_top m k Lam s -> roots_of_top n k Mu r ->
    top_sum m k Lam = top_sum n k Mu.
  Proof.
    intros Hkm Hkn [HV1 [HV2 [HV3 HV4]]] [HU1 [HU2 [HU3 HU4]]] Hs Hr.
    apply fle_antisym.
    - apply (top_sum_le n m k A V U Lam Mu s); assumption.
    - apply (top_sum_le m n k (mtrans A) U V Mu Lam r); assumption.
  Qed.

  Lemma top_sum_S n k (lam : vec F) :
    S k <= n -> top_sum n (S k) lam = lam (n - S k)%nat + top_sum n k lam.
  Proof.
    intros Hk. unfold top_sum. rewrite sumn_S_l. f_equal.
    - f_equal. lia.
    - apply sumn_ext. intros c _. f_equal. lia.
  Qed.

  Lemma roots_of_top_pred n k (Lam s : vec F) :
    S k <= n -> roots_of_top n (S k) Lam s -> roots_of_top n k Lam (fun c => s (S c)).
  Proof.
    intros Hk H c Hc. destruct (H (S c) ltac:(lia)) as [E N]. split; [|exact N].
    rewrite E. f_equal. lia.
  Qed.

  (* THE k-th largest eigenvalues of A^T A and of A A^T coincide (k >= 1 counted from the top),
     provided the k largest of each have non-zero square roots *)
  Theorem kth_largest_eq n m k (A V U : mat F) (Lam Mu s r : vec F) :
    S k <= m -> S k <= n ->
    full_asc m (gram n (mtrans A)) V Lam ->
    full_asc n (gram m A) U Mu ->
    roots_of_top m (S k) Lam s -> roots_of_top n (S k) Mu r ->
    Lam (m - S k)%nat = Mu (n - S k)%nat.
  Proof.
    intros Hkm Hkn HV HU Hs Hr.
    pose proof (top_sum_eq n m (S k) A V U Lam Mu s r Hkm Hkn HV HU Hs Hr) as E1.
    pose proof (top_sum_eq n m k A V U Lam Mu (fun c => s (S c)) (fun c => r (S c))
                  ltac:(lia) ltac:(lia) HV HU
                  (roots_of_top_pred m k Lam s Hkm Hs) (roots_of_top_pred n k Mu r Hkn Hr)) as E0.
    rewrite (top_sum_S m k Lam Hkm), (top_sum_S n k Mu Hkn), E0 in E1.
    transitivity (Lam (m - S k)%nat + top_sum n k Mu - top_sum n k Mu); [ring|].
    rewrite E1. ring.
  Qed.
End GramDualEq.
